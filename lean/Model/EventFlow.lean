import Model.Dispatch
/-!
# The event pipeline of a session (property C05, part "events")

Hand-written executable model of what a session built by `NewSession` does with the frames that arrive on
stream -1 of any of its connections, for EVERY configuration of `ClusterConfig.Events` (what the control
connection registered for does not bind the peer: a frame of a kind that was not asked for, or a frame
that is no event at all, is a "well-formed frame of a kind not expected at that point of the conversation"):

  session.go NewSession               the two `*eventDebouncer`s (`s.nodeEvents`, `s.schemaEvents`) are allocated
                                      unconditionally, before the first connection is dialled (`newSession`)
  control.go registerEvents           REGISTER is sent only if some kind is enabled
  conn.go    recv                     stream -1: readFrame, `c.session.handleEvent(framer)` inline on the reader
                                      goroutine (no recover above it)
  events.go  handleEvent              parse error -> logged; type switch (the table `Dispatch.desc .handleEvent`,
                                      first arm -> `s.schemaEvents.debounce`, second -> `s.nodeEvents.debounce`,
                                      default -> logged). `x.debounce` on a nil `x` dereferences nil (`e.mu.Lock()`)
  events.go  eventDebouncer.debounce  at most `eventBufferSize` = 1000 frames are kept, the rest is logged and
                                      dropped; the timer is (re)armed in both cases
  events.go  eventDebouncer.flush     `go e.callback(e.events)`, new empty buffer
  events.go  handleSchemaEvent        per frame clearSchema; KEYSPACE: awaitSchemaAgreement + policy.KeyspaceChanged
  events.go  handleNodeEvent          any TOPOLOGY_CHANGE and topology events enabled -> debounceRingRefresh;
                                      STATUS_CHANGE: the LAST change per host; UP/DOWN only if status events are
                                      enabled: handleNodeUp (host not in the ring -> debounceRingRefresh; else
                                      pool.addHost + policy.AddHost, a NEW pool connects: handleNodeConnected ->
                                      state UP + policy.HostUp), handleNodeDown (host in the ring: state DOWN,
                                      policy.HostDown, pool.removeHost)

The world of the harness (harness/c05disp/evt.go): ONE node (127.0.0.1, "known": host 0) whose system.local /
system.peers answers never change, so a ring refresh changes nothing; host 9 (127.0.0.9) is not in the ring.
A scenario is a list of ROUNDS; in a round frames are pushed one after the other (each is accounted for before
the next is pushed), then the debounce timers that are armed expire, the handlers run, then the ring-refresh
timer. Round 0 is the handshake: frames pushed when REGISTER arrives are ordinary; a frame pushed while OPTIONS
or STARTUP of a connection is outstanding uses up the single `recv` the startup coordinator grants per request,
the real answer is never read and the connection set-up times out (NewSession returns an error).
Core Lean only.
-/
namespace EventFlow
open Dispatch

/-- ClusterConfig.Events -/
structure EvCfg where
  disTopo : Bool
  disStatus : Bool
  disSchema : Bool
  deriving DecidableEq, Repr

def EvCfg.allDisabled (c : EvCfg) : Bool := c.disTopo && c.disStatus && c.disSchema

inductive Change | created | updated | dropped
  deriving DecidableEq, Repr

def Change.str : Change → String
  | .created => "CREATED" | .updated => "UPDATED" | .dropped => "DROPPED"

/-- what arrives on stream -1: a frame that parses into one of the 18 kinds (with the fields the handlers
    look at: change of a schema event; UP/DOWN and whether the host is in the ring for node events), or
    bytes that do not parse -/
inductive Ev
  | frame (k : FrameKind) (c : Change) (up : Bool) (known : Bool)
  | garbage
  deriving DecidableEq, Repr

inductive Deb | node | schema
  deriving DecidableEq, Repr

/-- index of the first arm of a type switch that matches -/
def firstArmIdx (k : FrameKind) : List (List Pat × Act) → Nat → Option Nat
  | [], _ => none
  | (ps, _) :: rest, i => if ps.any (·.matches k) then some i else firstArmIdx k rest (i + 1)

/-- handleEvent's type switch, read off the dispatch table: arm 0 feeds `s.schemaEvents`, arm 1 `s.nodeEvents`,
    `default:` logs -/
def route (k : FrameKind) : Option Deb :=
  match firstArmIdx k (desc .handleEvent).arms 0 with
  | some 0 => some .schema
  | some 1 => some .node
  | _ => none

/-- eventBufferSize -/
def bufSize : Nat := 1000

/-- the session, as far as events are concerned. `none` = a nil `*eventDebouncer`. -/
structure Sess where
  cfg : EvCfg
  nodeDeb : Option (List Ev)
  schemaDeb : Option (List Ev)
  nodeArmed : Bool
  schemaArmed : Bool
  refreshArmed : Bool
  hostUp : Bool
  pool : Bool
  deriving Repr

/-- how NewSession builds the debouncers: which of the two exist for a configuration -/
structure Ctor where
  node : EvCfg → Bool
  schema : EvCfg → Bool

/-- session.go:164-165 — both, whatever the configuration -/
def ctorAlways : Ctor := ⟨fun _ => true, fun _ => true⟩

/-- a variant that allocates a debouncer only for the kinds the control connection registers for -/
def ctorRegistered : Ctor := ⟨fun c => !c.disTopo || !c.disStatus, fun c => !c.disSchema⟩

def newSessionWith (ct : Ctor) (cfg : EvCfg) : Sess :=
  { cfg := cfg
    nodeDeb := if ct.node cfg then some [] else none
    schemaDeb := if ct.schema cfg then some [] else none
    nodeArmed := false, schemaArmed := false, refreshArmed := false, hostUp := true, pool := true }

/-- NewSession of the code that exists -/
def newSession (cfg : EvCfg) : Sess := newSessionWith ctorAlways cfg

inductive LogK | invalid | parse | dropped
  deriving DecidableEq, Repr

/-- eventDebouncer.debounce on a receiver that may be nil: `none` = nil dereference -/
def debounce (b : Option (List Ev)) (e : Ev) : Option (List Ev × Bool) :=
  match b with
  | none => none
  | some l => if l.length < bufSize then some (l ++ [e], false) else some (l, true)

inductive HOut
  | ok (s : Sess) (log : Option LogK)
  | crash
  deriving Repr

/-- Session.handleEvent -/
def handleEvent (s : Sess) (e : Ev) : HOut :=
  match e with
  | .garbage => .ok s (some .parse)
  | .frame k _ _ _ =>
    match route k with
    | none => .ok s (some .invalid)
    | some .schema =>
      match debounce s.schemaDeb e with
      | none => .crash
      | some (l, d) => .ok { s with schemaDeb := some l, schemaArmed := true } (if d then some .dropped else none)
    | some .node =>
      match debounce s.nodeDeb e with
      | none => .crash
      | some (l, d) => .ok { s with nodeDeb := some l, nodeArmed := true } (if d then some .dropped else none)

/-- calls observed at the host selection policy / the peer while the handlers of one round run -/
structure Fx where
  ag : Nat := 0   -- schema-agreement polls (`SELECT schema_version FROM system.local`)
  ah : Nat := 0   -- policy.AddHost(127.0.0.1)
  hd : Nat := 0   -- policy.HostDown
  hu : Nat := 0   -- policy.HostUp
  kcC : Nat := 0  -- policy.KeyspaceChanged(ks, CREATED)
  kcD : Nat := 0
  kcU : Nat := 0
  deriving DecidableEq, Repr

def Fx.add (a b : Fx) : Fx :=
  ⟨a.ag + b.ag, a.ah + b.ah, a.hd + b.hd, a.hu + b.hu, a.kcC + b.kcC, a.kcD + b.kcD, a.kcU + b.kcU⟩

/-- handleSchemaEvent: what one frame causes (clearSchema is not observed) -/
def schemaFx : Ev → Fx
  | .frame .schemaKeyspace .created _ _ => { ag := 1, kcC := 1 }
  | .frame .schemaKeyspace .dropped _ _ => { ag := 1, kcD := 1 }
  | .frame .schemaKeyspace .updated _ _ => { ag := 1, kcU := 1 }
  | _ => {}

def handleSchemaEvent (l : List Ev) : Fx := l.foldl (fun a e => a.add (schemaFx e)) {}

def isTopology : Ev → Bool
  | .frame .topologyChange _ _ _ => true
  | _ => false

/-- the last STATUS_CHANGE of the given host in the buffer (`sEvents[host].change`) -/
def lastStatus (known : Bool) : List Ev → Option Bool
  | [] => none
  | e :: rest =>
    match lastStatus known rest with
    | some u => some u
    | none =>
      match e with
      | .frame .statusChange _ up kn => if kn = known then some up else none
      | _ => none

/-- handleNodeEvent -/
def handleNodeEvent (s : Sess) (l : List Ev) : Sess × Fx :=
  let s1 := if l.any isTopology && !s.cfg.disTopo then { s with refreshArmed := true } else s
  -- the host that is not in the ring: UP -> debounceRingRefresh, DOWN -> nothing
  let s2 := match lastStatus false l with
    | some true => if !s1.cfg.disStatus then { s1 with refreshArmed := true } else s1
    | _ => s1
  -- the session's node
  match lastStatus true l with
  | some true =>
    if !s2.cfg.disStatus then
      if s2.pool then (s2, { ah := 1 })
      else ({ s2 with pool := true, hostUp := true }, { ah := 1, hu := 1 })
    else (s2, {})
  | some false =>
    if !s2.cfg.disStatus then ({ s2 with pool := false, hostUp := false }, { hd := 1 }) else (s2, {})
  | none => (s2, {})

/-! ## rounds -/

/-- where a frame is pushed: on the control / pool connection of the running session, or while the OPTIONS /
    STARTUP / REGISTER request of the control connection, OPTIONS / STARTUP of the first pool connection is
    outstanding -/
inductive Where | ctl | pool | hsOptions | hsStartup | hsRegister | hsPoolOptions | hsPoolStartup
  deriving DecidableEq, Repr

def Where.breaksSetup : Where → Bool
  | .hsOptions | .hsStartup | .hsPoolOptions | .hsPoolStartup => true
  | _ => false

structure Step where
  w : Where
  e : Ev
  n : Nat
  deriving Repr

/-- counters of one round -/
structure Logs where
  invalid : Nat := 0
  parse : Nat := 0
  dropped : Nat := 0
  skipped : Nat := 0
  deriving DecidableEq, Repr

def Logs.note (l : Logs) : Option LogK → Logs
  | none => l
  | some .invalid => { l with invalid := l.invalid + 1 }
  | some .parse => { l with parse := l.parse + 1 }
  | some .dropped => { l with dropped := l.dropped + 1 }

/-- `n` copies of one frame through handleEvent; `none` = the process died -/
def pushN (s : Sess) (lg : Logs) (e : Ev) : Nat → Option (Sess × Logs)
  | 0 => some (s, lg)
  | n + 1 =>
    match handleEvent s e with
    | .crash => none
    | .ok s' l => pushN s' (lg.note l) e n

/-- does the frame reach the driver?  pool connection: only while the node has a pool; REGISTER time: only if
    REGISTER is sent at all -/
def delivered (s : Sess) : Where → Bool
  | .pool => s.pool
  | .hsRegister => !s.cfg.allDisabled
  | _ => true

def pushSteps (s : Sess) (lg : Logs) : List Step → Option (Sess × Logs)
  | [] => some (s, lg)
  | st :: rest =>
    if delivered s st.w then
      match pushN s lg st.e st.n with
      | none => none
      | some (s', lg') => pushSteps s' lg' rest
    else pushSteps s { lg with skipped := lg.skipped + st.n } rest

/-- what is observed of one round -/
structure Obs where
  nodeBuf : Int
  schemaBuf : Int
  logs : Logs
  nodeArmed : Bool
  schemaArmed : Bool
  fx : Fx
  refresh : Bool
  hostUp : Bool
  pool : Bool
  deriving DecidableEq, Repr

def bufLen : Option (List Ev) → Int
  | none => -1
  | some l => l.length

/-- the node-event timer expires: eventDebouncer.flush (nothing if the buffer is empty; else the callback
    handleNodeEvent on the buffer and a new empty buffer) -/
def flushNode (s : Sess) : Sess × Fx :=
  match s.nodeArmed, s.nodeDeb with
  | true, some (e :: l) =>
    let r := handleNodeEvent s (e :: l)
    ({ r.1 with nodeDeb := some [] }, r.2)
  | _, _ => (s, {})

/-- the schema-event timer expires -/
def flushSchema (s : Sess) : Sess × Fx :=
  match s.schemaArmed, s.schemaDeb with
  | true, some (e :: l) => ({ s with schemaDeb := some [] }, handleSchemaEvent (e :: l))
  | _, _ => (s, {})

/-- the timers expire: both debouncers, then the ring refresh if the handlers asked for one (it changes nothing
    in this world) -/
def flush (s : Sess) : Sess × Fx × Bool :=
  let a := flushNode s
  let b := flushSchema a.1
  ({ b.1 with nodeArmed := false, schemaArmed := false, refreshArmed := false }, a.2.add b.2, b.1.refreshArmed)

/-- what is seen of a round: the session after the pushes, the log counters, the flush -/
def mkObs (s1 : Sess) (lg : Logs) (f : Sess × Fx × Bool) : Obs :=
  { nodeBuf := bufLen s1.nodeDeb, schemaBuf := bufLen s1.schemaDeb, logs := lg,
    nodeArmed := s1.nodeArmed, schemaArmed := s1.schemaArmed, fx := f.2.1, refresh := f.2.2,
    hostUp := f.1.hostUp, pool := f.1.pool }

/-- one round: push, observe the buffers, let the timers expire -/
def round (s : Sess) (steps : List Step) : Option (Sess × Obs) :=
  match pushSteps s {} steps with
  | none => none
  | some (s1, lg) => some ((flush s1).1, mkObs s1 lg (flush s1))

inductive Res
  | ok (obs : List Obs)
  | connectError
  | crash (afterRounds : Nat)
  deriving DecidableEq, Repr

def rounds (s : Sess) (acc : List Obs) : List (List Step) → Res
  | [] => .ok acc.reverse
  | r :: rest =>
    match round s r with
    | none => .crash acc.length
    | some (s', o) => rounds s' (o :: acc) rest

/-- a whole scenario on a session built by `ct`: round 0 is the handshake. The frames pushed while OPTIONS /
    STARTUP are outstanding do go through handleEvent (that is where a nil debouncer would be dereferenced)
    before the set-up times out. -/
def runWith (ct : Ctor) (cfg : EvCfg) (rs : List (List Step)) : Res :=
  match rs with
  | [] => .ok []
  | r0 :: rest =>
    if r0.any (fun st => st.w.breaksSetup && st.n > 0) then
      match pushSteps (newSessionWith ct cfg) {} (r0.filter (fun st => st.w.breaksSetup)) with
      | none => .crash 0
      | some _ => .connectError
    else rounds (newSessionWith ct cfg) [] (r0 :: rest)

def run (cfg : EvCfg) (rs : List (List Step)) : Res := runWith ctorAlways cfg rs

def Res.isCrash : Res → Bool
  | .crash _ => true
  | _ => false

/-- the monitor of op `evtinv`: no crash, and no debouncer ever holds more than `eventBufferSize` frames -/
def Obs.bufOK (o : Obs) : Bool := o.nodeBuf ≤ bufSize && o.schemaBuf ≤ bufSize

def Res.invOK : Res → Bool
  | .ok obs => obs.all Obs.bufOK
  | .connectError => true
  | .crash _ => false

/-! ## rendering (the line the harness prints) -/

def b01 (b : Bool) : String := if b then "1" else "0"

def rep (n : Nat) (s : String) : List String := List.replicate n s

def Fx.str (f : Fx) : String :=
  let l := rep f.ag "AG" ++ rep f.ah "AH:127.0.0.1" ++ rep f.hd "HD:127.0.0.1" ++ rep f.hu "HU:127.0.0.1" ++
    rep f.kcC "KC:ks:CREATED" ++ rep f.kcD "KC:ks:DROPPED" ++ rep f.kcU "KC:ks:UPDATED"
  joinWith "+" l

def Obs.str (o : Obs) : String :=
  "buf=" ++ toString o.nodeBuf ++ "," ++ toString o.schemaBuf ++
  ";log=" ++ toString o.logs.invalid ++ "," ++ toString o.logs.parse ++ "," ++ toString o.logs.dropped ++
  (if o.logs.skipped > 0 then ";skipped=" ++ toString o.logs.skipped else "") ++
  ";armed=" ++ b01 o.nodeArmed ++ b01 o.schemaArmed ++
  ";fx=" ++ o.fx.str ++
  ";refresh=" ++ b01 o.refresh ++
  ";host=" ++ (if o.hostUp then "up" else "down") ++ "/" ++ (if o.pool then "pool" else "nopool")

/-- where the process would die: `e.mu.Lock()` in eventDebouncer.debounce with a nil `e` -/
def crashLabel : String := "crash:eventDebouncer.debounce:nil"

def Res.str : Res → String
  | .ok obs => joinWith "|" (obs.map Obs.str)
  | .connectError => "connect-error"
  | .crash _ => crashLabel

def Res.invStr (r : Res) : String :=
  match r with
  | .crash _ => crashLabel
  | r => if r.invOK then "ok" else "bad:buffer-over"

/-! ## parsing of the op line `evt <cfg> <round>/<round>/...` -/

def parseCfg (w : String) : Option EvCfg :=
  match w.toList with
  | [a, b, c] =>
    let bit : Char → Option Bool := fun ch => if ch = '0' then some false else if ch = '1' then some true else none
    match bit a, bit b, bit c with
    | some a, some b, some c => some ⟨a, b, c⟩
    | _, _, _ => none
  | _ => none

def parseHost : Char → Option Bool
  | '0' => some true
  | '9' => some false
  | _ => none

def eventKinds : List FrameKind :=
  [.schemaKeyspace, .schemaTable, .schemaType, .schemaFunction, .schemaAggregate, .statusChange, .topologyChange]

def parseEv (cs : List Char) : Option Ev :=
  match cs with
  | ['g'] | ['g', 'i'] => some .garbage
  | ['s', 'k', c] =>
    (match c with
     | 'C' => some Change.created | 'U' => some .updated | 'D' => some .dropped | _ => none).map
      (fun c => .frame .schemaKeyspace c false false)
  | ['s', 't'] => some (.frame .schemaTable .created false false)
  | ['s', 'y'] => some (.frame .schemaType .created false false)
  | ['s', 'f'] => some (.frame .schemaFunction .created false false)
  | ['s', 'a'] => some (.frame .schemaAggregate .created false false)
  | ['u', h] => (parseHost h).map (fun kn => .frame .statusChange .created true kn)
  | ['d', h] => (parseHost h).map (fun kn => .frame .statusChange .created false kn)
  | ['n', h] | ['r', h] | ['m', h] => (parseHost h).map (fun kn => .frame .topologyChange .created false kn)
  | 'x' :: k =>
    -- a well-formed frame of the named kind as harness/c05disp/srv.go kindBody builds it: schema changes as
    -- RESULT/SCHEMA_CHANGE "CREATED" of keyspace ks, statusChange = UP 127.0.0.9, topologyChange = NEW_NODE 127.0.0.9
    match FrameKind.ofName (String.ofList k) with
    | some .statusChange => some (.frame .statusChange .created true false)
    | some fk => some (.frame fk .created false false)
    | none => none
  | _ => none

def parseWhere (round0 : Bool) : Char → Option Where
  | 'c' => if round0 then none else some .ctl
  | 'p' => if round0 then none else some .pool
  | 'o' => if round0 then some .hsOptions else none
  | 's' => if round0 then some .hsStartup else none
  | 'r' => if round0 then some .hsRegister else none
  | 'O' => if round0 then some .hsPoolOptions else none
  | 'S' => if round0 then some .hsPoolStartup else none
  | _ => none

def parseStep (round0 : Bool) (w : String) : Option Step :=
  let (body, n) : String × Option Nat :=
    match w.splitOn "*" with
    | [b] => (b, some 1)
    | [b, k] => (b, k.toNat?.bind (fun v => if 1 ≤ v ∧ v ≤ 5000 then some v else none))
    | _ => (w, none)
  match n, body.toList with
  | some n, wh :: ev =>
    match parseWhere round0 wh, parseEv ev with
    | some wh, some e => some ⟨wh, e, n⟩
    | _, _ => none
  | _, _ => none

def parseRound (round0 : Bool) (w : String) : Option (List Step) :=
  if w = "-" then some [] else (w.splitOn ",").mapM (parseStep round0)

def parseRounds (w : String) : Option (List (List Step)) :=
  match w.splitOn "/" with
  | [] => none
  | r0 :: rest =>
    match parseRound true r0, rest.mapM (parseRound false) with
    | some r0, some rest => some (r0 :: rest)
    | _, _ => none

def answer (ws : List String) : Option String :=
  match ws with
  | ["evt", c, sc] =>
    some (match parseCfg c, parseRounds sc with
      | some c, some rs => (run c rs).str
      | _, _ => "bad-op")
  | ["evtinv", c, sc] =>
    some (match parseCfg c, parseRounds sc with
      | some c, some rs => (run c rs).invStr
      | _, _ => "bad-op")
  | "evt" :: _ | "evtinv" :: _ => some "bad-op"
  | _ => none

end EventFlow
