/-
C02 — SPECIFICATION of the cross-kind round trip of the integer columns (op `rtx`).

`crossSpec t g ty`: what Marshal of the documented integer source `g` into column `t`, followed by Unmarshal into a
destination of Go type `ty`, has to give according to the property text — "encoding either fails with an error or
produces bytes that decode (into the same Go type, or any other documented target type able to represent the value)
to an equal value".  Written on the NUMBER the source denotes only: nothing of gocql's encoders / decoders is used
here (no bytes at all).  The three recorded deviations of the unchanged code are named, with their exact conditions.
Core Lean only.
-/
import Model.MarshalInterp
namespace Marshal
open ValueSpec (CqlTy fitsS)

/-- the number a documented Go integer source denotes, with the facts about its Go type that the documented refusals
    and the recorded deviations depend on -/
structure IntSource where
  n : Int
  unsigned : Bool     -- an unsigned Go kind
  bareU64 : Bool      -- exactly the builtin `uint64`
  isString : Bool
deriving Repr

def intSource : GoVal → Option IntSource
  | .int k named v => some ⟨v, !k.signed, decide (k = .uint64) && !named, false⟩
  | .dur ns => some ⟨ns, false, false, false⟩
  | .big v => some ⟨v, false, false, false⟩
  | .str false s => (parseDec s).map (fun n => ⟨n, false, false, true⟩)
  | _ => none

inductive CrossExpect
  | merr                        -- Marshal must refuse: the column cannot hold the number
  | refuseOr (v : GoVal)        -- Marshal may refuse (a refusal gocql performs for this Go kind); when it accepts,
                                -- Unmarshal gives this value
  | ok (v : GoVal)              -- Marshal accepts and Unmarshal gives this value
  | unrepresentable             -- the destination cannot hold the number: not claimed here
  | excluded (kf : String)      -- a recorded deviation of the unchanged code (known finding `kf`)
  | undocumented
deriving Repr

/-- bytes of a fixed-width integer column; `none` = varint -/
def crossColBytes : CqlTy → Option (Option Nat)
  | .tinyint => some (some 1) | .smallint => some (some 2) | .int => some (some 4)
  | .bigint => some (some 8) | .counter => some (some 8) | .varint => some none
  | _ => none

/-- the destination side: the number `n` in a destination of (pointer-free) type `base` -/
def crossTarget (varint : Bool) (n : Int) (base : GoTy) : CrossExpect :=
  match base with
  | .int k named =>
    if !k.holds n then .unrepresentable
    else if varint && decide (n ≥ 9223372036854775808) && !(decide (k = .uint64) && !named) then .excluded "KF-C12-12"
    else .ok (.int k named n)
  | .big => .ok (.big n)
  | .str false => if varint && !fitsS 8 n then .excluded "KF-C02-5" else .ok (.str false (formatInt n))
  | .dur => if fitsS 8 n then .ok (.dur n) else .unrepresentable
  | _ => .undocumented

def crossSpec (t : CqlTy) (g : GoVal) (ty : GoTy) : CrossExpect :=
  match crossColBytes t, intSource g with
  | some col, some s =>
    -- a big.Int is documented for bigint / counter / varint only
    if (match g, col with | .big _, some w => decide (w ≠ 8) | _, _ => false) then .undocumented else
    let accept : Option CrossExpect :=
      (match col with
       | some w =>
         if fitsS w s.n then none
         else if s.unsigned && decide ((2:Int)^(8*w-1) ≤ s.n) && decide (s.n < (2:Int)^(8*w)) then some (.excluded "KF-C02-1")
         else some .merr
       | none => none)
    -- refusals of a number the varint column could hold: `uint` / named unsigned kinds above MaxInt64 (marshalBigInt's
    -- range check), strings outside int64 (strconv.ParseInt) — "encoding either fails with an error or …"
    let mayRefuse : Bool := col.isNone &&
      ((s.unsigned && decide (s.n ≥ 9223372036854775808) && !s.bareU64) || (s.isString && !fitsS 8 s.n))
    (match accept with
     | some e => e
     | none =>
       (match stripPtr ty with
        | (k, base) => (match crossTarget col.isNone s.n base with
            | .ok v => if mayRefuse then .refuseOr (wrapPtr k v) else .ok (wrapPtr k v)
            | other => other)))
  | _, _ => .undocumented

end Marshal
