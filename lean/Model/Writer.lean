/-
  Model of the write path of /repo/conn.go: `deadlineContextWriter.writeContext`,
  `writeCoalescer.writeContext / writeFlusherImpl / flush`, and the caller's reaction in `Conn.exec`
  (n == 0 ∧ ctx error → release; otherwise closeWithError).

  Writes to the socket are serialised by the semaphore (direct writer) or by the single flusher
  goroutine (coalescer); the model therefore has ONE atomic action per socket write (`batch`), with the
  environment choosing how many bytes the socket accepted.
-/
namespace Writer

/-- `writeCoalescer.flush` attribution loop: `lens` = buffer lengths in batch order, `n` = bytes the
    vectored write reported. Result per buffer: (bytes reported, err == nil). -/
def attrib : List Nat → Nat → List (Nat × Bool)
  | [], _ => []
  | l :: ls, n => if l ≤ n then (l, true) :: attrib ls (n - l) else (n, false) :: attrib ls 0

/-- Spec: buffer i (starting at byte offset `pre`) is reported whole iff its last byte is below `n`;
    otherwise it is reported with the bytes of it that were written. -/
def Spec.attrib : List Nat → Nat → Nat → List (Nat × Bool)
  | [], _, _ => []
  | l :: ls, n, pre => (if pre + l ≤ n then (l, true) else (n - pre, false)) :: Spec.attrib ls n (pre + l)

/-- one piece of one frame on the wire -/
structure Chunk where
  id : Nat      -- writer (= request) the bytes belong to
  len : Nat     -- length of its whole frame
  n : Nat       -- bytes of it that reached the wire
deriving DecidableEq, Repr

inductive Pc where
  | idle
  | queued                       -- waiting for the semaphore / enqueued with the flusher
  | cancelled                    -- ctx ended before writing began: (0, ctx.Err())
  | wrote (n : Nat) (ok : Bool)  -- writeContext is about to return (n, err)
  | failing                      -- exec took the `closeWithError(err)` branch, not yet executed
  | done (ok : Bool)
deriving DecidableEq, Repr

structure St where
  wire : List Chunk
  pc : Nat → Pc
  closed : Bool

inductive Act where
  | submit (w : Nat) (ctxDoneFirst : Bool)
  | write (w : Nat) (k : Nat)   -- one socket write of the frame of `w`; the socket accepted `k` bytes
  | ret (w : Nat)               -- writeContext returns to exec
  | close (w : Nat)             -- exec calls closeWithError
deriving Repr

def init : St := { wire := [], pc := fun _ => .idle, closed := false }

def setPc (pc : Nat → Pc) (w : Nat) (v : Pc) : Nat → Pc := fun x => if x = w then v else pc x

/-- `step` returns `none` when the action is not enabled in the state. `lens w` = frame length of writer `w`.
    A coalesced flush is a sequence of `write` actions (net.Buffers.WriteTo issues one Write per buffer on
    a non-TCP conn; on TCP one writev) whose per-frame results are what `attrib` reports (theorem
    `attrib_eq_spec`). After the connection is closed the socket accepts nothing. -/
def step (lens : Nat → Nat) (s : St) : Act → Option St
  | .submit w ctxDoneFirst =>
      if s.pc w = .idle then
        some { s with pc := setPc s.pc w (if ctxDoneFirst then .cancelled else .queued) }
      else none
  | .write w k =>
      if s.pc w = .queued ∧ k ≤ lens w ∧ (s.closed = true → k = 0) then
        some { s with
          wire := if k = 0 then s.wire else s.wire ++ [⟨w, lens w, k⟩],
          pc := setPc s.pc w (.wrote k (decide (k = lens w))) }
      else none
  | .ret w =>
      match s.pc w with
      | .wrote _ true => some { s with pc := setPc s.pc w (.done true) }
      | .wrote _ false => some { s with pc := setPc s.pc w .failing }
      | _ => none
  | .close w =>
      if s.pc w = .failing then some { s with pc := setPc s.pc w (.done false), closed := true } else none

def run (lens : Nat → Nat) : St → List Act → Option St
  | s, [] => some s
  | s, a :: as => match step lens s a with
    | some s' => run lens s' as
    | none => none

/-! ### monitor used on real byte streams (driver) -/

/-- A wire (as a list of chunks in byte order) is *well formed* when every chunk is at most its frame,
    no request appears twice, and only the last chunk may be incomplete. -/
def wholeFrames (wire : List Chunk) : Bool :=
  (wire.all fun c => c.n ≤ c.len) && decide (wire.map (·.id)).Nodup &&
  (wire.dropLast.all fun c => c.n = c.len)

end Writer

namespace C07
/-- the schedule of known finding KF-C07-1 (also used by `Proofs/C07.lean`) -/
def cexScheduleD : List Writer.Act :=
  [.submit 1 false, .submit 2 false, .write 1 4, .ret 1, .write 2 10]
end C07

