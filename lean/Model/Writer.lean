/-
  Model of the write path of /repo/conn.go: `deadlineContextWriter.writeContext`,
  `writeCoalescer.writeContext / writeFlusherImpl / flush`, and the caller's reaction in `Conn.exec`
  (n == 0 ∧ ctx error → release; otherwise closeWithError).

  The transport is NOT assumed to take a Write atomically: one socket `Write` is the action sequence
  `enter w ; piece w k₁ ; … ; piece w kₙ ; endWrite w ok`, each `piece` appending bytes of the frame of `w` at
  the END of the physical wire, with arbitrary other actions in between. What keeps frames whole is the
  MECHANISM of the two writers, which is part of the machine:
    * direct writer   : the one-slot semaphore — `enter w` needs `owner = none`, `endWrite` releases it;
    * coalescing writer: the single flusher goroutine — only it enters the socket, one buffer of the
                          flush at a time (`owner` = the buffer it is writing, `todo` = the buffers left).
  SHUTDOWN: `closeWithError` calls `c.cancel()` (closing the writers' `quit` channel: `St.quit`) BEFORE `c.close()` (`St.closed`);
  in between the socket still accepts bytes. `cancelCtx w` / `shutQuit` close quit, `closeFinish w` / `shutdown` close the
  socket. A writer parked in writeContext's first select leaves with `(0, closed)` (`quit w`); the flusher, at its select,
  takes the quit branch (`flusherQuit`, then `St.gone`): it tells every queued writer `(0, io.EOF)` (`quit w` of a queued
  writer) and returns — nothing is written. Go's select is free to prefer a timer tick / a hand-over / the semaphore even
  when quit is closed, so `tick`, `enqueue`, `enter` stay enabled until `flusherQuit` (the model has those behaviours).
  `Cfg.flushOnQuit = true` is the variant "one last flush on quit" (counterexample `C07_cex_last_flush_on_quit` only).
  `Cfg.serialised = false` switches the semaphore off; it exists only for the necessity counterexample
  (`C07_cex_without_semaphore`): every theorem requires `serialised = true`.
-/
namespace Writer

/-- `writeCoalescer.flush` attribution loop: `lens` = buffer lengths in batch order, `n` = bytes the
    vectored write reported. Result per buffer: (bytes reported, err == nil). -/
def attrib : List Nat → Nat → List (Nat × Bool)
  | [], _ => []
  | l :: ls, n => if l ≤ n then (l, true) :: attrib ls (n - l) else (n, false) :: attrib ls 0

/-- Spec: buffer i (starting at byte offset `pre`) is reported whole iff its last byte is below `n`;
    otherwise it is reported with the bytes of it that were written. -/
def Spec.attrib : List Nat → Nat → Nat → List (Nat × Bool)
  | [], _, _ => []
  | l :: ls, n, pre => (if pre + l ≤ n then (l, true) else (n - pre, false)) :: Spec.attrib ls n (pre + l)

/-! ### the physical wire -/

/-- `n > 0` bytes of the frame of request `id`, starting at byte `off` of that frame, as they reached the
    transport. The wire is the list of pieces in arrival order. -/
structure Piece where
  id : Nat
  off : Nat
  n : Nat
deriving DecidableEq, Repr

/-- a maximal run of consecutive pieces that continue one another: bytes `start .. start+n` of frame `id` -/
structure Chunk where
  id : Nat
  start : Nat
  n : Nat
deriving DecidableEq, Repr

/-- append one piece to the chunk list (newest chunk first): it extends the newest chunk iff it is the next
    bytes of the same frame, otherwise it starts a new chunk -/
def addPiece : List Chunk → Piece → List Chunk
  | [], p => [⟨p.id, p.off, p.n⟩]
  | c :: cs, p =>
    if c.id = p.id ∧ c.start + c.n = p.off then ⟨c.id, c.start, c.n + p.n⟩ :: cs
    else ⟨p.id, p.off, p.n⟩ :: c :: cs

/-- the wire as maximal contiguous runs, NEWEST FIRST -/
def glue (wire : List Piece) : List Chunk := wire.foldl addPiece []

/-- byte-level reading: byte `i` of frame `id` -/
def Piece.bytes (p : Piece) : List (Nat × Nat) := (List.range p.n).map fun i => (p.id, p.off + i)
def Chunk.bytes (c : Chunk) : List (Nat × Nat) := (List.range c.n).map fun i => (c.id, c.start + i)

/-! ### the machine -/

inductive Pc where
  | idle
  | waiting                      -- in writeContext's first select (semaphore / writeCh / ctx.Done / quit)
  | queued                       -- coalescer: handed to the flusher, waiting for the result
  | inWrite (off : Nat)          -- its buffer is inside the socket Write; `off` bytes of it are on the wire
  | cancelled                    -- ctx ended before writing began: writeContext returns (0, ctx.Err())
  | wrote (n : Nat) (ok : Bool)  -- writeContext is about to return (n, err), ok = (err == nil)
  | failing (n : Nat)            -- exec took the `closeWithError(err)` branch, not yet executed
  | closer (n : Nat)             -- inside closeWithError as the FIRST closer (c.closed set, socket not closed yet)
  | done (n : Nat) (ok : Bool)
deriving DecidableEq, Repr

/-- bytes of the writer's frame that are on the wire, as a function of its control state -/
def Pc.sent : Pc → Nat
  | .inWrite off => off
  | .wrote n _ => n
  | .failing n => n
  | .closer n => n
  | .done n _ => n
  | _ => 0

/-- the result `writeContext` hands to its caller, once the control state says it is determined: `(n, err == nil)` -/
def Pc.outcome : Pc → Option (Nat × Bool)
  | .cancelled => some (0, false)
  | .wrote n ok => some (n, ok)
  | .failing n => some (n, false)
  | .closer n => some (n, false)
  | .done n ok => some (n, ok)
  | _ => none

structure Cfg where
  lens : Nat → Nat          -- frame length of each writer (= request)
  coalesce : Bool           -- which of the two writers the connection uses
  serialised : Bool := true -- the semaphore / single-flusher discipline (false: only for the necessity counterexample)
  /-- the flusher's disposition of its queue when it sees `quit`. `false` = conn.go as it is: every queued writer is
      told `(0, io.EOF)`, nothing is written. `true` = the variant "one last flush on quit" (only for the
      counterexample `C07_cex_last_flush_on_quit`): every theorem about the shutdown leg requires `false`. -/
  flushOnQuit : Bool := false

structure St where
  wire : List Piece
  pc : Nat → Pc
  owner : Option Nat   -- semaphore holder / the buffer the flusher is writing
  queue : List Nat     -- coalescer: enqueued for the next flush
  todo : List Nat      -- coalescer: buffers of the flush in progress whose Write has not begun
  flushing : Bool
  closing : Bool       -- c.closed: some caller has begun closeWithError (later callers return at once)
  closed : Bool        -- the socket is closed (closeWithError's tail): nothing is accepted any more
  quit : Bool := false -- the writers' `quit` channel is closed (closeWithError: `c.cancel()`, which PRECEDES `c.close()`)
  gone : Bool := false -- coalescer: the flusher goroutine has taken its `<-w.quit` branch (it serves its queue and returns)
  ext : Bool := false  -- a `Conn.Close()` from outside is between its `cancel()` and its `c.close()`

inductive Act where
  | submit (w : Nat)             -- exec calls writeContext
  | cancel (w : Nat)             -- ctx.Done() wins the first select
  | enqueue (w : Nat)            -- coalescer: the flusher receives the request
  | tick                         -- coalescer: flush timer fires, the flusher takes the batch
  | enter (w : Nat)              -- socket Write of the frame of `w` begins
  | piece (w : Nat) (k : Nat)    -- the transport takes the next `k` bytes of it
  | endWrite (w : Nat) (ok : Bool) -- the socket Write returns (bytes so far, nil / an error of any kind)
  | quit (w : Nat)               -- quit is closed: a waiting writer / (flusher gone) an enqueued writer gets (0, closed)
  | ret (w : Nat)                -- writeContext returns to exec
  | close (w : Nat)              -- exec calls closeWithError: the first caller becomes the closer, later ones return
  | closeFinish (w : Nat)        -- the closer has told the outstanding calls and closes the socket
  | shutdown                     -- Conn.Close() from outside (closeWithError(nil): no calls to tell), to completion
  | cancelCtx (w : Nat)          -- the closer calls `c.cancel()`: the writers' quit channel closes (socket still open)
  | shutQuit                     -- Conn.Close() from outside up to and including `c.cancel()` (socket still open)
  | flusherQuit                  -- coalescer: the flusher's select takes `<-w.quit` (possible at its select only)
deriving Repr

/-- the writer "takes the next one": the flusher takes a timer tick (a new batch), or a direct writer acquires the
    semaphore. After a Write that ended torn this is exactly the excluded condition of known finding KF-C07-1. -/
def Act.takesNext (coalesce : Bool) : Act → Bool
  | .tick => true
  | .enter _ => !coalesce
  | _ => false

def init : St :=
  { wire := [], pc := fun _ => .idle, owner := none, queue := [], todo := [], flushing := false, closing := false, closed := false,
    quit := false, gone := false, ext := false }

def setPc (pc : Nat → Pc) (w : Nat) (v : Pc) : Nat → Pc := fun x => if x = w then v else pc x
def setMany (pc : Nat → Pc) (ws : List Nat) (v : Pc) : Nat → Pc := fun x => if x ∈ ws then v else pc x

/-- `step` returns `none` when the action is not enabled in the state. -/
def step (cfg : Cfg) (s : St) : Act → Option St
  | .submit w =>
      if s.pc w = .idle then some { s with pc := setPc s.pc w .waiting } else none
  | .cancel w =>
      if s.pc w = .waiting then some { s with pc := setPc s.pc w .cancelled } else none
  | .enqueue w =>
      if cfg.coalesce = true ∧ s.pc w = .waiting ∧ s.flushing = false ∧ s.gone = false then
        some { s with pc := setPc s.pc w .queued, queue := s.queue ++ [w] }
      else none
  | .tick =>
      if cfg.coalesce = true ∧ s.flushing = false ∧ s.queue ≠ [] ∧ s.gone = false then
        some { s with flushing := true, todo := s.queue, queue := [] }
      else none
  | .enter w =>
      if (cfg.serialised = true → s.owner = none) ∧
         ((cfg.coalesce = false ∧ s.pc w = .waiting) ∨
          (cfg.coalesce = true ∧ s.pc w = .queued ∧ s.flushing = true ∧ w ∈ s.todo)) then
        some { s with pc := setPc s.pc w (.inWrite 0), owner := some w, todo := s.todo.filter (· ≠ w) }
      else none
  | .piece w k =>
      match s.pc w with
      | .inWrite off =>
        if 0 < k ∧ off + k ≤ cfg.lens w ∧ s.closed = false then
          some { s with wire := s.wire ++ [⟨w, off, k⟩], pc := setPc s.pc w (.inWrite (off + k)) }
        else none
      | _ => none
  | .endWrite w ok =>
      match s.pc w with
      | .inWrite off =>
        if ok = true → off = cfg.lens w then
          let failAll := cfg.coalesce && !ok
          -- `flush` attributes the result of the vectored write by BYTE COUNT: a buffer all of whose bytes were
          -- taken is reported (len, nil) even when the Write that took them returned an error as well (the
          -- error then goes to the buffers behind it only; with none behind it, it is dropped). The direct
          -- writer hands (n, err) through unchanged.
          let okW := ok || (cfg.coalesce && off == cfg.lens w)
          some { s with
            pc := setPc (if failAll then setMany s.pc s.todo (.wrote 0 false) else s.pc) w (.wrote off okW),
            owner := none,
            todo := if failAll then [] else s.todo,
            flushing := if cfg.coalesce && (!ok || s.todo.isEmpty) then false else s.flushing }
        else none
      | _ => none
  | .quit w =>
      -- writeContext's first select sees `quit` (waiting), or the flusher, in its quit branch, tells a queued writer
      -- `(0, io.EOF)` (one `resultChan <- result` per queued writer, then it returns)
      if (s.quit = true ∧ s.pc w = .waiting) ∨ (s.gone = true ∧ s.pc w = .queued ∧ w ∉ s.todo) then
        some { s with pc := setPc s.pc w (.wrote 0 false), queue := s.queue.filter (· ≠ w) }
      else none
  | .ret w =>
      match s.pc w with
      | .cancelled => some { s with pc := setPc s.pc w (.done 0 false) }
      | .wrote n true => some { s with pc := setPc s.pc w (.done n true) }
      | .wrote n false => some { s with pc := setPc s.pc w (.failing n) }
      | _ => none
  | .close w =>
      match s.pc w with
      | .failing n => some { s with pc := setPc s.pc w (if s.closing then .done n false else .closer n), closing := true }
      | _ => none
  | .closeFinish w =>
      match s.pc w with
      | .closer n => if s.quit = true then some { s with pc := setPc s.pc w (.done n false), closed := true } else none
      | _ => none
  | .shutdown => some { s with closing := true, closed := true, quit := true, ext := false }
  | .cancelCtx w =>
      match s.pc w with
      | .closer _ => some { s with quit := true }
      | _ => none
  | .shutQuit =>
      if s.closing = false then some { s with closing := true, quit := true, ext := true } else none
  | .flusherQuit =>
      if cfg.coalesce = true ∧ s.quit = true ∧ s.flushing = false ∧ s.gone = false then
        if cfg.flushOnQuit = true then
          -- VARIANT (not conn.go): `w.flush(resultChans, buffers); return`
          some { s with gone := true, flushing := !s.queue.isEmpty, todo := s.queue, queue := [] }
        else
          -- conn.go: `for _, resultChan := range resultChans { resultChan <- (0, io.EOF) }; return` — the deliveries are
          -- the `quit w` actions of the queued writers, enabled from now on
          some { s with gone := true }
      else none

def run (cfg : Cfg) : St → List Act → Option St
  | s, [] => some s
  | s, a :: as => match step cfg s a with
    | some s' => run cfg s' as
    | none => none

/-! ### checks used on real byte streams (driver) and in the property statements -/

/-- every chunk is a frame prefix (starts at byte 0, within the frame) and no frame appears twice: the byte
    stream is not interleaved. -/
def framed (lens : Nat → Nat) (cs : List Chunk) : Bool :=
  (cs.all fun c => c.start == 0 && decide (0 < c.n) && decide (c.n ≤ lens c.id)) && decide (cs.map (·.id)).Nodup

/-- the monitor's online check of a byte stream: pieces are appended one at a time and after every piece the
    stream so far must be `framed`. `none` = rejected. (`Proofs/C07.lean`: it accepts exactly when every
    prefix of the wire is framed, and it accepts the wire of every reachable state.) -/
def scanFrom (lens : Nat → Nat) : List Chunk → List Piece → Option (List Chunk)
  | cs, [] => some cs
  | cs, p :: ps => if framed lens (addPiece cs p) then scanFrom lens (addPiece cs p) ps else none

def scan (lens : Nat → Nat) (wire : List Piece) : Option (List Chunk) := scanFrom lens [] wire

/-- "after a partial write nothing": only the NEWEST chunk may be incomplete -/
def onlyLastTorn (lens : Nat → Nat) (cs : List Chunk) : Bool :=
  cs.tail.all fun c => c.n == lens c.id

end Writer

namespace C07
open Writer
/-- the schedule of known finding KF-C07-1 (also used by `Proofs/C07.lean`): writer 1's Write is cut after 4 of
    10 bytes, the semaphore is released, writer 2 writes its whole frame before writer 1 reaches closeWithError -/
def cexScheduleD : List Act :=
  [.submit 1, .submit 2, .enter 1, .piece 1 4, .endWrite 1 false, .enter 2, .ret 1, .close 1, .piece 2 10, .endWrite 2 true]

/-- without the semaphore: writer 2 enters the socket while writer 1 is in the middle of its frame -/
def cexScheduleNoSem : List Act :=
  [.submit 1, .submit 2, .enter 1, .piece 1 4, .enter 2, .piece 2 10, .piece 1 6, .endWrite 1 true, .endWrite 2 true]
end C07
