/-
  NAME / INDEX RESOLUTION of /repo/session.go `Session.routingKeyInfo`: which bind marker of a prepared
  statement carries which partition-key column, on both paths

    * protocol ≥ 4: the partition-key bind indexes of the PREPARED answer (`info.request.pkeyColumns`);
    * protocol ≤ 3 (or no indexes in the answer): `Session.KeyspaceMetadata(columns[0].Keyspace)`
      (schemaDescriber cache, a Go map keyed by the keyspace name), `keyspaceMetadata.Tables[table]` (a Go map keyed
      by the table name), then for every column of `TableMetadata.PartitionKey` the FIRST bind marker with
      `keyColumn.Name == boundColumn.Name`.

  Generic in the type `α` of names: Go compares strings byte by byte, the driver instantiates `α := List UInt8`
  (the bytes of the identifier: case variants, quoted identifiers, prefixes of each other are all different names).
  `τ` = column type, `ν` = bound Go value, `enc` = gocql.Marshal as in `Model/Routing.lean`, whose
  `createRoutingKey` is reused unchanged.
-/
import Model.Routing
namespace RoutingNames

open Routing (Enc Bytes KeyRes)

/-- one bind marker (`ColumnInfo`): column name and type -/
structure Marker (α τ : Type) where
  name : α
  ty : τ

/-- the request metadata of the prepared statement: bind markers in statement order, partition-key bind indexes
    (protocol ≥ 4), keyspace (`columns[0].Keyspace`) and table of the global table spec -/
structure Stmt (α τ : Type) where
  markers : List (Marker α τ)
  pkeys : List Nat
  keyspace : α
  table : α

/-- rows of the schema's columns table with kind partition_key: (column name, position), in arrival order -/
abbrev Table (α : Type) := List (α × Nat)
/-- `KeyspaceMetadata.Tables` (a Go map: the entries have distinct keys) -/
abbrev Keyspace (α : Type) := List (α × Table α)
/-- `schemaDescriber.cache` (a Go map) -/
abbrev Cache (α : Type) := List (α × Keyspace α)

variable {α τ ν β : Type} [DecidableEq α]

/-- Go map lookup `m[k]`: the entry whose key is byte-equal to `k` -/
def lookup (k : α) : List (α × β) → Option β
  | [] => none
  | (k', v) :: r => if k' = k then some v else lookup k r

/-- the inner loop of the schema branch
    `for argIndex, boundColumn := range columns { if keyColumn.Name == boundColumn.Name { …; break } }`:
    index (counted from `k`) and type of the first marker named `name` -/
def firstBound (name : α) : List (Marker α τ) → Nat → Option (Nat × τ)
  | [], _ => none
  | m :: ms, k => if name = m.name then some (k, m.ty) else firstBound name ms (k + 1)

/-- the outer loop over `TableMetadata.PartitionKey`: a key column without marker ends it with (nil, nil) -/
def byName (markers : List (Marker α τ)) : List α → Option (List Nat × List τ)
  | [] => some ([], [])
  | n :: ns =>
    match firstBound n markers 0 with
    | none => none
    | some (i, t) =>
      match byName markers ns with
      | some (is, ts) => some (i :: is, t :: ts)
      | none => none

/-- **the resolution on names alone**: the marker index of every partition-key column (`pk` in key order,
    `markers` = the marker names in statement order); `none` when some key column has no marker -/
def firstIdx (name : α) : List α → Nat → Option Nat
  | [], _ => none
  | m :: ms, k => if name = m then some k else firstIdx name ms (k + 1)

def resolve (pk : List α) (markers : List α) : Option (List Nat) :=
  match pk with
  | [] => some []
  | n :: ns =>
    match firstIdx n markers 0 with
    | none => none
    | some i =>
      match resolve ns markers with
      | some is => some (i :: is)
      | none => none

/-- protocol-4 branch: `types[i] = columns[col].TypeInfo` -/
def typesAt (markers : List (Marker α τ)) : List Nat → Option (List τ)
  | [] => some []
  | i :: is =>
    match markers[i]? with
    | none => none
    | some m =>
      match typesAt markers is with
      | some ts => some (m.ty :: ts)
      | none => none

inductive InfoRes (τ : Type)
  | none                                 -- (nil, nil)
  | info (is : List Nat) (ts : List τ)   -- routingKeyInfo{indexes, types}
  | errMeta                              -- ErrNoMetadata: the table is not in the keyspace metadata
  | refresh                              -- the keyspace is not cached: schema refresh over the control connection (not modelled)
  | nilKey                               -- a nil entry in TableMetadata.PartitionKey (a gap in the positions): nil dereference
  | crash                                -- index out of range

/-- `Session.routingKeyInfo` after the statement has been prepared -/
def routingKeyInfo (st : Stmt α τ) (cache : Cache α) : InfoRes τ :=
  if st.markers.isEmpty then .none
  else if !st.pkeys.isEmpty then
    match typesAt st.markers st.pkeys with
    | some ts => .info st.pkeys ts
    | none => .crash
  else
    match lookup st.keyspace cache with
    | none => .refresh
    | some tables =>
      match lookup st.table tables with
      | none => .errMeta
      | some rows =>
        match (Routing.schemaPartitionKey rows).mapM id with
        | none => .nilKey
        | some pk =>
          match byName st.markers pk with
          | some (is, ts) => .info is ts
          | none => .none

inductive Res
  | res (k : KeyRes)
  | unmodelled
  deriving DecidableEq

/-- `Query.GetRoutingKey` / `Batch.GetRoutingKey`: `createRoutingKey` of Model/Routing.lean on the resolved info -/
def getRoutingKey (enc : τ → ν → Enc) (st : Stmt α τ) (cache : Cache α) (vals : List ν) : Res :=
  match routingKeyInfo st cache with
  | .none => .res .nokey
  | .errMeta => .res .errMeta
  | .crash => .res .crash
  | .refresh => .unmodelled
  | .nilKey => .unmodelled
  | .info is ts => .res (Routing.createRoutingKey enc ⟨is, ts, "", ""⟩ vals)

/-! ### Specification -/

/-- SPEC: `is` resolves the partition key `pk` against the marker names: one index per key column, in key order,
    the marker AT that index is named exactly (byte-equal) like the key column, and no earlier marker is. -/
def Spec.Resolves (markers : List α) : List α → List Nat → Prop
  | [], [] => True
  | n :: ns, i :: is => (markers[i]? = some n ∧ ∀ j, j < i → markers[j]? ≠ some n) ∧ Spec.Resolves markers ns is
  | _, _ => False

/-- SPEC: the encoded partition-key component at marker `i`: the value bound to THAT marker encoded with the type of
    THAT marker's column, defined when it is a (non-null) byte string -/
def Spec.component (enc : τ → ν → Enc) (markers : List (Marker α τ)) (vals : List ν) (i : Nat) : Option Bytes :=
  match markers[i]?, vals[i]? with
  | some m, some v =>
    match enc m.ty v with
    | .ok (some b) => some b
    | _ => none
  | _, _ => none

def Spec.components (enc : τ → ν → Enc) (markers : List (Marker α τ)) (vals : List ν) : List Nat → Option (List Bytes)
  | [] => some []
  | i :: is =>
    match Spec.component enc markers vals i, Spec.components enc markers vals is with
    | some c, some cs => some (c :: cs)
    | _, _ => none

end RoutingNames
