/-
# Response-kind dispatch tables of gocql (property C05, part "dispatch")

Hand-written finite table model of every place where gocql decides what to do with a RESPONSE
frame by its Go type (`switch x := frame.(type)` / `frame.(*T)`), in conn.go, control.go, events.go:

  startupCoordinator.options / startup / authenticateHandshake   (connection handshake, runs on a
      bare goroutine started in startupCoordinator.setupConn)
  Conn.heartBeat, controlConn.heartBeat                           (`go c.heartBeat(..)`)
  Conn.prepareStatement (inside `go func(){..}`), executeQuery, UseKeyspace, executeBatch
  controlConn.registerEvents
  Session.handleEvent (`go c.session.handleEvent(framer)` in Conn.recv), handleSchemaEvent,
      handleNodeEvent (event debouncer callbacks, `go e.callback(..)`)

The table is the list of case arms IN SOURCE ORDER plus what `default:` does; `action` evaluates it
the way Go evaluates a type switch (first arm that matches).  The only `recover()` in the package is
framer.parseFrame (which re-panics runtime.Error), so a panic raised at any of these sites ends the
goroutine it runs on, i.e. the process: that is outcome `crash`.

The table describes the code AFTER the repairs of KF-C05-22 (Conn.heartBeat `default:` closes the
connection with an error instead of `panic`), KF-C05-23 (controlConn.heartBeat `default:` logs and
reconnects instead of `panic`), KF-C05-24 (authenticateHandshake returns an error when AUTH_CHALLENGE
arrives and the authenticator gave no challenger) and KF-C05-25 (hostInfoFromMap returns an error for a
row without a usable address instead of calling HostInfo.ConnectAddress, which panics).

The table is re-extracted from the source by harness/c05disp (go/ast) on every run and compared
cell by cell (`disp`), arm by arm (`disparms`), site list (`dispsites`), frame types (`dispkinds`).
Core Lean only.
-/
namespace Dispatch

/-- every concrete type `framer.parseFrame` can return, up to the distinctions a case arm makes.
    `error` = errorFrame and every RequestErr* except RequestErrUnprepared (which has arms of its
    own in executeQuery / executeBatch). -/
inductive FrameKind
  | error | unprepared | ready | authenticate | authChallenge | authSuccess | supported
  | resultVoid | resultRows | resultKeyspace | resultPrepared
  | schemaKeyspace | schemaTable | schemaType | schemaFunction | schemaAggregate
  | statusChange | topologyChange
  deriving DecidableEq, Repr, Inhabited

namespace FrameKind
def all : List FrameKind :=
  [error, unprepared, ready, authenticate, authChallenge, authSuccess, supported,
   resultVoid, resultRows, resultKeyspace, resultPrepared,
   schemaKeyspace, schemaTable, schemaType, schemaFunction, schemaAggregate,
   statusChange, topologyChange]

theorem mem_all (k : FrameKind) : k ∈ all := by cases k <;> decide

def name : FrameKind → String
  | error => "error" | unprepared => "unprepared" | ready => "ready"
  | authenticate => "authenticate" | authChallenge => "authChallenge" | authSuccess => "authSuccess"
  | supported => "supported" | resultVoid => "resultVoid" | resultRows => "resultRows"
  | resultKeyspace => "resultKeyspace" | resultPrepared => "resultPrepared"
  | schemaKeyspace => "schemaKeyspace" | schemaTable => "schemaTable" | schemaType => "schemaType"
  | schemaFunction => "schemaFunction" | schemaAggregate => "schemaAggregate"
  | statusChange => "statusChange" | topologyChange => "topologyChange"

/-- the Go type a case arm names to select exactly this kind -/
def goType : FrameKind → String
  | error => "errorFrame" | unprepared => "*RequestErrUnprepared" | ready => "*readyFrame"
  | authenticate => "*authenticateFrame" | authChallenge => "*authChallengeFrame"
  | authSuccess => "*authSuccessFrame" | supported => "*supportedFrame"
  | resultVoid => "*resultVoidFrame" | resultRows => "*resultRowsFrame"
  | resultKeyspace => "*resultKeyspaceFrame" | resultPrepared => "*resultPreparedFrame"
  | schemaKeyspace => "*schemaChangeKeyspace" | schemaTable => "*schemaChangeTable"
  | schemaType => "*schemaChangeType" | schemaFunction => "*schemaChangeFunction"
  | schemaAggregate => "*schemaChangeAggregate" | statusChange => "*statusChangeEventFrame"
  | topologyChange => "*topologyChangeEventFrame"

def ofName (s : String) : Option FrameKind := all.find? (fun k => k.name == s)

/-- implements Go's `error` interface (errors.go: only errorFrame declares `Error()`, the
    RequestErr* types embed it) -/
def isError : FrameKind → Bool
  | error => true | unprepared => true | _ => false
end FrameKind

/-- a dispatch site.  `authHandshake nilCh`: the switch in the authenticateHandshake loop, reached
    while the variable `challenger` is nil (`nilCh = true`) or not. -/
inductive Site
  | options | startup | authHandshake (nilCh : Bool)
  | connHeartBeat | prepareStatement | executeQuery | useKeyspace | executeBatch
  | controlHeartBeat | registerEvents
  | handleEvent | handleSchemaEvent | handleNodeEvent
  deriving DecidableEq, Repr

namespace Site
def all : List Site :=
  [options, startup, authHandshake false, authHandshake true, connHeartBeat, prepareStatement,
   executeQuery, useKeyspace, executeBatch, controlHeartBeat, registerEvents,
   handleEvent, handleSchemaEvent, handleNodeEvent]

theorem mem_all (s : Site) : s ∈ all := by
  cases s with
  | authHandshake b => cases b <;> decide
  | _ => decide

/-- enclosing Go function (receiver type . name) -/
def func : Site → String
  | options => "startupCoordinator.options" | startup => "startupCoordinator.startup"
  | authHandshake _ => "startupCoordinator.authenticateHandshake"
  | connHeartBeat => "Conn.heartBeat" | prepareStatement => "Conn.prepareStatement"
  | executeQuery => "Conn.executeQuery" | useKeyspace => "Conn.UseKeyspace"
  | executeBatch => "Conn.executeBatch" | controlHeartBeat => "controlConn.heartBeat"
  | registerEvents => "controlConn.registerEvents" | handleEvent => "Session.handleEvent"
  | handleSchemaEvent => "Session.handleSchemaEvent" | handleNodeEvent => "Session.handleNodeEvent"

/-- the name used in op lines -/
def name : Site → String
  | authHandshake true => "startupCoordinator.authenticateHandshake+nilchallenger"
  | s => s.func

def ofName (s : String) : Option Site := all.find? (fun x => x.name == s)
end Site

/-- a case-arm type -/
inductive Pat
  | ty (k : FrameKind)   -- a concrete frame type
  | errorIface           -- `case error:`
  deriving DecidableEq, Repr

def Pat.matches : Pat → FrameKind → Bool
  | .ty k, k' => k == k'
  | .errorIface, k' => k'.isError

def Pat.str : Pat → String
  | .ty k => k.goType
  | .errorIface => "error"

/-- what an arm does, as far as crashing is concerned -/
inductive Act
  | handled      -- the frame is consumed normally
  | error        -- an error is returned / recorded, nothing else
  | retry        -- the function calls itself (UNPREPARED: evict and re-execute)
  | log          -- logged and dropped
  | panic        -- `panic(...)`, nothing recovers it
  | nilcall      -- calls a method on a nil interface value
  | assertpanic  -- a type assertion without comma-ok
  deriving DecidableEq, Repr

def Act.str : Act → String
  | .handled => "handled" | .error => "error" | .retry => "retry" | .log => "log"
  | .panic => "panic" | .nilcall => "nilcall" | .assertpanic => "assertpanic"

inductive Form | switch | assert deriving DecidableEq, Repr

/-- how the enclosing function gets its goroutine, as far as it is visible at the site:
    lexically inside `go func(){..}()`, a method launched by `go x.m(..)`, or an ordinary call -/
inductive Ctx | goLiteral | goMethod | call deriving DecidableEq, Repr

def Ctx.str : Ctx → String
  | .goLiteral => "go-literal" | .goMethod => "go-method" | .call => "call"

structure Desc where
  form : Form
  ctx  : Ctx
  arms : List (List Pat × Act)
  dflt : Option Act            -- none: no default arm (falls through, nothing happens)

open FrameKind in
/-- THE TABLE (hand-written from conn.go / control.go / events.go) -/
def desc : Site → Desc
  | .options =>          -- conn.go options(): `supported, ok := frame.(*supportedFrame); if !ok { return NewErrProtocol }`
    ⟨.assert, .call, [([.ty supported], .handled)], some .error⟩
  | .startup =>          -- conn.go startup()
    ⟨.switch, .call, [([.errorIface], .error), ([.ty ready], .handled), ([.ty authenticate], .handled)],
      some .error⟩
  | .authHandshake nilCh =>   -- conn.go authenticateHandshake(), inside `for {}`
    ⟨.switch, .call,
      [([.errorIface], .error),
       ([.ty authSuccess], .handled),        -- `if challenger != nil { return challenger.Success(..) }; return nil`
       ([.ty authChallenge],                 -- `if challenger == nil { return error }; resp, challenger, err = challenger.Challenge(v.data)`
          if nilCh then .error else .handled)],
      some .error⟩
  | .connHeartBeat =>    -- conn.go (c *Conn) heartBeat
    ⟨.switch, .goMethod, [([.ty supported], .handled), ([.errorIface], .error)],
      some .error⟩
  | .prepareStatement => -- conn.go prepareStatement, inside `go func(){..}()`
    ⟨.switch, .goLiteral, [([.ty resultPrepared], .handled), ([.errorIface], .error)], some .error⟩
  | .executeQuery =>     -- conn.go executeQuery
    ⟨.switch, .call,
      [([.ty resultVoid], .handled), ([.ty resultRows], .handled), ([.ty resultKeyspace], .handled),
       ([.ty schemaKeyspace, .ty schemaTable, .ty schemaFunction, .ty schemaAggregate, .ty schemaType], .handled),
       ([.ty unprepared], .retry), ([.errorIface], .error)],
      some .error⟩
  | .useKeyspace =>      -- conn.go UseKeyspace
    ⟨.switch, .call, [([.ty resultKeyspace], .handled), ([.errorIface], .error)], some .error⟩
  | .executeBatch =>     -- conn.go executeBatch
    ⟨.switch, .call,
      [([.ty resultVoid], .handled), ([.ty unprepared], .retry), ([.ty resultRows], .handled),
       ([.errorIface], .error)],
      some .error⟩
  | .controlHeartBeat => -- control.go (c *controlConn) heartBeat
    ⟨.switch, .goMethod, [([.ty supported], .handled), ([.errorIface], .error)],
      some .error⟩
  | .registerEvents =>   -- control.go registerEvents: `else if _, ok := frame.(*readyFrame); !ok { return fmt.Errorf }`
    ⟨.assert, .call, [([.ty ready], .handled)], some .error⟩
  | .handleEvent =>      -- events.go handleEvent (since fix 41d500c called inline from Conn.recv, no longer `go …`)
    ⟨.switch, .call,
      [([.ty schemaKeyspace, .ty schemaFunction, .ty schemaTable, .ty schemaAggregate, .ty schemaType], .handled),
       ([.ty topologyChange, .ty statusChange], .handled)],
      some .log⟩
  | .handleSchemaEvent => -- events.go handleSchemaEvent (no default)
    ⟨.switch, .call,
      [([.ty schemaKeyspace], .handled), ([.ty schemaTable], .handled), ([.ty schemaAggregate], .handled),
       ([.ty schemaFunction], .handled), ([.ty schemaType], .handled)],
      none⟩
  | .handleNodeEvent =>  -- events.go handleNodeEvent (no default)
    ⟨.switch, .call, [([.ty topologyChange], .handled), ([.ty statusChange], .handled)], none⟩

/-- Go's type switch: the first arm one of whose types matches -/
def firstArm (k : FrameKind) : List (List Pat × Act) → Option Act
  | [] => none
  | (ps, a) :: rest => if ps.any (·.matches k) then some a else firstArm k rest

/-- what the site does with a frame of kind `k`; `none` = no arm and no default -/
def action (s : Site) (k : FrameKind) : Option Act :=
  match firstArm k (desc s).arms with
  | some a => some a
  | none => (desc s).dflt

inductive How | panicDefault | nilDeref | assertFail deriving DecidableEq, Repr

inductive Outcome
  | handled | ignored | error | crash (h : How)
  deriving DecidableEq, Repr

def Outcome.isCrash : Outcome → Bool
  | .crash _ => true
  | _ => false

def outcomeOf : Option Act → Outcome
  | none => .ignored
  | some .handled => .handled
  | some .retry => .handled
  | some .error => .error
  | some .log => .ignored
  | some .panic => .crash .panicDefault
  | some .nilcall => .crash .nilDeref
  | some .assertpanic => .crash .assertFail

/-- THE DISPATCH TABLE: site × frame kind → outcome -/
def dispatch (s : Site) (k : FrameKind) : Outcome := outcomeOf (action s k)

def How.str : How → String
  | .panicDefault => "panic" | .nilDeref => "nil" | .assertFail => "assert"

def Outcome.str (s : Site) : Outcome → String
  | .handled => "handled" | .ignored => "ignored" | .error => "error"
  | .crash h => "crash:" ++ s.func ++ ":" ++ h.str

/-! ## loops over the tables -/

/-- a site that is fed one response after the other (heartbeat loop, event stream, a
    connection's requests of one kind): the first crashing cell ends the process -/
def siteRun (tbl : Site → FrameKind → Outcome) (s : Site) : List FrameKind → Option How
  | [] => none
  | k :: ks => match tbl s k with
    | .crash h => some h
    | _ => siteRun tbl s ks

/-- what the connection was configured with: `c.auth` (nil or not), whether the first
    `Challenge(class)` succeeds (PasswordAuthenticator: `approve`), and which `Challenge` call
    (0 = the initial one) returns a nil next challenger (`none` = never).
    gocql.PasswordAuthenticator is `⟨true, approve class, some 0⟩`: its `Challenge` ends in
    `return resp, nil, nil` (extracted fact `challenge-nil`). -/
structure AuthCfg where
  present  : Bool
  approves : Bool
  nilAfter : Option Nat
  deriving Repr

def passwordAuth : AuthCfg := ⟨true, true, some 0⟩

/-- state of startupCoordinator: OPTIONS sent / STARTUP sent / in the auth loop after `n`
    Challenge calls with `challenger == nil` or not / finished / process dead -/
inductive HS
  | awaitSupported | awaitStartup | authLoop (n : Nat) (chNil : Bool) | done (ok : Bool)
  | crashed (h : How)
  deriving DecidableEq, Repr

/-- one response frame arrives (options → startup → authenticateHandshake loop) -/
def hsStep (tbl : Site → FrameKind → Outcome) (cfg : AuthCfg) : HS → FrameKind → HS
  | .awaitSupported, k =>
    match tbl .options k with
    | .crash h => .crashed h
    | .handled => .awaitStartup
    | _ => .done false
  | .awaitStartup, k =>
    match tbl .startup k with
    | .crash h => .crashed h
    | .handled =>
      if k = .authenticate then
        if cfg.present && cfg.approves then .authLoop 1 (cfg.nilAfter == some 0) else .done false
      else .done true
    | _ => .done false
  | .authLoop n chNil, k =>
    match tbl (.authHandshake chNil) k with
    | .crash h => .crashed h
    | .handled =>
      if k = .authChallenge then .authLoop (n + 1) (cfg.nilAfter == some n) else .done true
    | _ => .done false
  | s, _ => s

def hsRun (tbl : Site → FrameKind → Outcome) (cfg : AuthCfg) : HS → List FrameKind → HS
  | s, [] => s
  | s, k :: ks => hsRun tbl cfg (hsStep tbl cfg s k) ks

def HS.isCrashed : HS → Bool
  | .crashed _ => true
  | _ => false

/-- recursion depth of executeQuery / executeBatch: every UNPREPARED answer re-enters the function
    (`return c.executeQuery(ctx, qry)`); nothing bounds it -/
def retryDepth (s : Site) : List FrameKind → Nat
  | [] => 0
  | k :: ks => if action s k = some .retry then retryDepth s ks + 1 else 0

/-! ## answers of the model driver -/

def insertSorted (x : String) : List String → List String
  | [] => [x]
  | y :: ys => if x < y then x :: y :: ys else y :: insertSorted x ys

def sortStrings (l : List String) : List String := l.foldr insertSorted []

def joinWith (sep : String) : List String → String
  | [] => "-"
  | x :: xs => xs.foldl (fun acc y => acc ++ sep ++ y) x

def Desc.str (d : Desc) : String :=
  let armStr := fun (pa : List Pat × Act) => joinWith "," (pa.1.map Pat.str) ++ ":" ++ pa.2.str
  let dfl := match d.dflt with
    | some a => "default:" ++ a.str
    | none => "default:absent"
  (match d.form with | .switch => "switch" | .assert => "assert") ++ "|" ++
    joinWith "|" (d.arms.map armStr ++ [dfl])

/-- frame struct types (embed frameHeader) ; error subtypes (embed errorFrame) — sorted, as the
    extractor prints them -/
def kindsLine : String :=
  "authChallengeFrame,authSuccessFrame,authenticateFrame,errorFrame,readyFrame,resultKeyspaceFrame," ++
  "resultPreparedFrame,resultRowsFrame,resultVoidFrame,schemaChangeAggregate,schemaChangeFunction," ++
  "schemaChangeKeyspace,schemaChangeTable,schemaChangeType,statusChangeEventFrame,supportedFrame," ++
  "topologyChangeEventFrame;RequestErrAlreadyExists,RequestErrCASWriteUnknown,RequestErrCDCWriteFailure," ++
  "RequestErrFunctionFailure,RequestErrReadFailure,RequestErrReadTimeout,RequestErrUnavailable," ++
  "RequestErrUnprepared,RequestErrWriteFailure,RequestErrWriteTimeout"

/-- facts the crash argument uses (extracted from the source on every run) -/
def fact : String → Option String
  | "recovers" => some "framer.parseFrame"            -- the only recover() in the package
  | "parseframe-repanics" => some "runtime.Error"     -- ... and it re-panics runtime errors
  -- since fix 41d500c (KF-C16-2) recv calls Session.handleEvent INLINE, on the connection's serve goroutine
  -- (`Conn.init:go:serve`), which has no recover either: a runtime panic while an EVENT is parsed still
  -- kills the process
  | "event-goroutine" => some "-"
  | "go-launched" => some ("Conn.init:go:heartBeat,Conn.init:go:serve," ++
      "controlConn.connect:go:heartBeat,eventDebouncer.flush:go:callback")
  | "challengers" => some "PasswordAuthenticator"
  | "challenge-nil" => some "PasswordAuthenticator"   -- Challenge returns (resp, nil, nil)
  | "error-impls" => some "errorFrame"
  | "err-sites" => some ("Conn.querySystemPeers:errorFrame:commaok," ++
      "DowngradingConsistencyRetryPolicy.GetRetryType:switch,checkSystemSchema:*errorFrame:commaok")
  | "problems" => some "-"
  | _ => none

/-- end-to-end scenarios that ARE table cells (harness/c05disp/e2e.go `ScenarioCell`): the real
    driver on the in-memory server, in a subprocess -/
def scenarioCell : String → Option (Site × FrameKind)
  | "hb-conn-ready" => some (.connHeartBeat, .ready)                      -- (b) OPTIONS heartbeat answered READY
  | "hb-control-result" => some (.controlHeartBeat, .resultVoid)          -- (b) ... answered RESULT/Void
  | "auth-password-challenge" => some (.authHandshake true, .authChallenge)  -- (c) PasswordAuthenticator
  | "control-unexpected-frame" => some (.executeQuery, .supported)        -- (d) clean control
  | _ => none

/-- end-to-end scenarios that are not table cells: what the process does (recorded facts; the frame
    parse model of the integrator's part explains the first one) -/
def scenarioFact : String → Option String
  -- (a) EVENT STATUS_CHANGE on stream -1 whose [inet] says 16 bytes and has 2: readInetAdressOnly's
  --     length check raises a non-runtime panic, which parseFrame turns into a parse error (the op is
  --     answered by the frame model in Driver/C05.lean; before the repair of KF-C05-5 the process died)
  | "event-short-inet" => some "parse-error"
  | "event-wellformed" => some "survived"
  -- non-runtime panics raised by the frame parsers (`panic(fmt.Errorf(..))`) are turned into a
  -- returned error by parseFrame's deferred recover (fact `recovers`): request path → error,
  -- event path → logged
  | "parse-error-unknown-code" => some "error"
  | "event-unknown-type" => some "parse-error"
  -- a system.local row without rpc_address / broadcast_address, read by a ring REFRESH
  -- (getLocalHostInfo passes no connect address): hostInfoFromMap returns an error, the refresh fails
  -- and is logged (before the repair of KF-C05-25 HostInfo.ConnectAddress panicked on the
  -- refreshDebouncer goroutine)
  | "refresh-local-noaddr" => some "survived"
  -- same root cause, reached by the initial host lookup on NewSession's own goroutine: a
  -- system.peers row without peer / rpc_address
  | "init-peer-noaddr" => some "error"
  -- the server answers the same QUERY / BATCH with UNPREPARED every time: `retryDepth` grows by one
  -- per answer (theorem C05_retry_depth_unbounded), 544 bytes of goroutine stack each, until
  -- `fatal error: stack overflow` (not recoverable).  KF-C05-disp-6
  | "unprepared-recursion" => some "crash:Conn.executeQuery:stackoverflow"
  | "unprepared-recursion-batch" => some "crash:Conn.executeBatch:stackoverflow"
  | _ => none

def scenario (n : String) : Option String :=
  match scenarioCell n with
  | some (s, k) => some ((dispatch s k).str s)
  | none => scenarioFact n

def answer (ws : List String) : Option String :=
  match ws with
  | ["disp", s, k] | ["beh", s, k] =>
    match Site.ofName s, FrameKind.ofName k with
    | some s, some k => some ((dispatch s k).str s)
    | none, some _ => some "unknown-site"
    | _, none => some "bad-op"
  | ["disparms", s] => match Site.ofName s with
    | some s => some (desc s).str
    | none => some "unknown-site"
  | ["dispctx", s] => match Site.ofName s with
    | some s => some (desc s).ctx.str
    | none => some "unknown-site"
  | ["dispsites"] => some (joinWith "," (sortStrings (Site.all.map Site.name)))
  | ["dispkinds"] => some kindsLine
  | ["dispfact", f] => some ((fact f).getD "bad-op")
  | ["e2e", sc] => some ((scenario sc).getD "bad-op")
  | _ => none

end Dispatch
