import Model.Executor
/-
  Speculative execution as an interleaving machine (query_executor.go `executeQuery`, `speculate`, `run`, `do`):
  up to E executions of the SAME statement run `do` concurrently. They share
    * the statement's attempt counter (`queryMetrics.totalAttempts`, incremented by `qry.attempt` after every
      attempt, read by `rt.Attempt(qry)` some time later — the two are not atomic), and
    * the host iterator (mutex-wrapped `NextHost`: every usable host is handed out once, to whichever execution
      asks first).
  Every micro-step of one execution is an action; a schedule is any list of actions.
-/
namespace ExecutorConc
open Executor

/-- where one execution (`queryExecutor.run` → `do`) stands -/
inductive Ex where
  | idle                  -- not launched (the ticker has not fired for it / never will)
  | inflight              -- inside `attemptQuery`: a request has been handed to a connection
  | counted (r : Res)     -- `qry.attempt` has incremented the shared counter; `rt.Attempt` not yet evaluated
  | done                  -- `do` has returned
deriving DecidableEq, Repr

structure M where
  cnt : Nat               -- the shared attempt counter `qry.Attempts()`
  sent : Nat              -- requests handed to connections so far (all executions)
  left : Nat              -- usable hosts the shared iterator will still hand out
  exs : List Ex
deriving DecidableEq, Repr

inductive Act where
  | launch (i : Nat)                -- `go q.run(...)` for execution i reaches its first `hostIter()`
  | complete (i : Nat) (r : Res)    -- the attempt of execution i ends with result r; `qry.attempt`: counter += 1
  | decide (i : Nat)                -- execution i evaluates `rt.Attempt(qry)` (reading the counter as it is NOW) and `GetRetryType`
deriving DecidableEq, Repr

def init (c0 hosts e : Nat) : M := ⟨c0, 0, hosts, List.replicate e .idle⟩

/-- take the next usable host from the shared iterator and send, or finish when it is exhausted -/
def M.sendNext (m : M) (i : Nat) : M :=
  if m.left = 0 then { m with exs := m.exs.set i .done }
  else { m with sent := m.sent + 1, left := m.left - 1, exs := m.exs.set i .inflight }

def step (pol : Option Policy) (m : M) : Act → M
  | .launch i =>
      match m.exs[i]? with
      | some .idle => m.sendNext i
      | _ => m
  | .complete i r =>
      match m.exs[i]? with
      | some .inflight => { m with cnt := m.cnt + 1, exs := m.exs.set i (.counted r) }
      | _ => m
  | .decide i =>
      match m.exs[i]? with
      | some (.counted (.err e)) =>
          match pol with
          | none => { m with exs := m.exs.set i .done }
          | some p =>
            if !p.attempt m.cnt then { m with exs := m.exs.set i .done }
            else match p.rtype e with
              | .retry => { m with sent := m.sent + 1, exs := m.exs.set i .inflight }
              | .nextHost => m.sendNext i
              | _ => { m with exs := m.exs.set i .done }
      | some (.counted _) => { m with exs := m.exs.set i .done }
      | _ => m

def run (pol : Option Policy) (m : M) (sched : List Act) : M := sched.foldl (step pol) m

/-- executions launched so far -/
def started : List Ex → Nat
  | [] => 0
  | .idle :: l => started l
  | _ :: l => started l + 1

/-- what a retry policy of the form `Attempts() ≤ lim` allows E concurrent executions in total: each execution's
    first attempt is unconditional, and each of the first `lim` completed attempts can license one more -/
def budget (lim e : Nat) : Nat := lim + e

end ExecutorConc
