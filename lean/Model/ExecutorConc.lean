import Model.Executor
/-
  Speculative execution as an interleaving machine (query_executor.go `executeQuery`, `speculate`, `run`, `do`):
  up to E executions of the SAME statement run `do` concurrently. They share
    * the statement's attempt counter (`queryMetrics.totalAttempts`, incremented by `qry.attempt` after every
      attempt, read by `rt.Attempt(qry)` some time later — the two are not atomic), and
    * the host iterator (mutex-wrapped `NextHost`: every usable host is handed out once, to whichever execution
      asks first).
  Every micro-step of one execution is an action; a schedule is any list of actions.
-/
namespace ExecutorConc
open Executor

/-- where one execution (`queryExecutor.run` → `do`) stands -/
inductive Ex where
  | idle                  -- not launched (the ticker has not fired for it / never will)
  | inflight              -- inside `attemptQuery`: a request has been handed to a connection
  | counted (r : Res)     -- `qry.attempt` has incremented the shared counter; `rt.Attempt` not yet evaluated
  | done                  -- `do` has returned
deriving DecidableEq, Repr

structure M where
  cnt : Nat               -- the shared attempt counter `qry.Attempts()`
  sent : Nat              -- requests handed to connections so far (all executions)
  left : Nat              -- usable hosts the shared iterator will still hand out
  exs : List Ex
  unsent : Nat := 0       -- attempts that found the executions' context cancelled: counted, nothing written
  log : List Nat := []    -- the number each attempt was given (`queryMetrics.attempt` returns the counter's
                          -- previous value: ObservedQuery.Attempt / ObservedBatch.Attempt), most recent first
deriving DecidableEq, Repr

inductive Act where
  | launch (i : Nat)                -- `go q.run(...)` for execution i reaches its first `hostIter()`
  | complete (i : Nat) (r : Res)    -- the attempt of execution i ends with result r; `qry.attempt`: counter += 1
  | decide (i : Nat)                -- execution i evaluates `rt.Attempt(qry)` (reading the counter as it is NOW) and `GetRetryType`
  | abort (i : Nat)                 -- like `launch` / `decide`, but the context of the executions has been cancelled
                                    -- meanwhile (another execution delivered the result): the attempt execution i goes
                                    -- on to make returns `ctx.Err()` from `Conn.exec` before anything is written — it is
                                    -- still counted by `qry.attempt` — and ends the execution
deriving DecidableEq, Repr

def init (c0 hosts e : Nat) : M := { cnt := c0, sent := 0, left := hosts, exs := List.replicate e .idle }

/-- `qry.attempt`: `queryMetrics.attempt` under ONE lock hands out the counter's value and increments it -/
def M.count (m : M) : M := { m with cnt := m.cnt + 1, log := m.cnt :: m.log }

/-- take the next usable host from the shared iterator and send, or finish when it is exhausted -/
def M.sendNext (m : M) (i : Nat) : M :=
  if m.left = 0 then { m with exs := m.exs.set i .done }
  else { m with sent := m.sent + 1, left := m.left - 1, exs := m.exs.set i .inflight }

/-- an attempt on a cancelled context: counted, not sent, the execution returns (a logical error) -/
def M.deadAttempt (m : M) (i : Nat) : M :=
  { m.count with unsent := m.unsent + 1, exs := m.exs.set i .done }

/-- the same after `hostIter()`: it ends the execution without an attempt when the iterator is exhausted -/
def M.deadNext (m : M) (i : Nat) : M :=
  if m.left = 0 then { m with exs := m.exs.set i .done }
  else { m.deadAttempt i with left := m.left - 1 }

def step (pol : Option Policy) (m : M) : Act → M
  | .launch i =>
      match m.exs[i]? with
      | some .idle => m.sendNext i
      | _ => m
  | .complete i r =>
      match m.exs[i]? with
      | some .inflight => { m.count with exs := m.exs.set i (.counted r) }
      | _ => m
  | .decide i =>
      match m.exs[i]? with
      | some (.counted (.err e)) =>
          match pol with
          | none => { m with exs := m.exs.set i .done }
          | some p =>
            if !p.attempt m.cnt then { m with exs := m.exs.set i .done }
            else match p.rtype e with
              | .retry => { m with sent := m.sent + 1, exs := m.exs.set i .inflight }
              | .nextHost => m.sendNext i
              | _ => { m with exs := m.exs.set i .done }
      | some (.counted _) => { m with exs := m.exs.set i .done }
      | _ => m
  | .abort i =>
      match m.exs[i]? with
      | some .idle => m.deadNext i
      | some (.counted (.err e)) =>
          match pol with
          | none => { m with exs := m.exs.set i .done }
          | some p =>
            if !p.attempt m.cnt then { m with exs := m.exs.set i .done }
            else match p.rtype e with
              | .retry => m.deadAttempt i
              | .nextHost => m.deadNext i
              | _ => { m with exs := m.exs.set i .done }
      | some (.counted _) => { m with exs := m.exs.set i .done }
      | _ => m

def run (pol : Option Policy) (m : M) (sched : List Act) : M := sched.foldl (step pol) m

/-- executions launched so far -/
def started : List Ex → Nat
  | [] => 0
  | .idle :: l => started l
  | _ :: l => started l + 1

/-- no attempt is in flight (in particular: every execution has returned) -/
def quiet (l : List Ex) : Bool := l.all fun x => x != .inflight

/-- what a retry policy of the form `Attempts() ≤ lim` allows E concurrent executions in total: each execution's
    first attempt is unconditional, and each of the first `lim` completed attempts can license one more -/
def budget (lim e : Nat) : Nat := lim + e

/-! ### cancellation: the caller's context, the executor's derived context, and who gets the result

  `executeQuery` derives `ctx, cancel := context.WithCancel(qry.Context())`, hands `ctx` to every execution
  (`go q.run(ctx, …)`), returns the FIRST iter that an execution puts on `results` (capacity 1) — or `ctx.Err()`
  when the caller's context is done first — and cancels `ctx` on its way out (`defer cancel()`).
  Every attempt runs under that context: `Conn.executeQuery(ctx, qry)` and (since the repair of KF-C13-2)
  `Conn.executeBatch(ctx, b)` pass `ctx` on to `Conn.exec`.
  An attempt on a context that is done returns `ctx.Err()` before anything is written (and is still counted). -/

/-- what the caller of `executeQuery` holds -/
inductive CRes where
  | res (r : Res)      -- the iter of an attempt (`.logical`: a context error)
  | noConn             -- ErrNoConnections: an execution found the shared iterator exhausted before any attempt
  | unknownRT          -- ErrUnknownRetryType
deriving DecidableEq, Repr

structure MC where
  m : M
  callerDone : Bool := false      -- `qry.Context()` is done (cancelled by the caller / deadline passed)
  execDone : Bool := false        -- the executor's derived context is done (`defer cancel()`, or its parent is)
  result : Option CRes := none    -- what `executeQuery` has returned to the caller
deriving DecidableEq, Repr

inductive ActC where
  | ex (a : Act)        -- a micro-step of one execution
  | callerCancel        -- the caller's context becomes done
  | execCancel          -- `executeQuery` has its result and runs the deferred `cancel()`
deriving DecidableEq, Repr

/-- the context the attempts run under is done -/
def MC.attDone (c : MC) : Bool := c.callerDone || c.execDone

/-- a step of an execution whose attempt context is done: the attempt it goes on to make is dead -/
def deaden : Act → Act
  | .launch i => .abort i
  | .decide i => .abort i
  | a => a

/-- the value `do` returns when the step `a`, taken on a live context, ends the execution (`none`: it goes on) -/
def returned (pol : Option Policy) (m : M) : Act → Option CRes
  | .launch i =>
      match m.exs[i]? with
      | some .idle => if m.left = 0 then some .noConn else none
      | _ => none
  | .decide i =>
      match m.exs[i]? with
      | some (.counted (.err e)) =>
          match pol with
          | none => some (.res (.err e))
          | some p =>
            if !p.attempt m.cnt then some (.res (.err e))
            else match p.rtype e with
              | .retry => none
              | .nextHost => if m.left = 0 then some (.res (.err e)) else none   -- `&Iter{err: lastErr}`
              | .unknown => some .unknownRT
              | _ => some (.res (.err e))
      | some (.counted r) => some (.res r)
      | _ => none
  | _ => none

def initC (c0 hosts e : Nat) : MC := { m := init c0 hosts e }

/-- The first execution that returns while `executeQuery` is still waiting delivers the
    result; `callerCancel` before that makes `executeQuery` return `ctx.Err()`. -/
def stepC (pol : Option Policy) (c : MC) : ActC → MC
  | .callerCancel =>
      { c with callerDone := true, execDone := true, result := c.result <|> some (.res .logical) }
  | .execCancel => if c.result.isSome then { c with execDone := true } else c
  | .ex a =>
      if c.attDone then { c with m := step pol c.m (deaden a) }
      else match a with
        | .abort _ => c      -- no attempt fails on a context that is live
        | a => { c with m := step pol c.m a,
                        result := if c.execDone then c.result else (c.result <|> returned pol c.m a) }

def runC (pol : Option Policy) (c : MC) (sched : List ActC) : MC :=
  sched.foldl (stepC pol) c

/-! ### the statement's consistency level, written by `rt.Attempt` (DowngradingConsistencyRetryPolicy) from
    whichever execution takes a retry decision and read by whichever execution builds the next request frame -/

structure MK where
  c : MC
  cons : Nat                   -- `qry.GetConsistency()` now
  reqCons : List Nat := []     -- the consistency each request sent so far carried, most recent first
deriving DecidableEq, Repr

/-- the execution whose retry decision (`rt.Attempt` is part of it) the step `a` takes, if any: on a live context
    only `decide`; on a context that is done every step of an execution is its (dead) continuation -/
def deciding (attDone : Bool) : ActC → Option Nat
  | .ex (.decide i) => some i
  | .ex (.launch i) => if attDone then some i else none
  | .ex (.abort i) => if attDone then some i else none
  | _ => none

/-- the consistency after the step: `Attempt` answering true with `Attempts() = cnt` sets `newCons cnt` -/
def consAfter (pol : Option Policy) (k : MK) (a : ActC) : Nat :=
  match deciding (k.c.attDone) a, pol with
  | some i, some p =>
      match k.c.m.exs[i]? with
      | some (.counted (.err _)) => if p.attempt k.c.m.cnt then (p.newCons k.c.m.cnt).getD k.cons else k.cons
      | _ => k.cons
  | _, _ => k.cons

def stepK (pol : Option Policy) (k : MK) (a : ActC) : MK :=
  let c' := stepC pol k.c a
  let cons' := consAfter pol k a
  { c := c', cons := cons', reqCons := if c'.m.sent > k.c.m.sent then cons' :: k.reqCons else k.reqCons }

def initK (c0 hosts e cons : Nat) : MK := { c := initC c0 hosts e, cons := cons }

def runK (pol : Option Policy) (k : MK) (sched : List ActC) : MK := sched.foldl (stepK pol) k

end ExecutorConc
