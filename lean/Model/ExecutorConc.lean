import Model.Executor
/-
  Speculative execution as an interleaving machine (query_executor.go `executeQuery`, `speculate`, `run`, `do`):
  up to E executions of the SAME statement run `do` concurrently. They share
    * the statement's attempt counter (`queryMetrics.totalAttempts`, incremented by `qry.attempt` after every
      attempt, read by `rt.Attempt(qry)` some time later — the two are not atomic), and
    * the host iterator (mutex-wrapped `NextHost`: every usable host is handed out once, to whichever execution
      asks first).
  Every micro-step of one execution is an action; a schedule is any list of actions.
-/
namespace ExecutorConc
open Executor

/-- where one execution (`queryExecutor.run` → `do`) stands -/
inductive Ex where
  | idle                  -- not launched (the ticker has not fired for it / never will)
  | inflight              -- inside `attemptQuery`: a request has been handed to a connection
  | counted (r : Res)     -- `qry.attempt` has incremented the shared counter; `rt.Attempt` not yet evaluated
  | done                  -- `do` has returned
deriving DecidableEq, Repr

structure M where
  cnt : Nat               -- the shared attempt counter `qry.Attempts()`
  sent : Nat              -- requests handed to connections so far (all executions)
  left : Nat              -- usable hosts the shared iterator will still hand out
  exs : List Ex
  unsent : Nat := 0       -- attempts that found the executions' context cancelled: counted, nothing written
  log : List Nat := []    -- the number each attempt was given (`queryMetrics.attempt` returns the counter's
                          -- previous value: ObservedQuery.Attempt / ObservedBatch.Attempt), most recent first
deriving DecidableEq, Repr

inductive Act where
  | launch (i : Nat)                -- `go q.run(...)` for execution i reaches its first `hostIter()`
  | complete (i : Nat) (r : Res)    -- the attempt of execution i ends with result r; `qry.attempt`: counter += 1
  | decide (i : Nat)                -- execution i evaluates `rt.Attempt(qry)` (reading the counter as it is NOW) and `GetRetryType`
  | abort (i : Nat)                 -- like `launch` / `decide`, but the context of the executions has been cancelled
                                    -- meanwhile (another execution delivered the result): the attempt execution i goes
                                    -- on to make returns `ctx.Err()` from `Conn.exec` before anything is written — it is
                                    -- still counted by `qry.attempt` — and ends the execution
deriving DecidableEq, Repr

def init (c0 hosts e : Nat) : M := { cnt := c0, sent := 0, left := hosts, exs := List.replicate e .idle }

/-- `qry.attempt`: `queryMetrics.attempt` under ONE lock hands out the counter's value and increments it -/
def M.count (m : M) : M := { m with cnt := m.cnt + 1, log := m.cnt :: m.log }

/-- take the next usable host from the shared iterator and send, or finish when it is exhausted -/
def M.sendNext (m : M) (i : Nat) : M :=
  if m.left = 0 then { m with exs := m.exs.set i .done }
  else { m with sent := m.sent + 1, left := m.left - 1, exs := m.exs.set i .inflight }

/-- an attempt on a cancelled context: counted, not sent, the execution returns (a logical error) -/
def M.deadAttempt (m : M) (i : Nat) : M :=
  { m.count with unsent := m.unsent + 1, exs := m.exs.set i .done }

/-- the same after `hostIter()`: it ends the execution without an attempt when the iterator is exhausted -/
def M.deadNext (m : M) (i : Nat) : M :=
  if m.left = 0 then { m with exs := m.exs.set i .done }
  else { m.deadAttempt i with left := m.left - 1 }

def step (pol : Option Policy) (m : M) : Act → M
  | .launch i =>
      match m.exs[i]? with
      | some .idle => m.sendNext i
      | _ => m
  | .complete i r =>
      match m.exs[i]? with
      | some .inflight => { m.count with exs := m.exs.set i (.counted r) }
      | _ => m
  | .decide i =>
      match m.exs[i]? with
      | some (.counted (.err e)) =>
          match pol with
          | none => { m with exs := m.exs.set i .done }
          | some p =>
            if !p.attempt m.cnt then { m with exs := m.exs.set i .done }
            else match p.rtype e with
              | .retry => { m with sent := m.sent + 1, exs := m.exs.set i .inflight }
              | .nextHost => m.sendNext i
              | _ => { m with exs := m.exs.set i .done }
      | some (.counted _) => { m with exs := m.exs.set i .done }
      | _ => m
  | .abort i =>
      match m.exs[i]? with
      | some .idle => m.deadNext i
      | some (.counted (.err e)) =>
          match pol with
          | none => { m with exs := m.exs.set i .done }
          | some p =>
            if !p.attempt m.cnt then { m with exs := m.exs.set i .done }
            else match p.rtype e with
              | .retry => m.deadAttempt i
              | .nextHost => m.deadNext i
              | _ => { m with exs := m.exs.set i .done }
      | some (.counted _) => { m with exs := m.exs.set i .done }
      | _ => m

def run (pol : Option Policy) (m : M) (sched : List Act) : M := sched.foldl (step pol) m

/-- executions launched so far -/
def started : List Ex → Nat
  | [] => 0
  | .idle :: l => started l
  | _ :: l => started l + 1

/-- no attempt is in flight (in particular: every execution has returned) -/
def quiet (l : List Ex) : Bool := l.all fun x => x != .inflight

/-- what a retry policy of the form `Attempts() ≤ lim` allows E concurrent executions in total: each execution's
    first attempt is unconditional, and each of the first `lim` completed attempts can license one more -/
def budget (lim e : Nat) : Nat := lim + e

end ExecutorConc
