/-
  Call objects (`callReq`: response channel, timeout channel, timer) as entities of their own, several connections of one
  process (C01, round 8).

  /repo/conn.go:  exec:            call := &callReq{...}                    -- a FRESH object per request (policy `never`)
                                   c.calls[stream] = call
                  closeWithError:  callsToClose = c.calls; c.calls = nil    -- a snapshot of POINTERS to call objects
                                   for _, req := range callsToClose { select { req.resp <- err | <-req.timeout } }
                  recv:            call := c.calls[id]; delete; call.resp <- response
                  exec, nothing-written exit: if !c.closed { delete(c.calls, id) }; releaseStream

  closeWithError sends the connection's error to WHOEVER READS THE CHANNEL of the object it holds a pointer to. With a
  fresh object per request that is the request that registered it. A pool of call objects changes this: `Policy` selects
  the code that exists (`never` put back), a safe recycling discipline (`whenUnreferenced`: an object goes back to the pool
  only when no `c.calls` map and no closeWithError snapshot refers to it) and the unsafe one of seeded change C01-7
  (`onRelease`: put back whenever the stream is released - also by a request that leaves a CLOSING connection early while
  the snapshot still holds its object).
-/
namespace MuxPool

inductive Policy where
  | never | whenUnreferenced | onRelease
deriving DecidableEq, Repr

inductive Out where
  | own                    -- the response the peer sent for this request
  | connErr (k : Nat)      -- the error connection k was closed with
  | ctx
deriving DecidableEq, Repr

inductive Pc where
  | idle
  | waiting (k o : Nat)    -- on connection k, reading the channel of object o
  | done (r : Out)
deriving DecidableEq, Repr

structure St where
  pc : Nat → Pc
  conn : Nat → Nat             -- ghost: the connection request r was started on
  user : Nat → Option Nat      -- the request that reads the channel of object o
  fresh : Nat → Bool           -- object o has not been allocated yet
  pool : Nat → Bool            -- object o is in the pool
  inCalls : Nat → Option Nat   -- the connection whose c.calls holds object o
  inWalk : Nat → Option Nat    -- the connection whose closeWithError snapshot still holds object o
  closed : Nat → Bool

inductive Act where
  | start (r k o : Nat)        -- exec on connection k with object o (newly allocated, or taken from the pool)
  | respond (r : Nat)          -- recv hands request r its own response; r releases its stream
  | leave (r : Nat)            -- r leaves exec through the nothing-written exit
  | close (k : Nat)            -- closeWithError(k): closed, snapshot taken
  | visit (k o : Nat)          -- closeWithError(k) gets to object o of its snapshot
deriving Repr

def upd {α} (f : Nat → α) (k : Nat) (v : α) : Nat → α := fun x => if x = k then v else f x

def init : St :=
  { pc := fun _ => .idle, conn := fun _ => 0, user := fun _ => none, fresh := fun _ => true, pool := fun _ => false,
    inCalls := fun _ => none, inWalk := fun _ => none, closed := fun _ => false }

/-- releaseStream's last line under the three policies -/
def putBack (p : Policy) (st : St) (o : Nat) : St :=
  match p with
  | .never => st
  | .onRelease => { st with pool := upd st.pool o true }
  | .whenUnreferenced => if st.inCalls o = none ∧ st.inWalk o = none then { st with pool := upd st.pool o true } else st

def step (p : Policy) (st : St) : Act → Option St
  | .start r k o =>
      if st.pc r = .idle ∧ st.closed k = false ∧ (st.fresh o = true ∨ st.pool o = true) then
        some { st with pc := upd st.pc r (.waiting k o), conn := upd st.conn r k, user := upd st.user o (some r),
                       fresh := upd st.fresh o false, pool := upd st.pool o false, inCalls := upd st.inCalls o (some k) }
      else none
  | .respond r =>
      match st.pc r with
      | .waiting k o =>
          if st.inCalls o = some k ∧ st.closed k = false then
            some (putBack p { st with pc := upd st.pc r (.done .own), user := upd st.user o none,
                                      inCalls := upd st.inCalls o none } o)
          else none
      | _ => none
  | .leave r =>
      match st.pc r with
      | .waiting k o =>
          some (putBack p { st with pc := upd st.pc r (.done .ctx), user := upd st.user o none,
                                    inCalls := if st.closed k = false then upd st.inCalls o none else st.inCalls } o)
      | _ => none
  | .close k =>
      if st.closed k = false then
        some { st with closed := upd st.closed k true,
                       inWalk := fun o => if st.inCalls o = some k then some k else st.inWalk o,
                       inCalls := fun o => if st.inCalls o = some k then none else st.inCalls o }
      else none
  | .visit k o =>
      if st.inWalk o = some k then
        match st.user o with
        | some r =>
            (match st.pc r with
             | .waiting k' _ =>
                 -- whoever reads the channel gets connection k's error; exec releases the stream unless ITS connection is closed
                 some (if st.closed k' = false then
                         putBack p { st with inWalk := upd st.inWalk o none, pc := upd st.pc r (.done (.connErr k)),
                                             user := upd st.user o none } o
                       else { st with inWalk := upd st.inWalk o none, pc := upd st.pc r (.done (.connErr k)),
                                      user := upd st.user o none })
             | _ => some { st with inWalk := upd st.inWalk o none })
        | none => some { st with inWalk := upd st.inWalk o none }        -- the timeout channel is closed: nobody reads
      else none

def run (p : Policy) : St → List Act → Option St
  | s, [] => some s
  | s, a :: as => match step p s a with
    | some s' => run p s' as
    | none => none

end MuxPool
