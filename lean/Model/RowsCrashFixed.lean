import Model.RowsCrash
/-! Row iteration WITH props/C05.fix-4.diff (readBytesInternal), fix-5 (scanColumn) and the
marshal.go readBytes fix applied: the definitions of Model/RowsCrash.lean at `fx := true`. -/
namespace RowsCrashFixed
open FrameCrash RowsCrash
def iterate (proto flags : Nat) (body : Bytes) : Option ROut := RowsCrash.iterate true proto flags body
end RowsCrashFixed
