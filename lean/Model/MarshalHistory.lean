/-
C02 — a PROCESS that performs a sequence of Marshal / Unmarshal round trips (op `hseq`).

The model of gocql's Marshal / Unmarshal (Model/Marshal.lean, Model/MarshalDecode.lean) is a function of the call's own
arguments: protocol version, column type, the Go value — whose description `GoVal` carries the LAYOUT of every struct
(its cql tags in field order, `udtstruct names vs`), not the identity or the name of the Go type — and the Go type of
the destination.  A process is modelled with an explicit state, the history of the calls made so far (everything a
cache inside Marshal / Unmarshal could have remembered); `procStep` answers a call from its arguments and appends it
to the history.  Proofs/C02.lean proves that the answers of a sequence do not depend on the history
(`C02_marshal_history_independent`) and that the encoding of a UDT struct depends on the tag → value association only,
not on the order of the Go fields (`C02_udt_layout_independent`).
Core Lean only.
-/
import Model.MarshalCross
namespace Marshal
open ValueSpec (CqlTy Bytes)

structure Call where
  p : Nat
  t : CqlTy
  g : GoVal
  ty : GoTy

/-- the answer to one call: the encoding, and (when there is one) the value decoded from it into `ty` -/
structure CallAns where
  enc : MRes
  dec : Option URes
deriving Repr, BEq

def callModel (c : Call) : CallAns :=
  match marshal c.p c.t c.g with
  | .ok data => ⟨.ok data, some (unmarshal c.p c.t c.ty data)⟩
  | other => ⟨other, none⟩

/-- the state of the process: the calls made so far -/
abbrev Hist := List Call

def procStep (h : Hist) (c : Call) : Hist × CallAns := (h ++ [c], callModel c)

/-- run a sequence from state `h`: the answers, in order -/
def procRun : Hist → List Call → List CallAns
  | _, [] => []
  | h, c :: cs => (procStep h c).2 :: procRun (procStep h c).1 cs

end Marshal
