import Model.Compress
/-
  conn.go Conn.exec, the SEND half (C18: compressor errors on the send path):

      stream := c.streams.GetStream();  framer := newFramer(c.compressor, c.version)
      c.addCall(call)                                  -- c.calls[stream] = call
      err := req.buildFrame(framer, stream)            -- the one Encode call is in here (finish)
      if err != nil { delete(c.calls, stream); c.releaseStream(call); return nil, err }   -- nothing written
      c.w.writeContext(ctx, framer.buf)                -- the whole frame
      … wait for the response on call.resp; releaseStream

  State: the streams that have a call registered and the frames written so far, in order. The write
  itself, timeouts and a closing connection are C01/C06/C07's subject; here the writer accepts every
  frame.
-/
namespace Compress

structure SendSt where
  calls : List Int
  wire  : List Bytes

def SendSt.init : SendSt := { calls := [], wire := [] }

inductive SendRes
  | sent (w : Bytes)
  | failed (e : Err)

/-- one call of Conn.exec up to and including the write -/
def execSend (f : Framer) (st : SendSt) (r : Req) (s : Int) (body : Bytes) : SendSt × SendRes :=
  match f.buildReq r s body with
  | .error e => (st, .failed e)
  | .ok w => ({ calls := s :: st.calls, wire := st.wire ++ [w] }, .sent w)

/-- the response for stream `s` arrived and the caller took it: `releaseStream` -/
def respond (st : SendSt) (s : Int) : SendSt := { st with calls := st.calls.erase s }

inductive SendOp
  | req (r : Req) (s : Int) (body : Bytes)
  | resp (s : Int)

def sendStep (f : Framer) (st : SendSt) : SendOp → SendSt
  | .req r s body => (execSend f st r s body).1
  | .resp s => respond st s

def runSend (f : Framer) (ops : List SendOp) : SendSt := ops.foldl (sendStep f) SendSt.init

/-- the frame a request contributes to the wire: its finished frame, or nothing when the build failed -/
def SendOp.frame (f : Framer) : SendOp → Option Bytes
  | .req r s body => (f.buildReq r s body).toOption
  | .resp _ => none

end Compress
