/-
C04 — SPECIFICATION side of Iter.RowData / MapScan / SliceMap: which CQL types have a Go value type
in gocql's documented type mapping (README "Data types" / doc.go), and the names RowData gives to
the destinations. Written on the logical type descriptors (`RespSpec.TypeDesc`), independently of
the model's `Rows.goType` (which works on the parsed `TypeInfo`); `Proofs/C04Maps.lean` proves that
the model agrees (`goType_view`, `rowDataColumns_view`).

  * ascii .. duration (option ids 0x0001 .. 0x0015) have a Go type; a custom option has the type of
    the native type its class name stands for (`customType`), none for an unknown class
  * list<e> / set<e>: `[]E`; map<k, v>: `map[K]V`, which exists only when K is comparable in Go:
    not a blob (`[]byte`), not a collection / tuple (slices), not a UDT (a map)
  * tuple: `[]interface{}` (as a nested type); a tuple COLUMN expands to one destination per element
  * UDT: `map[string]interface{}`
  * a type without a Go type is an ERROR of RowData (never a panic): MapScan / SliceMap then have no
    destinations to scan into.
Core Lean only.
-/
import Model.RespSpec
import Model.Rows
namespace RespSpec

/-- ascii (0x01) .. duration (0x15) -/
def goNative (id : Nat) : Bool := 1 ≤ id && id ≤ 0x15

/-- is the Go type of a map key usable as a Go map key? -/
def comparableKey : TypeDesc → Bool
  | .native id => id != 0x03
  | .custom cls => customType cls != 0x03
  | _ => false

/-- the type has a Go value type -/
def hasGoType : TypeDesc → Bool
  | .native id => goNative id
  | .custom cls => goNative (customType cls)
  | .list e => hasGoType e
  | .set e => hasGoType e
  | .map k v => hasGoType k && hasGoType v && comparableKey k
  | .udt _ _ _ => true
  | .tuple _ => true

def TypeDescs.toList : TypeDescs → List TypeDesc
  | .nil => []
  | .cons t r => t :: r.toList

/-- a column has Go destinations: every element of a tuple column, the type itself otherwise -/
def colHasGoType : TypeDesc → Bool
  | .tuple es => es.toList.all hasGoType
  | t => hasGoType t

/-- the RowData names of a column: `name` or, for a tuple column, `name[0]`, `name[1]`, ...
    (gocql.TupleColumnName) -/
def colNames (name : Bytes) : TypeDesc → List Bytes
  | .tuple es => (List.range es.length).map (Rows.tupleColumnName name)
  | _ => [name]

/-- (name, type) of the columns -/
def namedCols : Cols → List (Bytes × TypeDesc)
  | .omitted _ _ => []
  | .global _ _ cs => cs
  | .perCol cs => cs.map (fun c => (c.name, c.typ))

/-- Iter.RowData's column names; `none`: some column has no Go type (RowData returns an error) -/
def rowDataSpec (c : Cols) : Option (List Bytes) :=
  if (namedCols c).all (fun nt => colHasGoType nt.2) then
    some ((namedCols c).flatMap (fun nt => colNames nt.1 nt.2))
  else none

end RespSpec
