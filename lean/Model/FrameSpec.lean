/-
C03 — SPECIFICATION side: the logical request, and an independent DECODER of request frames
written from the CQL native protocol documents (v1..v5; "v5" is the beta subset gocql speaks:
legacy framing, beta flag 0x10, 4-byte query/prepare/batch flags, per-request keyspace) only.
Nothing in this file refers to the encoder model (Model/FrameWrite.lean). Core Lean only.
-/
namespace FrameSpec

abbrev Bytes := List UInt8

/-- a bound value: `[bytes]` with n = -1 null, n = -2 "not set" (v4+) -/
inductive Val
  | null
  | unset
  | bytes (b : Bytes)
deriving DecidableEq, Repr

structure NVal where
  name : Option Bytes
  val : Val
deriving DecidableEq, Repr

/-- `<query_parameters>` -/
structure QParams where
  cons : Nat
  skipMeta : Bool
  values : List NVal
  pageSize : Option Int
  pagingState : Option Bytes
  serialCons : Option Nat
  timestamp : Option Int
  keyspace : Option Bytes
deriving DecidableEq, Repr

inductive BStmt
  | query (stmt : Bytes) (vals : List NVal)
  | prepared (id : Bytes) (vals : List NVal)
deriving DecidableEq, Repr

abbrev Payload := List (Bytes × Option Bytes)

inductive Req
  | startup (opts : List (Bytes × Bytes))
  | options
  | authResponse (tok : Option Bytes)
  | register (events : List Bytes)
  | query (stmt : Bytes) (p : QParams) (payload : Payload)
  | prepare (stmt : Bytes) (keyspace : Option Bytes) (payload : Payload)
  | execute (id : Bytes) (p : QParams) (payload : Payload)
  | batch (typ : Nat) (stmts : List BStmt) (cons : Nat) (serial : Option Nat) (ts : Option Int)
      (keyspace : Option Bytes) (payload : Payload)
deriving DecidableEq, Repr

/-! ## notation of the protocol documents, section 3 -/

def rdByte : Bytes → Option (Nat × Bytes)
  | b :: r => some (b.toNat, r)
  | [] => none

/-- `[short]`: 2 bytes unsigned big endian -/
def rdShort : Bytes → Option (Nat × Bytes)
  | a :: b :: r => some (a.toNat * 256 + b.toNat, r)
  | _ => none

def rdUInt : Bytes → Option (Nat × Bytes)
  | a :: b :: c :: d :: r => some (((a.toNat * 256 + b.toNat) * 256 + c.toNat) * 256 + d.toNat, r)
  | _ => none

/-- `[int]`: 4 bytes signed big endian -/
def rdInt (bs : Bytes) : Option (Int × Bytes) :=
  match rdUInt bs with
  | some (n, r) => some (if n < 2147483648 then (n : Int) else (n : Int) - 4294967296, r)
  | none => none

/-- `[long]`: 8 bytes signed big endian -/
def rdLong (bs : Bytes) : Option (Int × Bytes) :=
  match rdUInt bs with
  | some (hi, r) =>
    match rdUInt r with
    | some (lo, r') =>
      let n := hi * 4294967296 + lo
      some (if n < 9223372036854775808 then (n : Int) else (n : Int) - 18446744073709551616, r')
    | none => none
  | none => none

/-- exactly n bytes must be available -/
def takeN (n : Nat) (bs : Bytes) : Option (Bytes × Bytes) :=
  let t := bs.take n
  if t.length = n then some (t, bs.drop n) else none

/-- `[string]` / `[short bytes]`: a `[short]` n followed by n bytes -/
def rdString (bs : Bytes) : Option (Bytes × Bytes) :=
  match rdShort bs with
  | some (n, r) => takeN n r
  | none => none

/-- `[long string]`: an `[int]` n ≥ 0 followed by n bytes -/
def rdLongString (bs : Bytes) : Option (Bytes × Bytes) :=
  match rdInt bs with
  | some (n, r) => if n < 0 then none else takeN n.toNat r
  | none => none

/-- `[bytes]`: an `[int]` n followed by n bytes if n ≥ 0; n < 0 is null -/
def rdBytes (bs : Bytes) : Option (Option Bytes × Bytes) :=
  match rdInt bs with
  | some (n, r) =>
    if n < 0 then some (none, r)
    else match takeN n.toNat r with
      | some (b, r') => some (some b, r')
      | none => none
  | none => none

/-- `[value]` (v4+): n = -1 null, n = -2 not set, n < -2 invalid.
    v1..v3 only know `[bytes]`: every n < 0 is null. -/
def rdValue (v : Nat) (bs : Bytes) : Option (Val × Bytes) :=
  match rdInt bs with
  | some (n, r) =>
    if n < 0 then
      if v < 4 then some (Val.null, r)
      else if n = -1 then some (Val.null, r)
      else if n = -2 then some (Val.unset, r)
      else none
    else match takeN n.toNat r with
      | some (b, r') => some (Val.bytes b, r')
      | none => none
  | none => none

/-- n items, each read by `rd` -/
def rdList {α : Type} (rd : Bytes → Option (α × Bytes)) : Nat → Bytes → Option (List α × Bytes)
  | 0, bs => some ([], bs)
  | n + 1, bs =>
    match rd bs with
    | some (x, r) =>
      match rdList rd n r with
      | some (xs, r') => some (x :: xs, r')
      | none => none
    | none => none

/-- a `[short]` n followed by n items -/
def rdCounted {α : Type} (rd : Bytes → Option (α × Bytes)) (bs : Bytes) : Option (List α × Bytes) :=
  match rdShort bs with
  | some (n, r) => rdList rd n r
  | none => none

def rdPair {α β : Type} (ra : Bytes → Option (α × Bytes)) (rb : Bytes → Option (β × Bytes))
    (bs : Bytes) : Option ((α × β) × Bytes) :=
  match ra bs with
  | some (a, r) =>
    match rb r with
    | some (b, r') => some ((a, b), r')
    | none => none
  | none => none

/-- `[string list]` -/
def rdStringList : Bytes → Option (List Bytes × Bytes) := rdCounted rdString
/-- `[string map]` -/
def rdStringMap : Bytes → Option (List (Bytes × Bytes) × Bytes) := rdCounted (rdPair rdString rdString)
/-- `[bytes map]` -/
def rdBytesMap : Bytes → Option (Payload × Bytes) := rdCounted (rdPair rdString rdBytes)

/-- one bound value, preceded by its name when the names flag is set -/
def rdNVal (v : Nat) (names : Bool) (bs : Bytes) : Option (NVal × Bytes) :=
  if names then
    match rdString bs with
    | some (nm, r) =>
      match rdValue v r with
      | some (x, r') => some (⟨some nm, x⟩, r')
      | none => none
    | none => none
  else
    match rdValue v bs with
    | some (x, r') => some (⟨none, x⟩, r')
    | none => none

/-- bit k of a flags word -/
def bit (fl k : Nat) : Bool := fl / 2 ^ k % 2 = 1

/-- an optional field present iff `c` -/
def rdOpt {α : Type} (c : Bool) (rd : Bytes → Option (α × Bytes)) (bs : Bytes) : Option (Option α × Bytes) :=
  if c then
    match rd bs with
    | some (x, r) => some (some x, r)
    | none => none
  else some (none, bs)

/-- flags of `<query_parameters>` / BATCH / PREPARE: `[byte]` up to v4, `[int]` in v5 -/
def rdFlags (v : Nat) (bs : Bytes) : Option (Nat × Bytes) :=
  if v ≥ 5 then rdUInt bs else rdByte bs

/-- `<query_parameters>` of QUERY and EXECUTE, v2+:
    `<consistency><flags>[<n>[name_1]<value_1>...][<result_page_size>][<paging_state>]
     [<serial_consistency>][<timestamp>][<keyspace>]`
    0x01 values, 0x02 skip_metadata, 0x04 page_size, 0x08 with_paging_state,
    0x10 with_serial_consistency, 0x20 with_default_timestamp (v3+),
    0x40 with_names_for_values (v3+), 0x80 with_keyspace (v5). -/
def rdQueryParams (v : Nat) (bs : Bytes) : Option (QParams × Bytes) :=
  match rdShort bs with
  | none => none
  | some (cons, r) =>
  match rdFlags v r with
  | none => none
  | some (fl, r) =>
  if fl ≥ 256 then none else
  if v < 3 ∧ (bit fl 5 ∨ bit fl 6) then none else
  if v < 5 ∧ bit fl 7 then none else
  if bit fl 6 ∧ ¬ bit fl 0 then none else
  match (if bit fl 0 then rdCounted (rdNVal v (bit fl 6)) r else some ([], r)) with
  | none => none
  | some (vals, r) =>
  match rdOpt (bit fl 2) rdInt r with
  | none => none
  | some (ps, r) =>
  match rdOpt (bit fl 3) rdBytes r with
  | none => none
  | some (pst, r) =>
  match rdOpt (bit fl 4) rdShort r with
  | none => none
  | some (ser, r) =>
  match rdOpt (bit fl 5) rdLong r with
  | none => none
  | some (ts, r) =>
  match rdOpt (bit fl 7) rdString r with
  | none => none
  | some (ks, r) =>
    match pst with
    | some none => none      -- a paging state is an opaque non-null [bytes]
    | some (some p) => some (⟨cons, bit fl 1, vals, ps, some p, ser, ts, ks⟩, r)
    | none => some (⟨cons, bit fl 1, vals, ps, none, ser, ts, ks⟩, r)

def noParams (cons : Nat) (vals : List NVal) : QParams :=
  ⟨cons, false, vals, none, none, none, none, none⟩

/-- one BATCH entry: `<kind byte><string_or_id><n>[<name_i>]<value_i>...`
    (names in batches: flag 0x40, "broken, do not use" — CASSANDRA-10246; this decoder never sets it) -/
def rdBStmt (v : Nat) (bs : Bytes) : Option (BStmt × Bytes) :=
  match rdByte bs with
  | none => none
  | some (k, r) =>
    if k = 0 then
      match rdLongString r with
      | none => none
      | some (s, r) =>
        match rdCounted (rdNVal v false) r with
        | none => none
        | some (vals, r) => some (BStmt.query s vals, r)
    else if k = 1 then
      match rdString r with
      | none => none
      | some (id, r) =>
        match rdCounted (rdNVal v false) r with
        | none => none
        | some (vals, r) => some (BStmt.prepared id vals, r)
    else none

/-- body of each request message; `pl` is the already decoded custom payload -/
def rdBody (v op : Nat) (pl : Payload) (bs : Bytes) : Option (Req × Bytes) :=
  if op = 0x01 then
    match rdStringMap bs with
    | some (m, r) => some (Req.startup m, r)
    | none => none
  else if op = 0x05 then some (Req.options, bs)
  else if op = 0x0F then
    if v < 2 then none else
    match rdBytes bs with
    | some (t, r) => some (Req.authResponse t, r)
    | none => none
  else if op = 0x0B then
    match rdStringList bs with
    | some (l, r) => some (Req.register l, r)
    | none => none
  else if op = 0x07 then
    match rdLongString bs with
    | none => none
    | some (stmt, r) =>
      if v = 1 then
        match rdShort r with
        | some (cons, r) => some (Req.query stmt (noParams cons []) pl, r)
        | none => none
      else
        match rdQueryParams v r with
        | some (p, r) => some (Req.query stmt p pl, r)
        | none => none
  else if op = 0x09 then
    match rdLongString bs with
    | none => none
    | some (stmt, r) =>
      if v < 5 then some (Req.prepare stmt none pl, r)
      else
        match rdUInt r with
        | none => none
        | some (fl, r) =>
          if fl ≥ 2 then none else
          match rdOpt (bit fl 0) rdString r with
          | some (ks, r) => some (Req.prepare stmt ks pl, r)
          | none => none
  else if op = 0x0A then
    match rdString bs with
    | none => none
    | some (id, r) =>
      if v = 1 then
        -- v1: <id><n><value_1>....<value_n><consistency>
        match rdCounted (rdNVal v false) r with
        | none => none
        | some (vals, r) =>
          match rdShort r with
          | some (cons, r) => some (Req.execute id (noParams cons vals) pl, r)
          | none => none
      else
        match rdQueryParams v r with
        | some (p, r) => some (Req.execute id p pl, r)
        | none => none
  else if op = 0x0D then
    if v < 2 then none else
    match rdByte bs with
    | none => none
    | some (typ, r) =>
    match rdCounted (rdBStmt v) r with
    | none => none
    | some (stmts, r) =>
    match rdShort r with
    | none => none
    | some (cons, r) =>
      if v = 2 then some (Req.batch typ stmts cons none none none pl, r)
      else
        match rdFlags v r with
        | none => none
        | some (fl, r) =>
        -- 0x10 serial consistency, 0x20 default timestamp, 0x80 keyspace (v5); 0x40 (names) unusable
        if fl ≥ 256 ∨ bit fl 0 ∨ bit fl 1 ∨ bit fl 2 ∨ bit fl 3 ∨ bit fl 6 then none else
        if v < 5 ∧ bit fl 7 then none else
        match rdOpt (bit fl 4) rdShort r with
        | none => none
        | some (ser, r) =>
        match rdOpt (bit fl 5) rdLong r with
        | none => none
        | some (ts, r) =>
        match rdOpt (bit fl 7) rdString r with
        | none => none
        | some (ks, r) => some (Req.batch typ stmts cons ser ts ks pl, r)
  else none

structure Decoded where
  version : Nat
  tracing : Bool
  stream : Int
  req : Req
  rest : Bytes
deriving DecidableEq, Repr

/-- signed stream id: 1 byte in v1/v2, 2 bytes from v3 -/
def rdStream (v : Nat) (bs : Bytes) : Option (Int × Bytes) :=
  if v ≤ 2 then
    match rdByte bs with
    | some (n, r) => some (if n < 128 then (n : Int) else (n : Int) - 256, r)
    | none => none
  else
    match rdShort bs with
    | some (n, r) => some (if n < 32768 then (n : Int) else (n : Int) - 65536, r)
    | none => none

def payloadOp (op : Nat) : Bool := op = 0x07 ∨ op = 0x09 ∨ op = 0x0A ∨ op = 0x0D

/-- The body of a frame whose header has been read. Header flags: 0x01 compression (not
    decoded here: C18), 0x02 tracing, 0x04 custom payload (v4+, QUERY/PREPARE/EXECUTE/BATCH;
    the body then starts with a `[bytes map]`), 0x08 warning (responses only), 0x10 beta (exactly
    for the beta version 5). The body parser must consume the body exactly. -/
def decodeBody (v fl : Nat) (stream : Int) (op : Nat) (body rest : Bytes) : Option Decoded :=
  if fl ≥ 32 ∨ bit fl 0 ∨ bit fl 3 then none else
  if bit fl 4 ≠ decide (v = 5) then none else
  if bit fl 2 ∧ (v < 4 ∨ ¬ payloadOp op) then none else
  match rdOpt (bit fl 2) rdBytesMap body with
  | none => none
  | some (pl, body') =>
  match rdBody v op (pl.getD []) body' with
  | some (req, []) => some ⟨v, bit fl 1, stream, req, rest⟩
  | _ => none

/-- Frame: `<version><flags><stream><opcode><length int><body>`.
    Request direction bit (0x80) clear, version 1..5; `length` bytes of body follow,
    whatever comes after them is returned as `rest`. -/
def decodeReq (bs : Bytes) : Option Decoded :=
  match rdByte bs with
  | none => none
  | some (v, r) =>
  if v < 1 ∨ v > 5 then none else
  match rdByte r with
  | none => none
  | some (fl, r) =>
  match rdStream v r with
  | none => none
  | some (stream, r) =>
  match rdByte r with
  | none => none
  | some (op, r) =>
  match rdInt r with
  | none => none
  | some (len, r) =>
  if len < 0 then none else
  match takeN len.toNat r with
  | none => none
  | some (body, rest) => decodeBody v fl stream op body rest

/-- The same with compression negotiated on the connection (`dec` = the algorithm's decompression, may
    fail): header flag 0x01 says the `length` bytes after the header are the compressed form of the body
    (everything after the header: custom payload and message); STARTUP and OPTIONS are never compressed
    (they precede / establish the negotiation). A frame without the flag is read as it is. -/
def decodeReqC (dec : Bytes → Option Bytes) (bs : Bytes) : Option Decoded :=
  match rdByte bs with
  | none => none
  | some (v, r) =>
  if v < 1 ∨ v > 5 then none else
  match rdByte r with
  | none => none
  | some (fl, r) =>
  match rdStream v r with
  | none => none
  | some (stream, r) =>
  match rdByte r with
  | none => none
  | some (op, r) =>
  match rdInt r with
  | none => none
  | some (len, r) =>
  if len < 0 then none else
  match takeN len.toNat r with
  | none => none
  | some (body, rest) =>
    if bit fl 0 then
      if op = 0x01 ∨ op = 0x05 then none else
      match dec body with
      | none => none
      | some plain => decodeBody v (fl - 1) stream op plain rest
    else decodeBody v fl stream op body rest

/-! ## which logical requests a protocol version can carry -/

def fitsShort (b : Bytes) : Bool := b.length ≤ 65535
def fitsInt (b : Bytes) : Bool := b.length < 2147483648

def Val.ok (v : Nat) : Val → Bool
  | Val.null => true
  | Val.unset => v ≥ 4
  | Val.bytes b => fitsInt b

def optAll {α : Type} (p : α → Bool) : Option α → Bool
  | none => true
  | some x => p x

def NVal.ok (v : Nat) (x : NVal) : Bool := optAll fitsShort x.name && x.val.ok v

/-- value list: at most 65535 values, names all-or-none, names only from v3 -/
def valuesOk (v : Nat) (allowNames : Bool) (l : List NVal) : Bool :=
  decide (l.length ≤ 65535) && l.all (NVal.ok v) &&
  (l.all (fun x => x.name.isNone) || (allowNames && decide (v ≥ 3) && l.all (fun x => x.name.isSome)))

def payloadOk (v : Nat) (pl : Payload) : Bool :=
  pl.isEmpty || (decide (v ≥ 4) && decide (pl.length ≤ 65535) &&
    pl.all (fun kv => fitsShort kv.1 && optAll fitsInt kv.2))

def isShort (n : Nat) : Bool := n < 65536
def isInt32 (z : Int) : Bool := -2147483648 ≤ z && z < 2147483648
def isInt64 (z : Int) : Bool := -9223372036854775808 ≤ z && z < 9223372036854775808

/-- v2+ `<query_parameters>` -/
def paramsOk (v : Nat) (p : QParams) : Bool :=
  isShort p.cons && valuesOk v true p.values && optAll isInt32 p.pageSize &&
  optAll fitsInt p.pagingState && optAll isShort p.serialCons &&
  (p.timestamp.isNone || (decide (v ≥ 3) && optAll isInt64 p.timestamp)) &&
  (p.keyspace.isNone || (decide (v ≥ 5) && optAll fitsShort p.keyspace))

/-- v1 has no flags: nothing but values (EXECUTE) and the consistency -/
def paramsOkV1 (p : QParams) (allowValues : Bool) : Bool :=
  isShort p.cons && !p.skipMeta && p.pageSize.isNone && p.pagingState.isNone && p.serialCons.isNone &&
  p.timestamp.isNone && p.keyspace.isNone &&
  (if allowValues then valuesOk 1 false p.values else p.values.isEmpty)

def BStmt.ok (v : Nat) : BStmt → Bool
  | BStmt.query s vals => fitsInt s && valuesOk v false vals
  | BStmt.prepared id vals => fitsShort id && valuesOk v false vals

def Expressible (v : Nat) : Req → Bool
  | Req.startup opts => decide (opts.length ≤ 65535) && opts.all (fun kv => fitsShort kv.1 && fitsShort kv.2)
  | Req.options => true
  | Req.authResponse t => decide (v ≥ 2) && optAll fitsInt t
  | Req.register l => decide (l.length ≤ 65535) && l.all fitsShort
  | Req.query s p pl => fitsInt s && payloadOk v pl && (if v = 1 then paramsOkV1 p false else paramsOk v p)
  | Req.prepare s ks pl => fitsInt s && payloadOk v pl && (ks.isNone || (decide (v ≥ 5) && optAll fitsShort ks))
  | Req.execute id p pl => fitsShort id && payloadOk v pl && (if v = 1 then paramsOkV1 p true else paramsOk v p)
  | Req.batch typ stmts cons ser ts ks pl =>
      decide (v ≥ 2) && decide (typ < 256) && decide (stmts.length ≤ 65535) && stmts.all (BStmt.ok v) &&
      isShort cons && payloadOk v pl &&
      (ser.isNone || (decide (v ≥ 3) && optAll isShort ser)) &&
      (ts.isNone || (decide (v ≥ 3) && optAll isInt64 ts)) &&
      (ks.isNone || (decide (v ≥ 5) && optAll fitsShort ks))

end FrameSpec
