/-
C03 — MODEL side: gocql's request frame builders (frame.go: writeHeader / finish / setLength,
the primitive writers, writeStartupFrame, writeOptionsFrame, writeAuthResponseFrame,
writeRegisterFrame, writeQueryFrame + writeQueryParams, writePrepareFrame, writeExecuteFrame,
writeBatchFrame), mirrored byte for byte on Go-shaped inputs — including Go's silent
truncations `uint16(len(x))`, `int32(len(x))`, `int32(pageSize)`, `byte(stream)`.
Compression is excluded (C18): the framer has no compressor, flagCompress is never set.
`ask` is the abstraction from the builder's Go struct to the logical request that was asked for.
-/
import Model.FrameSpec
namespace FrameWrite
open FrameSpec (Bytes Val NVal QParams BStmt Req Payload)

/-! ## primitive writers (frame.go:1939-2072) -/

def byteOf (n : Nat) : UInt8 := UInt8.ofNat n

/-- appendShort(uint16(n)): the conversion to uint16 truncates -/
def wShort (n : Nat) : Bytes := [byteOf (n / 256), byteOf n]

/-- appendUint(uint32(n)) -/
def wUInt (n : Nat) : Bytes := [byteOf (n / 16777216), byteOf (n / 65536), byteOf (n / 256), byteOf n]

/-- appendInt(int32(z)): two's complement, the conversion to int32 truncates -/
def wInt (z : Int) : Bytes := wUInt (z % 4294967296).toNat

/-- appendLong(int64(z)) -/
def wLong (z : Int) : Bytes :=
  let n := (z % 18446744073709551616).toNat
  wUInt (n / 4294967296) ++ wUInt n

/-- writeString / writeShortBytes: `uint16(len(s))` then the bytes (all of them) -/
def wString (s : Bytes) : Bytes := wShort s.length ++ s

/-- writeLongString: `int32(len(s))` then the bytes -/
def wLongString (s : Bytes) : Bytes := wInt s.length ++ s

/-- writeBytes: nil → -1 -/
def wBytes : Option Bytes → Bytes
  | none => wInt (-1)
  | some p => wInt p.length ++ p

def wStringList (l : List Bytes) : Bytes := wShort l.length ++ l.flatMap wString

/-- writeStringMap in the iteration order `m` of the Go map -/
def wStringMap (m : List (Bytes × Bytes)) : Bytes :=
  wShort m.length ++ m.flatMap (fun kv => wString kv.1 ++ wString kv.2)

def wBytesMap (m : List (Bytes × Option Bytes)) : Bytes :=
  wShort m.length ++ m.flatMap (fun kv => wString kv.1 ++ wBytes kv.2)

/-! ## Go-shaped inputs of the builders -/

/-- queryValues{value []byte (nil = null), name string, isUnset bool} -/
structure GVal where
  name : Bytes
  isUnset : Bool
  value : Option Bytes
deriving DecidableEq, Repr

/-- queryParams -/
structure GParams where
  cons : Nat               -- Consistency (uint16)
  skipMeta : Bool
  values : List GVal
  pageSize : Int           -- Go int
  pagingState : Bytes      -- nil and empty are the same to len()
  serialCons : Nat         -- SerialConsistency (uint16), 0 = none
  defaultTimestamp : Bool
  tsValue : Int            -- int64, 0 = time.Now()
  keyspace : Bytes
deriving DecidableEq, Repr

/-- batchStatment{preparedID, statement, values} -/
structure GStmt where
  preparedID : Bytes
  statement : Bytes
  values : List GVal
deriving DecidableEq, Repr

abbrev GPayload := List (Bytes × Option Bytes)

inductive GReq
  | startup (opts : List (Bytes × Bytes))
  | options
  | authResponse (data : Option Bytes)
  | register (events : List Bytes)
  | query (stmt : Bytes) (p : GParams) (payload : GPayload)
  | prepare (stmt : Bytes) (keyspace : Bytes) (payload : GPayload)
  | execute (id : Bytes) (p : GParams) (payload : GPayload)
  | batch (typ : Nat) (stmts : List GStmt) (cons : Nat) (serialCons : Nat) (defaultTimestamp : Bool)
      (tsValue : Int) (payload : GPayload)
deriving DecidableEq, Repr

inductive Err
  | panicPayload      -- panic("Custom payload is not supported with version V3 or less")
  | panicKeyspace     -- panic("the keyspace can only be set with protocol 5 or higher")
  | namedBatch        -- error "named query values are not supported in batches"
  | frameTooBig       -- ErrFrameTooBig
  | tooMany           -- tooMany(): more than 65535 bound values / batch statements (repair of KF-C03-5, KF-C03-6)
deriving DecidableEq, Repr

def maxFrameSize : Nat := 268435456

/-! ## the builders -/

/-- writeUnset / writeBytes of one bound value -/
def wVal (x : GVal) : Bytes := if x.isUnset then wInt (-2) else wBytes x.value

/-- loop body of writeQueryParams' value loop -/
def wQVal (names : Bool) (x : GVal) : Bytes := (if names then wString x.name else []) ++ wVal x

def b2n (b : Bool) (n : Nat) : Nat := if b then n else 0

/-- `names` as computed by writeQueryParams: only values[0] is looked at -/
def namesFlag (v : Nat) (vals : List GVal) : Bool :=
  match vals with
  | [] => false
  | x :: _ => decide (v > 2) && decide (x.name ≠ [])

/-- the flags byte of writeQueryParams -/
def queryFlags (v : Nat) (p : GParams) : Nat :=
  b2n (decide (p.values.length > 0)) 0x01 + b2n p.skipMeta 0x02 + b2n (decide (p.pageSize > 0)) 0x04 +
  b2n (decide (p.pagingState.length > 0)) 0x08 + b2n (decide (p.serialCons > 0)) 0x10 +
  b2n (decide (v > 2) && p.defaultTimestamp) 0x20 + b2n (namesFlag v p.values) 0x40 +
  b2n (decide (p.keyspace ≠ []) && decide (v > 4)) 0x80

/-- the timestamp written: the explicit value, or the clock -/
def tsOf (now tsValue : Int) : Int := if tsValue ≠ 0 then tsValue else now

/-- writeFlags: writeUint(uint32(flags)) in v5, writeByte before -/
def wFlags (v : Nat) (fl : Nat) : Bytes := if v > 4 then wUInt fl else [byteOf fl]

/-- writeQueryParams (after its keyspace panic check, which `encodeReq` does first) -/
def wQueryParams (v : Nat) (now : Int) (p : GParams) : Bytes :=
  wShort p.cons ++
  if v = 1 then [] else
  wFlags v (queryFlags v p) ++
  (if p.values.length > 0 then wShort p.values.length ++ p.values.flatMap (wQVal (namesFlag v p.values)) else []) ++
  (if p.pageSize > 0 then wInt p.pageSize else []) ++
  (if p.pagingState.length > 0 then wBytes (some p.pagingState) else []) ++
  (if p.serialCons > 0 then wShort p.serialCons else []) ++
  (if v > 2 ∧ p.defaultTimestamp then wLong (tsOf now p.tsValue) else []) ++
  (if p.keyspace ≠ [] then wString p.keyspace else [])

/-- writeCustomPayload -/
def wPayload (pl : GPayload) : Bytes := if pl.length > 0 then wBytesMap pl else []

/-- v1 body of writeExecuteFrame after the id -/
def wExecV1 (p : GParams) : Bytes :=
  wShort p.values.length ++ p.values.flatMap wVal ++ wShort p.cons

/-- one iteration of writeBatchFrame's statement loop (v ≤ 5: the name branch returns an error
    from v3 and is skipped before, so names are never written) -/
def wStmt (s : GStmt) : Bytes :=
  (if s.preparedID.length = 0 then [byteOf 0] ++ wLongString s.statement
   else [byteOf 1] ++ wString s.preparedID) ++
  wShort s.values.length ++ s.values.flatMap wVal

def batchFlags (serialCons : Nat) (defaultTimestamp : Bool) : Nat :=
  b2n (decide (serialCons > 0)) 0x10 + b2n defaultTimestamp 0x20

def wBatchBody (v : Nat) (now : Int) (typ : Nat) (stmts : List GStmt) (cons serialCons : Nat)
    (defaultTimestamp : Bool) (tsValue : Int) : Bytes :=
  [byteOf typ] ++ wShort stmts.length ++ stmts.flatMap wStmt ++ wShort cons ++
  if v > 2 then
    wFlags v (batchFlags serialCons defaultTimestamp) ++
    (if serialCons > 0 then wShort serialCons else []) ++
    (if defaultTimestamp then wLong (tsOf now tsValue) else [])
  else []

def opcode : GReq → Nat
  | .startup _ => 0x01
  | .options => 0x05
  | .query .. => 0x07
  | .prepare .. => 0x09
  | .execute .. => 0x0A
  | .register _ => 0x0B
  | .batch .. => 0x0D
  | .authResponse _ => 0x0F

def payloadOf : GReq → GPayload
  | .query _ _ pl => pl
  | .prepare _ _ pl => pl
  | .execute _ _ pl => pl
  | .batch _ _ _ _ _ _ pl => pl
  | _ => []

/-- framer.flags at writeHeader: newFramer (beta for v5, no compressor), trace(), payload() -/
def headerFlags (v : Nat) (tracing : Bool) (g : GReq) : Nat :=
  b2n tracing 0x02 + b2n (decide ((payloadOf g).length > 0)) 0x04 + b2n (decide (v = 5)) 0x10

/-- body after the custom payload; panics / errors in the order the code raises them -/
def wBody (v : Nat) (now : Int) : GReq → Except Err Bytes
  | .startup opts => .ok (wStringMap opts)
  | .options => .ok []
  | .authResponse d => .ok (wBytes d)
  | .register l => .ok (wStringList l)
  | .query stmt p _ =>
      if v ≠ 1 ∧ p.keyspace ≠ [] ∧ ¬ v > 4 then .error .panicKeyspace
      else .ok (wLongString stmt ++ wQueryParams v now p)
  | .prepare stmt ks _ =>
      if ks ≠ [] ∧ ¬ v > 4 then .error .panicKeyspace
      else .ok (wLongString stmt ++ (if v > 4 then wUInt (b2n (decide (ks ≠ [])) 1) else []) ++
                (if ks ≠ [] then wString ks else []))
  | .execute id p _ =>
      if v > 1 then
        if p.keyspace ≠ [] ∧ ¬ v > 4 then .error .panicKeyspace
        else .ok (wString id ++ wQueryParams v now p)
      else .ok (wString id ++ wExecV1 p)
  | .batch typ stmts cons ser dts tsv _ =>
      if v > 2 ∧ stmts.any (fun s => s.values.any (fun x => x.name ≠ [])) then .error .namedBatch
      else .ok (wBatchBody v now typ stmts cons ser dts tsv)

/-- writeHeader with the length already patched in by finish/setLength -/
def wHeader (v fl : Nat) (stream : Int) (op : Nat) (len : Nat) : Bytes :=
  [byteOf v, byteOf fl] ++
  (if v > 2 then [byteOf ((stream / 256) % 256).toNat, byteOf (stream % 256).toNat]
   else [byteOf (stream % 256).toNat]) ++
  [byteOf op] ++ wUInt len

/-- the count checks at the top of writeQueryFrame / writeExecuteFrame / writeBatchFrame (`tooMany`): a count
    that does not fit the protocol's [short] is refused before anything is written -/
def tooManyG : GReq → Bool
  | .query _ p _ => decide (p.values.length > 65535)
  | .execute _ p _ => decide (p.values.length > 65535)
  | .batch _ stmts _ _ _ _ _ => decide (stmts.length > 65535) || stmts.any (fun s => decide (s.values.length > 65535))
  | _ => false

/-- the builders after their count checks -/
def encodeReq0 (v : Nat) (tracing : Bool) (stream : Int) (now : Int) (g : GReq) : Except Err Bytes :=
  let pl := payloadOf g
  if pl.length > 0 ∧ v < 4 then .error .panicPayload else
  match wBody v now g with
  | .error e => .error e
  | .ok body =>
    let full := wPayload pl ++ body
    let hs := if v > 2 then 9 else 8
    if hs + full.length > maxFrameSize then .error .frameTooBig
    else .ok (wHeader v (headerFlags v tracing g) stream (opcode g) full.length ++ full)

/-- newFramer(nil, v); [trace()]; frame.buildFrame(framer, stream); framer.buf -/
def encodeReq (v : Nat) (tracing : Bool) (stream : Int) (now : Int) (g : GReq) : Except Err Bytes :=
  if tooManyG g then .error .tooMany else encodeReq0 v tracing stream now g

/-! ## with a compressor (newFramer(compressor, v), writeHeader's `f.flags &^ flagCompress` in
writeStartupFrame / writeOptionsFrame, framer.finish) -/

/-- STARTUP and OPTIONS are written with the compress flag cleared -/
def compressible : GReq → Bool
  | .startup _ => false
  | .options => false
  | _ => true

/-- newFramer(comp, v); [trace()]; frame.buildFrame(framer, stream); framer.buf — `comp` is the
    compressor's Encode (taken as total: an Encode error is C18's). The size check of finish() comes
    BEFORE compression, on the uncompressed frame; the length written is that of the compressed body. -/
def encodeReqC0 (comp : Option (Bytes → Bytes)) (v : Nat) (tracing : Bool) (stream : Int) (now : Int) (g : GReq) :
    Except Err Bytes :=
  let pl := payloadOf g
  if pl.length > 0 ∧ v < 4 then .error .panicPayload else
  match wBody v now g with
  | .error e => .error e
  | .ok body =>
    let full := wPayload pl ++ body
    let hs := if v > 2 then 9 else 8
    if hs + full.length > maxFrameSize then .error .frameTooBig
    else
      match comp with
      | some enc =>
        if compressible g then
          .ok (wHeader v (headerFlags v tracing g + 1) stream (opcode g) (enc full).length ++ enc full)
        else .ok (wHeader v (headerFlags v tracing g) stream (opcode g) full.length ++ full)
      | none => .ok (wHeader v (headerFlags v tracing g) stream (opcode g) full.length ++ full)

def encodeReqC (comp : Option (Bytes → Bytes)) (v : Nat) (tracing : Bool) (stream : Int) (now : Int) (g : GReq) :
    Except Err Bytes :=
  if tooManyG g then .error .tooMany else encodeReqC0 comp v tracing stream now g

/-- the toy "compression algorithm" the harness configures (harness/cmd/c03: toyComp): a marker byte, then
    every byte xor 0x5A — not the identity, one byte longer, so that what is handed to Encode, where its
    output is put and which length is written are all observable. The real algorithms are C18. -/
def toyEnc (b : Bytes) : Bytes := 0xC5 :: b.map (· ^^^ 0x5A)

def toyDec : Bytes → Option Bytes
  | 0xC5 :: r => some (r.map (· ^^^ 0x5A))
  | _ => none

/-! ## which requests the builders refuse; sent-or-refused, judged by the specification -/

def bstmtVals : BStmt → List NVal
  | BStmt.query _ vals => vals
  | BStmt.prepared _ vals => vals

/-- the requests gocql's builders refuse to build: custom payload below v4 (panic in
    writeCustomPayload), keyspace below v5 (panic in writeQueryParams / writePrepareFrame; the v1
    paths never look at it), a named value in a BATCH from v3 (error, CASSANDRA-10246) -/
def Rejectable0 (v : Nat) : Req → Bool
  | Req.query _ p pl => (!pl.isEmpty && decide (v < 4)) || (decide (v ≠ 1) && p.keyspace.isSome && decide (v < 5))
  | Req.execute _ p pl => (!pl.isEmpty && decide (v < 4)) || (decide (v > 1) && p.keyspace.isSome && decide (v < 5))
  | Req.prepare _ ks pl => (!pl.isEmpty && decide (v < 4)) || (ks.isSome && decide (v < 5))
  | Req.batch _ stmts _ _ _ _ pl =>
      (!pl.isEmpty && decide (v < 4)) ||
      (decide (v > 2) && stmts.any (fun s => (bstmtVals s).any (fun x => x.name.isSome)))
  | _ => false

/-- more than 65535 bound values (of a QUERY / EXECUTE or of one batch entry) or batch entries: refused since the
    repair of KF-C03-5 / KF-C03-6 -/
def tooManyR : Req → Bool
  | Req.query _ p _ => decide (p.values.length > 65535)
  | Req.execute _ p _ => decide (p.values.length > 65535)
  | Req.batch _ stmts _ _ _ _ _ => decide (stmts.length > 65535) || stmts.any (fun s => decide ((bstmtVals s).length > 65535))
  | _ => false

/-- everything the builders refuse -/
def Rejectable (v : Nat) (r : Req) : Bool := Rejectable0 v r || tooManyR r

/-- what happened to a request handed to a connection (Conn.exec → buildFrame → write): an error / panic of
    the builder means nothing is written -/
inductive Outcome
  | refused
  | sent (frame : Bytes)
deriving DecidableEq, Repr

def outcomeOf : Except Err Bytes → Outcome
  | .ok bs => .sent bs
  | .error _ => .refused

inductive Verdict
  | ok            -- expressible, sent, and the specification decoder reads back exactly what was asked
  | refusedOk     -- inexpressible and refused: nothing on the wire
  | gap           -- inexpressible, of the kinds the unchanged builders do not refuse (KF-C03-1..10): not judged
  | refusedExpressible
  | undecodable
  | differs
  | sentInexpressible   -- an inexpressible request of the refused kinds went out all the same
deriving DecidableEq, Repr

/-- **the specification's judgement of an outcome**: the property's two clauses — an expressible request
    goes out as a frame that decodes to exactly what was asked (version, tracing flag, request, nothing
    left over; `eqv` compares requests, maps as maps), an inexpressible one is never sent. The known gaps
    are kept out by exactly the predicate C03_inexpressible_rejected_partial excludes (¬ Rejectable). -/
def judge (eqv : Req → Req → Bool) (v : Nat) (tracing : Bool) (want : Req) : Outcome → Verdict
  | .refused =>
    if FrameSpec.Expressible v want then .refusedExpressible
    else if Rejectable v want then .refusedOk else .gap
  | .sent f =>
    if FrameSpec.Expressible v want then
      match FrameSpec.decodeReq f with
      | none => .undecodable
      | some d => if d.version = v ∧ d.tracing = tracing ∧ d.rest = [] ∧ eqv d.req want = true then .ok else .differs
    else if Rejectable v want then .sentInexpressible else .gap

/-! ## what the Go struct asks for -/

def askVal (x : GVal) : NVal :=
  ⟨if x.name = [] then none else some x.name,
   if x.isUnset then Val.unset else match x.value with | none => Val.null | some b => Val.bytes b⟩

def askParams (now : Int) (p : GParams) : QParams :=
  { cons := p.cons, skipMeta := p.skipMeta, values := p.values.map askVal,
    pageSize := if p.pageSize > 0 then some p.pageSize else none,
    pagingState := if p.pagingState.length > 0 then some p.pagingState else none,
    serialCons := if p.serialCons > 0 then some p.serialCons else none,
    timestamp := if p.defaultTimestamp then some (tsOf now p.tsValue) else none,
    keyspace := if p.keyspace = [] then none else some p.keyspace }

def askStmt (s : GStmt) : BStmt :=
  if s.preparedID.length = 0 then BStmt.query s.statement (s.values.map askVal)
  else BStmt.prepared s.preparedID (s.values.map askVal)

def ask (now : Int) : GReq → Req
  | .startup opts => Req.startup opts
  | .options => Req.options
  | .authResponse d => Req.authResponse d
  | .register l => Req.register l
  | .query s p pl => Req.query s (askParams now p) pl
  | .prepare s ks pl => Req.prepare s (if ks = [] then none else some ks) pl
  | .execute id p pl => Req.execute id (askParams now p) pl
  | .batch typ stmts cons ser dts tsv pl =>
      Req.batch typ (stmts.map askStmt) cons (if ser > 0 then some ser else none)
        (if dts then some (tsOf now tsv) else none) none pl

end FrameWrite
