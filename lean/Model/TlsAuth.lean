/-
  Model of gocql's TLS configuration derivation and credential disclosure:
    connectionpool.go `setupTLSConfig`, dial.go `tlsConfigForAddr` (+ host_source.go `HostnameAndPort`'s
    `net.JoinHostPort`), conn.go `approve`, `PasswordAuthenticator.Challenge`,
    `startupCoordinator.options/startup/authenticateHandshake`.
  Hand-written, core Lean only; tied to the source by `harness/cmd/c20`.
  Go strings are byte strings: class names, credentials, addresses are `List UInt8`.
-/
namespace TlsAuth

/-! ### setupTLSConfig (connectionpool.go:50-97) -/

/-- what the caller put into `SslOptions.Config` (only the fields the code reads or writes) -/
structure UserCfg where
  insecure : Bool          -- InsecureSkipVerify
  serverName : List UInt8  -- ServerName
  hasRootCAs : Bool        -- RootCAs != nil
  nCerts : Nat             -- len(Certificates)
  deriving DecidableEq, Repr

/-- state of a file named by CaPath / CertPath / KeyPath -/
inductive FileSt
  | absent      -- the option is ""
  | valid       -- readable, parses
  | unreadable  -- ReadFile fails (missing file, directory, permissions)
  | unparsable  -- readable, no usable PEM in it
  | foreign     -- cert/key only: readable, well-formed half of a second, different key pair
  deriving DecidableEq, Repr

structure SslOpts where
  cfg : Option UserCfg
  enableHostVerification : Bool
  ca : FileSt
  cert : FileSt
  key : FileSt
  deriving DecidableEq, Repr

inductive TlsErr | caOpen | caParse | keyPair
  deriving DecidableEq, Repr

/-- the derived `*tls.Config` -/
structure OutCfg where
  insecure : Bool
  serverName : List UInt8
  hasRootCAs : Bool
  nCerts : Nat
  /-- the result's RootCAs pool is the very pool object of the caller's config (Clone copies the pointer) -/
  sharesCallerPool : Bool
  deriving DecidableEq, Repr

/-- lines 58-70: the InsecureSkipVerify of the derived config -/
def effectiveInsecure (cfg : Option Bool) (ehv : Bool) : Bool :=
  let i0 := match cfg with
    | none => !ehv           -- &tls.Config{InsecureSkipVerify: !EnableHostVerification}
    | some i => i            -- Config.Clone()
  if i0 && ehv then false else i0

/-- `tls.LoadX509KeyPair(CertPath, KeyPath)` succeeds iff both files are well-formed halves of ONE pair
    (an empty path is an unreadable file) -/
def keyPairLoads (cert key : FileSt) : Bool :=
  (cert = .valid && key = .valid) || (cert = .foreign && key = .foreign)

def setupTLSConfig (o : SslOpts) : Except TlsErr OutCfg :=
  let base : OutCfg := match o.cfg with
    | none => { insecure := !o.enableHostVerification, serverName := [], hasRootCAs := false, nCerts := 0, sharesCallerPool := false }
    | some c => { insecure := c.insecure, serverName := c.serverName, hasRootCAs := c.hasRootCAs, nCerts := c.nCerts,
                  sharesCallerPool := c.hasRootCAs }
  let c1 := if base.insecure && o.enableHostVerification then { base with insecure := false } else base
  -- ca cert is optional
  match (match o.ca with
    | .absent => Except.ok c1
    | .unreadable => Except.error TlsErr.caOpen
    | .valid => Except.ok { c1 with hasRootCAs := true }
    | _ => Except.error TlsErr.caParse) with
  | .error e => .error e
  | .ok c2 =>
    if o.cert ≠ .absent || o.key ≠ .absent then
      if keyPairLoads o.cert o.key then .ok { c2 with nCerts := c2.nCerts + 1 } else .error .keyPair
    else .ok c2

/-- does the call modify an object reachable from the caller's own tls.Config?  The scalar fields are written on
    the clone; the CA file is appended to `tlsConfig.RootCAs`, which after `Clone()` is the caller's pool object
    whenever the caller supplied one. -/
def callerPoolMutated (o : SslOpts) : Bool :=
  match o.cfg with
  | some c => c.hasRootCAs && o.ca = .valid
  | none => false

/-- `tlsConfig.Certificates = append(tlsConfig.Certificates[:len:len], mycert)` on the clone (repair of KF-C20-2): `Clone()`
    copies the slice header, but the full slice expression caps the capacity at the length, so `append` always
    allocates a new backing array — nothing is stored in the caller's, whatever its spare capacity.  (Before the
    repair the new element was written into the caller's backing array whenever it had spare capacity.) -/
def callerBackingWritten (_o : SslOpts) (_spareCap : Bool) : Bool := false

/-! ### the documented table (doc.go "Transport layer security", conn.go SslOptions comment,
    and the comment at the top of setupTLSConfig — the three copies have the same six rows) -/

namespace Spec
/-- first column: `none` = "Config is nil", `some b` = Config.InsecureSkipVerify;
    second: EnableHostVerification; third: `true` = "verify host" -/
def docRows : List (Option Bool × Bool × Bool) :=
  [ (none,       false, false),
    (none,       true,  true),
    (some false, false, true),
    (some true,  false, false),
    (some false, true,  true),
    (some true,  true,  true) ]

def documented (cfg : Option Bool) (ehv : Bool) : Option Bool :=
  (docRows.find? (fun r => r.1 = cfg ∧ r.2.1 = ehv)).map (·.2.2)
end Spec

/-! ### tlsConfigForAddr (dial.go:81-95) and the dialled address -/

def colon : UInt8 := 58

/-- the prefix before the LAST colon (`addr[:strings.LastIndex(addr, ":")]`), `none` if there is no colon -/
def beforeLastColon : List UInt8 → Option (List UInt8)
  | [] => none
  | c :: cs =>
    match beforeLastColon cs with
    | some p => some (c :: p)
    | none => if c = colon then some [] else none

/-- `colonPos := strings.LastIndex(addr, ":")`; `-1 ↦ len(addr)`; `hostname := addr[:colonPos]` -/
def hostPart (addr : List UInt8) : List UInt8 := (beforeLastColon addr).getD addr

/-- result ServerName and whether a clone was made -/
def tlsConfigForAddr (insecure : Bool) (serverName addr : List UInt8) : List UInt8 × Bool :=
  if !insecure && serverName.isEmpty then (hostPart addr, true) else (serverName, false)

/-- `net.JoinHostPort`: brackets iff the host contains a colon -/
def joinHostPort (host port : List UInt8) : List UInt8 :=
  if host.contains colon then [91] ++ host ++ [93] ++ [colon] ++ port
  else host ++ [colon] ++ port

/-! ### approve / PasswordAuthenticator (conn.go:46-109) -/

def defaultApprovedAuthenticators : List String :=
  [ "org.apache.cassandra.auth.PasswordAuthenticator",
    "com.instaclustr.cassandra.auth.SharedSecretAuthenticator",
    "com.datastax.bdp.cassandra.auth.DseAuthenticator",
    "io.aiven.cassandra.auth.AivenAuthenticator",
    "com.ericsson.bss.cassandra.ecaudit.auth.AuditPasswordAuthenticator",
    "com.amazon.helenus.auth.HelenusAuthenticator",
    "com.ericsson.bss.cassandra.ecaudit.auth.AuditAuthenticator",
    "com.scylladb.auth.SaslauthdAuthenticator",
    "com.scylladb.auth.TransitionalAuthenticator",
    "com.instaclustr.cassandra.auth.InstaclustrPasswordAuthenticator" ]

/-- UTF-8 bytes of a string literal (kernel-reducible form of `String.toUTF8`) -/
def strBytes (s : String) : List UInt8 := s.toList.flatMap String.utf8EncodeChar

def effectiveList (allowed : List (List UInt8)) : List (List UInt8) :=
  if allowed.isEmpty then defaultApprovedAuthenticators.map strBytes else allowed

def approve (cls : List UInt8) (allowed : List (List UInt8)) : Bool :=
  (effectiveList allowed).contains cls

structure PwAuth where
  user : List UInt8
  pass : List UInt8
  allowed : List (List UInt8)
  deriving DecidableEq, Repr

/-- SASL PLAIN: authzid "" ‖ 0 ‖ authcid ‖ 0 ‖ passwd -/
def plainToken (user pass : List UInt8) : List UInt8 := 0 :: user ++ 0 :: pass

def challenge (p : PwAuth) (cls : List UInt8) : Option (List UInt8) :=
  if approve cls p.allowed then some (plainToken p.user p.pass) else none

/-- (bytes up to the next 0, bytes after it) -/
def Spec.splitAtNul (r : List UInt8) : Option (List UInt8 × List UInt8) :=
  match r.dropWhile (· != 0) with
  | _ :: p => some (r.takeWhile (· != 0), p)
  | [] => none

/-- Spec-side decoder of a PLAIN token with empty authzid: 0 ‖ (bytes up to the next 0) ‖ 0 ‖ rest -/
def Spec.decodePlain : List UInt8 → Option (List UInt8 × List UInt8)
  | [] => none
  | z :: r => if z = 0 then Spec.splitAtNul r else none

/-! ### connection start-up as a function of the configuration, the host dialled and the frames the server
    answers with (session.go `NewSession` check, conn.go `Conn.init` → `options` → `startup` →
    `authenticateHandshake`) -/

/-- what the server answers to the client's next request -/
inductive SFrame
  | supported
  | ready
  | authenticate (cls : List UInt8)
  | authChallenge (data : List UInt8)
  | authSuccess (data : List UInt8)
  | error         -- an ERROR frame
  | other         -- any other well-formed response (RESULT, EVENT …)
  deriving DecidableEq, Repr

inductive Sent
  | options
  | startup
  | authResponse (token : List UInt8)
  deriving DecidableEq, Repr

inductive Outcome
  | ready                -- connection usable
  | errProtocol          -- "Unknown type of response to startup frame"
  | errServer            -- the server's ERROR frame is returned
  | errAuthRequired      -- "authentication required (using …)"
  | errUnapproved        -- "unexpected authenticator"
  | errAuthFrame         -- "unknown frame response during authentication"
  | errClosed            -- the server closed / sent nothing more
  | errAuthenticator     -- the error returned by a caller-supplied Authenticator's Challenge
  | errAuthSuccess       -- the error returned by a caller-supplied Authenticator's Success
  | errProvider          -- the error returned by ClusterConfig.AuthProvider for the host
  | errBoth              -- NewSession: "Can't use both Authenticator and AuthProvider in cluster config."
  | errTlsVerify         -- crypto/tls rejected the server's certificate (WrapTLS returns the handshake error)
  | errNoChallenger      -- AUTH_CHALLENGE while `challenger` is nil: "received AUTH_CHALLENGE but the authenticator
                         -- provided no challenger" (repair of KF-C20-3 / KF-C05-24; the nil interface was called before)
  | crash                -- the process dies (no trace of the model ends here: C20_no_crash)
  deriving DecidableEq, Repr

/-- one answer of a caller-supplied (scripted) Authenticator to a `Challenge` call -/
structure Round where
  resp : List UInt8   -- the token to send
  fail : Bool         -- Challenge returns an error instead
  last : Bool         -- Challenge returns a nil next-challenger
  deriving DecidableEq, Repr

/-- the authenticators a connection can end up with: gocql's own `PasswordAuthenticator`, or an implementation of
    the `Authenticator` interface supplied by the caller (modelled as the list of its answers, one per `Challenge`
    call, and the result of `Success`) -/
inductive AuthImpl
  | pw (p : PwAuth)
  | custom (rounds : List Round) (successFails : Bool)
  deriving DecidableEq, Repr

/-- calls the driver makes on the connection's authenticator / the challengers it returned -/
inductive Call
  | challenge (req : List UInt8)
  | success (data : List UInt8)
  deriving DecidableEq, Repr

/-- `Authenticator.Challenge(req)`: (token, next challenger) or an error -/
def AuthImpl.challenge : AuthImpl → List UInt8 → Except Outcome (List UInt8 × Option AuthImpl)
  | .pw p, req =>
    match TlsAuth.challenge p req with
    | some tok => .ok (tok, none)          -- `return resp, nil, nil`
    | none => .error .errUnapproved
  | .custom [] _, _ => .error .errAuthenticator
  | .custom (r :: rs) sf, _ =>
    if r.fail then .error .errAuthenticator
    else .ok (r.resp, if r.last then none else some (.custom rs sf))

/-- `Authenticator.Success(data)` -/
def AuthImpl.success : AuthImpl → Outcome
  | .pw _ => .ready
  | .custom _ sf => if sf then .errAuthSuccess else .ready

/-- what can be observed of one connection attempt -/
structure Trace where
  sent : List Sent          -- requests written to the server, in order
  calls : List Call         -- calls on the authenticator chain, in order
  provCalls : List Nat      -- hosts AuthProvider was called for
  outcome : Outcome
  deriving DecidableEq, Repr

def Trace.stop (o : Outcome) : Trace := { sent := [], calls := [], provCalls := [], outcome := o }
def Trace.pre (s : List Sent) (c : List Call) (t : Trace) : Trace :=
  { t with sent := s ++ t.sent, calls := c ++ t.calls }

/-! #### what the driver's own diagnostics may depend on -/

/-- a request with the token bytes blanked -/
def Sent.redact : Sent → Sent
  | .authResponse _ => .authResponse []
  | s => s

/-- everything that can be observed of a connection attempt EXCEPT the bytes of the tokens: which requests were
    written, which calls were made on the authenticator, the provider calls, how the attempt ended (the error that is
    returned to the caller and printed by the logger is a function of this) -/
def Trace.redact (t : Trace) : Trace := { t with sent := t.sent.map Sent.redact }

/-- the `for` loop of authenticateHandshake after an AUTH_RESPONSE was written; `chal` is the `challenger`
    variable (nil after `PasswordAuthenticator.Challenge`) -/
def authLoop (chal : Option AuthImpl) : List SFrame → Trace
  | [] => .stop .errClosed
  | .error :: _ => .stop .errServer
  | .authSuccess d :: _ =>
    match chal with
    | none => .stop .ready                                  -- `if challenger != nil {…}; return nil`
    | some a => (Trace.stop a.success).pre [] [.success d]
  | .authChallenge d :: rest =>
    match chal with
    | none => .stop .errNoChallenger                        -- `if challenger == nil { return error }`
    | some a =>
      match a.challenge d with
      | .error e => (Trace.stop e).pre [] [.challenge d]
      | .ok (resp, next) => (authLoop next rest).pre [.authResponse resp] [.challenge d]
  | _ :: _ => .stop .errAuthFrame

/-- `startup` after STARTUP was written; `auth` is `Conn.auth` -/
def afterStartup (auth : Option AuthImpl) : List SFrame → Trace
  | [] => .stop .errClosed
  | .error :: _ => .stop .errServer
  | .ready :: _ => .stop .ready
  | .authenticate cls :: rest =>
    match auth with
    | none => .stop .errAuthRequired                         -- `if s.conn.auth == nil`
    | some a =>
      match a.challenge cls with
      | .error e => (Trace.stop e).pre [] [.challenge cls]
      | .ok (resp, next) => (authLoop next rest).pre [.authResponse resp] [.challenge cls]
  | _ :: _ => .stop .errProtocol

/-- everything the client sends and how `startupCoordinator.setupConn` ends, given `Conn.auth` -/
def handshake (auth : Option AuthImpl) : List SFrame → Trace
  | [] => (Trace.stop .errClosed).pre [.options] []
  | .supported :: rest => (afterStartup auth rest).pre [.options, .startup] []
  | _ :: _ => (Trace.stop .errProtocol).pre [.options] []

/-- what `ClusterConfig.AuthProvider(host)` returns -/
inductive ProvRes
  | auth (a : Option AuthImpl)     -- (a, nil); `none` = (nil, nil): no credentials for this host
  | err (a : Option AuthImpl)      -- (a, err)
  deriving DecidableEq, Repr

/-- the authentication part of a cluster configuration; hosts are numbered -/
structure AuthCfg where
  static : Option AuthImpl                 -- ClusterConfig.Authenticator
  provider : Option (Nat → ProvRes)        -- ClusterConfig.AuthProvider

/-- `Conn.init`: a configured AuthProvider is asked for the host being dialled and decides alone (its error ends the
    attempt before anything is written); otherwise the static Authenticator is used -/
def connect (cfg : AuthCfg) (host : Nat) (fs : List SFrame) : Trace :=
  match cfg.provider with
  | some f =>
    match f host with
    | .err _ => { Trace.stop .errProvider with provCalls := [host] }
    | .auth a => { handshake a fs with provCalls := [host] }
  | none => handshake cfg.static fs

/-- `NewSession`: both Authenticator and AuthProvider set is refused before anything is dialled
    (second component: number of dials) -/
def newSession (cfg : AuthCfg) (host : Nat) (fs : List SFrame) : Trace × Nat :=
  if cfg.static.isSome && cfg.provider.isSome then (.stop .errBoth, 0) else (connect cfg host fs, 1)

/-! #### what the property demands (stated without the handshake code) -/

namespace Spec
/-- who supplies the credentials for a connection to `host`, as documented (cluster.go: `Authenticator`,
    `AuthProvider` "An Authenticator factory"; NewSession: "either Authenticator is set or AuthProvider, not both"):
    `none` = the attempt is abandoned (provider error), `some none` = the client has no credentials for this host -/
def credentials (cfg : AuthCfg) (host : Nat) : Option (Option AuthImpl) :=
  match cfg.provider with
  | none => some cfg.static
  | some f => match f host with
    | .auth a => some a
    | .err _ => none
end Spec

/-! ### dialling a host with TLS: `connConfig` (setupTLSConfig) → `defaultHostDialer.DialHost` → `WrapTLS`
    (tlsConfigForAddr on `HostnameAndPort()`, `tls.Client(...).HandshakeContext`) → `Conn.init` -/

/-- who signed a node's certificate: the CA in the file CaPath names, the CA in the caller's own RootCAs pool, or
    a CA the client was never given -/
inductive Signer | fileCA | poolCA | rogue
  deriving DecidableEq, Repr

/-- what matters of the certificate a node presents -/
structure ServerCert where
  sans : List (List UInt8)      -- subject alternative names (DNS names, IP literals)
  signer : Signer
  deriving DecidableEq, Repr

/-- content of the derived config's RootCAs: the caller's pool (Clone keeps it) plus the CA file appended by
    setupTLSConfig; without either RootCAs is nil = the system roots, which contain none of the scenario CAs -/
def rootsTrust (o : SslOpts) : Signer → Bool
  | .fileCA => o.ca = .valid
  | .poolCA => (o.cfg.map (·.hasRootCAs)).getD false
  | .rogue => false

/-- crypto/tls client-side verification (Go library, assumed): nothing is checked with InsecureSkipVerify; otherwise
    the chain must lead to RootCAs and the certificate must be valid for ServerName. -/
def tlsAccepts (insecure trusted : Bool) (serverName : List UInt8) (cert : ServerCert) : Bool :=
  insecure || (trusted && cert.sans.contains serverName)

structure TlsDial where
  serverName : List UInt8       -- ServerName of the config handed to crypto/tls for this dial
  accepted : Bool               -- the TLS handshake completed
  trace : Trace                 -- what followed on the connection
  deriving DecidableEq, Repr

/-- one dial of a host (`hostname` = HostInfo.hostname, or the connect address literal when it has none) -/
def dialTLS (o : SslOpts) (hostname port : List UInt8) (cert : ServerCert) (auth : Option AuthImpl)
    (fs : List SFrame) : Except TlsErr TlsDial :=
  match setupTLSConfig o with
  | .error e => .error e
  | .ok c =>
    let sn := (tlsConfigForAddr c.insecure c.serverName (joinHostPort hostname port)).1
    if tlsAccepts c.insecure (rootsTrust o cert.signer) sn cert then .ok { serverName := sn, accepted := true, trace := handshake auth fs }
    else .ok { serverName := sn, accepted := false, trace := .stop .errTlsVerify }

namespace Spec
/-- the documented table as a function (rows missing from the table would mean "verify") -/
def mustVerify (o : SslOpts) : Bool := (documented (o.cfg.map (·.insecure)) o.enableHostVerification).getD true

/-- the name the certificate must be valid for: the caller's explicit ServerName, else the host being dialled
    (an IPv6 literal in brackets, as `net.JoinHostPort` writes it) -/
def expectedName (o : SslOpts) (hostname : List UInt8) : List UInt8 :=
  let explicit := (o.cfg.map (·.serverName)).getD []
  if explicit ≠ [] then explicit
  else if hostname.contains colon then [91] ++ hostname ++ [93] else hostname

/-- may anything (in particular credentials) be sent to a node presenting `cert`?  Only if the documented table says
    "do not verify", or the client was given the CA that signed the certificate (CaPath / own RootCAs) and the
    certificate is valid for the expected name. -/
def mayProceed (o : SslOpts) (hostname : List UInt8) (cert : ServerCert) : Bool :=
  !mustVerify o || (rootsTrust o cert.signer && cert.sans.contains (expectedName o hostname))
end Spec

end TlsAuth
