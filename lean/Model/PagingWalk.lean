import Model.PagingHist
/-!
  An application WALKS a paged iterator (C15, walk tier): single calls of Iter.Scan / MapScan /
  Scanner.Next, looks at NumRows() / WillSwitchPage() / PageState() in between, may stop anywhere
  (abandon the iterator) and Close it while the asynchronous prefetch of the next page is running.

    session.go  Iter.Scan:  `if iter.pos >= iter.numRows { if iter.next != nil { *iter = *iter.next.fetch();
                return iter.Scan(dest...) }; return false }` — the page switch (Hist.scanF) — then
                `if iter.next != nil && iter.pos >= iter.next.pos { iter.next.fetchAsync() }` — the
                PREFETCH TRIGGER, evaluated with the position of the row that is about to be delivered, on the
                page that row is on — then the row.  iterScanner.Next: the same switch, NO trigger (a
                Scanner never prefetches).  MapScan calls Scan.
                nextIter.fetchAsync: `oncea.Do(func() { go n.fetch() })` — at most one goroutine per page;
                nextIter.fetch: `once.Do(…executeQuery…)` — at most one fetch per page, whoever comes
                first (Hist.force).
                NumRows = numRows, WillSwitchPage = `pos >= numRows && next != nil`, PageState =
                meta.pagingState — of the CURRENT page.
    conn.go     executeQuery `pos: int((1 - qry.prefetch) * float64(x.numRows))`, clamped to ≥ 1
                (`pageIter`, `clampPos`).

  The state is the history model's iterator (`Hist.It`: current page, the next page if its one fetch has
  happened, rows delivered, requests sent) plus the state of the current page's `oncea`.
-/
namespace Paging.Walk
open Paging Paging.Hist

/-- the current page's asynchronous prefetch -/
inductive Async where
  | idle       -- oncea has not fired
  | launched   -- Iter.Scan called fetchAsync: `go n.fetch()` is running or has finished
  | disarmed   -- (harness probe) oncea consumed while idle: no goroutine, the switch will fetch
  | awaited    -- (harness probe) launched and waited for: the next page has been fetched
  deriving DecidableEq, Repr

inductive Api where
  | scan      -- Iter.Scan, Iter.MapScan
  | scanner   -- iterScanner.Next
  deriving DecidableEq, Repr

structure W where
  it : It
  env : Env
  async : Async
  deriving Repr

/-- no caller context, not idempotent: Session.executeQuery is conn.executeQuery -/
def env0 : Env := { cancelled := [], execs := 0, cached := false }

/-- Query.Iter(): the first page is fetched at once -/
def start (ppOf : Int → Nat → Nat) (script : List Reply) (q : Qry) : W :=
  let r := startIter (fun _ _ => script) ppOf env0 q
  { it := r.1, env := r.2, async := .idle }

/-- Iter.NumRows -/
def numRows (w : W) : Nat := w.it.cur.rows.length
/-- Iter.WillSwitchPage -/
def willSwitch (w : W) : Bool := decide (w.it.cur.pos ≥ w.it.cur.rows.length) && w.it.cur.next.isSome
/-- Iter.PageState -/
def pageState (w : W) : Bytes := w.it.cur.pagingState

/-- the trigger in Iter.Scan; `c` is the page AFTER the row was delivered: the test `iter.pos >= iter.next.pos`
    was made with the position of that row, `c.pos - 1` -/
def trigger (api : Api) (c : Iter) (a : Async) : Async :=
  match api, c.next with
  | .scan, some n => if n.pos < c.pos ∧ a = .idle then .launched else a
  | _, _ => a

/-- this call will leave the current page (`*iter = *iter.next.fetch()`): the new page has fresh Onces -/
def leaves (it : It) : Bool := (scanRow it.cur).isNone && it.cur.err.isNone && it.cur.next.isSome

/-- ONE call of Iter.Scan / MapScan / Scanner.Next -/
def scan1 (ppOf : Int → Nat → Nat) (api : Api) (w : W) : W × Bool :=
  let r := scanF ppOf (scanFuel w.it) w.env w.it
  let a0 := if leaves w.it then Async.idle else w.async
  let a1 := if r.2.2 then trigger api r.1.cur a0 else a0
  ({ it := r.1, env := r.2.1, async := a1 }, r.2.2)

/-- `n` calls, stopping at the first that returns false; the Bool is the result of the last call made -/
def scanK (ppOf : Int → Nat → Nat) (api : Api) : Nat → W → W × Bool
  | 0, w => (w, true)
  | n + 1, w =>
    let r := scan1 ppOf api w
    if r.2 then scanK ppOf api n r.1 else r

/-- (scheduler) the goroutine started by fetchAsync gets to run its fetch now -/
def arrive (ppOf : Int → Nat → Nat) (w : W) : W :=
  if w.async = .launched then
    let r := force ppOf w.env w.it
    { w with it := r.1, env := r.2 }
  else w

/-- (harness) probe `oncea`, and wait for the goroutine if there is one. Answers 0 = prefetch had not been
    started, 1 = it had (now complete), 2 = probed before, 3 = the page has no next page -/
def await (ppOf : Int → Nat → Nat) (w : W) : W × Nat :=
  match w.it.cur.next with
  | none => (w, 3)
  | some _ =>
    match w.async with
    | .idle => ({ w with async := .disarmed }, 0)
    | .launched =>
      let r := force ppOf w.env w.it
      ({ it := r.1, env := r.2, async := .awaited }, 1)
    | .disarmed => (w, 2)
    | .awaited => (w, 2)

inductive Step where
  | scan (api : Api) (k : Nat)   -- k single calls (stopping at the first false)
  | observe                      -- NumRows / WillSwitchPage / PageState: no effect
  | await
  | arrive                       -- scheduler
  deriving Repr

def step (ppOf : Int → Nat → Nat) (w : W) : Step → W
  | .scan api k => (scanK ppOf api k w).1
  | .observe => w
  | .await => (await ppOf w).1
  | .arrive => arrive ppOf w

def exec (ppOf : Int → Nat → Nat) : W → List Step → W
  | w, [] => w
  | w, s :: rest => exec ppOf (step ppOf w s) rest

/-- the application is done with the iterator (Close) and the harness lets a running prefetch finish
    before it reads the node's request log -/
def settle (ppOf : Int → Nat → Nat) (w : W) : W := arrive ppOf w

/-- what the application gets per stride: the rows handed over by the stride and the result of its last call -/
def strideLog (ppOf : Int → Nat → Nat) : W → List Step → List (List Int × Bool)
  | _, [] => []
  | w, .scan api k :: rest =>
    let r := scanK ppOf api k w
    (r.1.it.out.drop w.it.out.length, r.2) :: strideLog ppOf r.1 rest
  | w, s :: rest => strideLog ppOf (step ppOf w s) rest

/-- the lengths of the strides of a walk -/
def strideKs : List Step → List Nat
  | [] => []
  | .scan _ k :: rest => k :: strideKs rest
  | _ :: rest => strideKs rest

/-! ## Specification of a walk (independent of Iter / Qry / the prefetch): `R` is the result (`Paging.Spec.rows`
    of the script); an application that has `c` rows in hand and makes `k` more single calls gets the next
    `k` rows of `R` (fewer if `R` ends), and its last call says true iff `R` had that many -/
namespace Spec

def strides (R : List Int) : Nat → List Nat → List (List Int × Bool)
  | _, [] => []
  | c, k :: ks => ((R.drop c).take k, decide (c + k ≤ R.length)) :: strides R (min (c + k) R.length) ks

end Spec

/-! ## walks with cancellation: the caller cancels a context at any moment (the query's own context is
    `q.ctx`); a fetch under a dead context sends nothing and yields `context canceled` (Hist.sessExec) -/

inductive StepX where
  | base (s : Step)
  | cancel (c : Nat)
  deriving Repr

def stepX (ppOf : Int → Nat → Nat) (w : W) : StepX → W
  | .base s => step ppOf w s
  | .cancel c => { w with env := { w.env with cancelled := c :: w.env.cancelled } }

def execX (ppOf : Int → Nat → Nat) : W → List StepX → W
  | w, [] => w
  | w, s :: rest => execX ppOf (stepX ppOf w s) rest

end Paging.Walk
