import Model.Uuid
/-
  Model of the time-UUID GENERATOR of /repo/uuid.go as a state machine: the process-wide state is the counter
  `clockSeq` (and the node `hardwareAddr`, fixed after `init`), the time source is an INPUT STREAM — one reading
  per generator step, in the order of the atomic increments:

    func TimeUUID() UUID              { return UUIDFromTime(time.Now()) }
    func UUIDFromTime(t time.Time)    { ts := getTimestamp(t); clock := atomic.AddUint32(&clockSeq, 1);
                                        return TimeUUIDWith(ts, clock, hardwareAddr) }

  A reading is `(Unix seconds, nanoseconds)` of the wall clock.  Hand-written, core Lean only.
-/
namespace Uuid

/-- `TimeUUID()` with the value `now` that `time.Now()` returned: result and new counter -/
def timeUUID (clockSeq : Nat) (hw : List UInt8) (now : Int × Nat) : List UInt8 × Nat :=
  uuidFromTime clockSeq hw now.1 now.2

/-- the 60-bit timestamp field a step stores for a reading (100 ns ticks since 1582-10-15, modulo 2^60) -/
def tick (now : Int × Nat) : Nat := bits64 (getTimestamp now.1 now.2) % 2 ^ 60

/-- a generator run: the UUIDs handed out by successive steps from counter value `c`, one reading per step -/
def genRun (hw : List UInt8) : Nat → List (Int × Nat) → List (List UInt8)
  | _, [] => []
  | c, now :: rest => (timeUUID c hw now).1 :: genRun hw (timeUUID c hw now).2 rest

/-- the counter after `n` steps from `c` (uint32 wrap) -/
def genCtr (c n : Nat) : Nat := (c + n) % 2 ^ 32

/-- `time.Unix(sec, nsec)` for `nsec ≥ 0`: nanoseconds beyond a second carry into the seconds -/
def unixNorm (sec : Int) (nsec : Nat) : Int × Nat := (sec + (nsec / 1000000000 : Nat), nsec % 1000000000)

/-- a controlled clock: the reading of step `k` is `(sec, nsec)` moved on by `stepns` nanoseconds every `every`
    steps -/
def steppedClock (sec : Int) (nsec every stepns k : Nat) : Int × Nat :=
  unixNorm sec (nsec + k / every * stepns)

def steppedReadings (sec : Int) (nsec every stepns n : Nat) : List (Int × Nat) :=
  (List.range n).map (steppedClock sec nsec every stepns)

/-- the 14-bit clock field read off bytes 8 and 9 (any version) -/
def clockKey (u : List UInt8) : Nat := (byteAt u 8 &&& 0x3F).toNat <<< 8 ||| (byteAt u 9).toNat

/-- first repeated element of a run, as `(earlier index, later index)`: buckets by the 14-bit clock field (two
    equal UUIDs have equal clock fields), each bucket searched linearly -/
def firstDupAux : List (List UInt8) → Nat → Array (List (List UInt8 × Nat)) → Option (Nat × Nat)
  | [], _, _ => none
  | u :: us, k, buckets =>
    match (buckets.getD (clockKey u) []).find? (fun e => e.1 == u) with
    | some e => some (e.2, k)
    | none => firstDupAux us (k + 1) (buckets.setIfInBounds (clockKey u) ((u, k) :: buckets.getD (clockKey u) []))

def firstDup (us : List (List UInt8)) : Option (Nat × Nat) := firstDupAux us 0 (Array.replicate 16384 [])

end Uuid
