/-
  Model of gocql's host selection policies (policies.go):
    cowHostList (add / remove), roundRobbin(shift, layers...), roundRobinHostPolicy, dcAwareRR,
    rackAwareRR, tokenAwareHostPolicy.Pick (replica phase, remote buckets, j/k walk, fallback minus used)
  — the code WITH the fixes of KF-C11-1 (the walk skips empty tiers) and KF-C11-2 (no nil host in the replica list).

  Conventions
    * a `Host` value stands for one `*HostInfo` OBJECT: `id` is the identity of the object (pointer),
      `addr` its ConnectAddress, `dc`/`rack` its datacenter / rack, `tokens` its tokens (only used to
      build the token ring for the "keyspace has no replica map" path). Pointer comparison in the Go
      code (`h == host`, the `used` map keyed by `*HostInfo`) is structural equality of `Host` values.
    * the up/down state of a host object is mutable and read lazily by the iterators (`h.IsUp()`);
      it is the parameter `up : Nat → Bool` (by object id) and is fixed during one drain of an iterator.
    * the iterator returned by `Pick` is modelled by the full sequence it offers until it returns nil.
    * shuffling is an arbitrary function `σ` on the replica list (theorems assume it permutes).
    * the rotation counter `lastUsedHostIdx` is modelled AS THE CODE HAS IT: a uint64 (`ctr`, wraps at 2^64),
      converted with `int(...)` to a 64 bit signed shift; `(shift+currentlyObserved)%size` is Go's int
      arithmetic (the sum wraps, `%` truncates toward zero) and a negative index is a panic (`Scan.crashed`).
      `layerSeq` / `rrSeq` / `Pol.pickSeq` (natural-number shift) are the IDEAL sequences; the scan functions
      (`layerScan`, `rrScan`, `Pol.pickScan`, `TA.pickScan`, `TA.pick`) are the code. They agree below
      the bound `ctr + 1 + (layer length) < 2^63` (theorem `C11_scan_below_bound`).
    * `Ev`, `Status`, `statusOf`, `Status.expected`: the property's own definition, from the HISTORY of
      notifier calls, of "a host the policy knows and that is up" (independent of the policy lists).
    * (third round; after the repair of KF-C10-4) the token-aware policy's replica tables are refreshed as the
      repaired code does it: `AddHost` / `RemoveHost` that changed `t.hosts` rebuild the token ring and recompute
      the table of the SESSION keyspace and of EVERY other keyspace a table is held for (`updateAllReplicas(meta)`;
      strategy from the keyspace metadata: SimpleStrategy rf / no usable strategy / unknown keyspace - the last two
      drop the table); `KeyspaceChanged(ks)` recomputes the table of `ks`. A table installed through the hook
      (`setReplicas`) therefore lives until the next change of the host list. `Iter` / `TA.openIter` / `TA.nextIter`: the iterator returned by `Pick`
      call by call (several iterators alive at once; the fallback policy's `Pick` happens when an iterator
      leaves its replica phases). `Cow.*`: the atomic steps of `cowHostList.add/remove` run by several threads.
  Core Lean only (compiled into the native driver).
-/
namespace Policies

structure Host where
  id : Nat
  addr : Nat
  dc : Nat
  rack : Nat
  tokens : List Nat
deriving DecidableEq, Repr, Inhabited

/-! ### cowHostList -/

/-- `HostInfo.Equal`: same object, or equal connect address. -/
def Host.equal (a b : Host) : Bool := a == b || a.addr == b.addr

/-- `cowHostList.add`: append unless an `Equal` host is present; returns the new list and whether it changed. -/
def cowAdd (l : List Host) (h : Host) : List Host × Bool :=
  if l.any (fun x => h.equal x) then (l, false) else (l ++ [h], true)

/-- `cowHostList.remove(ip)`: drop the entries whose connect address equals `ip`.
(The Go code re-slices the result to `size-1`; under the list invariant "no two entries with one
address" — preserved by add/remove, theorem `C11_cow_ops` — exactly one entry is dropped.) -/
def cowRemove (l : List Host) (ip : Nat) : List Host × Bool :=
  if l.any (fun x => x.addr == ip) then (l.filter (fun x => x.addr != ip), true) else (l, false)

/-! ### roundRobbin -/

/-- the hosts of one layer in the order the inner loop of `roundRobbin` visits them:
`currentlyObserved = 1 … n`, index `(shift + currentlyObserved) % n`. -/
def layerSeq (shift : Nat) (l : List Host) : List Host :=
  (List.range l.length).map (fun k => l.getD ((shift + (k + 1)) % l.length) default)

/-- full sequence offered by the iterator `roundRobbin(shift, layers...)`: layer after layer,
down hosts skipped. -/
def rrSeq (up : Nat → Bool) (shift : Nat) (layers : List (List Host)) : List Host :=
  (layers.map (fun l => (layerSeq shift l).filter (fun h => up h.id))).flatten

/-! ### roundRobbin as the code computes it: uint64 counter, `int(...)`, Go's `%` -/

def two63 : Nat := 9223372036854775808
def two64 : Nat := 18446744073709551616

/-- the value a Go `int` (64 bit, two's complement) holds for the mathematical integer `x` -/
def wrap64 (x : Int) : Int := (x + 9223372036854775808) % 18446744073709551616 - 9223372036854775808

/-- `(shift+currentlyObserved)%currentLayerSize` as an index: the sum wraps to 64 bit, `%` is the truncated
remainder (sign of the dividend), a negative index is a run-time panic (`none`). `n > 0` where it is used. -/
def goIndex (shift : Int) (k n : Nat) : Option Nat :=
  let i := Int.tmod (wrap64 (shift + (k : Int))) (n : Int)
  if i < 0 then none else some i.toNat

/-- the positions `currentlyObserved = 1 … n` of one layer: the host looked at, or `none` = panic -/
def layerScan (shift : Int) (l : List Host) : List (Option Host) :=
  (List.range l.length).map (fun k => (goIndex shift (k + 1) l.length).map (fun i => l.getD i default))

/-- what a drained iterator offers: the hosts returned until it returns nil — or until it panics -/
structure Scan where
  offered : List Host
  crashed : Bool
deriving Repr, DecidableEq

/-- walk over the positions: down hosts are skipped, the first panic ends the walk -/
def runScan (up : Nat → Bool) : List (Option Host) → Scan
  | [] => ⟨[], false⟩
  | none :: _ => ⟨[], true⟩
  | some h :: r => if up h.id then ⟨h :: (runScan up r).offered, (runScan up r).crashed⟩ else runScan up r

/-- the iterator `roundRobbin(shift, layers...)` of the code -/
def rrScan (up : Nat → Bool) (shift : Int) (layers : List (List Host)) : Scan :=
  runScan up (layers.map (layerScan shift)).flatten

/-! ### the three round-robin based policies -/

inductive Kind | rr | dc | rack
deriving DecidableEq, Repr

/-- `roundRobinHostPolicy` (one list), `dcAwareRR` (local, remote), `rackAwareRR` (three lists);
unused lists stay empty. `ctr` is `lastUsedHostIdx`. -/
structure Pol where
  kind : Kind
  ldc : Nat
  lrack : Nat
  l0 : List Host
  l1 : List Host
  l2 : List Host
  ctr : Nat
deriving Repr

def Pol.new (k : Kind) (ldc lrack : Nat) : Pol := ⟨k, ldc, lrack, [], [], [], 0⟩

/-- index of the list a host belongs to = `HostTier` (rack-aware), `IsLocal ? 0 : 1` (dc-aware), 0 (round-robin).
This is also the tier the token-aware policy computes for a replica. -/
def Pol.tier (p : Pol) (h : Host) : Nat :=
  match p.kind with
  | .rr => 0
  | .dc => if h.dc == p.ldc then 0 else 1
  | .rack => if h.dc == p.ldc then (if h.rack == p.lrack then 0 else 1) else 2

/-- `MaxHostTier()` for a `HostTierer`, 1 otherwise -/
def Pol.maxTier (p : Pol) : Nat := match p.kind with | .rack => 2 | _ => 1

def Pol.layers (p : Pol) : List (List Host) :=
  match p.kind with
  | .rr => [p.l0]
  | .dc => [p.l0, p.l1]
  | .rack => [p.l0, p.l1, p.l2]

def Pol.getLayer (p : Pol) (i : Nat) : List Host :=
  match i with | 0 => p.l0 | 1 => p.l1 | _ => p.l2

def Pol.setLayer (p : Pol) (i : Nat) (l : List Host) : Pol :=
  match i with | 0 => { p with l0 := l } | 1 => { p with l1 := l } | _ => { p with l2 := l }

/-- `AddHost` = `HostUp` -/
def Pol.add (p : Pol) (h : Host) : Pol :=
  p.setLayer (p.tier h) (cowAdd (p.getLayer (p.tier h)) h).1

/-- `RemoveHost` = `HostDown` -/
def Pol.remove (p : Pol) (h : Host) : Pol :=
  p.setLayer (p.tier h) (cowRemove (p.getLayer (p.tier h)) h.addr).1

/-- IDEAL sequence offered by the iterator of the next `Pick` (the counter is incremented first; shift = the
number of picks so far, as a natural number) -/
def Pol.pickSeq (p : Pol) (up : Nat → Bool) : List Host := rrSeq up (p.ctr + 1) p.layers

/-- `atomic.AddUint64(&lastUsedHostIdx, 1)` -/
def Pol.bump (p : Pol) : Pol := { p with ctr := (p.ctr + 1) % 18446744073709551616 }

/-- `int(nextStartOffset)` of the next `Pick` -/
def Pol.shift (p : Pol) : Int := wrap64 (((p.ctr + 1) % 18446744073709551616 : Nat) : Int)

/-- what the iterator of the next `Pick` does (the code) -/
def Pol.pickScan (p : Pol) (up : Nat → Bool) : Scan := rrScan up p.shift p.layers

def Pol.pick (p : Pol) (up : Nat → Bool) : Pol × Scan := (p.bump, p.pickScan up)

/-- the hook `VerifSetPickCount`: the counter as it stands after `n` picks -/
def Pol.setCtr (p : Pol) (n : Nat) : Pol := { p with ctr := n % 18446744073709551616 }

/-! ### token-aware policy -/

/-- the j/k walk over the remote buckets `remote[0..]` (after the fix of KF-C11-1):
`for j < len(remote)`: a bucket that is exhausted — or EMPTY — moves the walk to the next bucket
(`j++, k = 0; continue`), so every bucket is walked to its end, in tier order. Down hosts are skipped. -/
def remoteWalk (up : Nat → Bool) : List (List Host) → List Host
  | [] => []
  | b :: rest => b.filter (fun h => up h.id) ++ remoteWalk up rest

/-- the fallback phase: hosts of the fallback iterator that are not in `used`; each offered host is added to `used`. -/
def minusUsed : List Host → List Host → List Host
  | _, [] => []
  | used, h :: r => if used.contains h then minusUsed used r else h :: minusUsed (h :: used) r

/-- replica phase: replicas of tier 0 that are up, in list order -/
def localReplicas (tier : Host → Nat) (up : Nat → Bool) (replicas : List Host) : List Host :=
  replicas.filter (fun h => tier h == 0 && up h.id)

/-- `remote[t-1]` for `t = 1..maxTier`: replicas of tier t in list order -/
def remoteBuckets (tier : Host → Nat) (maxTier : Nat) (replicas : List Host) : List (List Host) :=
  (List.range maxTier).map (fun t => replicas.filter (fun h => tier h == t + 1))

/-- hosts offered before the fallback iterator is created -/
def taHead (tier : Host → Nat) (maxTier : Nat) (up : Nat → Bool) (nonlocal : Bool) (replicas : List Host) : List Host :=
  localReplicas tier up replicas ++
    (if nonlocal then remoteWalk up (remoteBuckets tier maxTier replicas) else [])

/-- SPECIFICATION of the replica phases (property text: "the up replicas of the query's token in the
nearest tier come first, then - when non-local fallback is enabled - replicas in farther tiers"):
tier after tier (0 … maxTier with the fallback option, tier 0 only without), the up replicas of that
tier in replica-list order. -/
def specHead (tier : Host → Nat) (maxTier : Nat) (up : Nat → Bool) (nonlocal : Bool) (replicas : List Host) : List Host :=
  ((List.range (if nonlocal then maxTier + 1 else 1)).map
    (fun t => replicas.filter (fun h => tier h == t && up h.id))).flatten

/-- full sequence offered by the token-aware iterator, `fallback` being the sequence of the
fallback policy's iterator -/
def taSeq (tier : Host → Nat) (maxTier : Nat) (up : Nat → Bool) (nonlocal : Bool)
    (replicas fallback : List Host) : List Host :=
  let hd := taHead tier maxTier up nonlocal replicas
  hd ++ minusUsed hd fallback

/-- token ring (`newTokenRing`): all (token, host) pairs of the hosts, sorted by token
(insertion sort; tokens are assumed distinct, the Go sort is not stable). -/
def ringInsert {β : Type} (e : Nat × β) : List (Nat × β) → List (Nat × β)
  | [] => [e]
  | x :: r => if e.1 < x.1 then e :: x :: r else x :: ringInsert e r

def sortByTok {β : Type} (l : List (Nat × β)) : List (Nat × β) :=
  l.foldl (fun acc e => ringInsert e acc) []

def ringOf (hosts : List Host) : List (Nat × Host) :=
  sortByTok (hosts.flatMap (fun h => h.tokens.map (fun t => (t, h))))

/-- `sort.Search` for the first entry with token ≥ t, wrapping to entry 0 (`replicasFor`, `GetHostForToken`) -/
def lookupTok {β : Type} (tab : List (Nat × β)) (t : Nat) : Option β :=
  match tab.find? (fun e => decide (t ≤ e.1)) with
  | some e => some e.2
  | none => tab.head?.map (·.2)

/-- `simpleStrategy.replicaMap`, inner loop `for j := 0; j < len(tokens) && len(replicas) < rf; j++`
over `tokens[(i+j)%len]`: the first `rf` distinct hosts -/
def simpleWalk (rf : Nat) : List Host → List Host → List Host
  | acc, [] => acc
  | acc, h :: r =>
    if acc.length < rf then (if acc.contains h then simpleWalk rf acc r else simpleWalk rf (acc ++ [h]) r)
    else acc

/-- walk order from ring index `i`: `tokens[(i+j) % len]`, `j = 0 … len-1` -/
def ringRot {α : Type} (l : List α) (i : Nat) : List α := l.drop i ++ l.take i

/-- `simpleStrategy.replicaMap(tokenRing)`: one entry per ring token -/
def simpleMap (rf : Nat) (ring : List (Nat × Host)) : List (Nat × List Host) :=
  (List.range ring.length).map (fun i =>
    ((ring.getD i default).1, simpleWalk rf [] ((ringRot ring i).map (·.2))))

structure TA where
  pol : Pol                 -- the fallback policy
  shuffle : Bool
  nonlocal : Bool
  partSet : Bool            -- SetPartitioner was called (token ring exists)
  hosts : List Host         -- t.hosts
  replicas : List (Nat × List (Nat × List Host))   -- keyspace ↦ token-sorted replica table
  sessKs : Option Nat := none     -- `getKeyspaceName()` (none: a keyspace no query names)
  /-- what `getKeyspaceMetadata` + `getStrategy` give for a keyspace: absent = unknown keyspace (error),
  `none` = no usable strategy (LocalStrategy, unsupported class), `some rf` = SimpleStrategy -/
  ksMeta : List (Nat × Option Nat) := []
deriving Repr

/-- a new policy; `sess` = the session keyspace (`Init`: `getKeyspaceName`), none = a keyspace no query names -/
def TA.new (p : Pol) (shuffle nonlocal partSet : Bool) (sess : Option Nat := none) : TA :=
  { pol := p, shuffle := shuffle, nonlocal := nonlocal, partSet := partSet, hosts := [], replicas := [], sessKs := sess }

/-- `updateReplicas(meta, ks)`: the table of `ks` is recomputed from the CURRENT token ring if the keyspace
has a usable strategy (and a ring exists), dropped otherwise; the tables of the other keyspaces are kept
(by this call; `TA.refresh` calls it for every held keyspace). -/
def TA.updateReplicas (t : TA) (ks : Nat) : TA :=
  let rest := t.replicas.filter (fun e => e.1 != ks)
  match (t.ksMeta.find? (fun e => e.1 == ks)).bind (·.2) with
  | some rf =>
    if t.partSet then { t with replicas := (ks, sortByTok (simpleMap rf (ringOf t.hosts))) :: rest }
    else { t with replicas := rest }
  | none => { t with replicas := rest }

/-- the keyspaces `updateAllReplicas` recomputes: the session keyspace first, then every other keyspace the
metadata holds a replica table for (`for ks := range meta.replicas`), each once -/
def TA.refreshKeys (t : TA) : List Nat :=
  (match t.sessKs with | some ks => [ks] | none => []) ++
    (t.replicas.map (·.1)).filter (fun k => t.sessKs != some k)

/-- `resetTokenRing` + `updateAllReplicas(meta)` (the ring itself is `ringOf t.hosts`) — the code after the repair
of KF-C10-4: the table of the session keyspace AND of every other held keyspace is recomputed from the current
ring (a keyspace whose schema cannot be read / has no usable strategy loses its table) -/
def TA.refresh (t : TA) : TA := t.refreshKeys.foldl TA.updateReplicas t

/-- `KeyspaceChanged(update)` -/
def TA.keyspaceChanged (t : TA) (ks : Nat) : TA := t.updateReplicas ks

/-- the harness' keyspace metadata: `v = none` forgets the keyspace -/
def TA.setMeta (t : TA) (ks : Nat) (v : Option (Option Nat)) : TA :=
  { t with ksMeta := (match v with | some m => [(ks, m)] | none => []) ++ t.ksMeta.filter (fun e => e.1 != ks) }

/-- `AddHost`: `if t.hosts.add(host) { resetTokenRing; updateAllReplicas }; fallback.AddHost` -/
def TA.add (t : TA) (h : Host) : TA :=
  let r := cowAdd t.hosts h
  let t1 : TA := { t with hosts := r.1 }
  { (if r.2 then t1.refresh else t1) with pol := t.pol.add h }
/-- `RemoveHost`: `if t.hosts.remove(addr) { resetTokenRing; updateAllReplicas }; fallback.RemoveHost` -/
def TA.remove (t : TA) (h : Host) : TA :=
  let r := cowRemove t.hosts h.addr
  let t1 : TA := { t with hosts := r.1 }
  { (if r.2 then t1.refresh else t1) with pol := t.pol.remove h }
/-- `AddHosts(hosts)` (what `Session.init` calls with the hosts of the first ring refresh, the policy having the
method): `for host: t.hosts.add(host)` (results ignored); `resetTokenRing; updateAllReplicas` ONCE and
UNCONDITIONALLY (also when no host was new); then `for host: fallback.AddHost(host)` -/
def TA.addHosts (t : TA) (hs : List Host) : TA :=
  let t1 : TA := { t with hosts := hs.foldl (fun l h => (cowAdd l h).1) t.hosts }
  { t1.refresh with pol := hs.foldl Pol.add t.pol }
/-- `SetPartitioner(p)` with a supported partitioner name: `if t.partitioner != p { t.partitioner = p; resetTokenRing;
updateAllReplicas }` - the ring comes into being from the hosts already known, every held table (and the session
keyspace's) is computed; a second call with the same name changes nothing -/
def TA.setPartitioner (t : TA) : TA := if t.partSet then t else ({ t with partSet := true }).refresh
def TA.hostUp (t : TA) (h : Host) : TA := { t with pol := t.pol.add h }
def TA.hostDown (t : TA) (h : Host) : TA := { t with pol := t.pol.remove h }

/-- install the replica table of a keyspace (sorted by token as `replicaMap` does; tokens distinct) -/
def TA.setReplicas (t : TA) (ks : Nat) (tab : List (Nat × List Host)) : TA :=
  { t with replicas := (ks, sortByTok tab) :: t.replicas.filter (fun e => e.1 != ks) }

inductive Replicas
  | noRing                         -- no metadata / no token ring: plain fallback pick
  | emptyRing                      -- ring is empty and the keyspace has no replica table: `GetHostForToken`
                                   -- returns nil; (fix of KF-C11-2) no replica list is built, plain fallback pick
  | hosts (l : List Host) (fromTable : Bool)
deriving Repr

/-- which replica list `Pick` works with for keyspace `ks` and token `tok` (before shuffling) -/
def TA.replicasFor (t : TA) (ks tok : Nat) : Replicas :=
  if !t.partSet then .noRing else
  match (t.replicas.find? (fun e => e.1 == ks)).bind (fun e => lookupTok e.2 tok) with
  | some l => .hosts l true
  | none => match lookupTok (ringOf t.hosts) tok with
    | some h => .hosts [h] false
    | none => .emptyRing

/-- result of `Pick` + a number of iterator calls: the hosts offered, or `crash` = a run-time panic
(nil host dereferenced — no path after the fix of KF-C11-2 — or index out of range in `roundRobbin`). -/
inductive PickResult
  | seq (l : List Host)
  | crash
deriving Repr, DecidableEq

/-- `limit` calls of the iterator (or fewer if it returns nil): the first `limit` hosts; a panic is only
hit if the calls get that far -/
def Scan.take (s : Scan) (limit : Nat) : PickResult :=
  if limit ≤ s.offered.length then .seq (s.offered.take limit)
  else if s.crashed then .crash else .seq s.offered

/-- the token-aware iterator over the fallback iterator `fb`: replica phases, then the fallback's hosts that
were not offered yet; a panic of the fallback iterator is a panic of this one -/
def taScan (tier : Host → Nat) (maxTier : Nat) (up : Nat → Bool) (nonlocal : Bool) (replicas : List Host) (fb : Scan) : Scan :=
  let hd := taHead tier maxTier up nonlocal replicas
  ⟨hd ++ minusUsed hd fb.offered, fb.crashed⟩

/-- what the drained iterator returned by `Pick` does (the code) -/
def TA.pickScan (t : TA) (up : Nat → Bool) (σ : List Host → List Host) (rk : Option (Nat × Nat)) : Scan :=
  match rk with
  | none => t.pol.pickScan up
  | some (ks, tok) =>
    match t.replicasFor ks tok with
    | .noRing => t.pol.pickScan up
    | .emptyRing => t.pol.pickScan up
    | .hosts l fromTable =>
      taScan t.pol.tier t.pol.maxTier up t.nonlocal (if fromTable && t.shuffle then σ l else l) (t.pol.pickScan up)

/-- `Pick(qry)` followed by `limit` calls of the returned iterator (or fewer if it returns nil):
`rk = none` is a query without routing key; `σ` is the shuffle. Returns the new state and the hosts offered.
The fallback policy's `Pick` (which advances its counter) is only called once the iterator gets past
the replica phases. -/
def TA.pick (t : TA) (up : Nat → Bool) (σ : List Host → List Host) (rk : Option (Nat × Nat)) (limit : Nat) :
    TA × PickResult :=
  let plain := ({ t with pol := t.pol.bump }, (t.pol.pickScan up).take limit)
  match rk with
  | none => plain
  | some (ks, tok) =>
    match t.replicasFor ks tok with
    | .noRing => plain
    | .emptyRing => plain
    | .hosts l fromTable =>
      let reps := if fromTable && t.shuffle then σ l else l
      let hd := taHead t.pol.tier t.pol.maxTier up t.nonlocal reps
      if limit ≤ hd.length then (t, .seq (hd.take limit))
      else
        ({ t with pol := t.pol.bump },
         (taScan t.pol.tier t.pol.maxTier up t.nonlocal reps (t.pol.pickScan up)).take limit)

/-- the IDEAL full sequence of the iterator returned by `Pick` (fallback = the ideal round-robin sequence) -/
def TA.pickSeq (t : TA) (up : Nat → Bool) (σ : List Host → List Host) (rk : Option (Nat × Nat)) : PickResult :=
  match rk with
  | none => .seq (t.pol.pickSeq up)
  | some (ks, tok) =>
    match t.replicasFor ks tok with
    | .noRing => .seq (t.pol.pickSeq up)
    | .emptyRing => .seq (t.pol.pickSeq up)
    | .hosts l fromTable =>
      .seq (taSeq t.pol.tier t.pol.maxTier up t.nonlocal (if fromTable && t.shuffle then σ l else l) (t.pol.pickSeq up))

/-! ### the iterator returned by `Pick`, call by call (several iterators alive at once)

`Pick` of the token-aware policy fixes the replica list (its own shuffled copy: `shuffleHosts` copies) and
hence — the up/down state being fixed while iterators are alive — the hosts of the replica phases; the
fallback policy's `Pick` (snapshot of its lists, counter increment) happens at the first call that gets past
the replica phases. A query handed to the fallback policy as it is calls the fallback's `Pick` at once. -/

structure Iter where
  given : List Host            -- hosts offered so far
  head : List Host             -- hosts of the replica phases not yet offered
  used : List Host             -- the `used` set when the fallback iterator is created (= the whole head)
  fb : Option Scan             -- the fallback iterator once created: what it will still offer (minus `used`), panic at the end
deriving Repr

/-- `Pick(qry)` -/
def TA.openIter (t : TA) (up : Nat → Bool) (σ : List Host → List Host) (rk : Option (Nat × Nat)) : TA × Iter :=
  let plain : TA × Iter := ({ t with pol := t.pol.bump }, ⟨[], [], [], some (t.pol.pickScan up)⟩)
  match rk with
  | none => plain
  | some (ks, tok) =>
    match t.replicasFor ks tok with
    | .noRing => plain
    | .emptyRing => plain
    | .hosts l fromTable =>
      let hd := taHead t.pol.tier t.pol.maxTier up t.nonlocal (if fromTable && t.shuffle then σ l else l)
      (t, ⟨[], hd, hd, none⟩)

/-- result of one call of the iterator -/
inductive Next
  | host (h : Host)
  | done            -- nil: the iterator is exhausted (and stays so)
  | panic
deriving Repr, DecidableEq

/-- one call of the iterator in policy state `t` -/
def TA.nextIter (t : TA) (up : Nat → Bool) (it : Iter) : TA × Iter × Next :=
  match it.head with
  | x :: r => (t, { it with head := r, given := it.given ++ [x] }, .host x)
  | [] =>
    let st : TA × Scan := match it.fb with
      | some sc => (t, sc)
      | none => ({ t with pol := t.pol.bump },
                 ⟨minusUsed it.used (t.pol.pickScan up).offered, (t.pol.pickScan up).crashed⟩)
    match st.2.offered with
    | x :: r => (st.1, { it with fb := some ⟨r, st.2.crashed⟩, given := it.given ++ [x] }, .host x)
    | [] => (st.1, { it with fb := some st.2 }, if st.2.crashed then .panic else .done)

/-- `n` calls (stopping at nil / a panic): new states, hosts offered by these calls, how it ended (`none` = still running) -/
def TA.nextN (t : TA) (up : Nat → Bool) (it : Iter) : Nat → TA × Iter × List Host × Option Next
  | 0 => (t, it, [], none)
  | n + 1 =>
    match t.nextIter up it with
    | (t1, it1, .host h) =>
      let r := TA.nextN t1 up it1 n
      (r.1, r.2.1, h :: r.2.2.1, r.2.2.2)
    | (t1, it1, e) => (t1, it1, [], some e)

/-! ### the iterator as the code runs it: the up/down state of a host is read AT THE CALL that looks at it (w-s11f)

`Iter` above fixes the up/down state for the life of an iterator (its `head` is filtered when `Pick` is called). The
code reads `h.IsUp()` when a call of the iterator reaches `h`: in the replica phase (`for i < len(replicas)`), in the
walk over the remote buckets, and inside the fallback iterator (`roundRobbin`). `LIter` keeps what is still to be
LOOKED AT: the tier-0 replicas (`q1`), the replicas of the farther tiers tier by tier (`q2`, only with the non-local
option; the code fills the buckets while it walks the replica list - the whole list has been walked before the
first bucket is read), and the positions of the fallback iterator (`fb`, created at the first call that gets past the
replica phases: ONE snapshot of the lists; `none` = the index computation panics at that position). The `used` map
of the token-aware iterator holds exactly the hosts it has offered: `given` (a query handed to the fallback policy as
it is gets the fallback policy's own iterator, which has no such map: `plain`). With the state fixed `LIter` offers what `Iter`
offers (cross-checked by the model driver at every call; not proved). -/

structure LIter where
  given : List Host
  q1 : List Host
  q2 : List Host
  fb : Option (List (Option Host))
  /-- the query was handed to the fallback policy as it is: the iterator IS the fallback policy's (`roundRobbin`), which
  keeps no `used` map -/
  plain : Bool := false
deriving Repr

/-- the positions the iterator of the next `Pick` of the round-robin based policy looks at, layer after layer -/
def Pol.positions (p : Pol) : List (Option Host) := (p.layers.map (layerScan p.shift)).flatten

/-- `Pick(qry)` -/
def TA.openL (t : TA) (σ : List Host → List Host) (rk : Option (Nat × Nat)) : TA × LIter :=
  let plain : TA × LIter := ({ t with pol := t.pol.bump }, ⟨[], [], [], some t.pol.positions, true⟩)
  match rk with
  | none => plain
  | some (ks, tok) =>
    match t.replicasFor ks tok with
    | .noRing => plain
    | .emptyRing => plain
    | .hosts l ft =>
      let reps := if ft && t.shuffle then σ l else l
      (t, ⟨[], localReplicas t.pol.tier (fun _ => true) reps,
           if t.nonlocal then remoteWalk (fun _ => true) (remoteBuckets t.pol.tier t.pol.maxTier reps) else [], none, false⟩)

/-- the walk of the fallback phase: the next position whose host is up NOW and was not offered by this iterator;
a position whose index computation panics ends everything -/
def scanPos (up : Nat → Bool) (used : List Host) : List (Option Host) → Next × List (Option Host)
  | [] => (.done, [])
  | none :: r => (.panic, r)
  | some h :: r => if up h.id && !used.contains h then (.host h, r) else scanPos up used r

/-- one call of the iterator in policy state `t`, the states of the host objects being `up` NOW -/
def TA.nextL (t : TA) (up : Nat → Bool) (it : LIter) : TA × LIter × Next :=
  match it.q1.dropWhile (fun h => !up h.id) with
  | x :: r => (t, { it with q1 := r, given := it.given ++ [x] }, .host x)
  | [] =>
    match it.q2.dropWhile (fun h => !up h.id) with
    | x :: r => (t, { it with q1 := [], q2 := r, given := it.given ++ [x] }, .host x)
    | [] =>
      let st : TA × List (Option Host) := match it.fb with
        | some ps => (t, ps)
        | none => ({ t with pol := t.pol.bump }, t.pol.positions)
      match scanPos up (if it.plain then [] else it.given) st.2 with
      | (.host x, rest) => (st.1, { it with q1 := [], q2 := [], fb := some rest, given := it.given ++ [x] }, .host x)
      | (e, rest) => (st.1, { it with q1 := [], q2 := [], fb := some rest }, e)

/-- `n` calls (stopping at nil / a panic) with the state fixed meanwhile -/
def TA.nextLN (t : TA) (up : Nat → Bool) (it : LIter) : Nat → TA × LIter × List Host × Option Next
  | 0 => (t, it, [], none)
  | n + 1 =>
    match t.nextL up it with
    | (t1, it1, .host h) =>
      let r := TA.nextLN t1 up it1 n
      (r.1, r.2.1, h :: r.2.2.1, r.2.2.2)
    | (t1, it1, e) => (t1, it1, [], some e)

/-! ### rotation of the starting host per tier (fourth round)

Property text: "for the round-robin based policies successive queries rotate the starting host within a tier so
load is spread". Observable: drain the iterators of `m` successive `Pick`s (nothing in between) and look, per
tier, at the FIRST host each of them offers from that tier (after the replica phases, for a token-aware policy).
`tierBalanced` is the SPECIFICATION of "spread" for one tier with `n` listed hosts of which `d` cannot be offered
(state down but still listed, or already offered by the replica phases): every host that can be offered is the
first one of its tier at least ⌊m/n⌋ times and at most ⌈m/n⌉·(1+d) times — with d = 0 the same number of times ±1. -/

/-- the first host of tier `t` in a drained sequence -/
def tierFirst (tier : Host → Nat) (t : Nat) (seq : List Host) : Option Host :=
  (seq.filter (fun h => tier h == t)).head?

/-- how many of the drained sequences `seqs` offer `h` as the first host of tier `t` -/
def firstHits (tier : Host → Nat) (t : Nat) (seqs : List (List Host)) (h : Host) : Nat :=
  seqs.countP (fun s => tierFirst tier t s == some h)

/-- ⌈m/n⌉ written with `/` and `%` -/
def ceilDiv (m n : Nat) : Nat := m / n + (if m % n = 0 then 0 else 1)

/-- SPECIFICATION of "load is spread" for one tier: `l` the listed hosts, `cand` = can be offered, `m` picks -/
def tierBalanced (cand : Host → Bool) (l : List Host) (m : Nat) (hits : Host → Nat) : Bool :=
  l.all (fun h => !cand h ||
    (decide (m / l.length ≤ hits h) &&
     decide (hits h ≤ ceilDiv m l.length * (1 + l.countP (fun x => !cand x)))))

/-- the first tier (index into `layers`) that is not balanced over the drained sequences `seqs`; `none` = balanced -/
def rotVerdict (tier : Host → Nat) (cand : Host → Bool) (layers : List (List Host)) (seqs : List (List Host)) : Option Nat :=
  (List.range layers.length).find? (fun t =>
    !tierBalanced cand (layers.getD t []) seqs.length (firstHits tier t seqs))

/-- the hosts of the replica phases of the iterator returned by `Pick` (none for a query handed to the fallback as it is) -/
def TA.headOf (t : TA) (up : Nat → Bool) (σ : List Host → List Host) (rk : Option (Nat × Nat)) : List Host :=
  match rk with
  | none => []
  | some (ks, tok) =>
    match t.replicasFor ks tok with
    | .hosts l fromTable => taHead t.pol.tier t.pol.maxTier up t.nonlocal (if fromTable && t.shuffle then σ l else l)
    | _ => []

/-- what the drained iterator offers AFTER its replica phases (the fallback iterator minus the hosts used) -/
def TA.fbPart (t : TA) (up : Nat → Bool) (σ : List Host → List Host) (rk : Option (Nat × Nat)) : Scan :=
  match rk with
  | none => t.pol.pickScan up
  | some (ks, tok) =>
    match t.replicasFor ks tok with
    | .hosts l fromTable =>
      let hd := taHead t.pol.tier t.pol.maxTier up t.nonlocal (if fromTable && t.shuffle then σ l else l)
      ⟨minusUsed hd (t.pol.pickScan up).offered, (t.pol.pickScan up).crashed⟩
    | _ => t.pol.pickScan up

/-- the policy after `Pick` + full drain: the fallback policy's `Pick` has happened (the iterator asks the
fallback iterator before it returns nil), nothing else changes -/
def TA.drained (t : TA) : TA := { t with pol := t.pol.bump }

/-- `m` successive `Pick`s, each fully drained, nothing in between; pick number `i + j` shuffles with `σs (i + j)`:
per pick the hosts of the replica phases and what came after them -/
def TA.rotateRun (t : TA) (up : Nat → Bool) (σs : Nat → List Host → List Host) (rk : Option (Nat × Nat)) :
    Nat → Nat → List (List Host × Scan)
  | _, 0 => []
  | i, m + 1 => (t.headOf up (σs i) rk, t.fbPart up (σs i) rk) :: TA.rotateRun t.drained up σs rk (i + 1) m

/-- the verdict of the op `rotate`: the first tier whose first-host histogram over the run is not balanced;
a host can be offered after the replica phases if it is up and the replica phases did not offer it -/
def TA.rotateVerdict (t : TA) (up : Nat → Bool) (σs : Nat → List Host → List Host) (rk : Option (Nat × Nat)) (m : Nat) : Option Nat :=
  rotVerdict t.pol.tier (fun h => up h.id && !(t.headOf up (σs 0) rk).contains h) [t.pol.l0, t.pol.l1, t.pol.l2]
    ((TA.rotateRun t up σs rk 0 m).map (·.2.offered))

/-- the SEEDED variant C11-8 (regression, `Proofs/C11.lean`): the shift is reduced modulo the size of the first
layer before it is used for every layer -/
def rrSeqReduced (up : Nat → Bool) (shift : Nat) (layers : List (List Host)) : List Host :=
  rrSeq up (match layers.head? with | some l => if l.length = 0 then shift else shift % l.length | none => shift) layers

/-! ### the property's definition of "known and up", from the history of notifier calls

`HostStateNotifier` has four calls. In the property's words: a host that was added (`AddHost`) and not
removed (`RemoveHost`) since is KNOWN to the policy; it is UP unless the last notifier call about it was
`HostDown` (and its `HostInfo` state says up). Nothing here looks at the policy's lists. -/

inductive Ev | add | remove | hup | hdown
deriving DecidableEq, Repr

/-- what the history says about one host: known?, the last call about it -/
structure Status where
  known : Bool
  last : Option Ev
deriving DecidableEq, Repr

def Status.init : Status := ⟨false, none⟩

def Status.step (s : Status) : Ev → Status
  | .add => ⟨true, some .add⟩
  | .remove => ⟨false, some .remove⟩
  | .hup => ⟨s.known, some .hup⟩
  | .hdown => ⟨s.known, some .hdown⟩

/-- status of host `h` after the calls `evs` (oldest first) -/
def statusOf (evs : List (Ev × Host)) (h : Host) : Status :=
  evs.foldl (fun s e => if e.2 = h then s.step e.1 else s) Status.init

/-- the property: this host must be offered (exactly once), given its `HostInfo` state -/
def Status.expected (s : Status) (isUp : Bool) : Bool := s.known && s.last != some .hdown && isUp

/-- excluded condition 1 (finding KF-C11-3): `HostUp` for a host that is not known (never added, or removed) -/
def Status.ghost (s : Status) : Bool := !s.known && s.last == some .hup

/-! ### host identity in the lists (seventh round)

The lists identify a host object by what `cowHostList.add` and `cowHostList.remove` COMPARE: `add` refuses a host
that is `HostInfo.Equal` to an entry (same object, or same connect address), `remove(ip)` drops the entries whose
connect address is `ip`. The round-robin based policies keep one list per tier, so the identity of a host object
there is its KEY = (tier, connect address); two objects with one key (two nodes behind one address on different
ports, two `HostInfo` objects for one node) are ONE host to the policy: the first one `AddHost` / `HostUp` put
into the list stands for the key (`ownerOf`) until `RemoveHost` / `HostDown` of ANY object with that key frees it.
`keyStatus` is the property's "known / last call" per key (calls about any object with the key). -/

/-- the identity the lists of policy `p` give a host object: the list it belongs to and its connect address -/
def Pol.key (p : Pol) (h : Host) : Nat × Nat := (p.tier h, h.addr)

/-- status of the KEY `k` after the calls `evs` (oldest first): calls about any host object with that key -/
def keyStatus (key : Host → Nat × Nat) (evs : List (Ev × Host)) (k : Nat × Nat) : Status :=
  evs.foldl (fun s e => if key e.2 = k then s.step e.1 else s) Status.init

/-- one call about an object `h` with the key: `AddHost` / `HostUp` put `h` there if the key is free,
`RemoveHost` / `HostDown` free the key -/
def ownerStep (o : Option Host) (e : Ev) (h : Host) : Option Host :=
  match e with
  | .add | .hup => (match o with | none => some h | some x => some x)
  | .remove | .hdown => none

/-- the object that stands for key `k` after the calls `evs` (oldest first), by the history alone -/
def ownerOf (key : Host → Nat × Nat) (evs : List (Ev × Host)) (k : Nat × Nat) : Option Host :=
  evs.foldl (fun o e => if key e.2 = k then ownerStep o e.1 e.2 else o) none

/-- SPECIFICATION with shared keys: this object must be offered (exactly once) - it stands for its key, the key is
known, was not reported down last, and the object's state is up -/
def expectedObj (key : Host → Nat × Nat) (evs : List (Ev × Host)) (up : Nat → Bool) (h : Host) : Bool :=
  ownerOf key evs (key h) == some h && (keyStatus key evs (key h)).expected (up h.id)

/-! #### `cowHostList` as the Go code has it, nil entries included - for ANY pair of identities

`sameAdd` is what `add` compares (`host.Equal(l[i])`), `keyOf x == ip` what `remove` compares
(`l[i].ConnectAddress().Equal(ip)`). `remove` copies the entries that do not match into a slice of capacity
`size` and then RE-SLICES it to `size-1` (`newL[: size-1 : size-1]`): with `m` matching entries the result is the
`size-m` others followed by `m-1` nil pointers. An entry `none` is a nil `*HostInfo`; `add` / `remove` dereference
every entry they look at (`Equal(nil)` / `nil.ConnectAddress()` panic): result `none` = the call panics. -/

/-- `cowHostList.add(host)`: the scan stops at the first entry `host` is `Equal` to; a nil entry reached before
that is a panic -/
def rawAddScan {α : Type} (sameAdd : α → α → Bool) (h : α) : List (Option α) → Option Bool
  | [] => some false
  | none :: _ => none
  | some x :: r => if sameAdd h x then some true else rawAddScan sameAdd h r

def rawAdd {α : Type} (sameAdd : α → α → Bool) (l : List (Option α)) (h : α) : Option (List (Option α) × Bool) :=
  match rawAddScan sameAdd h l with
  | none => none
  | some true => some (l, false)
  | some false => some (l ++ [some h], true)

/-- the entries `remove(ip)` copies: those whose key is not `ip` -/
def keepEntry {α κ : Type} [BEq κ] (keyOf : α → κ) (ip : κ) : Option α → Bool
  | some x => !(keyOf x == ip)
  | none => true

/-- `cowHostList.remove(ip)` -/
def rawRemove {α κ : Type} [BEq κ] (keyOf : α → κ) (l : List (Option α)) (ip : κ) : Option (List (Option α) × Bool) :=
  if l.any (·.isNone) then none else
  if (l.filter (keepEntry keyOf ip)).length == l.length then some (l, false)
  else some (l.filter (keepEntry keyOf ip) ++ List.replicate (l.length - 1 - (l.filter (keepEntry keyOf ip)).length) none, true)

/-- the seeded variant C11-9 (regression, `Proofs/C11.lean`): a node is (address, port); `Equal` compares both,
`remove` still compares the address -/
def seededSame (a b : Nat × Nat) : Bool := a.1 == b.1 && a.2 == b.2

/-! ### `cowHostList.add` / `remove` run by several threads (atomic steps as the code has them)

Every call is `mu.Lock(); l := list.Load(); newL := f(l); list.Store(newL); mu.Unlock()` (add: `f = cowAdd · h`,
remove: `f = cowRemove · ip`; a call that changes nothing skips the Store — the same as storing `l`).
Generic in the shared value `σ` and the update functions. `locked = false` is the variant WITHOUT the mutex
discipline around load and copy (load; copy; lock; store; unlock — the seeded change C11-5), for the counterexample. -/
namespace Cow

inductive Pc (σ : Type)
  | idle                 -- before `mu.Lock()` (locked discipline) / before the Load (unlocked variant)
  | locked               -- holds the mutex, before the Load
  | loaded (snap : σ)    -- has its snapshot
  | computed (new : σ)   -- has built the new list
  | waiting (new : σ)    -- unlocked variant only: new list built, before `mu.Lock()`
  | stored               -- has published, holds the mutex
  | done

structure Sys (σ : Type) where
  shared : σ                 -- the atomic.Value
  mu : Option Nat            -- the holder of the mutex
  pcs : Nat → Pc σ           -- one program counter per thread (thread i runs `fs i`)

/-- one atomic step of thread `i` of `n` (a step that is not enabled — the mutex is taken, the thread is done,
no such thread — leaves the system as it is) -/
def step {σ : Type} (locked : Bool) (n : Nat) (fs : Nat → σ → σ) (s : Sys σ) (i : Nat) : Sys σ :=
  let set (v : Pc σ) : Nat → Pc σ := fun j => if j = i then v else s.pcs j
  if n ≤ i then s else
  match s.pcs i with
  | .idle =>
    if locked then (if s.mu.isNone then { s with mu := some i, pcs := set .locked } else s)
    else { s with pcs := set (.loaded s.shared) }
  | .locked => { s with pcs := set (.loaded s.shared) }
  | .loaded snap =>
    if locked then { s with pcs := set (.computed (fs i snap)) }
    else { s with pcs := set (.waiting (fs i snap)) }
  | .waiting new => if s.mu.isNone then { s with mu := some i, pcs := set (.computed new) } else s
  | .computed new => { s with shared := new, pcs := set .stored }
  | .stored => { s with mu := none, pcs := set .done }
  | .done => s

def init {σ : Type} (x : σ) : Sys σ := ⟨x, none, fun _ => .idle⟩

/-- run a schedule (the thread chosen at every step) -/
def run {σ : Type} (locked : Bool) (n : Nat) (fs : Nat → σ → σ) (s : Sys σ) (sched : List Nat) : Sys σ :=
  sched.foldl (step locked n fs) s

def Pc.isDone {σ : Type} : Pc σ → Bool
  | .done => true
  | _ => false

/-- every call has returned -/
def Sys.allDone {σ : Type} (s : Sys σ) (n : Nat) : Bool := (List.range n).all (fun i => (s.pcs i).isDone)

/-- the calls applied one after the other in the given order -/
def seq {σ : Type} (fs : Nat → σ → σ) (order : List Nat) (x : σ) : σ := order.foldl (fun acc i => fs i acc) x

end Cow

end Policies
