import Model.Murmur
import Model.Token
/-
  Model of `murmur.Murmur3H1` + `getBlock` (internal/murmur/murmur_unsafe.go) on a key AS IT LIES IN MEMORY:
  a Go slice is (backing memory, offset of its first byte, length, capacity); `getBlock` is the unsafe
  16-byte load at the ADDRESS of `data[n*16]` (two little-endian 64-bit words, no bounds check beyond the
  index expression `&data[n*16]`), the tail switch indexes `tail[i]` = the byte at address `off + nBlocks*16 + i`.
  Nothing here looks at the list `view`; the theorems (Proofs/C09Placed.lean) show that the result is a function
  of the view only, at every offset / alignment, whatever lies before and behind the key.

  Core Lean only (compiled into the native driver `vdrv`).
-/
namespace Murmur.Placed

/-- a `[]byte` value as the machine sees it -/
structure Slice where
  mem : List UInt8     -- the backing memory (the allocation the slice points into)
  off : Nat            -- address of the first byte, relative to the start of `mem` (any alignment)
  len : Nat
  cap : Nat := len     -- spare capacity behind the key: never read
  deriving Repr

/-- the bytes the slice denotes in Go: `data[0:len]` -/
def Slice.view (s : Slice) : List UInt8 := (s.mem.drop s.off).take s.len

/-- the slice lies inside its backing memory -/
def Slice.wf (s : Slice) : Prop := s.off + s.len ≤ s.mem.length

/-- `data[i]` -/
def Slice.at (s : Slice) (i : Nat) : UInt8 := s.mem.getD (s.off + i) 0

/-- a 64-bit little-endian load at address `a` -/
def load64 (mem : List UInt8) (a : Nat) : W := le64 ((mem.drop a).take 8)

/-- murmur_unsafe.go `getBlock`: `block := (*[2]int64)(unsafe.Pointer(&data[n*16]))`; `block[0]`, `block[1]` -/
def getBlock (s : Slice) (n : Nat) : W × W :=
  (load64 s.mem (s.off + n*16), load64 s.mem (s.off + n*16 + 8))

/-- the addresses `getBlock s n` reads: 16 bytes from `off + n*16` -/
def getBlockReads (s : Slice) (n : Nat) : List Nat := (List.range 16).map (fun j => s.off + n*16 + j)

/-- the block loop `for i := 0; i < nBlocks; i++ { k1, k2 = getBlock(data, i); … }` (generic in the mixing step) -/
def bodyLoopG (mix : W × W → W → W → W × W) (s : Slice) (nBlocks : Nat) : Nat → W × W → W × W
  | 0, h => h
  | fuel+1, h =>
    let i := nBlocks - (fuel+1)
    let k := getBlock s i
    bodyLoopG mix s nBlocks fuel (mix h k.1 k.2)

/-- `block(tail[i])` with `tail := data[nBlocks*16:]` -/
def tbAt (s : Slice) (base i : Nat) : W := sext (s.at (base + i))

/-- the `switch length & 15` chain over a byte reader (the same arms as `Murmur.tailK2` / `Murmur.tailK1`) -/
def tailK2R (rd : Nat → W) (n : Nat) : W :=
  let k2 : W := 0#64
  let k2 := k2 ^^^ (if n ≥ 15 then rd 14 <<< 48 else 0#64)
  let k2 := k2 ^^^ (if n ≥ 14 then rd 13 <<< 40 else 0#64)
  let k2 := k2 ^^^ (if n ≥ 13 then rd 12 <<< 32 else 0#64)
  let k2 := k2 ^^^ (if n ≥ 12 then rd 11 <<< 24 else 0#64)
  let k2 := k2 ^^^ (if n ≥ 11 then rd 10 <<< 16 else 0#64)
  let k2 := k2 ^^^ (if n ≥ 10 then rd 9 <<< 8 else 0#64)
  let k2 := k2 ^^^ (if n ≥ 9 then rd 8 else 0#64)
  k2

def tailK1R (rd : Nat → W) (n : Nat) : W :=
  let k1 : W := 0#64
  let k1 := k1 ^^^ (if n ≥ 8 then rd 7 <<< 56 else 0#64)
  let k1 := k1 ^^^ (if n ≥ 7 then rd 6 <<< 48 else 0#64)
  let k1 := k1 ^^^ (if n ≥ 6 then rd 5 <<< 40 else 0#64)
  let k1 := k1 ^^^ (if n ≥ 5 then rd 4 <<< 32 else 0#64)
  let k1 := k1 ^^^ (if n ≥ 4 then rd 3 <<< 24 else 0#64)
  let k1 := k1 ^^^ (if n ≥ 3 then rd 2 <<< 16 else 0#64)
  let k1 := k1 ^^^ (if n ≥ 2 then rd 1 <<< 8 else 0#64)
  let k1 := k1 ^^^ (if n ≥ 1 then rd 0 else 0#64)
  k1

/-- `Murmur3H1(data)` on the placed key, generic in the arithmetic steps -/
def murmurG (mix : W × W → W → W → W × W) (mt : W × W → W → W → Nat → W × W) (fin : W × W → Nat → W)
    (s : Slice) : W :=
  let length := s.len
  let nBlocks := length / 16
  let h := bodyLoopG mix s nBlocks nBlocks (0#64, 0#64)
  let n := length % 16
  let h := mt h (tailK1R (tbAt s (nBlocks * 16)) n) (tailK2R (tbAt s (nBlocks * 16)) n) n
  fin h length

/-- Model of `murmur.Murmur3H1` on a key in memory. -/
def murmur3H1 (s : Slice) : W := murmurG mixBlock mixTail finish s

/-- `createRoutingKey` with blob components as they lie in memory: ONE key column → the marshalled value itself
    (for a `[]byte` bound to a blob/text column Marshal returns the caller's slice: the routing key ALIASES the
    caller's memory, at the caller's alignment); several → a fresh buffer with the CompositeType framing. -/
def routingKey (cs : List Slice) : Slice :=
  match cs with
  | [c] => c
  | cs =>
    let b := Token.composite (cs.map Slice.view)
    { mem := b, off := 0, len := b.length, cap := max 256 b.length }

/-- the token a token-aware policy computes for the statement: `murmur3Partitioner.Hash(routingKey)` -/
def routingToken (cs : List Slice) : W := murmur3H1 (routingKey cs)

/-- place `key` at offset `off` of a buffer: `pre` bytes before (`off = pre.length`), `post` bytes behind, the first
    `spare` of which are the slice's spare capacity -/
def place (pre key post : List UInt8) (spare : Nat) : Slice :=
  { mem := pre ++ key ++ post, off := pre.length, len := key.length, cap := key.length + min spare post.length }

end Murmur.Placed
