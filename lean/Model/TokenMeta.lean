import Model.ClusterView
/-
  Model of the token-aware policy's cluster metadata (policies.go: `clusterMeta` = token ring + per-keyspace replica
  tables) as far as the session's picture of the cluster is concerned: WHICH HOSTS the metadata refers to. A routed
  query is offered the replicas of its token from `meta.replicas[keyspace]` (else the owner from `meta.tokenRing`),
  then the hosts of the fallback policy — so a host that has vanished from ring, pool and the policy's host lists is
  still offered for queries as long as a replica table refers to it.

      AddHost(h):     if t.hosts.add(h)       { meta := copy; meta.resetTokenRing(part, t.hosts.get()); t.updateAllReplicas(meta); store }
      RemoveHost(h):  if t.hosts.remove(addr) { … the same … }            HostUp / HostDown: fallback only
      SetPartitioner(p): if t.partitioner != p { t.partitioner = p; resetTokenRing; updateAllReplicas; store }
      KeyspaceChanged(ks): meta := copy; t.updateReplicas(meta, ks); store
      resetTokenRing: no partitioner yet → nothing; else meta.tokenRing = newTokenRing(hosts)
      updateReplicas(meta, ks): the table of ks is recomputed from meta.tokenRing when the keyspace metadata is available
                                and names a strategy (and the ring is not nil), else DROPPED; the other tables are kept
      updateAllReplicas(meta): updateReplicas for the session keyspace and every keyspace meta holds a table for

  The placement itself (which hosts replicate which token) is C10 / C11; here a table is represented by the set of hosts
  it refers to: the hosts of the ring that own a token (`replicaHosts`; exact for SimpleStrategy with rf ≥ number of
  hosts, which is what the harness supplies). Core Lean only.
-/
namespace TokenMeta
open Ring ClusterView

structure TEnv where
  sessionKs : Nat
  known : Nat → Bool       -- getKeyspaceMetadata(ks) succeeds and names a strategy with a replica map
  hasTok : RHost → Bool    -- the host owns at least one token

structure TMeta where
  part : Bool := false                   -- t.partitioner != ""
  tring : Option (List RHost) := none    -- hosts of meta.tokenRing (none = nil)
  repl : List (Nat × List RHost) := []   -- keyspace ↦ hosts its replica table refers to
deriving Repr

def replicaHosts (te : TEnv) (l : List RHost) : List RHost := l.filter te.hasTok

/-- `meta.resetTokenRing(t.partitioner, hosts)` -/
def TMeta.reset (tm : TMeta) (hosts : List RHost) : TMeta := if tm.part then { tm with tring := some hosts } else tm

/-- `t.updateReplicas(meta, ks)` -/
def TMeta.updateReplicas (te : TEnv) (tm : TMeta) (ks : Nat) : TMeta :=
  let others := tm.repl.filter (fun e => e.1 != ks)
  match te.known ks, tm.tring with
  | true, some l => { tm with repl := (ks, replicaHosts te l) :: others }
  | _, _ => { tm with repl := others }

/-- `t.updateAllReplicas(meta)` -/
def TMeta.updateAll (te : TEnv) (tm : TMeta) : TMeta :=
  (te.sessionKs :: (tm.repl.map (·.1)).filter (· != te.sessionKs)).foldl (TMeta.updateReplicas te) tm

/-- the ring-changing part of AddHost / RemoveHost: `replicasFirst = false` is the code that exists (token ring first,
then the replica tables); `true` is the variant the counterexample is about -/
def TMeta.ringChanged (replicasFirst : Bool) (te : TEnv) (tm : TMeta) (hosts : List RHost) : TMeta :=
  if replicasFirst then (tm.updateAll te).reset hosts else (tm.reset hosts).updateAll te

inductive PolOp
  | add (h : RHost) | remove (h : RHost) | up (h : RHost) | down (h : RHost)
  | setPartitioner | keyspaceChanged (ks : Nat)
deriving Repr

structure PS where
  p : Policy := {}
  tm : TMeta := {}

def inList (l : List RHost) (h : RHost) : Bool := l.any (fun e => cAddr e == cAddr h)

def pstepWith (replicasFirst : Bool) (env : Env) (te : TEnv) (s : PS) : PolOp → PS
  | .add h =>
    ⟨s.p.add env h,
     if env.tokenAware && !inList s.p.ta h then s.tm.ringChanged false te (cowAdd s.p.ta h) else s.tm⟩
  | .remove h =>
    ⟨s.p.remove env h,
     if env.tokenAware && inList s.p.ta h then s.tm.ringChanged replicasFirst te (cowRemove s.p.ta (cAddr h)) else s.tm⟩
  | .up h => ⟨s.p.up env h, s.tm⟩
  | .down h => ⟨s.p.dn env h, s.tm⟩
  | .setPartitioner =>
    if env.tokenAware && !s.tm.part then ⟨s.p, (({ s.tm with part := true } : TMeta).reset s.p.ta).updateAll te⟩ else s
  | .keyspaceChanged ks => if env.tokenAware then ⟨s.p, s.tm.updateReplicas te ks⟩ else s

def pstep (env : Env) (te : TEnv) (s : PS) (o : PolOp) : PS := pstepWith false env te s o
def prun (env : Env) (te : TEnv) (s : PS) (ops : List PolOp) : PS := ops.foldl (pstep env te) s

/-- how the driver follows a step of the session's view: when the token-aware host list has changed, at least one
AddHost / RemoveHost took effect — the ring was reset to (finally) the new list and all tables recomputed -/
def TMeta.follow (te : TEnv) (tm : TMeta) (ta ta' : List RHost) : TMeta :=
  if ta = ta' then tm else tm.ringChanged false te ta'

/-- every host the metadata refers to -/
def TMeta.refs (tm : TMeta) : List RHost := (tm.tring.getD []) ++ (tm.repl.map (·.2)).flatten

/-- the oracle: host ids the metadata refers to that are not among the `known` objects -/
def TMeta.strayRefs (tm : TMeta) (known : List RHost) : List Nat :=
  (tm.refs.filter (fun h => !known.contains h)).map (·.id)

/-! ### schema events (events.go `handleSchemaEvent`): every SCHEMA_CHANGE frame drops the keyspace's entry of the
session's schema cache (`schemaDescriber.clearSchema`); a keyspace-level frame also reaches the selection policy
(`handleKeyspaceChange` → `policy.KeyspaceChanged`) -/

inductive SchemaEv
  | keyspace (ks : Nat)
  | other (ks : Nat)       -- table / type / function / aggregate of that keyspace
deriving DecidableEq, Repr

def SchemaEv.ks : SchemaEv → Nat
  | .keyspace k => k
  | .other k => k

structure SchemaSt where
  cache : List Nat := []   -- keyspaces whose metadata the schema cache holds
  tm : TMeta := {}

def schemaStep (env : Env) (te : TEnv) (p : Policy) (s : SchemaSt) : SchemaEv → SchemaSt
  | .keyspace k => ⟨s.cache.filter (· != k), (pstep env te ⟨p, s.tm⟩ (.keyspaceChanged k)).tm⟩
  | .other k => ⟨s.cache.filter (· != k), s.tm⟩

/-- `Session.handleSchemaEvent(frames)` -/
def handleSchemaEvent (env : Env) (te : TEnv) (p : Policy) (s : SchemaSt) (b : List SchemaEv) : SchemaSt :=
  b.foldl (schemaStep env te p) s

inductive SchemaOp
  | fill (ks : Nat)                -- a KeyspaceMetadata(ks) call filled the cache
  | events (b : List SchemaEv)     -- one batch of the schema-event debouncer
deriving Repr

def schemaOp (env : Env) (te : TEnv) (p : Policy) (s : SchemaSt) : SchemaOp → SchemaSt
  | .fill k => { s with cache := if s.cache.contains k then s.cache else k :: s.cache }
  | .events b => handleSchemaEvent env te p s b

/-- specification, on the history in REVERSE order (latest first): a keyspace is cached iff a fill is the latest
thing that happened to it -/
def cachedSpecRev (ks : Nat) : List SchemaOp → Bool
  | [] => false
  | .fill k :: t => k == ks || cachedSpecRev ks t
  | .events b :: t => !(b.any (fun e => e.ks == ks)) && cachedSpecRev ks t

end TokenMeta
