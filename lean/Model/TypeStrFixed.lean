import Model.TypeStr
/-! The type-string parsers WITH props/C05.fix-1.diff applied: the same definitions as
Model/TypeStr.lean instantiated at `fx := true` (every unguarded index guarded). Not referenced by
props/C05.json until the fix is committed; then `Driver/C05.lean` answers `ts` from
`TypeStrFixed.parseType` and the full theorem `C05Fixed.C05_typestrings_total` replaces the
`_partial` one. -/
namespace TypeStrFixed
open TypeStr
def parseType (input : Str) : Out PResult := TypeStr.parseType true input
end TypeStrFixed
