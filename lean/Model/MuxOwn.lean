/-
  Stream multiplexing with the connection's OWN requests and the sender's steps made explicit (C01, round 6).

  /repo/conn.go, one connection:

    exec:        stream := c.streams.GetStream()          -- `reserve`
                 c.addCall(call)   (c.calls[stream] = call) -- `register`     BEFORE the frame is written
                 c.w.writeContext(ctx, framer.buf)        -- `write` (the peer has the request) … `writeReturned`
                 select { call.resp | timer | ctx | c.ctx }
    recv:        head := readHeader; call := c.calls[head.stream]; delete(c.calls, head.stream)
                 no call → discardFrame;  else readFrame; select { call.resp <- … | <-call.timeout | <-ctx.Done() }
    heartBeat:   exec(OPTIONS); switch resp { SUPPORTED: ok | error: (nothing - "TODO") | default: closeWithError(plain error) }
    UseKeyspace / prepareStatement / registerEvents: exec; the answer (whatever its kind) goes back to THAT caller
    closeWithError(err): c.closed = true; every registered call is handed `callResp{err: err}`

  The calls of the heartbeat, of USE / PREPARE / REGISTER and of user requests share the stream-id space and the
  c.calls map. `Cfg` selects the code that exists (`Cfg.code`) or one of two variants that the theorems exclude and
  the counterexamples exhibit (registration after the write; heartBeat treating an ERROR answer as fatal and
  closing the connection WITH THAT FRAME as the error value).
-/
namespace MuxOwn

inductive Who where
  | user | heartbeat | internal
deriving DecidableEq, Repr

/-- a frame the peer wrote: the stream id it is addressed to, its kind (0 = the kind the request expects,
    1 = ERROR, anything else = another opcode) and its unique content -/
structure Frame where
  sid : Nat
  kind : Nat
  tag : Nat
deriving DecidableEq, Repr

/-- the value handed to closeWithError: an error that carries no frame, or a frame of the peer used as error value -/
inductive CErr where
  | plain
  | frame (f : Frame)
deriving DecidableEq, Repr

inductive Outcome where
  | resp (f : Frame)
  | connErr (e : CErr)
  | ctxErr | timeout | writeErr
deriving DecidableEq, Repr

inductive Pc where
  | idle
  | flight (s : Nat) (reg wr ret : Bool)   -- id reserved; in c.calls?; frame handed to the transport?; Write returned?
  | done (o : Outcome)
deriving DecidableEq, Repr

inductive Wire where
  | none
  | pending (c : Nat)
  | answered (c : Nat) (f : Frame)
deriving DecidableEq, Repr

structure Cfg where
  lateRegister : Bool    -- true: addCall only after writeContext has returned (seeded change C01-5)
  hbErrFatal : Bool      -- true: heartBeat calls closeWithError(<the ERROR frame>) (seeded change C01-6)
deriving DecidableEq, Repr

/-- the code that exists -/
def Cfg.code : Cfg := { lateRegister := false, hbErrFatal := false }

structure St where
  cap : Nat
  owner : Nat → Option Nat      -- allocator bit of id s: the call that reserved it
  reg : Nat → Option Nat        -- c.calls[s]
  wire : Nat → Wire             -- what the peer holds for s
  pc : Nat → Pc
  who : Nat → Who
  sidOf : Nat → Nat             -- ghost: the id call c reserved
  sent : Nat → Option Frame     -- ghost: what the peer answered to the request of call c
  lost : Nat → Bool             -- ghost: the answer to call c was discarded for want of a handler
  reacted : Nat → Bool          -- heartBeat has looked at the answer of its call c
  closed : Option CErr          -- closeWithError(e) has run

inductive Act where
  | reserve (c s : Nat) (w : Who)
  | register (c : Nat)
  | write (c : Nat)
  | writeReturned (c : Nat)
  | writeFailed (c : Nat)
  | answer (s kind tag : Nat)    -- the peer answers the request it holds for s, with ITS stream id
  | stray (s : Nat)
  | event
  | deliver (s : Nat)            -- recv: header for s read, handler looked up, frame handed over / released / discarded
  | timeout (c : Nat)
  | cancel (c : Nat)
  | hbReact (c : Nat)            -- heartBeat's switch over the answer of its call c
  | close                        -- closeWithError(err) with an error that is no frame (recv / write failure, Close)
  | connDone (c : Nat)           -- closeWithError hands its argument to the registered call c
  | connDoneCtx (c : Nat)        -- call c sees c.ctx.Done(): ErrConnectionClosed
deriving Repr

def upd {α} (f : Nat → α) (k : Nat) (v : α) : Nat → α := fun x => if x = k then v else f x

def init (cap : Nat) : St :=
  { cap := cap, owner := fun _ => none, reg := fun _ => none, wire := fun _ => .none, pc := fun _ => .idle,
    who := fun _ => .user, sidOf := fun _ => 0, sent := fun _ => none, lost := fun _ => false,
    reacted := fun _ => false, closed := none }

/-- closeWithError(e): only the first one counts -/
def closeWith (st : St) (e : CErr) : Option CErr :=
  match st.closed with
  | some x => some x
  | none => some e

def step (cfg : Cfg) (st : St) : Act → Option St
  | .reserve c s w =>
      if st.pc c = .idle ∧ st.owner s = none ∧ 1 ≤ s ∧ s < st.cap ∧ st.closed = none then
        some { st with owner := upd st.owner s (some c), pc := upd st.pc c (.flight s false false false),
                       who := upd st.who c w, sidOf := upd st.sidOf c s }
      else none
  | .register c =>
      match st.pc c with
      | .flight s false wr ret =>
          if (if cfg.lateRegister then ret = true else wr = false) then
            (if st.closed = none then some { st with reg := upd st.reg s (some c), pc := upd st.pc c (.flight s true wr ret) }
             else some { st with pc := upd st.pc c (.done (.connErr .plain)) })   -- addCall: ErrConnectionClosed
          else none
      | _ => none
  | .write c =>
      match st.pc c with
      | .flight s r false false =>
          if cfg.lateRegister = false ∧ r = false then none
          else some { st with wire := upd st.wire s (.pending c), pc := upd st.pc c (.flight s r true false) }
      | _ => none
  | .writeReturned c =>
      match st.pc c with
      | .flight s r true false => some { st with pc := upd st.pc c (.flight s r true true) }
      | _ => none
  | .writeFailed c =>
      match st.pc c with
      | .flight _ _ _ false => some { st with pc := upd st.pc c (.done .writeErr), closed := closeWith st .plain }
      | _ => none
  | .answer s kind tag =>
      match st.wire s with
      | .pending c => some { st with wire := upd st.wire s (.answered c ⟨s, kind, tag⟩), sent := upd st.sent c (some ⟨s, kind, tag⟩) }
      | _ => none
  | .stray s => if st.wire s = .none ∧ st.owner s = none then some st else none
  | .event => some st
  | .deliver s =>
      match st.wire s with
      | .answered c f =>
          if st.closed ≠ none then none else
          match st.reg s with
          | none => some { st with wire := upd st.wire s .none, lost := upd st.lost c true }   -- "no handler": discarded
          | some d =>
              match st.pc d with
              | .flight _ _ _ false => none     -- the registered caller is still inside Write: recv waits in its select
              | .flight _ _ _ true =>
                  some { st with wire := upd st.wire s .none, reg := upd st.reg s none, owner := upd st.owner s none,
                                 pc := upd st.pc d (.done (.resp f)) }
              | .done _ =>                        -- the caller gave up (its timeout channel is closed): id released
                  some { st with wire := upd st.wire s .none, reg := upd st.reg s none, owner := upd st.owner s none }
              | .idle => none
      | _ => none
  | .timeout c =>
      match st.pc c with
      | .flight _ true true true => some { st with pc := upd st.pc c (.done .timeout) }
      | _ => none
  | .cancel c =>
      match st.pc c with
      | .flight _ true true true => some { st with pc := upd st.pc c (.done .ctxErr) }
      | _ => none
  | .hbReact c =>
      match st.pc c with
      | .done (.resp f) =>
          if st.who c = .heartbeat ∧ st.reacted c = false then
            some { st with reacted := upd st.reacted c true,
                           closed := if f.kind = 0 then st.closed                       -- SUPPORTED
                                     else if f.kind = 1 then                            -- ERROR
                                       (if cfg.hbErrFatal then closeWith st (.frame f) else st.closed)
                                     else closeWith st .plain }                         -- "unknown frame in response to options"
          else none
      | _ => none
  | .close => some { st with closed := closeWith st .plain }
  | .connDone c =>
      match st.pc c, st.closed with
      | .flight _ true true true, some e => some { st with pc := upd st.pc c (.done (.connErr e)) }
      | _, _ => none
  | .connDoneCtx c =>
      match st.pc c, st.closed with
      | .flight _ true true true, some _ => some { st with pc := upd st.pc c (.done (.connErr .plain)) }
      | _, _ => none

def run (cfg : Cfg) : St → List Act → Option St
  | s, [] => some s
  | s, a :: as => match step cfg s a with
    | some s' => run cfg s' as
    | none => none

end MuxOwn
