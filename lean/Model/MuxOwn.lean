/-
  Stream multiplexing with the connection's OWN requests and the sender's steps made explicit (C01, round 6).

  /repo/conn.go, one connection:

    exec:        stream := c.streams.GetStream()          -- `reserve`
                 c.addCall(call)   (c.calls[stream] = call) -- `register`     BEFORE the frame is written
                 c.w.writeContext(ctx, framer.buf)        -- `write` (the peer has the request) … `writeReturned`
                 select { call.resp | timer | ctx | c.ctx }
    recv:        head := readHeader; call := c.calls[head.stream]; delete(c.calls, head.stream)
                 no call → discardFrame;  else readFrame; select { call.resp <- … | <-call.timeout | <-ctx.Done() }
    heartBeat:   exec(OPTIONS); switch resp { SUPPORTED: ok | error: (nothing - "TODO") | default: closeWithError(plain error) }
    UseKeyspace / prepareStatement / registerEvents: exec; the answer (whatever its kind) goes back to THAT caller
    closeWithError(err): c.closed = true; every registered call is handed `callResp{err: err}`
    exec, exits before anything was written (buildFrame failed / ctx done while waiting for the write slot, n == 0):
                 close(call.timeout); if !c.closed { delete(c.calls, stream) }; c.releaseStream(call)
    releaseStream(call): c.streams.Clear(call.streamID)          -- `release`  (the id is free from here on)
                 call.streamObserverContext.StreamFinished(...)  -- user code runs here, for as long as it likes
                                                                 -- `relDone`  (releaseStream returns)
    addCall:     c.closed → ErrConnectionClosed; c.calls[stream] != nil → "attempting to use stream already in use"

  Round 7 (schedule points inside exec's exits and releaseStream): `deliver` no longer frees the id itself - the
  caller that was handed its response calls releaseStream afterwards (`release`, `relDone`), and between the two a new
  request may be given the id. The early exits `buildFailed` / `writeCancelled` remove the registration FIRST and free
  the id afterwards.

  The calls of the heartbeat, of USE / PREPARE / REGISTER and of user requests share the stream-id space and the
  c.calls map. `Cfg` selects the code that exists (`Cfg.code`) or one of three variants that the theorems exclude and
  the counterexamples exhibit (registration after the write; heartBeat treating an ERROR answer as fatal and
  closing the connection WITH THAT FRAME as the error value; releaseStream removing the c.calls entry of its id AFTER
  it has freed the id and run the observer callback).
-/
namespace MuxOwn

inductive Who where
  | user | heartbeat | internal
deriving DecidableEq, Repr

/-- a frame the peer wrote: the stream id it is addressed to, its kind (0 = the kind the request expects,
    1 = ERROR, anything else = another opcode) and its unique content -/
structure Frame where
  sid : Nat
  kind : Nat
  tag : Nat
deriving DecidableEq, Repr

/-- the value handed to closeWithError: an error that carries no frame, or a frame of the peer used as error value -/
inductive CErr where
  | plain
  | frame (f : Frame)
deriving DecidableEq, Repr

inductive Outcome where
  | resp (f : Frame)
  | connErr (e : CErr)
  | ctxErr | timeout | writeErr
  | buildErr                     -- buildFrame failed: nothing was written
  | dupErr                       -- addCall: "attempting to use stream already in use"
deriving DecidableEq, Repr

inductive Pc where
  | idle
  | flight (s : Nat) (reg wr ret : Bool)   -- id reserved; in c.calls?; frame handed to the transport?; Write returned?
  | done (o : Outcome)
deriving DecidableEq, Repr

/-- where a call is inside releaseStream -/
inductive Rel where
  | no
  | due        -- releaseStream will be / has been called, streams.Clear has not run yet
  | cleared    -- streams.Clear has run (the id is free); the observer callback is running
deriving DecidableEq, Repr

inductive Wire where
  | none
  | pending (c : Nat)
  | answered (c : Nat) (f : Frame)
deriving DecidableEq, Repr

structure Cfg where
  lateRegister : Bool    -- true: addCall only after writeContext has returned (seeded change C01-5)
  hbErrFatal : Bool      -- true: heartBeat calls closeWithError(<the ERROR frame>) (seeded change C01-6)
  lateDelete : Bool := false   -- true: releaseStream does delete(c.calls, id) after Clear and the callback, the early
                               -- exits of exec do not delete themselves (seeded change C01-8)
deriving DecidableEq, Repr

/-- the code that exists -/
def Cfg.code : Cfg := { lateRegister := false, hbErrFatal := false }

structure St where
  cap : Nat
  owner : Nat → Option Nat      -- allocator bit of id s: the call that reserved it
  reg : Nat → Option Nat        -- c.calls[s]
  wire : Nat → Wire             -- what the peer holds for s
  pc : Nat → Pc
  who : Nat → Who
  sidOf : Nat → Nat             -- ghost: the id call c reserved
  sent : Nat → Option Frame     -- ghost: what the peer answered to the request of call c
  lost : Nat → Bool             -- ghost: the answer to call c was discarded for want of a handler
  reacted : Nat → Bool          -- heartBeat has looked at the answer of its call c
  rel : Nat → Rel               -- call c inside releaseStream
  closed : Option CErr          -- closeWithError(e) has run

inductive Act where
  | reserve (c s : Nat) (w : Who)
  | register (c : Nat)
  | write (c : Nat)
  | writeReturned (c : Nat)
  | writeFailed (c : Nat)
  | answer (s kind tag : Nat)    -- the peer answers the request it holds for s, with ITS stream id
  | stray (s : Nat)
  | event
  | deliver (s : Nat)            -- recv: header for s read, handler looked up, frame handed over / released / discarded
  | timeout (c : Nat)
  | cancel (c : Nat)
  | hbReact (c : Nat)            -- heartBeat's switch over the answer of its call c
  | close                        -- closeWithError(err) with an error that is no frame (recv / write failure, Close)
  | connDone (c : Nat)           -- closeWithError hands its argument to the registered call c
  | connDoneCtx (c : Nat)        -- call c sees c.ctx.Done(): ErrConnectionClosed
  | buildFailed (c : Nat)        -- exec: buildFrame returned an error (registered, nothing written)
  | writeCancelled (c : Nat)     -- exec: writeContext returned (0, ctx.Err()): ctx done before the write started
  | release (c : Nat)            -- releaseStream: streams.Clear(id)
  | relDone (c : Nat)            -- releaseStream returns (after the StreamFinished callback)
deriving Repr

def upd {α} (f : Nat → α) (k : Nat) (v : α) : Nat → α := fun x => if x = k then v else f x

def init (cap : Nat) : St :=
  { cap := cap, owner := fun _ => none, reg := fun _ => none, wire := fun _ => .none, pc := fun _ => .idle,
    who := fun _ => .user, sidOf := fun _ => 0, sent := fun _ => none, lost := fun _ => false,
    reacted := fun _ => false, rel := fun _ => .no, closed := none }

/-- closeWithError(e): only the first one counts -/
def closeWith (st : St) (e : CErr) : Option CErr :=
  match st.closed with
  | some x => some x
  | none => some e

/-- the exits of exec before anything was written: the registration is removed first (unless the connection is
    closing: closeWithError owns the map then), the id is freed afterwards -/
def earlyExit (cfg : Cfg) (st : St) (c s : Nat) (o : Outcome) : St :=
  { st with pc := upd st.pc c (.done o),
            reg := if st.closed = none ∧ cfg.lateDelete = false then upd st.reg s none else st.reg,
            rel := upd st.rel c .due }

def step (cfg : Cfg) (st : St) : Act → Option St
  | .reserve c s w =>
      if st.pc c = .idle ∧ st.owner s = none ∧ 1 ≤ s ∧ s < st.cap ∧ st.closed = none then
        some { st with owner := upd st.owner s (some c), pc := upd st.pc c (.flight s false false false),
                       who := upd st.who c w, sidOf := upd st.sidOf c s }
      else none
  | .register c =>
      match st.pc c with
      | .flight s false wr ret =>
          if (if cfg.lateRegister then ret = true else wr = false) then
            (if st.closed = none then
               (if st.reg s = none then some { st with reg := upd st.reg s (some c), pc := upd st.pc c (.flight s true wr ret) }
                else some { st with pc := upd st.pc c (.done .dupErr) })            -- addCall: stream already in use
             else some { st with pc := upd st.pc c (.done (.connErr .plain)) })   -- addCall: ErrConnectionClosed
          else none
      | _ => none
  | .write c =>
      match st.pc c with
      | .flight s r false false =>
          if cfg.lateRegister = false ∧ r = false then none
          else some { st with wire := upd st.wire s (.pending c), pc := upd st.pc c (.flight s r true false) }
      | _ => none
  | .writeReturned c =>
      match st.pc c with
      | .flight s r true false => some { st with pc := upd st.pc c (.flight s r true true) }
      | _ => none
  | .writeFailed c =>
      match st.pc c with
      | .flight _ _ _ false => some { st with pc := upd st.pc c (.done .writeErr), closed := closeWith st .plain }
      | _ => none
  | .answer s kind tag =>
      match st.wire s with
      | .pending c => some { st with wire := upd st.wire s (.answered c ⟨s, kind, tag⟩), sent := upd st.sent c (some ⟨s, kind, tag⟩) }
      | _ => none
  | .stray s => if st.wire s = .none ∧ st.owner s = none then some st else none
  | .event => some st
  | .deliver s =>
      match st.wire s with
      | .answered c f =>
          if st.closed ≠ none then none else
          match st.reg s with
          | none => some { st with wire := upd st.wire s .none, lost := upd st.lost c true }   -- "no handler": discarded
          | some d =>
              match st.pc d with
              | .flight _ _ _ false => none     -- the registered caller is still inside Write: recv waits in its select
              | .flight _ _ _ true =>                -- handed over; the CALLER will call releaseStream
                  some { st with wire := upd st.wire s .none, reg := upd st.reg s none,
                                 pc := upd st.pc d (.done (.resp f)), rel := upd st.rel d .due }
              | .done _ =>                        -- the caller gave up (its timeout channel is closed): id released
                  some { st with wire := upd st.wire s .none, reg := upd st.reg s none, owner := upd st.owner s none }
              | .idle => none
      | _ => none
  | .timeout c =>
      match st.pc c with
      | .flight _ true true true => some { st with pc := upd st.pc c (.done .timeout) }
      | _ => none
  | .cancel c =>
      match st.pc c with
      | .flight _ true true true => some { st with pc := upd st.pc c (.done .ctxErr) }
      | _ => none
  | .hbReact c =>
      match st.pc c with
      | .done (.resp f) =>
          if st.who c = .heartbeat ∧ st.reacted c = false then
            some { st with reacted := upd st.reacted c true,
                           closed := if f.kind = 0 then st.closed                       -- SUPPORTED
                                     else if f.kind = 1 then                            -- ERROR
                                       (if cfg.hbErrFatal then closeWith st (.frame f) else st.closed)
                                     else closeWith st .plain }                         -- "unknown frame in response to options"
          else none
      | _ => none
  | .close => some { st with closed := closeWith st .plain }
  | .connDone c =>
      match st.pc c, st.closed with
      | .flight _ true true true, some e => some { st with pc := upd st.pc c (.done (.connErr e)) }
      | _, _ => none
  | .connDoneCtx c =>
      match st.pc c, st.closed with
      | .flight _ true true true, some _ => some { st with pc := upd st.pc c (.done (.connErr .plain)) }
      | _, _ => none
  | .buildFailed c =>
      match st.pc c with
      | .flight s true false false => some (earlyExit cfg st c s .buildErr)
      | _ => none
  | .writeCancelled c =>
      match st.pc c with
      | .flight s true false false => some (earlyExit cfg st c s .ctxErr)
      | _ => none
  | .release c =>
      if st.rel c = .due then some { st with owner := upd st.owner (st.sidOf c) none, rel := upd st.rel c .cleared }
      else none
  | .relDone c =>
      if st.rel c = .cleared then
        some { st with rel := upd st.rel c .no,
                       reg := if cfg.lateDelete = true ∧ st.closed = none then upd st.reg (st.sidOf c) none else st.reg }
      else none

def run (cfg : Cfg) : St → List Act → Option St
  | s, [] => some s
  | s, a :: as => match step cfg s a with
    | some s' => run cfg s' as
    | none => none

/-! Several connections of one process: each has its own stream ids, its own `c.calls`, its own call objects (exec
    allocates a fresh `callReq` - response channel and timeout channel - per request): a step of connection `k` is a
    step of the machine of `k` and leaves every other connection alone. -/
def mstep (cfg : Cfg) (m : Nat → St) (k : Nat) (a : Act) : Option (Nat → St) :=
  match step cfg (m k) a with
  | some s => some (upd m k s)
  | none => none

def mrun (cfg : Cfg) : (Nat → St) → List (Nat × Act) → Option (Nat → St)
  | m, [] => some m
  | m, (k, a) :: as => match mstep cfg m k a with
    | some m' => mrun cfg m' as
    | none => none

/-- the actions of connection `k` in an interleaved history -/
def proj (k : Nat) : List (Nat × Act) → List Act
  | [] => []
  | (j, a) :: as => if j = k then a :: proj k as else proj k as

end MuxOwn
