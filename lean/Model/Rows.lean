/-
C04 / C05 — MODEL side: the rows of a RESULT/Rows frame as the consumers see them.

  session.go  Iter.readColumn (1575), Iter.Scan (1587-1631), scanColumn (1504-1526),
              iterScanner.Next / Scan (1476-1555)
  helpers.go  Iter.RowData (325-359), rowMap (305-316, 362-372), SliceMap (376-393), MapScan (433-452),
              TupleColumnName (321), goType (43-102)
  marshal.go  unmarshalTuple on a `[]interface{}` destination (2107-2126), readBytes (2094-2102)
  conn.go     executeQuery: choice of the iterator's metadata with skip-metadata (1432-1448)
(the code AFTER the repairs of KF-C04-2 (iterScanner.Scan), KF-C04-4 (goType), KF-C04-5 (executeQuery),
KF-C05-10 (readBytesInternal: fewer than 4 bytes is a returned error), KF-C05-11 (scanColumn: no
destination left is a returned error), KF-C05-12 (marshal.go readBytes: a field length beyond the data is
a returned error))

Destinations are observed at the bytes level: a non-nil destination is a recorder implementing
`gocql.Unmarshaler`, for which `Unmarshal(info, data, dest)` is `dest.UnmarshalCQL(info, data)`
(marshal.go:226); the model returns the sequence of these calls (destination index, type, data).
A nil destination is `false` in the destination list. Typed decoding is C02/C12's business.
Paging (`iter.next`) is C15's business: here `next == nil`.

`Outcome.crash` = a Go panic that reaches the caller of Scan / Next (nothing recovers there); `err` is not used by the scan functions (an error is stored in
`iter.err`, reported here as `failed := true`, and the call returns false).
Core Lean only.
-/
import Model.FrameRead
namespace Rows
open FrameRead

/-- Iter.readColumn = framer.readBytesInternal called from Scan / Next: fewer than 4 bytes for the
    length, or a length beyond the buffer, is a returned error (→ err). -/
def readColumn (buf : Bytes) : Outcome (Option Bytes × Bytes) :=
  if buf.length < 4 then .err
  else
    let size := int32Of (beNat (buf.take 4))
    let rest := buf.drop 4
    if size < 0 then .ok (none, rest)
    else if rest.length < size.toNat then .err
    else .ok (some (rest.take size.toNat), rest.drop size.toNat)

/-- marshal.go readBytes (called with len(p) ≥ 4): a size beyond the data is a returned error -/
def readField (p : Bytes) : Outcome (Option Bytes × Bytes) :=
  let size := int32Of (beNat (p.take 4))
  let rest := p.drop 4
  if size < 0 then .ok (none, rest)
  else if rest.length < size.toNat then .err
  else .ok (some (rest.take size.toNat), rest.drop size.toNat)

/-- one `UnmarshalCQL(info, data)` call on the recorder at destination index `dest` -/
structure Call where
  dest : Nat
  typ : TypeInfo
  data : Option Bytes
deriving Repr

/-- result of scanning (part of) a row -/
inductive RowOut
  | done (buf : Bytes) (calls : List Call)      -- all columns scanned
  | failed (calls : List Call)                  -- an error was returned (iter.err is set)
  | crash                                       -- a panic reached the caller
deriving Repr

/-- result of scanning one column -/
inductive ColOut
  | ok (n : Nat) (calls : List Call)
  | err (calls : List Call)       -- an error was returned; `calls` happened before it
  | crash
deriving Repr

/-- unmarshalTuple with a `[]interface{}` destination: `for i, elem := range tuple.Elems` —
    `if len(data) >= 4 { p, data = readBytes(data) }` else p = nil; `Unmarshal(elem, p, v[i])`.
    `v[i] == nil` (no recorder): Unmarshal returns an error ("can not unmarshal into nil/non-pointer"). -/
def unmarshalTuple : List TypeInfo → Bytes → List Bool → Nat → List Call → ColOut
  | [], _, _, idx, acc => .ok idx acc
  | _ :: _, _, [], _, _ => .crash          -- unreachable: the caller passes dest[:count]
  | e :: es, data, d :: ds, idx, acc =>
    match (if data.length ≥ 4 then readField data else .ok (none, data)) with
    | .ok (p, data') =>
      if d then unmarshalTuple es data' ds (idx + 1) (acc ++ [{ dest := idx, typ := e, data := p }])
      else .err acc
    | .err => .err acc
    | .crash => .crash

/-- scanColumn (session.go:1504-1526); `dest` is `dest[i:]`, `idx` is i. Returns the number of
    destinations consumed and the recorder calls. -/
def scanColumn (p : Option Bytes) (col : ColumnInfo) (dest : List Bool) (idx : Nat) : ColOut :=
  match dest with
  | [] => .err []                           -- `if len(dest) == 0 { return 0, error }`
  | d0 :: _ =>
    if !d0 then .ok 1 []                    -- `if dest[0] == nil { return 1, nil }` — also for a tuple column
    else match col.typ with
      | .tuple _ elems =>
        if elems.length > dest.length then .crash     -- dest[:count]: slice bounds out of range
        else match unmarshalTuple elems (p.getD []) (dest.take elems.length) idx [] with
          | .ok _ calls => .ok elems.length calls
          | .err calls => .err calls
          | .crash => .crash
      | .native n =>
        if n.typ == typeTuple then .crash    -- `col.TypeInfo.(TupleTypeInfo)` type assertion
        else .ok 1 [{ dest := idx, typ := col.typ, data := p }]
      | t => .ok 1 [{ dest := idx, typ := t, data := p }]

/-- the column loop of Iter.Scan: readColumn, scanColumn, `i += n` -/
def scanCols : List ColumnInfo → Nat → List Bool → Bytes → List Call → RowOut
  | [], _, _, buf, acc => .done buf acc
  | col :: cols, i, dests, buf, acc =>
    match readColumn buf with
    | .crash => .crash
    | .err => .failed acc
    | .ok (p, buf') =>
      match scanColumn p col (dests.drop i) i with
      | .crash => .crash
      | .err calls => .failed (acc ++ calls)
      | .ok n calls => scanCols cols (i + n) dests buf' (acc ++ calls)

/-- the part of an Iter the consumers use (`next == nil`) -/
structure Iter where
  failed : Bool
  pos : Int
  md : ResultMeta
  numRows : Int
  buf : Bytes
deriving Repr

inductive ScanOut
  | row (it : Iter) (calls : List Call)      -- Scan returned true
  | stop (it : Iter) (calls : List Call)     -- Scan returned false (end of rows, or iter.err set: it.failed)
  | crash
deriving Repr

/-- Iter.Scan (session.go:1587-1631) -/
def scan (it : Iter) (dests : List Bool) : ScanOut :=
  if it.failed then .stop it []
  else if it.pos ≥ it.numRows then .stop it []
  else if (dests.length : Int) ≠ it.md.actualColCount then .stop { it with failed := true } []
  else match scanCols it.md.columns 0 dests it.buf [] with
    | .done buf calls => .row { it with pos := it.pos + 1, buf := buf } calls
    | .failed calls => .stop { it with failed := true } calls
    | .crash => .crash

/-! ## Scanner -/

structure Scanner where
  it : Iter
  cols : List (Option Bytes)     -- `is.cols`, length = len(iter.meta.columns)
  valid : Bool
deriving Repr

/-- read `n` cells -/
def readCells : Nat → Bytes → Outcome (List (Option Bytes) × Bytes)
  | 0, buf => .ok ([], buf)
  | n + 1, buf =>
    match readColumn buf with
    | .ok (c, buf') =>
      match readCells n buf' with
      | .ok (cs, buf'') => .ok (c :: cs, buf'')
      | .err => .err
      | .crash => .crash
    | .err => .err
    | .crash => .crash

/-- iterScanner.Next (session.go:1476-1502): `true`, `false`, or a panic. (A failed read keeps the
    cells read so far in `is.cols`; they are not observable because `valid` is not set.) -/
def Scanner.next (s : Scanner) : Outcome (Scanner × Bool) :=
  if s.it.failed then .ok (s, false)
  else if s.it.pos ≥ s.it.numRows then .ok (s, false)
  else match readCells s.cols.length s.it.buf with
    | .ok (cs, buf) => .ok ({ it := { s.it with pos := s.it.pos + 1, buf := buf }, cols := cs, valid := true }, true)
    | .err => .ok ({ s with it := { s.it with failed := true } }, false)
    | .crash => .crash

/-- the column loop of iterScanner.Scan: `for c, col := range iter.meta.columns {
    n, err = scanColumn(is.cols[c], col, dest[i:]); i += n }` — `c` is the column index (the cell of
    the row), `i` the destination position -/
def scannerCols : List ColumnInfo → Nat → Nat → List Bool → List (Option Bytes) → List Call → RowOut
  | [], _, _, _, _, acc => .done [] acc
  | col :: cols, c, i, dests, cells, acc =>
    if c ≥ cells.length then .crash                    -- is.cols[c]: index out of range
    else match scanColumn ((cells.getD c none)) col (dests.drop i) i with
      | .crash => .crash
      | .err calls => .failed (acc ++ calls)
      | .ok n calls => scannerCols cols (c + 1) (i + n) dests cells (acc ++ calls)

inductive ScannerScanOut
  | ok (s : Scanner) (calls : List Call)       -- Scan returned nil
  | error (s : Scanner) (calls : List Call)    -- Scan returned an error
  | crash
deriving Repr

/-- iterScanner.Scan (session.go:1528-1555) -/
def Scanner.scan (s : Scanner) (dests : List Bool) : ScannerScanOut :=
  if !s.valid then .error s []
  else if (dests.length : Int) ≠ s.it.md.actualColCount then .error s []
  else match scannerCols s.it.md.columns 0 0 dests s.cols [] with
    | .done _ calls => .ok { s with valid := false } calls
    | .failed calls => .error { s with valid := false } calls
    | .crash => .crash

/-- Iter.Scanner() -/
def Iter.scanner (it : Iter) : Scanner :=
  { it := it, cols := it.md.columns.map (fun _ => none), valid := false }

/-! ## RowData / MapScan / SliceMap -/

/-- decimal digits of a Nat as bytes (fmt "%d") -/
def natDigits : Nat → Nat → List UInt8
  | 0, _ => []
  | fuel + 1, n => if n < 10 then [UInt8.ofNat (48 + n)] else natDigits fuel (n / 10) ++ [UInt8.ofNat (48 + n % 10)]

def decimal (n : Nat) : Bytes := natDigits (n + 1) n

/-- TupleColumnName: `fmt.Sprintf("%s[%d]", c, n)` -/
def tupleColumnName (c : Bytes) (n : Nat) : Bytes := c ++ [0x5B] ++ decimal n ++ [0x5D]

/-- outcome of helpers.go goType (hence of TypeInfo.NewWithError) -/
inductive GoT
  | ok
  | err      -- "cannot create Go type for unknown CQL type"
  | crash    -- a runtime panic
deriving DecidableEq, Repr

/-- is the Go type chosen by goType comparable (usable as a map key)? blob is `[]byte`, list / set
    are slices, map and UDT are maps, tuple is `[]interface{}` -/
def comparableGo : TypeInfo → Bool
  | .native n => n.typ != 0x03
  | _ => false

/-- helpers.go goType (43-105). For a map whose key's Go type is not comparable (e.g. `map<blob, int>`,
    `map<frozen<list<int>>, text>`) it returns an error (`!keyType.Comparable()`), after both the key
    and the value type have been obtained. -/
def goType : TypeInfo → GoT
  | .native n =>
    if [0x0D, 0x01, 0x10, 0x0A, 0x02, 0x05, 0x12, 0x0B, 0x03, 0x04, 0x08, 0x07, 0x09, 0x13, 0x14,
        0x06, 0x0C, 0x0F, 0x0E, 0x11, 0x15, 0x30].contains n.typ then .ok
    else if [typeList, typeMap, typeSet, typeTuple].contains n.typ then .crash   -- `t.(CollectionType)` / `t.(TupleTypeInfo)`
    else .err
  | .coll n key elem =>
    if n.typ == typeMap then
      match key with
      | none => .crash
      | some k =>
        match goType k with
        | .ok =>
          match goType elem with
          | .ok => if comparableGo k then .ok else .err
          | e => e
        | e => e
    else goType elem
  | .tuple _ _ => .ok
  | .udt _ _ _ _ => .ok

/-- `elem.NewWithError()` for each element of a tuple column, in order -/
def goTypeAll : List TypeInfo → GoT
  | [] => .ok
  | t :: ts => match goType t with
    | .ok => goTypeAll ts
    | e => e

/-- the body of Iter.RowData's loop for one column: a tuple column contributes `name[i]` per
    element (`elem.NewWithError()` each), any other column `name` (`column.TypeInfo.NewWithError()`) -/
def rowDataCol (c : ColumnInfo) : Outcome (List Bytes) :=
  match c.typ with
  | .tuple _ elems =>
    (match goTypeAll elems with
     | .ok => .ok ((List.range elems.length).map (tupleColumnName c.name))
     | .err => .err
     | .crash => .crash)
  | t =>
    (match goType t with
     | .ok => .ok [c.name]
     | .err => .err
     | .crash => .crash)

/-- Iter.RowData: the column names; `err` when NewWithError fails for some column / tuple element,
    `crash` when it panics -/
def rowDataColumns : List ColumnInfo → Outcome (List Bytes)
  | [] => .ok []
  | c :: cs =>
    match rowDataCol c with
    | .ok names =>
      (match rowDataColumns cs with
       | .ok rest => .ok (names ++ rest)
       | .err => .err
       | .crash => .crash)
    | .err => .err
    | .crash => .crash

/-- `rowData, _ := iter.RowData()`: the error is dropped (empty RowData), a panic is not -/
def rowDataNames (cols : List ColumnInfo) : Option (List Bytes) :=
  match rowDataColumns cols with
  | .ok names => some names
  | .err => some []
  | .crash => none

/-- value stored for destination `j` by a list of calls (the last call wins) -/
def storedAt (calls : List Call) (j : Nat) : Option (Option Bytes) :=
  calls.foldl (fun acc c => if c.dest == j then some c.data else acc) none

inductive MapScanOut
  | row (it : Iter) (m : List (Bytes × Option Bytes))   -- true: the map entries written by rowMap
  | stop (it : Iter)
  | crash
deriving Repr

/-- Iter.MapScan with a recorder supplied under every RowData column name -/
def mapScan (it : Iter) : MapScanOut :=
  if it.failed then .stop it
  else
    match rowDataNames it.md.columns with
    | none => .crash
    | some names =>
      match scan it (names.map (fun _ => true)) with
      | .row it' calls =>
        .row it' (mapOfList ((List.range names.length).map (fun j => (names.getD j [], (storedAt calls j).getD none))))
      | .stop it' _ => .stop it'
      | .crash => .crash

inductive SliceMapOut
  | rows (ms : List (List (Bytes × Bytes))) (it : Iter)    -- (rows, nil)
  | error (it : Iter)                                       -- (nil, iter.err)
  | crash
deriving Repr

/-- the loop of Iter.SliceMap: `for iter.Scan(rowData.Values...) { rowMap }`; `fuel` bounds the
    number of iterations (numRows + 1 suffices: each successful Scan advances `pos`) -/
def sliceMapRows : Nat → Iter → List (List (Bytes × Bytes)) → SliceMapOut
  | 0, it, acc => .rows acc it
  | fuel + 1, it, acc =>
    match rowDataNames it.md.columns with
    | none => .crash
    | some names =>
      match scan it (names.map (fun _ => true)) with
      | .row it' calls =>
        let m := mapOfList ((List.range names.length).map (fun j => (names.getD j [], ((storedAt calls j).getD none).getD [])))
        sliceMapRows fuel it' (acc ++ [m])
      | .stop it' _ => if it'.failed then .error it' else .rows acc it'
      | .crash => .crash

/-- Iter.SliceMap for metadata whose column / tuple element types are all blob / ascii / text /
    varchar: the typed value (`[]byte` / `string`) is the cell's bytes, a null cell reads as empty.
    (For other types the typed decode is C02/C12's business; the harness only sends such metadata.) -/
def sliceMap (it : Iter) : SliceMapOut :=
  if it.failed then .error it
  else sliceMapRows ((it.numRows - it.pos).toNat + 1) it []

/-! ## the iterator built by executeQuery (conn.go:1432-1448) -/

/-- `iter.meta`: with `params.skipMeta` and a page that carries the NO_METADATA flag the prepared
    statement's result metadata with the page's paging state (`copyBytes`: nil becomes empty),
    otherwise (also when the page carries metadata although the driver asked to skip it) the
    frame's metadata -/
def iterMeta (skipMeta : Bool) (info : Option ResultMeta) (x : ResultMeta) : Option ResultMeta :=
  if skipMeta && hasFlag x.flags flagNoMetaData then
    match info with
    | some resp => some { resp with pagingState := some (x.pagingState.getD []) }
    | none => none           -- "did not receive metadata but prepared info is nil"
  else some x

def iterOf (md : ResultMeta) (numRows : Int) (buf : Bytes) : Iter :=
  { failed := false, pos := 0, md := md, numRows := numRows, buf := buf }

end Rows
