/-
  Model of paged iteration (C15; logical core):
    conn.go    executeQuery, `case *resultRowsFrame` (lines ~1437-1464): the Iter of one page and the
               nextIter carrying a copy of the query with the received paging state; prefetch position
               clamped to ≥ 1; no nextIter when !has_more_pages or when auto paging is disabled
    session.go Iter.Scan / iterScanner.Next / MapScan / SliceMap: deliver rows pos..numRows-1 of the
               current page, then switch to `next.fetch()` (sync.Once: fetched exactly once, by the
               consumer or earlier by the asynchronous prefetch), stop on `err` or when there is no next.
  The asynchronous prefetch only decides WHEN the one fetch of a nextIter happens, so it does not
  appear in the functional model: each nextIter is evaluated once.
-/
namespace Paging

variable {ρ σ ε : Type}

/-- what the cluster answers to a request carrying a paging state (none = first page):
    rows and the paging state of the page (some = has_more_pages), or an error -/
abbrev Exec (ρ σ ε : Type) := Option σ → Except ε (List ρ × Option σ)

structure NextIter (σ : Type) where
  req : σ          -- newQry.pageState = copy of the page's paging state
  pos : Nat        -- prefetch threshold

structure Iter (ρ σ ε : Type) where
  err  : Option ε
  pos  : Nat
  rows : List ρ              -- numRows = rows.length
  next : Option (NextIter σ)

/-- prefetch threshold: `int((1 - prefetch) * numRows)` clamped to ≥ 1; the float expression is an
    arbitrary function of numRows here -/
def clampPos (pp : Nat → Nat) (numRows : Nat) : Nat := if pp numRows < 1 then 1 else pp numRows

/-- conn.go executeQuery reduced to paging -/
def executeQuery (exec : Exec ρ σ ε) (pp : Nat → Nat) (disableAutoPage : Bool) (req : Option σ) : Iter ρ σ ε :=
  match exec req with
  | .error e => { err := some e, pos := 0, rows := [], next := none }
  | .ok (rows, st) =>
    { err := none, pos := 0, rows := rows,
      next := match st with
        | some s => if disableAutoPage then none else some { req := s, pos := clampPos pp rows.length }
        | none => none }

/-- result of consuming an iterator to the end: rows delivered, requests sent for following pages, final error -/
structure Out (ρ σ ε : Type) where
  rows : List ρ
  reqs : List (Option σ)
  err  : Option ε

/-- the consumer loop (Scan until it returns false, then Close): `fuel` bounds the number of page switches -/
def drain (exec : Exec ρ σ ε) (pp : Nat → Nat) : Nat → Iter ρ σ ε → Out ρ σ ε
  | 0, _ => { rows := [], reqs := [], err := none }
  | f + 1, it =>
    match it.err with
    | some e => { rows := [], reqs := [], err := some e }
    | none =>
      let here := it.rows.drop it.pos
      match it.next with
      | none => { rows := here, reqs := [], err := none }
      | some n =>
        let o := drain exec pp f (executeQuery exec pp false (some n.req))   -- next.fetch(), once
        { rows := here ++ o.rows, reqs := some n.req :: o.reqs, err := o.err }

/-- a whole iteration: the first request carries the caller's page state (none normally) -/
def iterate (exec : Exec ρ σ ε) (pp : Nat → Nat) (disableAutoPage : Bool) (fuel : Nat) (first : Option σ) : Out ρ σ ε :=
  let o := drain exec pp fuel (executeQuery exec pp disableAutoPage first)
  { o with reqs := first :: o.reqs }

/-- one Scan on the current page (no page switch): the row at `pos`, `pos` advanced -/
def scanRow (it : Iter ρ σ ε) : Option (ρ × Iter ρ σ ε) :=
  match it.err with
  | some _ => none
  | none => match it.rows[it.pos]? with
    | some r => some (r, { it with pos := it.pos + 1 })
    | none => none

/-- scripted cluster: page i is `pages[i]`, its paging state is `i+1` iff it is not the last page;
    the request with state `i` is answered with page `i`; fetching page `failAt` fails -/
def script (pages : List (List ρ)) (failAt : Option Nat) (e : ε) : Exec ρ Nat ε := fun req =>
  let i := req.getD 0
  if failAt = some i then .error e
  else match pages[i]? with
    | some rows => .ok (rows, if i + 1 < pages.length then some (i + 1) else none)
    | none => .error e

end Paging
