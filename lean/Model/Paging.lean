/-
  Model of paged iteration (C15), from the application's consumer down to the requests the server
  receives.

    conn.go    executeQuery: the request built from the Query (`len(qry.pageState) > 0` ⇒ paging state
               sent, `qry.pageSize > 0` ⇒ page size sent, EXECUTE with skip-metadata or QUERY; one
               PREPARE before the first EXECUTE of a statement that is not in the cache), the answer
               `case *resultRowsFrame` (lines ~1437-1464): the Iter of one page and the nextIter carrying
               a COPY of the query with the received paging state; prefetch position clamped to ≥ 1; no
               nextIter when !has_more_pages or when auto paging is disabled; `case
               *RequestErrUnprepared`: evict the statement and run executeQuery again with the same
               query; `case error`: an Iter holding the error.
    session.go Iter.Scan / iterScanner.Next / MapScan / SliceMap: deliver rows pos..numRows-1 of the
               current page, then switch to `next.fetch()` (sync.Once: fetched exactly once, by the
               consumer or earlier by the asynchronous prefetch), stop on `err` or when there is no next.
               Query.PageState: caller-supplied state, auto paging disabled.

  The server is a SCRIPT: the k-th QUERY/EXECUTE it receives is answered with the k-th reply of the
  list, whatever the request carries (what it carries is recorded and is part of the result), so the
  page list is the input and the model predicts rows, final error and the exact request sequence.
  The asynchronous prefetch only decides WHEN the one fetch of a nextIter happens (the requests of
  one query form a chain: request i+1 is built from answer i), so it does not appear as an action:
  each nextIter is evaluated once.
-/
namespace Paging

abbrev Bytes := List UInt8

/-- why a fetch failed, as the application sees it -/
inductive Fail where
  | srv (code : Nat)   -- ERROR frame from the server
  | closed             -- connection closed while the request was outstanding
  | timeout            -- no answer within the driver's timeout
  | ctx                -- the caller's context ended while the request was outstanding
  | exhausted          -- (harness) the script has no answer left
  | unknownRetry       -- query_executor.go ErrUnknownRetryType (Model/PagingRetry.lean)
  deriving DecidableEq, Repr

/-- one scripted answer of the server -/
inductive Reply where
  | page (rows : List Int) (state : Option Bytes)   -- `some s` = has_more_pages with paging state `s`
  | fail (f : Fail)
  | unprepared                                       -- ERROR 0x2500 carrying the statement id
  deriving DecidableEq, Repr

/-- the part of gocql.Query the fetch path reads; `ident` stands for statement, values, consistency
    and every other option (copied verbatim by `*newQry = *qry`) -/
structure Qry where
  ident : Nat
  prepared : Bool
  skipMeta : Bool          -- !(cfg.DisableSkipMetadata || qry.disableSkipMetadata)
  pageSize : Int
  pageState : Bytes        -- nil and empty are the same to `len(qry.pageState) > 0`
  disableAutoPage : Bool
  -- fields that decide HOW the fetch is executed, not what is requested (used by Model/PagingHist.lean)
  pf : Int := 1                -- Query.prefetch in quarters (0.25 = session default)
  ctx : Option Nat := none     -- Query.context: none = Background, some c = a context of the caller
  idem : Bool := false         -- Query.idempotent
  spec : Nat := 0              -- speculativeExecutionPolicy().Attempts()
  deriving DecidableEq, Repr

/-- a request as the server sees it -/
inductive Req where
  | prepare
  | exec (ident : Nat) (execute : Bool) (skipMeta : Bool) (state : Option Bytes) (pageSize : Option Int)
  deriving DecidableEq, Repr

def Req.isExec : Req → Bool
  | .prepare => false
  | .exec .. => true

/-- conn.go executeQuery, request side -/
def request (q : Qry) : Req :=
  .exec q.ident q.prepared (q.prepared && q.skipMeta)
    (if q.pageState.length > 0 then some q.pageState else none)
    (if q.pageSize > 0 then some q.pageSize else none)

/-- prepareStatement: a PREPARE goes out iff the statement is prepared and not in the cache -/
def prep (cached : Bool) (q : Qry) : List Req := if q.prepared && !cached then [.prepare] else []

structure NextIter where
  qry : Qry         -- newQry: copy of the query, pageState = copy of the page's paging state
  pos : Nat         -- prefetch threshold
  deriving Repr

structure Iter where
  err  : Option Fail
  pos  : Nat
  rows : List Int                 -- numRows = rows.length
  next : Option NextIter
  pagingState : Bytes             -- meta.pagingState (Iter.PageState())
  deriving Repr

/-- prefetch threshold: `int((1 - prefetch) * numRows)` clamped to ≥ 1; the float expression is an
    arbitrary function of numRows here -/
def clampPos (pp : Nat → Nat) (numRows : Nat) : Nat := if pp numRows < 1 then 1 else pp numRows

/-- conn.go executeQuery, `case *resultRowsFrame` -/
def pageIter (pp : Nat → Nat) (q : Qry) (rows : List Int) (st : Option Bytes) : Iter :=
  { err := none, pos := 0, rows := rows, pagingState := st.getD [],
    next := match st with
      | some s => if q.disableAutoPage then none
                  else some { qry := { q with pageState := s }, pos := clampPos pp rows.length }
      | none => none }

/-- conn.go executeQuery, `case error` / exec error -/
def errIter (f : Fail) : Iter := { err := some f, pos := 0, rows := [], next := none, pagingState := [] }

/-- result of consuming an iterator to the end: rows delivered, requests the server received, final error -/
structure Out where
  rows : List Int
  reqs : List Req
  err  : Option Fail
  deriving DecidableEq, Repr

/-- A fetch of `q` is due (Query.Iter, or nextIter.fetch), `cached` says whether the statement is in
    the prepared cache; the consumer (Scan until false, then Close) drains every Iter it gets:
    rows `pos..` of the page, then `next.fetch()`. Recursion over the script: every fetch consumes
    one reply. -/
def run (pp : Nat → Nat) : List Reply → Bool → Qry → Out
  | [], c, q => { rows := [], reqs := prep c q ++ [request q], err := some .exhausted }
  | .unprepared :: rest, c, q =>
    -- evictPreparedID, then `return c.executeQuery(ctx, qry)`: same query again
    let o := run pp rest false q
    { o with reqs := prep c q ++ request q :: o.reqs }
  | .fail f :: _, c, q =>
    let it := errIter f
    { rows := it.rows.drop it.pos, reqs := prep c q ++ [request q], err := it.err }
  | .page rows st :: rest, c, q =>
    let it := pageIter pp q rows st
    let here := it.rows.drop it.pos
    match it.next with
    | none => { rows := here, reqs := prep c q ++ [request q], err := none }
    | some n =>
      let o := run pp rest true n.qry      -- next.fetch(), once
      { rows := here ++ o.rows, reqs := prep c q ++ request q :: o.reqs, err := o.err }

/-- the documented manual paging loop of the application (harness): one Iter per page with
    `PageState(st)` (auto paging disabled), resumed from `Iter.PageState()` until that is empty -/
def manual (pp : Nat → Nat) : List Reply → Bool → Qry → Out
  | [], c, q => { rows := [], reqs := prep c q ++ [request q], err := some .exhausted }
  | .unprepared :: rest, c, q =>
    let o := manual pp rest false q
    { o with reqs := prep c q ++ request q :: o.reqs }
  | .fail f :: _, c, q => { rows := [], reqs := prep c q ++ [request q], err := some f }
  | .page rows st :: rest, c, q =>
    let it := pageIter pp { q with disableAutoPage := true } rows st
    if it.pagingState.length = 0 then { rows := it.rows, reqs := prep c q ++ [request q], err := none }
    else
      let o := manual pp rest true { q with pageState := it.pagingState }
      { rows := it.rows ++ o.rows, reqs := prep c q ++ request q :: o.reqs, err := o.err }

/-- one Scan on the current page (no page switch): the row at `pos`, `pos` advanced -/
def scanRow (it : Iter) : Option (Int × Iter) :=
  match it.err with
  | some _ => none
  | none => match it.rows[it.pos]? with
    | some r => some (r, { it with pos := it.pos + 1 })
    | none => none

/-! ## Specification (independent of Iter / Qry): what the application must receive and what the
    server must receive, read off the script alone -/
namespace Spec

/-- rows: the pages in order up to the first failure or the first page without has_more_pages
    (an UNPREPARED answer carries no rows and does not end anything) -/
def rows : List Reply → List Int
  | [] => []
  | .unprepared :: rest => rows rest
  | .fail _ :: _ => []
  | .page r none :: _ => r
  | .page r (some _) :: rest => r ++ rows rest

/-- final error: the first failure, none if a last page comes first -/
def err : List Reply → Option Fail
  | [] => some .exhausted
  | .unprepared :: rest => err rest
  | .fail f :: _ => some f
  | .page _ none :: _ => none
  | .page _ (some _) :: rest => err rest

/-- requests: `mk st` is THE request of this query with paging state `st` (everything else fixed);
    the first carries the caller's state, each follow-up exactly the state of the page before; an
    UNPREPARED answer makes the same request go out again (after a PREPARE if the statement is a
    prepared one); a PREPARE precedes the first EXECUTE; nothing after a failure or a last page -/
def reqs (mk : Option Bytes → Req) (prepared : Bool) : List Reply → Bool → Option Bytes → List Req
  | [], needPrep, cur => (if prepared && needPrep then [.prepare] else []) ++ [mk cur]
  | .unprepared :: rest, needPrep, cur =>
    (if prepared && needPrep then [.prepare] else []) ++ mk cur :: reqs mk prepared rest true cur
  | .fail _ :: _, needPrep, cur => (if prepared && needPrep then [.prepare] else []) ++ [mk cur]
  | .page _ none :: _, needPrep, cur => (if prepared && needPrep then [.prepare] else []) ++ [mk cur]
  | .page _ (some s) :: rest, needPrep, cur =>
    (if prepared && needPrep then [.prepare] else []) ++ mk cur :: reqs mk prepared rest false (some s)

end Spec

/-- the one request shape of query `q`: only the paging state varies -/
def template (q : Qry) (st : Option Bytes) : Req :=
  .exec q.ident q.prepared (q.prepared && q.skipMeta) st (if q.pageSize > 0 then some q.pageSize else none)

/-- the caller-supplied state as the server must see it -/
def firstState (q : Qry) : Option Bytes := if q.pageState.length > 0 then some q.pageState else none

/-- no paging state in the script is present-but-empty (the condition under which the request side of
    the property holds on the unchanged code, see `C15_requests_partial`) -/
def NoEmptyState : List Reply → Prop
  | [] => True
  | .page _ (some s) :: rest => s ≠ [] ∧ NoEmptyState rest
  | _ :: rest => NoEmptyState rest

end Paging
