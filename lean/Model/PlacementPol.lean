/-
C10 — the replica map as a function of the HISTORY of policy events.  Hand-written executable model of the
metadata part of `tokenAwareHostPolicy` (policies.go):

  cowHostList.add / remove            (t.hosts, keyed by connect address)
  clusterMeta.resetTokenRing          (partitioner "" / unsupported: the ring is left as it is)
  tokenAwareHostPolicy.updateReplicas (ONE keyspace: recomputed from the schema read NOW and the ring, entry
                                       dropped when the schema cannot be read / has no usable strategy / no ring)
  tokenAwareHostPolicy.updateAllReplicas (the repair of KF-C10-4: on every ring change the session keyspace AND
                                       every keyspace meta.replicas holds an entry for are recomputed)
  AddHost, AddHosts, RemoveHost, HostUp, HostDown, SetPartitioner, KeyspaceChanged
  the lookup Pick makes on the stored snapshot (`meta.replicas[ks].replicasFor(token)`, else GetHostForToken)

The replica-map computation itself is `Placement.simpleReplicaMap` / `Placement.ntsReplicaMap` (Model/Placement.lean).
The environment the policy reads (what `getKeyspaceMetadata(ks)` answers now) is part of the state and is changed
by the event `setSchema` (no call into the policy: the schema became readable / unreadable / was altered / dropped).
`fresh` is a ghost field (specification device, never read by the model of the code): the keyspaces whose schema has
not changed since the policy last read it (updateReplicas, called by KeyspaceChanged for that keyspace and by every
ring change for the session keyspace and every keyspace with an entry).

Core Lean only.
-/
import Model.Placement
namespace PlacementPol
open Placement

/-- the partitioner name as `newTokenRing` classifies it ("" = not yet set) -/
inductive Part
  | unset | murmur | random | ordered | unknown
deriving DecidableEq, Repr

def Part.supported : Part → Bool
  | .murmur => true
  | .random => true
  | .ordered => true
  | _ => false

/-- what `getStrategy` makes of a readable keyspace -/
inductive Strat
  | simple (rf : Nat)
  | nts (rfs : List (Nat × Nat))
  | unusable              -- neither SimpleStrategy nor NetworkTopologyStrategy (or a bad replication_factor): nil

/-- a `*HostInfo`: the node (id, dc, rack), its connect address and its tokens -/
structure PHost where
  h : Host
  addr : Nat
  toks : List Int

/-- `meta.replicas`, a Go map keyspace → replica map: an association list with at most one pair per key; each entry
carries the partitioner it was computed under (= the dynamic type of its tokens) -/
abbrev RepTab := List (Nat × (Part × ReplicaRing))

/-- `meta.replicas[ks]` -/
def getKs (f : RepTab) (ks : Nat) : Option (Part × ReplicaRing) :=
  match f with
  | [] => none
  | (k, v) :: rest => if k = ks then some v else getKs rest ks

def dropKs (f : RepTab) (ks : Nat) : RepTab := f.filter (fun e => !(e.1 == ks))

def setKs (f : RepTab) (ks : Nat) (rr : Part × ReplicaRing) : RepTab := (ks, rr) :: dropKs f ks

/-- the keys of the map -/
def keysOf (f : RepTab) : List Nat := f.map (·.1)

structure PolState where
  sessKs : Nat                          -- t.getKeyspaceName()
  schema : Nat → Option Strat           -- ENVIRONMENT: what getKeyspaceMetadata(ks) answers now (none = error)
  hosts : List PHost                    -- t.hosts
  part : Part                           -- t.partitioner
  ring : Option (Part × List Entry)     -- meta.tokenRing (none = nil, also when no metadata was ever stored), with
                                        -- the partitioner it was built for (= the dynamic type of its tokens)
  replicas : RepTab                     -- meta.replicas, each entry with the dynamic type of its tokens
  crashed : Bool                        -- a panic of replicaMap escaped (the policy mutex stays locked)
  fresh : List Nat                      -- GHOST

def polInit (sessKs : Nat) (schema : Nat → Option Strat) : PolState :=
  { sessKs := sessKs, schema := schema, hosts := [], part := .unset, ring := none,
    replicas := [], crashed := false, fresh := [] }

/-- `meta.replicas[ks]` of the stored snapshot -/
def PolState.entry (s : PolState) (ks : Nat) : Option (Part × ReplicaRing) := getKs s.replicas ks

/-- `strat.replicaMap(meta.tokenRing)`; `none` = getStrategy returned nil -/
def replicaMapOf (ring : List Entry) : Strat → Option (Except Crash ReplicaRing)
  | .simple rf => some (.ok (simpleReplicaMap rf ring))
  | .nts rfs => some (ntsReplicaMap rfs ring)
  | .unusable => none

def ownersOf (hosts : List PHost) : List (Host × List Int) := hosts.map (fun p => (p.h, p.toks))

/-- `meta.resetTokenRing(t.partitioner, t.hosts.get(), …)`: returns early for "" and on newTokenRing's
"unsupported partitioner" error — the ring of the copied metadata is then left as it was -/
def resetTokenRing (s : PolState) : Option (Part × List Entry) :=
  if s.part.supported then some (s.part, buildRing (ownersOf s.hosts)) else s.ring

/-- `updateReplicas(meta, keyspace)`: the new map holds every OTHER keyspace's entry unchanged and an entry for
`keyspace` iff the schema is readable, getStrategy is non-nil and the ring is non-nil. -/
def updateReplicas (s : PolState) (ks : Nat) : PolState :=
  let fr := if ks ∈ s.fresh then s.fresh else s.fresh ++ [ks]
  match s.schema ks with
  | none => { s with replicas := dropKs s.replicas ks, fresh := fr }
  | some strat =>
    match s.ring with
    | none => { s with replicas := dropKs s.replicas ks, fresh := fr }
    | some (p, ring) =>
      match replicaMapOf ring strat with
      | none => { s with replicas := dropKs s.replicas ks, fresh := fr }
      | some (.ok rr) => { s with replicas := setKs s.replicas ks (p, rr), fresh := fr }
      | some (.error _) => { s with crashed := true }

/-- the keyspaces `updateAllReplicas` recomputes: the session keyspace, then every other key of `meta.replicas`
(Go iterates the map in an unspecified order; the recomputations are independent of each other) -/
def allKeyspaces (s : PolState) : List Nat :=
  s.sessKs :: (keysOf s.replicas).filter (fun k => !(k == s.sessKs))

/-- `updateAllReplicas(meta)` (the repair of KF-C10-4): `updateReplicas` for the session keyspace and for every
keyspace the metadata holds an entry for -/
def updateAllReplicas (s : PolState) : PolState := (allKeyspaces s).foldl updateReplicas s

/-- `meta := getMetadataForUpdate(); meta.resetTokenRing(…); updateAllReplicas(meta); metadata.Store(meta)`
— on a panic nothing is stored. -/
def recompute (s : PolState) : PolState :=
  let s2 := updateAllReplicas { s with ring := resetTokenRing s }
  if s2.crashed then { s with crashed := true } else s2

def hasAddr (hosts : List PHost) (a : Nat) : Bool := hosts.any (fun p => p.addr == a)

/-- `cowHostList.add`: false (list unchanged) when a host with the same connect address is present -/
def cowAdd (hosts : List PHost) (p : PHost) : List PHost := if hasAddr hosts p.addr then hosts else hosts ++ [p]

/-- `cowHostList.remove(ip)` -/
def cowRemove (hosts : List PHost) (a : Nat) : List PHost := hosts.filter (fun p => !(p.addr == a))

inductive PolEvent
  | addHost (p : PHost)
  | addHosts (ps : List PHost)
  | removeHost (addr : Nat)
  | hostUp (addr : Nat)
  | hostDown (addr : Nat)
  | setPartitioner (p : Part)
  | keyspaceChanged (ks : Nat)
  | setSchema (ks : Nat) (v : Option Strat)     -- environment only

def polStep (s : PolState) (e : PolEvent) : PolState :=
  if s.crashed then s else
  match e with
  | .addHost p => if hasAddr s.hosts p.addr then s else recompute { s with hosts := s.hosts ++ [p] }
  | .addHosts ps => recompute { s with hosts := ps.foldl cowAdd s.hosts }
  | .removeHost a => if hasAddr s.hosts a then recompute { s with hosts := cowRemove s.hosts a } else s
  | .hostUp _ => s
  | .hostDown _ => s
  | .setPartitioner p => if s.part = p then s else recompute { s with part := p }
  | .keyspaceChanged ks =>
    let s2 := updateReplicas s ks
    if s2.crashed then { s with crashed := true } else s2
  | .setSchema ks v =>
    { s with schema := fun k => if k = ks then v else s.schema k, fresh := s.fresh.filter (fun k => !(k == ks)) }

def polRun (s : PolState) (evs : List PolEvent) : PolState := evs.foldl polStep s

inductive Lookup
  | noring                    -- no metadata / nil ring: Pick uses the fallback policy only
  | typePanic                 -- `token.Less` type assertion fails: the entry's tokens are of another partitioner's type
  | hosts (l : List Host)
deriving DecidableEq, Repr

/-- what Pick reads from the snapshot for a token: `token := meta.tokenRing.partitioner.Hash(key)`,
`meta.replicas[ks].replicasFor(token)` (a missing entry is the nil map: no replicas), else `GetHostForToken`.
`replicasFor` on a non-empty map compares the token with a stored token at least once: when the entry was computed
under another partitioner than the ring, `Less` panics ("interface conversion: gocql.token is …"). -/
def polLookup (s : PolState) (ks : Nat) (t : Int) : Lookup :=
  match s.ring with
  | none => .noring
  | some (p, ring) =>
    match s.entry ks with
    | none => .hosts (pickReplicas ring [] t)
    | some (q, rr) => if rr ≠ [] ∧ q ≠ p then .typePanic else .hosts (pickReplicas ring rr t)

/-- did the answer come from the replica map ("replicas") or from GetHostForToken ("owner") -/
def polLookupSrc (s : PolState) (ks : Nat) (t : Int) : Bool :=
  match s.entry ks with
  | none => false
  | some (_, rr) => (replicasFor rr t).isSome

/-! ## Specification: what the answer has to be, from the CURRENT environment only (current hosts, current
partitioner, schema readable now) — no reference to what the policy stored. -/
namespace Spec

/-- the ring of the current hosts; none while no supported partitioner is known -/
def curRing (s : PolState) : Option (List Entry) :=
  if s.part.supported then some (buildRing (ownersOf s.hosts)) else none

/-- owner of the range the token falls into (primary replica), as a list; [] on the empty ring -/
def owner (ring : List Entry) (t : Int) : List Host :=
  match ring[Placement.Spec.ownerIdx ring t]? with
  | some e => [e.2]
  | none => []

/-- `r`, or the primary owner `o` when there are no replicas -/
def orOwner (r o : List Host) : List Host :=
  match r with
  | [] => o
  | _ => r

/-- the replicas to start from for a token of keyspace `ks`: Cassandra's placement for the strategy of the schema
readable NOW on the CURRENT ring; the primary owner when the schema is unreadable / has no usable strategy /
Cassandra places the token on no node. -/
def lookup (s : PolState) (ks : Nat) (t : Int) : Lookup :=
  match curRing s with
  | none => .noring
  | some ring =>
    .hosts (match s.schema ks with
      | some (.simple rf) => Placement.Spec.simple ring rf t
      | some (.nts rfs) =>
        orOwner (Placement.Spec.nts ring rfs t) (owner ring t)
      | _ => owner ring t)

/-- the specification expects NO entry for the keyspace: there is no ring, or the schema is unreadable / has no usable
strategy (the lookup then starts from the primary owner) -/
def noEntryExpected (s : PolState) (ks : Nat) : Bool :=
  match curRing s with
  | none => true
  | some _ =>
    match s.schema ks with
    | none => true
    | some .unusable => true
    | _ => false

end Spec

/-- the hypothesis of `C10_pick_spec`, decidable (the harness classifies its queries by it, op `psettled`): the schema
of the keyspace has not changed since the policy last read it (GHOST `fresh`) AND the policy holds an entry for it, or
it is the session keyspace, or the specification expects no entry.  What is left out among the fresh keyspaces: a
keyspace other than the session keyspace WITHOUT entry although its schema is usable and a ring exists — its last
KeyspaceChanged was processed while the policy had no token ring yet; the policy recomputes only the session keyspace
and the keyspaces it holds an entry for, so that keyspace is served from the primary owner until its next
KeyspaceChanged (like a keyspace no KeyspaceChanged ever arrived for). -/
def settled (s : PolState) (ks : Nat) : Bool :=
  s.fresh.contains ks && ((s.entry ks).isSome || ks == s.sessKs || Spec.noEntryExpected s ks)

end PlacementPol
