/-
C12 / C02 — the bridge between Go values and abstract column values:

  `interp t g`       the DOCUMENTED meaning of the Go value `g` bound to a column of type `t`
                     (doc table of gocql.Marshal, marshal.go:72-112); `none` = not a documented pair / no meaning
  `represent t ty v` the Go value of type `ty` that denotes the column value `v` (doc table of gocql.Unmarshal,
                     marshal.go:193-224), `err` when `ty` cannot hold `v`
  `excluded p t g`   the exact inputs on which the UNCHANGED code is known not to produce the specification's
                     bytes (the hypotheses of the `_partial` theorems; the harness keeps exactly these out of the
                     spec-backed comparison and counts them)
Core Lean only.
-/
import Model.MarshalDecode
namespace Marshal
open ValueSpec (Bytes CqlTy CqlVal beBytes beNat specVarint)

def _root_.ValueSpec.CqlTy.isIntCol : CqlTy → Bool
  | .tinyint | .smallint | .int | .bigint | .counter | .varint => true
  | _ => false

def _root_.ValueSpec.CqlTy.isText : CqlTy → Bool
  | .ascii | .text | .varchar | .blob => true
  | _ => false

/-- exact milliseconds since the epoch of a time.Time (no wrap-around) -/
def exactMillis (sec nsec : Int) : Int := sec * 1000 + nsec / 1000000

/-- documented meaning of a scalar Go value for a scalar column -/
def interpScalar (t : CqlTy) (g : GoVal) : Option CqlVal :=
  match g with
  | .nil => some .null
  | .int k named v =>
    if t.isIntCol then some (.int v)
    else (match t, k with
      | .time, .int64 => some (.int v)
      | .timestamp, .int64 => some (.int v)
      | .date, .int64 => if named then none else some (.int (v / 86400000))      -- floor
      | .duration, .int64 => some (.duration 0 0 v)
      | _, _ => none)
  | .dur ns =>
    (match t with
     | .time => some (.int ns)
     | .duration => some (.duration 0 0 ns)
     | _ => if t.isIntCol then some (.int ns) else none)
  | .str false s =>
    if t.isIntCol then (parseDec s).map CqlVal.int
    else if t.isText then some (.bytes s)
    else (match t with
      | .uuid | .timeuuid => (parseUUID s).map CqlVal.bytes
      | _ => none)
  | .str true s => if t.isText then some (.bytes s) else none
  | .bytes named isNil b =>
    if t.isText then (if isNil then some .null else some (.bytes b))
    else (match t with
      | .uuid | .timeuuid => if named then none else some (.bytes b)
      | _ => none)
  | .bool _ b => (match t with | .boolean => some (.bool b) | _ => none)
  | .f32 _ x => (match t with | .float => some (.f32 x) | _ => none)
  | .f64 _ x => (match t with | .double => some (.f64 x) | _ => none)
  | .big v => (match t with | .bigint | .counter | .varint => some (.int v) | _ => none)
  | .dec u s => (match t with | .decimal => some (.decimal u s) | _ => none)
  | .time sec nsec =>
    (match t with
     | .timestamp => some (.int (exactMillis sec nsec))
     | .date => some (.int (sec / 86400))                                        -- floor
     | _ => none)
  | .cqldur m d n => (match t with | .duration => some (.duration m d n) | _ => none)
  | .uuid b => (match t with | .uuid | .timeuuid => some (.bytes b) | _ => none)
  | .arr16 b => (match t with | .uuid | .timeuuid => some (.bytes b) | _ => none)
  | .ip b => (match t with
      | .inet => (match ipTo4 b with
          | some v4 => some (.bytes v4)
          | none => if b.length = 16 then some (.bytes b) else if b = [] then some .null else none)   -- nil net.IP: null
      | _ => none)
  | _ => none

/-- a UDT value: for each field in order the entry of that name, null when absent -/
def interpUdt (names : List String) (_ts : List CqlTy) (ms : List (Option CqlVal)) (fnames : List String) : Option CqlVal :=
  (names.mapM (fun n => match lookupIdx n fnames 0 with
    | some i => (match ms[i]? with | some r => r | none => some CqlVal.null)
    | none => some CqlVal.null)).map CqlVal.tuple

mutual
/-- documented meaning of a Go value bound to a column of type `t` -/
def interp (t : CqlTy) : GoVal → Option CqlVal
  | .nilptr => some .null
  | .ptr v => interp t v
  | g => match t with
    | .list et | .set et => (match g with
        | .nil => some .null
        | .slice isNil vs => if isNil then some .null else (interpList et vs).map CqlVal.list
        | .array vs => (interpList et vs).map CqlVal.list
        | .ifaces vs => (interpList et vs).map CqlVal.list
        | .mapset ks => (interpList et ks).map CqlVal.list
        | _ => none)
    | .map kt vt => (match g with
        | .nil => some .null
        | .map isNil kvs => if isNil then some .null else (interpPairs kt vt kvs).map CqlVal.map
        | _ => none)
    | .tuple ts => (match g with
        | .nil => some .null
        | .ifaces vs => if vs.length = ts.length then (interpFields ts vs).map CqlVal.tuple else none
        | .struct vs => if vs.length = ts.length then (interpFields ts vs).map CqlVal.tuple else none
        | .slice _ vs => if vs.length = ts.length then (interpFields ts vs).map CqlVal.tuple else none
        | .array vs => if vs.length = ts.length then (interpFields ts vs).map CqlVal.tuple else none
        | _ => none)
    | .udt names ts => (match g with
        | .udtmap _ fnames vs => interpUdt names ts (interpNamed names ts fnames vs) fnames
        | .udtstruct fnames vs => interpUdt names ts (interpNamed names ts fnames vs) fnames
        | _ => none)
    | _ => interpScalar t g

def interpList (et : CqlTy) : List GoVal → Option (List CqlVal)
  | [] => some []
  | v :: vs => do
      let a ← interp et v
      let r ← interpList et vs
      some (a :: r)

def interpPairs (kt vt : CqlTy) : List (GoVal × GoVal) → Option (List (CqlVal × CqlVal))
  | [] => some []
  | (k, v) :: r => do
      let a ← interp kt k
      let b ← interp vt v
      let c ← interpPairs kt vt r
      some ((a, b) :: c)

def interpFields : List CqlTy → List GoVal → Option (List CqlVal)
  | t :: ts, v :: vs => do
      let a ← interp t v
      let r ← interpFields ts vs
      some (a :: r)
  | _, _ => some []

/-- per Go field / map entry: its meaning under the UDT field of the same name -/
def interpNamed (names : List String) (ts : List CqlTy) : List String → List GoVal → List (Option CqlVal)
  | fname :: fnames, v :: vs =>
    (match lookupIdx fname names 0 with
     | some i => (match ts[i]? with
         | some t => interp t v
         | none => some .null)
     | none => some .null) :: interpNamed names ts fnames vs
  | _, _ => []
end
/-! ## the known deviations of the unchanged code (exact conditions) -/

/-- a scalar Go value bound to a scalar column on which marshal.go is known to deviate from the specification -/
def excludedScalar (t : CqlTy) (g : GoVal) : Bool :=
  match g with
  | .int k named v =>
    (match intColOf t with
     | some col => !k.signed && decide (v ≥ (2:Int)^(8*col.bytes-1))          -- D9: unsigned wraps into the sign bit
     | none => false)                           -- (KF-C12-5 repaired: an out-of-range day is an error)
  | .time sec nsec =>
    timeIsZero sec nsec                                                        -- zero time ↦ empty value (gocql convention)
    || !(ValueSpec.fitsS 8 (sec * 1000)) || !(ValueSpec.fitsS 8 (exactMillis sec nsec))   -- int64 overflow of Unix()*1e3 + ms
  | .f32 named x => named && decide (quiet32 x ≠ x)                            -- Go float32→float64→float32 quiets a signalling NaN
  | .str false s => (match t with | .date => true | .duration => true | .inet => true | _ => false)
                    && (s.length ≥ 0)                                          -- standard-library parsers: not modelled
  | _ => false

/-- does `Marshal` return a nil slice for this value (so that a collection under protocol ≤ 2 writes length 0 for it)? -/
def marshalsNil (g : GoVal) : Bool :=
  match g with
  | .nilptr | .unset => true
  | .bytes _ isNil _ => isNil
  | .slice isNil _ => isNil
  | .map isNil _ => isNil
  | .ip b => b.isEmpty                      -- (repair of KF-C12-10: other lengths than 0 / 4 / 16 are errors)
  | _ => false

def derefAll : GoVal → GoVal
  | .ptr v => derefAll v
  | g => g

/-- the element is written as a NIL encoding by Marshal: an untyped nil, also behind pointers (`*interface{}` holding
    nil marshals like the nil it points to, C12_cex_ptr_nil_v2), or a value of `marshalsNil` — under protocol ≤ 2,
    which has no null element, marshalList / marshalMap write a zero-length element for it (KF-C12-8) -/
def nullish (v : GoVal) : Bool := (derefAll v).isNil || marshalsNil (derefAll v)

mutual
/-- the exact inputs excluded from the conformance theorem -/
def excluded (p : Nat) (t : CqlTy) : GoVal → Bool
  | .nilptr => false
  | .ptr v => excluded p t v
  | g => match t with
    | .list et | .set et => (match g with
        | .slice _ vs => excludedElems p et vs
        | .array vs => excludedElems p et vs
        | .ifaces vs => excludedElems p et vs
        | .mapset ks => excludedElems p et ks
        | .unset => true
        | _ => false)
    | .map kt vt => (match g with
        | .map _ kvs => excludedPairs p kt vt kvs
        | .unset => true
        | _ => false)
    | .tuple ts => (match g with
        | .ifaces vs => excludedFields p ts vs
        | .struct vs => excludedFields p ts vs
        | .slice _ vs => excludedFields p ts vs
        | .array vs => excludedFields p ts vs
        | _ => false)
    | .udt names ts => (match g with
        | .udtmap _ fnames vs => excludedNamed p names ts fnames vs
        | .udtstruct fnames vs => excludedNamed p names ts fnames vs
        | _ => false)
    | _ => excludedScalar t g

/-- collection elements: an element that marshals to nil is written as length 0 under protocol ≤ 2 -/
def excludedElems (p : Nat) (et : CqlTy) : List GoVal → Bool
  | [] => false
  | v :: vs => excluded p et v || (p ≤ 2 && nullish v) || excludedElems p et vs

def excludedPairs (p : Nat) (kt vt : CqlTy) : List (GoVal × GoVal) → Bool
  | [] => false
  | (k, v) :: r => excluded p kt k || excluded p vt v
      || (p ≤ 2 && (nullish k || nullish v))
      || excludedPairs p kt vt r

/-- tuple fields: only what is excluded inside a field (a null field is written as −1 by every source shape) -/
def excludedFields (p : Nat) : List CqlTy → List GoVal → Bool
  | t :: ts, v :: vs => excluded p t v || excludedFields p ts vs
  | _, _ => false

def excludedNamed (p : Nat) (names : List String) (ts : List CqlTy) : List String → List GoVal → Bool
  | fname :: fnames, v :: vs =>
    (match lookupIdx fname names 0 with
     | some i => (match ts[i]? with
         | some t => excluded p t v
         | none => false)
     | none => false) || excludedNamed p names ts fnames vs
  | _, _ => false
end

/-! ## documented (column type, Go type) pairs — type level only (doc table marshal.go:72-112) -/

def documentedScalar (t : CqlTy) (g : GoVal) : Bool :=
  match g with
  | .nil => true
  | .int k named _ =>
    t.isIntCol || (match t with
      | .time | .timestamp | .duration => k == .int64
      | .date => k == .int64 && !named
      | _ => false)
  | .dur _ => t.isIntCol || (match t with | .time | .duration => true | _ => false)
  | .str false _ => t.isIntCol || t.isText || (match t with
      | .uuid | .timeuuid | .date | .duration | .inet => true | _ => false)
  | .str true _ => t.isText
  | .bytes named _ _ => t.isText || (match t with | .uuid | .timeuuid => !named | _ => false)
  | .bool _ _ => (match t with | .boolean => true | _ => false)
  | .f32 _ _ => (match t with | .float => true | _ => false)
  | .f64 _ _ => (match t with | .double => true | _ => false)
  | .big _ => (match t with | .bigint | .counter | .varint => true | _ => false)
  | .dec _ _ => (match t with | .decimal => true | _ => false)
  | .time _ _ => (match t with | .timestamp | .date => true | _ => false)
  | .cqldur _ _ _ => (match t with | .duration => true | _ => false)
  | .uuid _ | .arr16 _ => (match t with | .uuid | .timeuuid => true | _ => false)
  | .ip _ => (match t with | .inet => true | _ => false)
  | _ => false

mutual
def documented (t : CqlTy) : GoVal → Bool
  | .nilptr => true
  | .ptr v => documented t v
  | g => match t with
    | .list et | .set et => (match g with
        | .nil => true
        | .slice _ vs => documentedAll et vs
        | .array vs => documentedAll et vs
        | .ifaces vs => documentedAll et vs
        | .mapset ks => documentedAll et ks
        | _ => false)
    | .map kt vt => (match g with
        | .nil => true
        | .map _ kvs => documentedPairs kt vt kvs
        | _ => false)
    | .tuple ts => (match g with
        | .nil => true
        | .ifaces vs => vs.length == ts.length && documentedFields ts vs
        | .struct vs => vs.length == ts.length && documentedFields ts vs
        | .slice _ vs => vs.length == ts.length && documentedFields ts vs
        | .array vs => vs.length == ts.length && documentedFields ts vs
        | _ => false)
    | .udt names ts => (match g with
        | .udtmap _ fnames vs => documentedNamed names ts fnames vs
        | .udtstruct fnames vs => documentedNamed names ts fnames vs
        | _ => false)
    | _ => documentedScalar t g
def documentedAll (et : CqlTy) : List GoVal → Bool
  | [] => true
  | v :: vs => documented et v && documentedAll et vs
def documentedPairs (kt vt : CqlTy) : List (GoVal × GoVal) → Bool
  | [] => true
  | (k, v) :: r => documented kt k && documented vt v && documentedPairs kt vt r
def documentedFields : List CqlTy → List GoVal → Bool
  | t :: ts, v :: vs => documented t v && documentedFields ts vs
  | _, _ => true
def documentedNamed (names : List String) (ts : List CqlTy) : List String → List GoVal → Bool
  | fname :: fnames, v :: vs =>
    (match lookupIdx fname names 0 with
     | some i => (match ts[i]? with
         | some t => documented t v
         | none => true)
     | none => true) && documentedNamed names ts fnames vs
  | _, _ => true
end

/-- classification used by the harness: which inputs go into the spec-backed comparison -/
def classify (p : Nat) (t : CqlTy) (g : GoVal) : String :=
  if !documented t g then "undocumented" else if excluded p t g then "excluded" else "clean"

/-! ## Go value denoting a column value (decode direction) -/

def representScalar (t : CqlTy) (ty : GoTy) (v : CqlVal) : URes :=
  match v with
  | .int n =>
    if t.isIntCol then
      (match ty with
       | .int k named => if k.holds n then .ok (.int k named n) else .err
       | .dur => if IntKind.int64.holds n then .ok (.dur n) else .err
       | .big => .ok (.big n)
       | .str false => if t == CqlTy.varint then .unmodelled else .ok (.str false (formatInt n))
       | _ => .unmodelled)
    else (match t, ty with
      | .time, .int .int64 named => .ok (.int .int64 named n)
      | .time, .dur => .ok (.dur n)
      | .timestamp, .int .int64 named => .ok (.int .int64 named n)
      | .timestamp, .time => .ok (.time (n / 1000) ((n % 1000) * 1000000))
      | .date, .time => .ok (.time (n * 86400) 0)
      | _, _ => .unmodelled)
  | .bytes b =>
    if t.isText then
      (match ty with
       | .str named => .ok (.str named b)
       | .bytes named => .ok (.bytes named false b)
       | _ => .unmodelled)
    else (match t, ty with
      | .uuid, .uuid | .timeuuid, .uuid => .ok (.uuid b)
      | .uuid, .arr16 | .timeuuid, .arr16 => .ok (.arr16 b)
      | .uuid, .bytes false | .timeuuid, .bytes false => .ok (.bytes false false b)
      | .uuid, .str false | .timeuuid, .str false => .ok (.str false (uuidString b))
      | .inet, .ip => .ok (.ip ((ipTo4 b).getD b))
      | .inet, .str false => .ok (.str false (ipString b))
      | _, _ => .unmodelled)
  | .bool b => (match t, ty with | .boolean, .bool named => .ok (.bool named b) | _, _ => .unmodelled)
  | .f32 x => (match t, ty with | .float, .f32 named => .ok (.f32 named x) | _, _ => .unmodelled)
  | .f64 x => (match t, ty with | .double, .f64 named => .ok (.f64 named x) | _, _ => .unmodelled)
  | .decimal u s => (match t, ty with | .decimal, .dec => .ok (.dec u s) | _, _ => .unmodelled)
  | .duration m d n => (match t, ty with | .duration, .cqldur => .ok (.cqldur m d n) | _, _ => .unmodelled)
  | _ => .unmodelled

/-- decode direction for a (possibly nullable, `**T`) target and non-null data -/
def represent (t : CqlTy) (ty : GoTy) (v : CqlVal) : URes :=
  match stripPtr ty with
  | (k, base) => (match representScalar t base v with
      | .ok g => .ok (wrapPtr k g)
      | other => other)

end Marshal
