import Model.ClusterView
/-
  Model of `eventDebouncer` (events.go) together with the MEMORY its slices live in, and of the goroutines its
  flusher starts:

      func (e *eventDebouncer) debounce(frame frame) {          func (e *eventDebouncer) flush() {
          e.mu.Lock()                                               if len(e.events) == 0 { return }
          e.timer.Reset(eventDebounceTime)                          go e.callback(e.events)
          if len(e.events) < eventBufferSize {                      e.events = make([]frame, 0, eventBufferSize)
              e.events = append(e.events, frame)                }
          } else { … dropping event frame … }
          e.mu.Unlock() }

  `go e.callback(e.events)` evaluates the slice HEADER (backing array, length) now; the handler goroutine
  (`Session.handleNodeEvent`) reads the CELLS of that array when it gets to run — after any number of further
  `debounce` calls and flushes (the schedules of the property: "a burst of events", "in any order", events that
  arrive between a flush and the start of its handler, several handlers pending at once and run in any order).
  What the handler sees is therefore a property of the memory: `flush` must not leave `e.events` on the array it
  has just handed out. `QAct.run k` is the moment handler goroutine `k` reads its frames.

  `Spec` is the value-level specification (a batch is the list of frames of its window). Core Lean only.
-/
namespace EvQueue
open ClusterView

/-- a Go slice header (`cap` is a property of the backing array) -/
structure Slice where
  arr : Nat
  len : Nat
deriving DecidableEq, Repr

/-- memory: cell `i` of backing array `a`, capacity of array `a`; the arrays `< next` are allocated.
Array 0 has capacity 0: `⟨0, 0⟩` is the nil slice. -/
structure Mem where
  cell : Nat → Nat → Ev
  cap : Nat → Nat
  next : Nat

def Mem.init : Mem := ⟨fun _ _ => .topology, fun _ => 0, 1⟩

/-- the elements of a slice -/
def Mem.read (m : Mem) (s : Slice) : List Ev := (List.range s.len).map (m.cell s.arr)

def Mem.write (m : Mem) (a i : Nat) (e : Ev) : Mem :=
  { m with cell := fun a' i' => if a' = a ∧ i' = i then e else m.cell a' i' }

/-- `make([]frame, 0, c)` -/
def Mem.alloc (m : Mem) (c : Nat) : Mem × Slice :=
  ({ m with cap := fun a => if a = m.next then c else m.cap a, next := m.next + 1 }, ⟨m.next, 0⟩)

/-- `append(s, e)`: in place while `len < cap`; else the elements are copied into a new array whose capacity is
given by the runtime's growth policy `grow` (any function: the theorems hold for every policy) -/
def Mem.append (grow : Nat → Nat) (m : Mem) (s : Slice) (e : Ev) : Mem × Slice :=
  if s.len < m.cap s.arr then (m.write s.arr s.len e, ⟨s.arr, s.len + 1⟩)
  else
    ({ cell := fun a' i' =>
          if a' = m.next then (if i' < s.len then m.cell s.arr i' else if i' = s.len then e else m.cell a' i')
          else m.cell a' i'
       cap := fun a => if a = m.next then max (grow (m.cap s.arr)) (s.len + 1) else m.cap a
       next := m.next + 1 },
     ⟨m.next, s.len + 1⟩)

structure Q where
  mem : Mem := Mem.init
  events : Slice := ⟨0, 0⟩            -- e.events
  timer : Bool := false               -- the debounce timer is running
  started : Nat := 0                  -- handler goroutines started so far (ordinals 0, 1, …)
  pending : List (Nat × Slice) := []  -- handlers that have not yet read their frames: ordinal, the slice they were given
  handled : List (Nat × List Ev) := [] -- ordinal, the frames the handler saw — in the order the handlers ran
  stopped : Bool := false             -- `stop()` has synchronised with the flusher goroutine: it has returned

inductive QAct
  | debounce (e : Ev)   -- a node event frame arrives (Session.handleEvent → nodeEvents.debounce)
  | fire                -- the flusher takes the expired timer's value and flushes
  | run (k : Nat)       -- handler goroutine `k` gets the CPU and reads its frames
  | stop                -- `e.stop()` (Session.Close): `e.quit <- struct{}{}` is received by the flusher IN ITS SELECT — a
                        -- flusher that has taken the timer's value finishes that flush first (it is a `fire` before this
                        -- step) —, the flusher returns; frames still buffered, or debounced later, are never flushed
deriving DecidableEq, Repr

/-- what `flush` leaves in `e.events`: the code that exists allocates (`reuse = false`); `reuse = true` is the
variant `e.events = e.events[:0]` the counterexample is about -/
def flushBuffer (reuse : Bool) (m : Mem) (old : Slice) : Mem × Slice :=
  if reuse then (m, ⟨old.arr, 0⟩) else m.alloc eventBufferSize

def qstepWith (reuse : Bool) (grow : Nat → Nat) (q : Q) : QAct → Q
  | .debounce e =>
    if q.events.len < eventBufferSize then
      let (m, s) := q.mem.append grow q.events e
      { q with mem := m, events := s, timer := true }
    else { q with timer := true }
  | .stop => { q with stopped := true }
  | .fire =>
    if q.stopped then { q with timer := false }      -- the timer expires, nobody selects on its channel
    else if q.events.len = 0 then { q with timer := false }
    else
      let (m, s) := flushBuffer reuse q.mem q.events
      { q with mem := m, events := s, timer := false, started := q.started + 1,
               pending := q.pending ++ [(q.started, q.events)] }
  | .run k =>
    match q.pending.find? (fun p => p.1 == k) with
    | none => q
    | some p => { q with pending := q.pending.erase p, handled := q.handled ++ [(p.1, q.mem.read p.2)] }

/-- the code that exists -/
def qstep (grow : Nat → Nat) (q : Q) (a : QAct) : Q := qstepWith false grow q a
def qrun (grow : Nat → Nat) (q : Q) (as : List QAct) : Q := as.foldl (qstep grow) q
def qrunWith (reuse : Bool) (grow : Nat → Nat) (q : Q) (as : List QAct) : Q := as.foldl (qstepWith reuse grow) q

/-- Go's growth policy for small slices (1, 2, 4, …); only used by the driver — the theorems quantify over `grow` -/
def goGrow (c : Nat) : Nat := if c = 0 then 1 else 2 * c

/-! ### specification: a batch is a value -/

structure Spec where
  buf : List Ev := []
  started : Nat := 0
  pending : List (Nat × List Ev) := []
  handled : List (Nat × List Ev) := []
  flushed : List (List Ev) := []      -- ghost: the batch of every flush, by ordinal
  stopped : Bool := false
deriving DecidableEq, Repr

def sstep (s : Spec) : QAct → Spec
  | .debounce e => { s with buf := debounceAdd s.buf e }
  | .stop => { s with stopped := true }
  | .fire =>
    if s.stopped then s
    else if s.buf.length = 0 then s
    else { s with buf := [], started := s.started + 1, pending := s.pending ++ [(s.started, s.buf)],
                  flushed := s.flushed ++ [s.buf] }
  | .run k =>
    match s.pending.find? (fun p => p.1 == k) with
    | none => s
    | some p => { s with pending := s.pending.erase p, handled := s.handled ++ [p] }

def srun (s : Spec) (as : List QAct) : Spec := as.foldl sstep s

/-- the frames the debouncer accepts: the first `eventBufferSize` of every window (KF-C16-7: the later ones are
dropped); `n` = frames accepted in the current window; after `stop` no flush ends the window any more -/
def acceptedFrom : Bool → Nat → List QAct → List Ev
  | _, _, [] => []
  | st, n, .debounce e :: t => if n < eventBufferSize then e :: acceptedFrom st (n + 1) t else acceptedFrom st n t
  | st, n, .fire :: t => if st then acceptedFrom st n t else acceptedFrom st 0 t
  | st, n, .run _ :: t => acceptedFrom st n t
  | _, n, .stop :: t => acceptedFrom true n t

def accepted (as : List QAct) : List Ev := acceptedFrom false 0 as

/-- the oracle of the unit tier: the handlers that have run saw exactly the batches of their flushes -/
def Q.intact (q : Q) (s : Spec) : Bool := q.handled == s.handled

end EvQueue
