import Model.FrameCrash
/-! The frame parser WITH props/C05.fix-2.diff (readInetAdressOnly guard) and props/C05.fix-3.diff
(partition-key count check) applied: the definitions of Model/FrameCrash.lean at `fx := true`. Not
referenced by props/C05.json until the fixes are committed. -/
namespace FrameCrashFixed
open FrameCrash
def parseFrame (proto : Nat) (resp : Bool) (flags op : Nat) (body : Bytes) : Res Frame :=
  FrameCrash.parseFrame true proto resp flags op body
end FrameCrashFixed
