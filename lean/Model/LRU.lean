/-
  Model of /repo/internal/lru/lru.go (C14): an LRU cache as an MRU-first association list with a
  capacity (`MaxEntries`; 0 = unbounded; mirrored as an `Int` because the code compares
  `c.ll.Len() > c.MaxEntries` with a plain int and a negative value makes every Add evict).
  `OnEvicted` callbacks are returned as the list of purged entries.

  The code keeps a map key ↦ list element, so keys are unique; removal of a key is modelled as
  filtering (equal to removing the one element under that invariant, theorem `LRU.nodup_*`).
-/
namespace LRU

structure Cache (κ : Type) (α : Type) where
  cap   : Int
  items : List (κ × α)        -- front = most recently used

variable {κ α : Type} [DecidableEq κ]

def new (cap : Int) : Cache κ α := { cap := cap, items := [] }

def Cache.len (c : Cache κ α) : Nat := c.items.length

def Cache.keys (c : Cache κ α) : List κ := c.items.map (·.1)

def Cache.find (c : Cache κ α) (k : κ) : Option α := (c.items.find? (fun e => e.1 == k)).map (·.2)

def without (k : κ) (l : List (κ × α)) : List (κ × α) := l.filter (fun e => e.1 != k)

/-- lru.go RemoveOldest: purge the back element; returns the purged entry for OnEvicted -/
def Cache.removeOldest (c : Cache κ α) : Cache κ α × List (κ × α) :=
  match c.items.getLast? with
  | none => (c, [])
  | some e => ({ c with items := c.items.dropLast }, [e])

/-- lru.go Add: existing key → move to front and overwrite; new key → push front, then
    `if MaxEntries != 0 && Len() > MaxEntries { RemoveOldest() }` -/
def Cache.add (c : Cache κ α) (k : κ) (v : α) : Cache κ α × List (κ × α) :=
  let items' := (k, v) :: without k c.items
  if (c.find k).isSome then ({ cap := c.cap, items := items' }, [])
  else if c.cap ≠ 0 ∧ (items'.length : Int) > c.cap then
    ({ cap := c.cap, items := items'.dropLast }, items'.getLast?.toList)   -- RemoveOldest
  else ({ cap := c.cap, items := items' }, [])

/-- lru.go Get: hit → move to front -/
def Cache.get (c : Cache κ α) (k : κ) : Option α × Cache κ α :=
  match c.find k with
  | some v => (some v, { c with items := (k, v) :: without k c.items })
  | none => (none, c)

/-- lru.go Remove -/
def Cache.remove (c : Cache κ α) (k : κ) : Bool × Cache κ α × List (κ × α) :=
  match c.find k with
  | some v => (true, { c with items := without k c.items }, [(k, v)])
  | none => (false, c, [])

/-! ### specification: an unbounded finite map with a recency order (no capacity, nothing is ever
    purged except by Remove) -/
namespace Spec

def add (m : List (κ × α)) (k : κ) (v : α) : List (κ × α) := (k, v) :: without k m

def get (m : List (κ × α)) (k : κ) : Option α × List (κ × α) :=
  match (m.find? (fun e => e.1 == k)).map (·.2) with
  | some v => (some v, (k, v) :: without k m)
  | none => (none, m)

def remove (m : List (κ × α)) (k : κ) : List (κ × α) := without k m

end Spec

/-- operations of the cache (the differential drives exactly these) -/
inductive Op (κ α : Type)
  | add (k : κ) (v : α)
  | get (k : κ)
  | remove (k : κ)
  | removeOldest

def Cache.apply (c : Cache κ α) : Op κ α → Cache κ α
  | .add k v => (c.add k v).1
  | .get k => (c.get k).2
  | .remove k => (c.remove k).2.1
  | .removeOldest => c.removeOldest.1

/-- the specification map under the same operation (RemoveOldest is not a map operation) -/
def Spec.apply (m : List (κ × α)) : Op κ α → List (κ × α)
  | .add k v => Spec.add m k v
  | .get k => (Spec.get m k).2
  | .remove k => Spec.remove m k
  | .removeOldest => m

def Cache.run (c : Cache κ α) (ops : List (Op κ α)) : Cache κ α := ops.foldl Cache.apply c
def Spec.run (m : List (κ × α)) (ops : List (Op κ α)) : List (κ × α) := ops.foldl Spec.apply m

end LRU
