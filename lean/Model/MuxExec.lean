/-
  Conn.exec of /repo/conn.go at the granularity of its program points (C06, round f), next to the receive loop
  and to closeWithError's delivery loop.

  `Mux.acquire` reserves an id and registers the call in ONE step, `Mux.buildFail` / `writeCancelled` unregister
  and release in ONE step, and `Mux.close` + `connDone` make closing atomic. The code does each in several steps,
  with other goroutines (and, through a StreamObserver, user code) running in between:

    getStream c s   streams.GetStream returned s (bit set in the allocator)          [StreamContext runs here]
    addCall c       under c.mu: closed → ErrConnectionClosed; c.calls[s] occupied → "attempting to use stream
                    already in use" (in both cases exec returns WITHOUT clearing s); else c.calls[s] = call
                                                                                      [StreamStarted runs here]
    buildFail c / writeCancelled c     the two 'frame was never written' exits: close(call.timeout) …
    nwDelete c      … under c.mu: `if !c.closed { delete(c.calls, s) }` …
    nwClear c       … releaseStream: streams.Clear(s)                                 [StreamFinished runs here]
    finish c        exec returns
    wrote c         the frame is on the wire, exec is in its select
    deliver s       recv (coarse; the fine pipeline is Model/MuxPipe.lean): `call := c.calls[s]; delete`, then the
                    rendezvous with the caller in its select (the caller closes call.timeout) or, when the caller has
                    closed call.timeout, releaseStream by recv
    release c       the caller that took its response: releaseStream → Clear(s)       [StreamFinished runs here]
    closeBegin e    closeWithError: closed = true; e (err != nil): the calls map is taken as the snapshot to visit
    closeDeliver c  one round of the delivery loop: `req.resp <- err` (ready iff c is in its select) or
                    `<-req.timeout` (ready iff c has closed its timeout channel)
    closeFinish     the loop is through: c.cancel() (only NOW `<-c.ctx.Done()` is ready in exec), transport closed

  `holder s` is the allocator's bit for s plus (ghost) the call it was handed to; `reg` is c.calls.
-/
namespace MuxExec

inductive Wire where
  | none
  | pending (c : Nat)
  | answered (c : Nat)
deriving DecidableEq, Repr

inductive Out where
  | resp (origin : Nat)
  | timeout | ctxErr | connClosed | connErr | writeErr | buildErr | inUse | noStreams
deriving DecidableEq, Repr

inductive Pc where
  | idle
  | got (s : Nat)              -- id reserved, not registered
  | reg (s : Nat)              -- registered in c.calls, frame not built / not written
  | waiting (s : Nat)          -- frame written, in the select
  | rel (s : Nat) (o : Out)    -- took its response, timeout channel closed, about to Clear
  | nwT (s : Nat) (o : Out)    -- never-written exit: timeout channel closed, about to lock and delete
  | nwD (s : Nat) (o : Out)    -- … delete done (or skipped: closed), about to Clear
  | fin (o : Out)              -- id cleared (inside releaseStream), about to return
  | done (o : Out)
deriving DecidableEq, Repr

structure St where
  cap : Nat
  holder : Nat → Option Nat
  reg : Nat → Option Nat
  wire : Nat → Wire
  pc : Nat → Pc
  tclosed : Nat → Bool
  clears : Nat → Nat             -- (ghost) how often call c cleared a set bit
  bad : Bool                     -- (ghost) some Clear found the bit already clear, or cleared a bit handed to another call
  closed : Bool
  closing : Bool                 -- closeWithError is in its delivery loop
  snap : List Nat                -- calls the delivery loop has still to visit
  ctxDone : Bool                 -- c.cancel() has run

inductive Act where
  | getStream (c s : Nat)
  | noStreams (c : Nat)
  | addCall (c : Nat)
  | buildFail (c : Nat)
  | writeCancelled (c : Nat)
  | writeFailed (c : Nat)
  | wrote (c : Nat)
  | nwDelete (c : Nat)
  | nwClear (c : Nat)
  | release (c : Nat)
  | finish (c : Nat)
  | answer (s : Nat)
  | deliver (s : Nat)
  | timeout (c : Nat)
  | cancel (c : Nat)
  | connDone (c : Nat)
  | closeBegin (err : Bool)
  | closeDeliver (c : Nat)
  | closeFinish
deriving Repr

def upd {α} (f : Nat → α) (k : Nat) (v : α) : Nat → α := fun x => if x = k then v else f x

def init (cap : Nat) : St :=
  { cap := cap, holder := fun _ => none, reg := fun _ => none, wire := fun _ => .none, pc := fun _ => .idle,
    tclosed := fun _ => false, clears := fun _ => 0, bad := false, closed := false, closing := false, snap := [],
    ctxDone := false }

/-- streams.Clear(s) called on behalf of call c -/
def clear (st : St) (c s : Nat) : St :=
  match st.holder s with
  | some d => { st with holder := upd st.holder s none, clears := upd st.clears c (st.clears c + 1),
                        bad := st.bad || !(d == c) }
  | none => { st with bad := true }

/-- the calls registered in c.calls (ids are below the capacity) -/
def registered (st : St) : List Nat := (List.range st.cap).filterMap st.reg

/-- closeWithError's first critical section -/
def beginClose (st : St) (err : Bool) : St :=
  if st.closed then st
  else if err then { st with closed := true, closing := true, snap := registered st, reg := fun _ => none }
  else { st with closed := true, closing := true, snap := [] }

def step (st : St) : Act → Option St
  | .getStream c s =>
      if st.pc c = .idle ∧ st.holder s = none ∧ 1 ≤ s ∧ s < st.cap then
        some { st with holder := upd st.holder s (some c), pc := upd st.pc c (.got s) }
      else none
  | .noStreams c =>
      if st.pc c = .idle then some { st with pc := upd st.pc c (.done .noStreams) } else none
  | .addCall c =>
      match st.pc c with
      | .got s =>
          if st.closed then some { st with pc := upd st.pc c (.done .connClosed) }
          else match st.reg s with
            | some _ => some { st with pc := upd st.pc c (.done .inUse) }
            | none => some { st with reg := upd st.reg s (some c), pc := upd st.pc c (.reg s) }
      | _ => none
  | .buildFail c =>
      match st.pc c with
      | .reg s => some { st with pc := upd st.pc c (.nwT s .buildErr), tclosed := upd st.tclosed c true }
      | _ => none
  | .writeCancelled c =>
      match st.pc c with
      | .reg s => some { st with pc := upd st.pc c (.nwT s .ctxErr), tclosed := upd st.tclosed c true }
      | _ => none
  | .writeFailed c =>
      -- the write failed: close(call.timeout), then closeWithError(err) on the caller's own goroutine
      match st.pc c with
      | .reg _ =>
          let st1 := beginClose st true
          some { st1 with pc := upd st1.pc c (.done .writeErr), tclosed := upd st1.tclosed c true }
      | _ => none
  | .wrote c =>
      match st.pc c with
      | .reg s => some { st with wire := upd st.wire s (.pending c), pc := upd st.pc c (.waiting s) }
      | _ => none
  | .nwDelete c =>
      match st.pc c with
      | .nwT s o => some { st with reg := if st.closed then st.reg else upd st.reg s none, pc := upd st.pc c (.nwD s o) }
      | _ => none
  | .nwClear c =>
      match st.pc c with
      | .nwD s o => some { clear st c s with pc := upd st.pc c (.fin o) }
      | _ => none
  | .release c =>
      match st.pc c with
      | .rel s o => some { clear st c s with pc := upd st.pc c (.fin o) }
      | _ => none
  | .finish c =>
      match st.pc c with
      | .fin o => some { st with pc := upd st.pc c (.done o) }
      | _ => none
  | .answer s =>
      match st.wire s with
      | .pending c => some { st with wire := upd st.wire s (.answered c) }
      | _ => none
  | .deliver s =>
      match st.wire s with
      | .answered c =>
          if st.closed then none
          else match st.reg s with
            | some d =>
                if st.pc d = .waiting s then
                  some { st with wire := upd st.wire s .none, reg := upd st.reg s none,
                                 pc := upd st.pc d (.rel s (.resp c)), tclosed := upd st.tclosed d true }
                else if st.tclosed d then
                  some (clear { st with wire := upd st.wire s .none, reg := upd st.reg s none } d s)
                else none
            | none => some { st with wire := upd st.wire s .none }
      | _ => none
  | .timeout c =>
      match st.pc c with
      | .waiting _ => some { st with pc := upd st.pc c (.done .timeout), tclosed := upd st.tclosed c true }
      | _ => none
  | .cancel c =>
      match st.pc c with
      | .waiting _ => some { st with pc := upd st.pc c (.done .ctxErr), tclosed := upd st.tclosed c true }
      | _ => none
  | .connDone c =>
      match st.pc c with
      | .waiting _ => if st.ctxDone then some { st with pc := upd st.pc c (.done .connClosed), tclosed := upd st.tclosed c true }
                      else none
      | _ => none
  | .closeBegin err => if st.closed then none else some (beginClose st err)
  | .closeDeliver c =>
      if st.closing ∧ c ∈ st.snap then
        match st.pc c with
        | .waiting _ => some { st with pc := upd st.pc c (.done .connErr), tclosed := upd st.tclosed c true,
                                       snap := st.snap.erase c }
        | _ => if st.tclosed c then some { st with snap := st.snap.erase c } else none
      else none
  | .closeFinish =>
      if st.closing ∧ st.snap = [] then some { st with closing := false, ctxDone := true } else none

def run : St → List Act → Option St
  | s, [] => some s
  | s, a :: as => match step s a with
    | some s' => run s' as
    | none => none

/-- the never-written exits of seeded changes C06-7 / C01-8 (NOT the code that exists; used only by the counterexample
    theorem): the id is cleared BEFORE the call is removed from c.calls -/
def stepClearFirst (st : St) : Act → Option St
  | .nwDelete c =>
      match st.pc c with
      | .nwT s o => some { clear st c s with pc := upd st.pc c (.nwD s o) }
      | _ => none
  | .nwClear c =>
      match st.pc c with
      | .nwD s o => some { st with reg := if st.closed then st.reg else upd st.reg s none, pc := upd st.pc c (.fin o) }
      | _ => none
  | a => step st a

def runClearFirst : St → List Act → Option St
  | s, [] => some s
  | s, a :: as => match stepClearFirst s a with
    | some s' => runClearFirst s' as
    | none => none

/-- number of ids among 1..n that are reserved -/
def held (st : St) : Nat → Nat
  | 0 => 0
  | n + 1 => (if (st.holder (n + 1)).isSome then 1 else 0) + held st n

/-- the delivery loop can serve call c now -/
def deliverable (st : St) (c : Nat) : Bool :=
  (match st.pc c with | .waiting _ => true | _ => false) || st.tclosed c

end MuxExec
