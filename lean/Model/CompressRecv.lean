import Model.Compress
/-
  Model of the RECEIVE PATHS of a connection with respect to compression (C18, round 7):
    conn.go  Conn.recv        the dispatch on the stream of the header: events (stream -1), reserved
                              streams (<= 0), a stream with a waiting call, a stream without handler
             startupCoordinator.options / startup: the two responses of the handshake are received
                              through the same recv; the compressor of the connection is the CONFIGURED
                              one until STARTUP was built, the NEGOTIATED one afterwards
    frame.go readFrame        stores the header in the framer ONLY when it succeeds; parseFrame
                              dereferences it (Session.handleEvent -> parseFrame)
  and of the negotiation over HISTORIES of connections to one host (one long-lived HostInfo).
-/
namespace Compress

/-- what is left in the framer after `readFrame`: the header pointer is set on success only -/
structure RFramer where
  header : Option Head
  buf    : Bytes
  deriving DecidableEq, Repr

/-- frame.go readFrame as Conn.recv sees it: the framer afterwards, and the error (if any) -/
def Framer.readInto (f : Framer) (h : Head) (r : Bytes) : RFramer × Option Err :=
  match f.readFrame h r with
  | .ok b => ({ header := some h, buf := b }, none)
  | .error e => ({ header := none, buf := [] }, some e)

/-- why `recv` returned an error (Conn.serve then closes the connection with that error) -/
inductive Why
  | read (e : Err)   -- readFrame failed
  | proto            -- a frame on a reserved stream: protocolError
  | beyond           -- stream number beyond the streams of this protocol version
  deriving DecidableEq, Repr

instance : DecidableEq (Except Err Bytes) := fun a b =>
  match a, b with
  | .ok x, .ok y => if h : x = y then isTrue (by rw [h]) else isFalse (by intro h'; injection h' with h'; exact h h')
  | .error x, .error y => if h : x = y then isTrue (by rw [h]) else isFalse (by intro h'; injection h' with h'; exact h h')
  | .ok _, .error _ => isFalse (by intro h; cases h)
  | .error _, .ok _ => isFalse (by intro h; cases h)

/-- the outcome of one `Conn.recv` for one frame -/
inductive Out
  | deliver (stream : Int) (r : Except Err Bytes)  -- `call.resp <- callResp{framer, err}`; the connection stays
  | event (h : Head) (body : Bytes)                -- Session.handleEvent got a framer with header and body
  | discard                                        -- no call is waiting on that stream: discardFrame
  | close (why : Why)                              -- recv returned an error
  | crash                                          -- nil header dereferenced on the reader goroutine
  deriving DecidableEq, Repr

/-- Session.handleEvent → framer.parseFrame: `f.header.version` first -/
def handleEvent (fr : RFramer) : Out :=
  match fr.header with
  | none => .crash
  | some h => .event h fr.buf

/-- what the event branch of recv does with an error of readFrame: the code that exists returns it;
    `logOnly` is the variant "as for responses: log, the stream is still in step" -/
inductive EventErr | ret | logOnly
  deriving DecidableEq, Repr

/-- conn.go Conn.recv after the header was read: `comp` = `c.compressor` at that moment, `calls` =
    the streams with a waiting call, `r` = what the reader can still deliver. (Read deadlines / net
    errors are not part of this model: a readFrame error on a stream with a call is handed to the call.) -/
def recv (pol : EventErr) (comp : Option Codec) (version : UInt8) (numStreams : Int) (calls : List Int)
    (h : Head) (r : Bytes) : Out :=
  if h.stream > numStreams then .close .beyond
  else if h.stream = -1 then
    match (newFramer comp version).readInto h r with
    | (fr, some e) =>
      match pol with
      | .ret => .close (.read e)
      | .logOnly => handleEvent fr
    | (fr, none) => handleEvent fr
  else if h.stream ≤ 0 then
    match (newFramer comp version).readFrame h r with
    | .error e => .close (.read e)
    | .ok _ => .close .proto
  else if calls.contains h.stream then .deliver h.stream ((newFramer comp version).readFrame h r)
  else .discard

/-! ### the handshake: OPTIONS → SUPPORTED, STARTUP → READY, both received through recv -/

abbrev Supported := List (String × List String)

/-- startupCoordinator.options / startup: the SUPPORTED response is read while `conn.compressor` is
    still the configured one; negotiation against ITS content; the READY response is read with the
    negotiated compressor. `parse` = parseSupportedFrame. Result: `conn.compressor` after startup. -/
def handshake (c : Option Named) (version : UInt8) (parse : Bytes → Supported)
    (sh : Head) (sr : Bytes) (rh : Head) (rr : Bytes) : Except Err (Option Named) :=
  match (newFramer (c.map (·.codec)) version).readFrame sh sr with
  | .error e => .error e
  | .ok b =>
    let cc := connCompressor c (parse b)
    match (newFramer (cc.map (·.codec)) version).readFrame rh rr with
    | .error e => .error e
    | .ok _ => .ok cc

/-! ### negotiation over a history of connections to one host -/

/-- where the SUPPORTED answer a connection negotiates against comes from: the code that exists asks
    on every connection; `cached` is the variant that stores the first answer on the HostInfo -/
inductive SupSource | perConn | cached
  deriving DecidableEq, Repr

/-- what the peer sees on one connection -/
structure ConnObs where
  optionsSent : Bool
  nego        : Negotiated
  deriving DecidableEq, Repr

/-- one connection: `st` = what the HostInfo carries, `adv` = what the node advertises NOW -/
def connect (src : SupSource) (name : Option String) (st : Option Supported) (adv : Supported) :
    Option Supported × ConnObs :=
  match src, st with
  | .cached, some old => (some old, { optionsSent := false, nego := negotiate name old })
  | .cached, none => (some adv, { optionsSent := true, nego := negotiate name adv })
  | .perConn, _ => (none, { optionsSent := true, nego := negotiate name adv })

/-- a history of connections to the same host (pool fill, refill, reconnect, control connection) -/
def runHist (src : SupSource) (name : Option String) : Option Supported → List Supported → List ConnObs
  | _, [] => []
  | st, adv :: rest =>
    let p := connect src name st adv
    p.2 :: runHist src name p.1 rest

/-! ### negotiation over the HOSTS of one session

One Session, several hosts, each advertising its own SUPPORTED set (which may change between
connections): a history is the list of connections made, each to some host `h` that advertises `adv`
at that moment. `st` is what a SESSION-wide cache would carry (the refuted variant: the first
SUPPORTED answer kept on the Session / ConnConfig and used for every later connection, to any host). -/

def runHosts (src : SupSource) (name : Option String) :
    Option Supported → List (Nat × Supported) → List (Nat × ConnObs)
  | _, [] => []
  | st, (h, adv) :: rest =>
    let p := connect src name st adv
    (h, p.2) :: runHosts src name p.1 rest

end Compress
