import Model.Mux
/-
  The receive pipeline of /repo/conn.go at the granularity of its blocking points (C06, second round).

  `Mux.deliver s` consumes a response in ONE step. Conn.recv does it in several, and a caller can give up
  (request timer, its context, the connection's context) between any two of them:

    recvHeader s   readHeader returned the header of the frame for id s; under c.mu: `call := c.calls[s]`,
                   `delete(c.calls, s)` (closed → recv returns ErrConnectionClosed)
    recvBody       framer.readFrame got one more piece of the body, not the last (the socket read blocks
                   between two pieces: a scheduling point)
    recvBodyEnd    the last piece: the body is complete (a frame nobody is registered for is discarded here)
    the final blocking select, one action per arm, each with the guard that makes the arm ready:
      handResp     `call.resp <- …`        ready iff the caller is in ITS select (pc = waiting)
      handGone     `<-call.timeout`        ready iff the caller has closed its timeout channel (tclosed)
      handCtx      `<-ctx.Done()`          ready iff the connection's context is cancelled (closed)

  `tclosed c` is the state of the channel `call.timeout`: exec closes it on every exit path after registration
  (conn.go:1071-1176). The theorem that the final select is never stuck is the statement that in every
  reachable state with the receiver in `hand`, one of the three guards holds.
-/
namespace MuxPipe
open Mux (Wire Outcome Pc upd)

/-- what the receive loop is doing -/
inductive Rcv where
  | idle                                   -- reading a header
  | body (s d c k w : Nat)                 -- header of the response on id s consumed; d = the call found in (and
                                           -- deleted from) c.calls; origin call c, kind k, content w; reading the body
  | skip                                   -- discarding the body of a frame for an id nobody holds / reading an EVENT body
  | hand (s d c k w : Nat)                 -- body read: in the final select
  | stopped                                -- recv returned an error: serve has left its loop
deriving DecidableEq, Repr

structure St where
  m : Mux.St
  rcv : Rcv
  tclosed : Nat → Bool                     -- call c has closed its `timeout` channel

inductive Act where
  | mux (a : Mux.Act)                      -- the caller-side / environment actions of the coarse machine
  | recvHeader (s : Nat)
  | recvStray (s : Nat)                    -- header of a response frame for an id nobody holds
  | recvEvent                              -- header of an EVENT frame (stream -1)
  | recvBody
  | recvBodyEnd
  | handResp | handGone | handCtx
  | recvFail                               -- the socket read fails (anywhere): recv returns the error
deriving Repr

def init (cap : Nat) : St := { m := Mux.init cap, rcv := .idle, tclosed := fun _ => false }

/-- the call whose `timeout` channel a caller-side action closes -/
def closesTimeout : Mux.Act → Option Nat
  | .buildFail c | .writeCancelled c | .writeFailed c | .timeout c | .cancel c | .connDone c => some c
  | _ => none

def step (st : St) : Act → Option St
  | .mux a =>
      match a with
      | .deliver _ | .stray _ | .event => none      -- split into the receive steps below
      | a =>
        match Mux.step st.m a with
        | some m' =>
            match closesTimeout a with
            | some c => some { st with m := m', tclosed := upd st.tclosed c true }
            | none => some { st with m := m' }
        | none => none
  | .recvHeader s =>
      match st.rcv, st.m.wire s with
      | .idle, .answered c k w =>
          if st.m.closed then some { st with rcv := .stopped }
          else match st.m.owner s with
            | some d => some { st with rcv := .body s d c k w }
            | none => some { st with rcv := .skip }
      | _, _ => none
  | .recvStray s =>
      match st.rcv with
      | .idle => if st.m.wire s = .none ∧ st.m.owner s = none then
                   (if st.m.closed then some { st with rcv := .stopped } else some { st with rcv := .skip })
                 else none
      | _ => none
  | .recvEvent => match st.rcv with
      | .idle => some { st with rcv := .skip }
      | _ => none
  | .recvBody => match st.rcv with
      | .body .. => some st
      | .skip => some st
      | _ => none
  | .recvBodyEnd => match st.rcv with
      | .body s d c k w => some { st with rcv := .hand s d c k w }
      | .skip => some { st with rcv := .idle }
      | _ => none
  | .handResp => match st.rcv with
      | .hand s d c k w =>
          if st.m.pc d = .waiting s then
            -- rendezvous: the caller takes the response, closes its timeout channel and releases the id
            some { st with rcv := .idle, tclosed := upd st.tclosed d true,
                           m := { st.m with wire := upd st.m.wire s .none, owner := upd st.m.owner s none,
                                            pc := upd st.m.pc d (.done (.resp c k w)),
                                            clears := upd st.m.clears d (st.m.clears d + 1) } }
          else none
      | _ => none
  | .handGone => match st.rcv with
      | .hand s d _ _ _ =>
          if st.tclosed d = true then
            -- the caller has gone: recv releases the id itself
            some { st with rcv := .idle,
                           m := { st.m with wire := upd st.m.wire s .none, owner := upd st.m.owner s none,
                                            clears := upd st.m.clears d (st.m.clears d + 1) } }
          else none
      | _ => none
  | .handCtx => match st.rcv with
      | .hand s _ _ _ _ =>
          if st.m.closed then some { st with rcv := .idle, m := { st.m with wire := upd st.m.wire s .none } }
          else none
      | _ => none
  | .recvFail => match st.rcv with
      | .hand .. => none
      | .stopped => none
      | _ => some { st with rcv := .stopped }

def run : St → List Act → Option St
  | s, [] => some s
  | s, a :: as => match step s a with
    | some s' => run s' as
    | none => none

/-- The receive loop of seeded change C06-5 (NOT the code that exists; used only by the counterexample theorem
    `C06_pipe_probe_early_stuck` to show what the never-stuck theorem excludes): `call.timeout` is probed once,
    when the header has been read, and the final select has lost its `<-call.timeout` arm. -/
def stepProbeEarly (st : St) : Act → Option St
  | .handGone => none
  | .recvHeader s =>
      match st.rcv, st.m.wire s, st.m.owner s with
      | .idle, .answered _ _ _, some d =>
          if st.m.closed = false ∧ st.tclosed d = true then
            some { st with rcv := .skip,
                           m := { st.m with wire := upd st.m.wire s .none, owner := upd st.m.owner s none,
                                            clears := upd st.m.clears d (st.m.clears d + 1) } }
          else step st (.recvHeader s)
      | _, _, _ => step st (.recvHeader s)
  | a => step st a

def runProbeEarly : St → List Act → Option St
  | s, [] => some s
  | s, a :: as => match stepProbeEarly s a with
    | some s' => runProbeEarly s' as
    | none => none

/-- some arm of recv's final select is ready -/
def handEnabled (st : St) : Bool :=
  (step st .handResp).isSome || (step st .handGone).isSome || (step st .handCtx).isSome

/-- number of ids among 1..n that are reserved -/
def held (st : St) : Nat → Nat
  | 0 => 0
  | n + 1 => (if (st.m.owner (n + 1)).isSome then 1 else 0) + held st n

end MuxPipe
