/-!
# Token strings from the network: parsing and ring construction (property C05)

token.go: newTokenRing picks the partitioner by the SUFFIX of the name the node reports (Murmur3Partitioner, then
OrderedPartitioner, then RandomPartitioner; anything else is an error), parses every element of every host's
`tokens` column with the partitioner's ParseString, sorts with token.Less; GetHostForToken = sort.Search for the
first token not less than the one looked up, wrapping to the first.

  murmur3Partitioner.ParseString  `val, _ := strconv.ParseInt(str, 10, 64)`: 0 for a syntax error, the nearest
                                  int64 for a value out of range
  orderedPartitioner.ParseString  the string itself (compared bytewise)
  randomPartitioner.ParseString   `val := new(big.Int); val.SetString(str, 10)`: the pointer is never nil; after a
                                  failed SetString the value is "undefined" (math/big) — `none` here
A token is a value or a nil pointer (`Tok.nil`, what `val, _ := new(big.Int).SetString(..)` would hand back for a
failed parse: the variant `nilOnFail`); `Less` on a nil *randomToken dereferences nil inside big.Int.Cmp.
A byte string is a list of naturals. Core Lean only.
-/
namespace TokenRing

abbrev Str := List Nat

inductive Part | murmur3 | ordered | random
  deriving DecidableEq, Repr

def hasSuffix (s suf : Str) : Bool := suf.length ≤ s.length && s.drop (s.length - suf.length) == suf

def asc (s : String) : Str := s.toList.map Char.toNat

def partOf (name : Str) : Option Part :=
  if hasSuffix name (asc "Murmur3Partitioner") then some .murmur3
  else if hasSuffix name (asc "OrderedPartitioner") then some .ordered
  else if hasSuffix name (asc "RandomPartitioner") then some .random
  else none

/-- value of a non-empty string of ASCII digits -/
def digits (acc : Nat) : Str → Option Nat
  | [] => some acc
  | c :: rest => if 48 ≤ c ∧ c ≤ 57 then digits (acc * 10 + (c - 48)) rest else none

/-- an optional sign and at least one digit (strconv.ParseInt base 10 and big.Int.SetString base 10 agree on it) -/
def parseDec (s : Str) : Option Int :=
  match s with
  | [] => none
  | 43 :: rest => if rest.isEmpty then none else (digits 0 rest).map Int.ofNat
  | 45 :: rest => if rest.isEmpty then none else (digits 0 rest).map (fun n => - Int.ofNat n)
  | _ => (digits 0 s).map Int.ofNat

def clamp64 (v : Int) : Int :=
  if v > 9223372036854775807 then 9223372036854775807
  else if v < -9223372036854775808 then -9223372036854775808 else v

inductive Tok
  | m (v : Int)             -- murmur3Token
  | o (s : Str)             -- orderedToken
  | r (v : Option Int)      -- *randomToken, non-nil; `none`: undefined value
  | nil                     -- (*randomToken)(nil)
  deriving DecidableEq, Repr

def parse (nilOnFail : Bool) : Part → Str → Tok
  | .murmur3, s => .m (clamp64 ((parseDec s).getD 0))
  | .ordered, s => .o s
  | .random, s =>
    match parseDec s with
    | some v => .r (some v)
    | none => if nilOnFail then .nil else .r none

def strLt : Str → Str → Bool
  | [], [] => false
  | [], _ :: _ => true
  | _ :: _, [] => false
  | a :: as, b :: bs => if a < b then true else if b < a then false else strLt as bs

/-- token.Less; `none` = nil dereference -/
def less : Tok → Tok → Option Bool
  | .m a, .m b => some (a < b)
  | .o a, .o b => some (strLt a b)
  | .r (some a), .r (some b) => some (a < b)
  | .r _, .r _ => some false          -- undefined values: some answer, no panic
  | .nil, _ => none
  | _, .nil => none
  | _, _ => some false                -- tokens of two partitioners never meet

def Tok.isNil : Tok → Bool
  | .nil => true
  | _ => false

def Tok.undef : Tok → Bool
  | .r none => true
  | _ => false

def insertTok (t : Tok) : List Tok → List Tok
  | [] => [t]
  | x :: xs => if less t x == some true then t :: x :: xs else x :: insertTok t xs

def sortToks (l : List Tok) : List Tok := l.foldr insertTok []

inductive Out
  | err                                   -- unsupported partitioner
  | crash
  | ok (ring : List Tok) (end_ : Option Tok)
  deriving DecidableEq, Repr

/-- newTokenRing + GetHostForToken. sort.Sort on two or more tokens compares every one of them at least once;
    sort.Search compares the looked-up token with at least one ring token when the ring is not empty. -/
def ringOf (nilOnFail : Bool) (name : Str) (hosts : List (List Str)) (lookup : Str) : Out :=
  match partOf name with
  | none => .err
  | some p =>
    let toks := hosts.flatten.map (parse nilOnFail p)
    let q := parse nilOnFail p lookup
    if toks.length ≥ 2 && toks.any Tok.isNil then .crash
    else if !toks.isEmpty && (q.isNil || toks.any Tok.isNil) then .crash
    else
      let ring := sortToks toks
      .ok ring (match ring.find? (fun t => less t q != some true) with
        | some t => some t
        | none => ring.head?)

def Out.isCrash : Out → Bool
  | .crash => true
  | _ => false

/-! ## rendering -/

def hexDigit (n : Nat) : Char := if n < 10 then Char.ofNat (48 + n) else Char.ofNat (87 + n)

def hexOf (s : Str) : String :=
  if s.isEmpty then "-" else String.ofList (s.foldr (fun b acc => hexDigit (b / 16 % 16) :: hexDigit (b % 16) :: acc) [])

def Tok.str : Tok → String
  | .m v => hexOf (asc (toString v))
  | .o s => hexOf s
  | .r (some v) => hexOf (asc (toString v))
  | _ => "?"

def joinC : List String → String
  | [] => ""
  | x :: xs => xs.foldl (fun a y => a ++ "," ++ y) x

def Out.str : Out → String
  | .err => "err"
  | .crash => "crash:randomToken.Less:nil"
  | .ok ring e =>
    if ring.any Tok.undef || (match e with | some t => t.undef | none => false) then "ok:" ++ toString ring.length ++ ":?:?"
    else "ok:" ++ toString ring.length ++ ":" ++ joinC (ring.map Tok.str) ++ ":" ++
      (match e with | some t => t.str | none => "none")

def hexVal (c : Char) : Option Nat :=
  if '0' ≤ c ∧ c ≤ '9' then some (c.toNat - 48) else if 'a' ≤ c ∧ c ≤ 'f' then some (c.toNat - 87) else none

def unhexL : List Char → Option Str
  | [] => some []
  | [_] => none
  | a :: b :: r => do
    let x ← hexVal a
    let y ← hexVal b
    let rest ← unhexL r
    pure ((x * 16 + y) :: rest)

def unhex (s : String) : Option Str := if s = "-" then some [] else unhexL s.toList

def parseHost (w : String) : Option (List Str) :=
  if w = "." then some [] else (w.splitOn ",").mapM unhex

def answer (ws : List String) : Option String :=
  match ws with
  | ["ring", n, hs, l] =>
    some (match unhex n, (hs.splitOn ";").mapM parseHost, unhex l with
      | some n, some hs, some l =>
        -- an undefined lookup value makes the end token undefined too
        let o := ringOf false n hs l
        (match o, partOf n with
         | .ok ring _, some p => if (parse false p l).undef then "ok:" ++ toString ring.length ++ ":?:?" else o.str
         | _, _ => o.str)
      | _, _, _ => "bad-op")
  | "ring" :: _ => some "bad-op"
  | _ => none

end TokenRing
