/-
  C05 (no bytes from the network can crash the application), part 2: value decoders.

  Executable OUTCOME model of `gocql.Unmarshal(info, data, value)` (marshal.go 225-2477 and
  helpers.go goType 43-102): for a protocol version, a CQL type tree, a Go destination type and
  the value bytes (or NULL) it says `ok | err | crash <function> <kind>` exactly as the real code
  does.  The control flow of every unmarshalXxx is mirrored with an EXPLICIT check at every
  index / slice / make / reflect operation (`idx`, `sliceFrom`, `sliceTo`, ...): a Go `data[a:]`
  is `sliceFrom fn data a`, which answers `crash fn slice` when `a > len data`.

  The model describes the code AFTER the repairs of KF-C05-12 (readBytes returns an error when the
  field length exceeds the data), KF-C05-15 (unmarshalList: negative length is an error), KF-C05-16
  (unmarshalTuple into a []interface{} shorter than the tuple is an error), KF-C05-17 (unmarshalDate: 1..3
  bytes is an error), KF-C05-18/19 (unmarshalTuple / unmarshalUDT by reflection: a field that cannot take
  the value is an error) and KF-C05-21 (unmarshalList / unmarshalMap reject an element count that the
  remaining bytes cannot hold BEFORE reflect.MakeSlice / MakeMapWithSize); KF-C05-14 (goType) was
  repaired earlier. Each guard is an `errIf` below.

  Core Lean only.  Recursion over the type tree is structural (nested inductive), data-driven
  loops recurse structurally on the element count read from the data (each iteration either fails
  or consumes >= 2 bytes, so a count of 2^31 with a short body stops at the first missing
  element: no fuel is needed).
-/
namespace CrashValue

abbrev Bytes := List UInt8

/-! ## CQL type trees and Go destination types -/

inductive Native where
  | custom | ascii | bigint | blob | boolean | counter | decimal | double | float | int | text
  | timestamp | uuid | varchar | varint | timeuuid | inet | date | time | smallint | tinyint | duration
  deriving DecidableEq, Repr

/-- CQL type tree (`set` is `list`: the code treats them alike). UDT field names are numbers
    (`nameCode` of the string). -/
inductive CT where
  | nat (n : Native)
  | list (e : CT)
  | map (k v : CT)
  | tuple (es : List CT)
  | udt (fs : List (Nat × CT))
  deriving Repr

/-- Go scalar destination types (exact types: the type switches of marshal.go match on them). -/
inductive Sc where
  | int | int8 | int16 | int32 | int64 | uint | uint8 | uint16 | uint32 | uint64
  | string | bool | f32 | f64
  | dur      -- time.Duration (kind Int64)
  | ip       -- net.IP        (kind Slice of uint8)
  | uuid     -- gocql.UUID    (kind Array, 16 x uint8)
  | time     -- time.Time     (struct, 3 unexported fields)
  | bigint   -- big.Int       (struct, 2 unexported fields)
  | dec      -- inf.Dec       (struct, 2 unexported fields)
  | cqldur   -- gocql.Duration (struct Months int32, Days int32, Nanoseconds int64)
  | iface    -- interface{}
  deriving DecidableEq, Repr

/-- Go destination type. A struct field is (name, tagged, type): `tagged = true` is a field with
    tag `cql:"name"` (its Go name never equals a UDT field name), `tagged = false` is an exported
    field whose Go name is `name`. -/
inductive GT where
  | sc (s : Sc)
  | ptr (t : GT)
  | slice (t : GT)
  | arr (n : Nat) (t : GT)
  | map (k v : GT)
  | struct (fs : List (Nat × Bool × GT))
  deriving Repr

/-- The destination handed to Unmarshal. -/
inductive Dest where
  | val (g : GT)          -- a `*g`
  | deflt                 -- `info.NewWithError()` (what RowData / MapScan / SliceMap use)
  | ifs (ds : List GT)    -- a `[]interface{}` whose i-th entry is a `*ds[i]`
  deriving Repr

mutual
def GT.beq : GT → GT → Bool
  | .sc a, .sc b => decide (a = b)
  | .ptr a, .ptr b => GT.beq a b
  | .slice a, .slice b => GT.beq a b
  | .arr n a, .arr m b => n == m && GT.beq a b
  | .map k v, .map k' v' => GT.beq k k' && GT.beq v v'
  | .struct fs, .struct gs => GT.beqFields fs gs
  | _, _ => false
def GT.beqFields : List (Nat × Bool × GT) → List (Nat × Bool × GT) → Bool
  | [], [] => true
  | (n, t, a) :: fs, (m, u, b) :: gs => n == m && t == u && GT.beq a b && GT.beqFields fs gs
  | _, _ => false
end

/-! ## Outcomes -/

/-- gocql function in which a panic is raised (first gocql frame below the panic). -/
inductive Fn where
  | unmarshalList | unmarshalMap | unmarshalTuple | unmarshalUDT | readBytes | readInt
  | readCollectionSize | unmarshalDate | goType | decVint | unmarshalDecimal | unmarshalVarint
  | decInt | decShort | decTiny | decBigInt | decBool | unmarshalTimeUUID
  deriving DecidableEq, Repr

/-- kind of runtime panic (`c05util.Kind`). `reflectBounds` is a reflect index (Field / Index) out
    of range; it prints as `reflect` like the other reflect panics but is kept apart so that the
    theorems can say it never happens. -/
inductive Kind where
  | index | slice | reflectMakeslice | reflect | reflectBounds
  deriving DecidableEq, Repr

structure Site where
  fn : Fn
  kind : Kind
  deriving DecidableEq, Repr

inductive Res (α : Type) where
  | ok (a : α)
  | err
  | crash (s : Site)
  deriving Repr, DecidableEq

abbrev Outcome := Res Unit

@[inline] def Res.bind {α β : Type} (x : Res α) (f : α → Res β) : Res β :=
  match x with
  | .ok a => f a
  | .err => .err
  | .crash s => .crash s

instance : Monad Res where
  pure := .ok
  bind := Res.bind

/-! ## Checked primitives: every Go index / slice expression goes through one of these -/

/-- `d[i]` inside function `fn` -/
def idx (fn : Fn) (d : Bytes) (i : Nat) : Res UInt8 :=
  if i < d.length then .ok (d.getD i 0) else .crash ⟨fn, .index⟩

/-- `d[a:]` inside function `fn` -/
def sliceFrom (fn : Fn) (d : Bytes) (a : Nat) : Res Bytes :=
  if a ≤ d.length then .ok (d.drop a) else .crash ⟨fn, .slice⟩

/-- `d[:b]` inside function `fn` -/
def sliceTo (fn : Fn) (d : Bytes) (b : Nat) : Res Bytes :=
  if b ≤ d.length then .ok (d.take b) else .crash ⟨fn, .slice⟩

/-- an explicit guard of the Go code: `if bad { return error }` -/
def errIf (bad : Bool) : Outcome :=
  if bad then .err else .ok ()

/-! ## Integers -/

def be32 (a b c d : UInt8) : Nat := a.toNat * 16777216 + b.toNat * 65536 + c.toNat * 256 + d.toNat

def i32 (a b c d : UInt8) : Int :=
  let n := be32 a b c d
  if n < 2147483648 then (n : Int) else (n : Int) - 4294967296

def beNat (d : Bytes) : Nat := d.foldl (fun acc b => acc * 256 + b.toNat) 0

/-- two's complement value of a big-endian byte string (empty = 0) -/
def signedBE (d : Bytes) : Int :=
  match d with
  | [] => 0
  | b :: _ => if b.toNat ≥ 128 then (beNat d : Int) - (256 ^ d.length : Nat) else (beNat d : Int)

/-- marshal.go decInt: 0 unless exactly 4 bytes -/
def decInt (d : Bytes) : Res Int :=
  if d.length ≠ 4 then .ok 0 else do
    let a ← idx .decInt d 0
    let b ← idx .decInt d 1
    let c ← idx .decInt d 2
    let e ← idx .decInt d 3
    .ok (i32 a b c e)

def decShort (d : Bytes) : Res Int :=
  if d.length ≠ 2 then .ok 0 else do
    let a ← idx .decShort d 0
    let b ← idx .decShort d 1
    let n := a.toNat * 256 + b.toNat
    .ok (if n < 32768 then (n : Int) else (n : Int) - 65536)

def decTiny (d : Bytes) : Res Int :=
  if d.length ≠ 1 then .ok 0 else do
    let a ← idx .decTiny d 0
    .ok (if a.toNat < 128 then (a.toNat : Int) else (a.toNat : Int) - 256)

def decBigInt (d : Bytes) : Res Int :=
  if d.length ≠ 8 then .ok 0 else do
    let _ ← idx .decBigInt d 0
    let _ ← idx .decBigInt d 1
    let _ ← idx .decBigInt d 2
    let _ ← idx .decBigInt d 3
    let _ ← idx .decBigInt d 4
    let _ ← idx .decBigInt d 5
    let _ ← idx .decBigInt d 6
    let _ ← idx .decBigInt d 7
    .ok (signedBE d)

def decBool (d : Bytes) : Outcome :=
  if d.length = 0 then .ok () else do
    let _ ← idx .decBool d 0
    .ok ()

def inRange (v lo hi : Int) : Outcome := if v < lo ∨ v > hi then .err else .ok ()

/-- marshal.go unmarshalIntlike (64-bit platform): which destinations take the value -/
def intlike (ty : Native) (v : Int) (g : GT) : Outcome :=
  match g with
  | .sc .int | .sc .uint | .sc .int64 | .sc .uint64 | .sc .bigint | .sc .string | .sc .dur => .ok ()
  | .sc .int32 => inRange v (-2147483648) 2147483647
  | .sc .uint32 =>
      if ty = .int ∨ ty = .smallint ∨ ty = .tinyint then .ok () else inRange v 0 4294967295
  | .sc .int16 => inRange v (-32768) 32767
  | .sc .uint16 => if ty = .smallint ∨ ty = .tinyint then .ok () else inRange v 0 65535
  | .sc .int8 => inRange v (-128) 127
  | .sc .uint8 => if ty = .tinyint then .ok () else inRange v 0 255
  | _ => .err

/-! ## Scalars -/

def leadingOnes (b : UInt8) : Nat :=
  let n := b.toNat
  if n < 128 then 0 else if n < 192 then 1 else if n < 224 then 2 else if n < 240 then 3
  else if n < 248 then 4 else if n < 252 then 5 else if n < 254 then 6 else if n < 255 then 7 else 8

/-- the `for i := start; i < start+numBytes; i++ { data[i+1] }` loop of decVint -/
def vintBody (d : Bytes) : Nat → Nat → Outcome
  | 0, _ => .ok ()
  | k+1, i => do
      let _ ← idx .decVint d (i + 1)
      vintBody d k (i + 1)

/-- marshal.go decVint: returns the index after the vint -/
def decVint (d : Bytes) (start : Nat) : Res Nat :=
  if d.length ≤ start then .err else do
    let fb ← idx .decVint d start
    if fb.toNat < 128 then .ok (start + 1) else
    let nb := leadingOnes fb
    if d.length < start + nb + 1 then .err else do
      vintBody d nb start
      .ok (start + nb + 1)

def decVints (d : Bytes) : Outcome := do
  let i ← decVint d 0
  let i ← decVint d i
  let _ ← decVint d i
  .ok ()

/-- marshal.go unmarshalUUID -/
def unmarshalUUID (g : GT) (d : Bytes) : Outcome :=
  if d.length = 0 then
    match g with
    | .sc .string | .slice (.sc .uint8) | .sc .uuid => .ok ()
    | _ => .err
  else if d.length ≠ 16 then .err
  else match g with
    | .arr 16 (.sc .uint8) | .sc .uuid | .sc .string | .slice (.sc .uint8) => .ok ()
    | _ => .err

/-- Unmarshal of a native type into a `*g` (g is not a pointer type here). `d = none` is NULL. -/
def scalar (n : Native) (g : GT) (data : Option Bytes) : Outcome :=
  let d := data.getD []
  match n with
  | .custom => .err
  | .varchar | .ascii | .blob | .text =>
      match g with
      | .sc .string | .slice (.sc .uint8) | .sc .ip => .ok ()
      | _ => .err
  | .boolean =>
      match g with
      | .sc .bool => decBool d
      | _ => .err
  | .int => do let v ← decInt d; intlike n v g
  | .bigint | .counter => do let v ← decBigInt d; intlike n v g
  | .smallint => do let v ← decShort d; intlike n v g
  | .tinyint => do let v ← decTiny d; intlike n v g
  | .varint =>
      match g with
      | .sc .bigint => .ok ()
      | _ => do
        let special : Bool ←
          (match g with
           | .sc .uint64 =>
              if d.length = 9 then do
                let b0 ← idx .unmarshalVarint d 0
                if b0.toNat = 0 then do
                  let _ ← sliceFrom .unmarshalVarint d 1
                  .ok true
                else .ok false
              else .ok false
           | _ => .ok false)
        if special then .ok () else
        if d.length > 8 then .err else do
          let v ← (if d.length > 0 ∧ d.length < 8 then do
                      let _ ← idx .unmarshalVarint d 0
                      .ok (signedBE d)
                    else .ok (signedBE d))
          intlike n v g
  | .float =>
      match g with
      | .sc .f32 => do let _ ← decInt d; .ok ()
      | _ => .err
  | .double =>
      match g with
      | .sc .f64 => do let _ ← decBigInt d; .ok ()
      | _ => .err
  | .decimal =>
      match g with
      | .sc .dec =>
          if d.length < 4 then .err else do
            let h ← sliceTo .unmarshalDecimal d 4
            let _ ← decInt h
            let _ ← sliceFrom .unmarshalDecimal d 4
            .ok ()
      | _ => .err
  | .time =>
      match g with
      | .sc .int64 | .sc .dur => do let _ ← decBigInt d; .ok ()
      | _ => .err
  | .timestamp =>
      match g with
      | .sc .int64 | .sc .dur => do let _ ← decBigInt d; .ok ()
      | .sc .time => if d.length = 0 then .ok () else do let _ ← decBigInt d; .ok ()
      | _ => .err
  | .date =>
      match g with
      | .sc .time | .sc .string =>
          if d.length = 0 then .ok () else do
            errIf (d.length < 4)   -- `if len(data) < 4 { return error }`
            -- binary.BigEndian.Uint32(data): `_ = b[3]`
            if 3 < d.length then .ok () else .crash ⟨.unmarshalDate, .index⟩
      | _ => .err
  | .duration =>
      match g with
      | .sc .cqldur => if d.length = 0 then .ok () else decVints d
      | _ => .err
  | .uuid => unmarshalUUID g d
  | .timeuuid =>
      match g with
      | .sc .time =>
          if d.length ≠ 16 then .err else do
            -- UUID.Version(): u[6] on the [16]byte copy
            let b6 ← idx .unmarshalTimeUUID d 6
            if b6.toNat / 16 ≠ 1 then .err else .ok ()
      | _ => unmarshalUUID g d
  | .inet =>
      match g with
      | .sc .ip => if d.length = 4 ∨ d.length = 16 then .ok () else .err
      | .sc .string => .ok ()
      | _ => .err

/-! ## goType (helpers.go) -/

/-- can the Go type be a map key (reflect.MapOf panics otherwise). Only the shapes goType can
    produce matter: slices and maps are not hashable. -/
def hashable : GT → Bool
  | .slice _ => false
  | .map _ _ => false
  | .sc .ip => false
  | _ => true

/-- helpers.go goType: the Go type `NewWithError` allocates for a CQL type -/
def goType : CT → Res GT
  | .nat n =>
      match n with
      | .custom => .err
      | .varchar | .ascii | .inet | .text => .ok (.sc .string)
      | .bigint | .counter => .ok (.sc .int64)
      | .time => .ok (.sc .dur)
      | .timestamp | .date => .ok (.sc .time)
      | .blob => .ok (.slice (.sc .uint8))
      | .boolean => .ok (.sc .bool)
      | .float => .ok (.sc .f32)
      | .double => .ok (.sc .f64)
      | .int => .ok (.sc .int)
      | .smallint => .ok (.sc .int16)
      | .tinyint => .ok (.sc .int8)
      | .decimal => .ok (.ptr (.sc .dec))
      | .uuid | .timeuuid => .ok (.sc .uuid)
      | .varint => .ok (.ptr (.sc .bigint))
      | .duration => .ok (.sc .cqldur)
  | .list e => do
      let g ← goType e
      .ok (.slice g)
  | .map k v => do
      let gk ← goType k
      let gv ← goType v
      -- reflect.MapOf(keyType, valueType) behind `if !keyType.Comparable() { return nil, err }`
      -- (the guard is in the tree since /repo commit c637d3e "fix: RowData/MapScan/SliceMap panicked on a
      -- map column whose key type is not comparable in Go"; before it this was a reflect.MapOf panic)
      if hashable gk then .ok (.map gk gv) else .err
  | .tuple _ => .ok (.slice (.sc .iface))
  | .udt _ => .ok (.map (.sc .string) (.sc .iface))

/-! ## Collections -/

/-- marshal.go readCollectionSize: (size, bytes read) -/
def readCollectionSize (proto : Nat) (d : Bytes) : Res (Int × Nat) :=
  if proto > 2 then
    if d.length < 4 then .err else do
      let a ← idx .readCollectionSize d 0
      let b ← idx .readCollectionSize d 1
      let c ← idx .readCollectionSize d 2
      let e ← idx .readCollectionSize d 3
      .ok (i32 a b c e, 4)
  else
    if d.length < 2 then .err else do
      let a ← idx .readCollectionSize d 0
      let b ← idx .readCollectionSize d 1
      .ok (((a.toNat * 256 + b.toNat : Nat) : Int), 2)

/-- one `[bytes]`-like element of a list/map body: size, then that many bytes (size < 0 = NULL) -/
def readElem (fn : Fn) (proto : Nat) (d : Bytes) : Res (Option Bytes × Bytes) := do
  let (m, p) ← readCollectionSize proto d
  let d ← sliceFrom fn d p
  if m ≥ 0 then
    if d.length < m.toNat then .err else do
      let a ← sliceTo fn d m.toNat
      let b ← sliceFrom fn d m.toNat
      .ok (some a, b)
  else .ok (none, d)

/-- the element loop of unmarshalList: `cnt` elements still to read, next index `i` of a
    slice/array of length `len` -/
def listLoop (proto : Nat) (f : Option Bytes → Outcome) (len : Nat) : Nat → Nat → Bytes → Outcome
  | 0, _, _ => .ok ()
  | cnt+1, i, d => do
      let (ed, d) ← readElem .unmarshalList proto d
      -- rv.Index(i)
      if i < len then do
        f ed
        listLoop proto f len cnt (i + 1) d
      else .crash ⟨.unmarshalList, .reflectBounds⟩

/-- slice-like destination: (isArray, array length, element type) -/
def seqKind : GT → Option (Bool × Nat × GT)
  | .slice e => some (false, 0, e)
  | .sc .ip => some (false, 0, .sc .uint8)
  | .arr n e => some (true, n, e)
  | .sc .uuid => some (true, 16, .sc .uint8)
  | _ => none

/-- the element count unmarshalList hands to `reflect.MakeSlice(t, n, n)`, given the declared
    count `n`, the bytes left after the count (`avail`) and the size of an element header (`p`).
    A count that the remaining bytes cannot hold is an error (`n > len(data)/p`: every element needs at
    least its `p`-byte length), and so is a negative count (`if n < 0 { return error }`). -/
def makeCount (n : Int) (avail p : Nat) : Res Nat :=
  if n < 0 then .err
  else if n.toNat > avail / p then .err
  else .ok n.toNat

/-- the hint unmarshalMap hands to `reflect.MakeMapWithSize(t, n)`; `avail` = bytes after the count.
    A count above avail / (2p) is an error (every entry needs two headers). -/
def makeMapCount (n : Int) (avail p : Nat) : Res Nat :=
  if n < 0 then .err
  else if n.toNat > avail / (2 * p) then .err
  else .ok n.toNat

/-- marshal.go unmarshalList; `elem g d` is Unmarshal of the element type into a `*g` -/
def unmarshalList (proto : Nat) (elem : GT → Option Bytes → Outcome)
    (g : GT) (data : Option Bytes) : Outcome :=
  match seqKind g with
  | none => .err
  | some (isArr, alen, e) =>
    match data with
    | none => if isArr then .err else .ok ()
    | some d => do
      let (n, p) ← readCollectionSize proto d
      let d ← sliceFrom .unmarshalList d p
      if isArr then
        if (alen : Int) ≠ n then .err else listLoop proto (elem e) alen n.toNat 0 d
      else do
        -- reflect.MakeSlice(t, n, n)
        let cnt ← makeCount n d.length p
        listLoop proto (elem e) cnt cnt 0 d

def mapLoop (proto : Nat) (fk fv : Option Bytes → Outcome) : Nat → Bytes → Outcome
  | 0, _ => .ok ()
  | cnt+1, d => do
      let (kd, d) ← readElem .unmarshalMap proto d
      fk kd
      let (vd, d) ← readElem .unmarshalMap proto d
      fv vd
      mapLoop proto fk fv cnt d

/-- marshal.go unmarshalMap -/
def unmarshalMap (proto : Nat) (key val : GT → Option Bytes → Outcome)
    (g : GT) (data : Option Bytes) : Outcome :=
  match g with
  | .map gk gv =>
    match data with
    | none => .ok ()
    | some d => do
      let (n, p) ← readCollectionSize proto d
      -- `if n < 0 { return error }`, reflect.MakeMapWithSize(t, n)
      let cnt ← makeMapCount n (d.length - p) p
      let d ← sliceFrom .unmarshalMap d p
      mapLoop proto (key gk) (val gv) cnt d
  | _ => .err

/-! ## Tuples and UDTs -/

/-- frame.go readInt -/
def readInt (d : Bytes) : Res Int := do
  let a ← idx .readInt d 0
  let b ← idx .readInt d 1
  let c ← idx .readInt d 2
  let e ← idx .readInt d 3
  .ok (i32 a b c e)

/-- marshal.go readBytes: `if int(size) > len(p) { return error }` before the two slice expressions -/
def readBytes (d : Bytes) : Res (Option Bytes × Bytes) := do
  let size ← readInt d
  let d ← sliceFrom .readBytes d 4
  if size < 0 then .ok (none, d) else do
    let (_ : Unit) ← errIf (d.length < size.toNat)
    let a ← sliceTo .readBytes d size.toNat
    let b ← sliceFrom .readBytes d size.toNat
    .ok (some a, b)

/-- `var p []byte; if len(data) >= 4 { p, data = readBytes(data) }` -/
def tupleField (d : Bytes) : Res (Option Bytes × Bytes) :=
  if d.length ≥ 4 then readBytes d else .ok (none, d)

def stripPtr : GT → GT
  | .ptr g => stripPtr g
  | g => g

/-- Unmarshal into a `*g` given the decoder for non-pointer `g` (`isNullableValue` /
    `unmarshalNullable`): a pointer type takes NULL, otherwise the pointers are allocated and the
    value goes into the pointee. -/
def unmG (core : GT → Option Bytes → Outcome) (g : GT) (d : Option Bytes) : Outcome :=
  match g with
  | .ptr g' => if d.isNone then .ok () else core (stripPtr g') d
  | g => core g d

/-- a settable slot of a tuple destination: (settable, type) -/
abbrev Slot := Bool × GT

/-- the struct / slice / array a tuple is stored in by reflection: `none` = not such a kind,
    `some (.err)` = wrong number of fields / array length -/
def tupleSlots (g : GT) (n : Nat) : Option (Res (List Slot)) :=
  match g with
  | .struct fs => some (if fs.length ≠ n then .err else .ok (fs.map (fun f => (true, f.2.2))))
  | .sc .time => some (if 3 ≠ n then .err else .ok (List.replicate 3 (false, .sc .iface)))
  | .sc .bigint => some (if 2 ≠ n then .err else .ok (List.replicate 2 (false, .sc .iface)))
  | .sc .dec => some (if 2 ≠ n then .err else .ok (List.replicate 2 (false, .sc .iface)))
  | .sc .cqldur => some (if 3 ≠ n then .err
                         else .ok [(true, .sc .int32), (true, .sc .int32), (true, .sc .int64)])
  | .slice e => some (.ok (List.replicate n (true, e)))
  | .sc .ip => some (.ok (List.replicate n (true, .sc .uint8)))
  | .arr k e => some (if k ≠ n then .err else .ok (List.replicate n (true, e)))
  | .sc .uuid => some (if 16 ≠ n then .err else .ok (List.replicate n (true, .sc .uint8)))
  | _ => none

/-- number of a field name: base-256 value of its characters -/
def nameCode (cs : List Char) : Nat := cs.foldl (fun acc c => acc * 256 + c.toNat) 0

/-- underlying type literal of the named types whose underlying type can be written as a `GT`
    (net.IP = []byte, gocql.UUID = [16]byte, gocql.Duration = struct{Months,Days int32; Nanoseconds int64}) -/
def underlying : GT → GT
  | .sc .ip => .slice (.sc .uint8)
  | .sc .uuid => .arr 16 (.sc .uint8)
  | .sc .cqldur => .struct [(nameCode ['M','o','n','t','h','s'], false, .sc .int32),
                            (nameCode ['D','a','y','s'], false, .sc .int32),
                            (nameCode ['N','a','n','o','s','e','c','o','n','d','s'], false, .sc .int64)]
  | g => g

/-- Go assignability `src` to `dst` for the types at hand: identical types, or `dst` is
    interface{}, or identical underlying types where one side is a type literal -/
def assignable (src dst : GT) : Bool :=
  match dst with
  | .sc .iface => true
  | _ => GT.beq dst src || GT.beq (underlying dst) src || GT.beq dst (underlying src)

/-- `setTupleElem(rv.Field(i) / rv.Index(i), v, ..)` of unmarshalTuple with a value of type `src`
    (`*src` for a pointer slot): `if !dst.CanSet() || !src.Type().AssignableTo(dst.Type()) { return error }` -/
def setSlot (slots : List Slot) (i : Nat) (src : GT) : Outcome :=
  match slots[i]? with
  | none => .crash ⟨.unmarshalTuple, .reflectBounds⟩
  | some (settable, t) =>
    let fits : Bool :=
      match t with
      | .ptr t' => GT.beq t' src
      | t => assignable src t
    if settable && fits then .ok () else .err

/-- a field of a struct-kind destination as unmarshalUDT sees it -/
structure UField where
  name : Nat
  tagged : Bool      -- has the tag `cql:"name"` (then its Go name is never a UDT field name)
  exported : Bool
  ty : GT

/-- fields of a struct-kind destination as unmarshalUDT sees them (`none`: not a struct) -/
def udtFields : GT → Option (List UField)
  | .struct fs => some (fs.map (fun f => ⟨f.1, f.2.1, true, f.2.2⟩))
  | .sc .time => some [⟨nameCode ['w','a','l','l'], false, false, .sc .iface⟩,
                       ⟨nameCode ['e','x','t'], false, false, .sc .iface⟩,
                       ⟨nameCode ['l','o','c'], false, false, .sc .iface⟩]
  | .sc .bigint => some [⟨nameCode ['n','e','g'], false, false, .sc .iface⟩,
                         ⟨nameCode ['a','b','s'], false, false, .sc .iface⟩]
  | .sc .dec => some [⟨nameCode ['u','n','s','c','a','l','e','d'], false, false, .sc .iface⟩,
                      ⟨nameCode ['s','c','a','l','e'], false, false, .sc .iface⟩]
  | .sc .cqldur => some [⟨nameCode ['M','o','n','t','h','s'], false, true, .sc .int32⟩,
                         ⟨nameCode ['D','a','y','s'], false, true, .sc .int32⟩,
                         ⟨nameCode ['N','a','n','o','s','e','c','o','n','d','s'], false, true, .sc .int64⟩]
  | _ => none

/-- `fields[tag]` (the LAST field with that tag wins: the map is filled in field order) -/
def lookupTag (fs : List UField) (nm : Nat) : Option UField :=
  fs.foldl (fun acc f => if f.tagged && f.name == nm then some f else acc) none

/-- `k.FieldByName(name)`: a field whose Go name is `nm` -/
def lookupName (fs : List UField) (nm : Nat) : Option UField :=
  fs.find? (fun f => !f.tagged && f.name == nm)

def lookupField (fs : List UField) (nm : Nat) : Option UField :=
  match lookupTag fs nm with
  | some f => some f
  | none => lookupName fs nm

def isMsi : GT → Bool
  | .map (.sc .string) (.sc .iface) => true
  | _ => false

/-! ## Unmarshal -/

mutual
/-- `Unmarshal(info, data, value)` for a `value` of type `*g`, `g` not a pointer type (the
    callers go through `unmG`). -/
def core (proto : Nat) : CT → GT → Option Bytes → Outcome
  | .nat n, g, d => scalar n g d
  | .list e, g, d => unmarshalList proto (fun g' d' => unmG (core proto e) g' d') g d
  | .map k v, g, d =>
      unmarshalMap proto (fun g' d' => unmG (core proto k) g' d')
        (fun g' d' => unmG (core proto v) g' d') g d
  | .tuple es, g, d =>
      -- unmarshalTuple, reflection path (value is a pointer, not a []interface{})
      match tupleSlots g es.length with
      | none => .err
      | some .err => .err
      | some (.crash s) => .crash s
      | some (.ok slots) => tupleLoop proto es 0 slots (d.getD [])
  | .udt fs, g, d =>
      if isMsi g then
        match d with
        | none => .ok ()
        | some b => udtMapLoop proto fs b
      else
        match udtFields g with
        | none => .err
        | some sf => if (d.getD []).length = 0 then .ok () else udtStructLoop proto fs sf (d.getD [])
/-- the `for i, elem := range tuple.Elems` loop of the struct / slice / array paths -/
def tupleLoop (proto : Nat) : List CT → Nat → List Slot → Bytes → Outcome
  | [], _, _, _ => .ok ()
  | e :: es, i, slots, d => do
      let (p, d) ← tupleField d
      let gt ← goType e            -- elem.NewWithError()
      unmG (core proto e) gt p
      setSlot slots i gt
      tupleLoop proto es (i + 1) slots d
/-- unmarshalUDT into a `*map[string]interface{}` -/
def udtMapLoop (proto : Nat) : List (Nat × CT) → Bytes → Outcome
  | [], _ => .ok ()
  | (_, e) :: fs, d =>
      if d.length = 0 then .ok ()
      else if d.length < 4 then .err
      else do
        let gt ← goType e
        let (p, d) ← readBytes d
        unmG (core proto e) gt p
        udtMapLoop proto fs d
/-- unmarshalUDT into a `*struct` -/
def udtStructLoop (proto : Nat) : List (Nat × CT) → List UField → Bytes → Outcome
  | [], _, _ => .ok ()
  | (nm, e) :: fs, sf, d =>
      if d.length = 0 then .ok ()
      else if d.length < 4 then .err
      else do
        let (p, d) ← readBytes d
        match lookupField sf nm with
        | none => udtStructLoop proto fs sf d
        | some f =>
          -- `!f.CanInterface()` (an unexported field) is an error
          if f.exported then do
            unmG (core proto e) f.ty p
            udtStructLoop proto fs sf d
          else .err
end

/-- unmarshalTuple into a `[]interface{}` of pointers: `Unmarshal(elem, p, v[i])` -/
def ifsLoop (proto : Nat) : List CT → Nat → List GT → Bytes → Outcome
  | [], _, _, _ => .ok ()
  | e :: es, i, ds, d => do
      let (p, d) ← tupleField d
      match ds[i]? with
      | none => .crash ⟨.unmarshalTuple, .index⟩   -- unreachable: `len(v) < len(tuple.Elems)` was rejected
      | some g => do
        unmG (core proto e) g p
        ifsLoop proto es (i + 1) ds d

/-- `gocql.Unmarshal(info, data, dest)`: the outcome -/
def unmarshal (proto : Nat) (t : CT) (dst : Dest) (d : Option Bytes) : Outcome :=
  match dst with
  | .val g => unmG (core proto t) g d
  | .deflt => do
      let g ← goType t
      unmG (core proto t) g d
  | .ifs ds =>
      match t with
      | .tuple es =>
          -- `if len(v) < len(tuple.Elems) { return error }` before the loop
          if ds.length < es.length then .err else ifsLoop proto es 0 ds (d.getD [])
      | _ => .err      -- every other decoder: "can not unmarshal into non-pointer"

/-! ## Allocation: what the top-level collection decode asks reflect for -/

/-- the element count the decode of a list / set / map VALUE hands to reflect.MakeSlice (list, set) or,
    doubled (a key and a value per entry), to reflect.MakeMapWithSize — 0 when the decoder does not get
    that far. It is the model's allocation counter for the value decoders (nested collections are
    bounded the same way, each against its own bytes). -/
def topAllocCount (proto : Nat) (t : CT) (g : GT) (data : Option Bytes) : Nat :=
  match t, data with
  | .list _, some d =>
    (match seqKind g with
     | some (false, _, _) =>
       (match readCollectionSize proto d with
        | .ok (n, p) => (match makeCount n (d.length - p) p with | .ok c => c | _ => 0)
        | _ => 0)
     | _ => 0)
  | .map _ _, some d =>
    (match g with
     | .map _ _ =>
       (match readCollectionSize proto d with
        | .ok (n, p) => (match makeMapCount n (d.length - p) p with | .ok c => 2 * c | _ => 0)
        | _ => 0)
     | _ => 0)
  | _, _ => 0

/-- the destination type the top-level decoder works on -/
def destType (t : CT) : Dest → Option GT
  | .val g => some (stripPtr g)
  | .deflt => (match goType t with | .ok g => some (stripPtr g) | _ => none)
  | .ifs _ => none

/-! ## Answers (line protocol) -/

def Fn.str : Fn → String
  | .unmarshalList => "unmarshalList" | .unmarshalMap => "unmarshalMap"
  | .unmarshalTuple => "unmarshalTuple" | .unmarshalUDT => "unmarshalUDT"
  | .readBytes => "readBytes" | .readInt => "readInt" | .readCollectionSize => "readCollectionSize"
  | .unmarshalDate => "unmarshalDate" | .goType => "goType" | .decVint => "decVint"
  | .unmarshalDecimal => "unmarshalDecimal" | .unmarshalVarint => "unmarshalVarint"
  | .decInt => "decInt" | .decShort => "decShort" | .decTiny => "decTiny" | .decBigInt => "decBigInt"
  | .decBool => "decBool" | .unmarshalTimeUUID => "unmarshalTimeUUID"

def Kind.str : Kind → String
  | .index => "index" | .slice => "slice" | .reflectMakeslice => "reflect-makeslice"
  | .reflect => "reflect" | .reflectBounds => "reflect"

def Outcome.str : Outcome → String
  | .ok _ => "ok"
  | .err => "err"
  | .crash s => "crash:" ++ s.fn.str ++ ":" ++ s.kind.str

mutual
/-- does the Go type contain interface{} outside a pointer -/
def hasIface : GT → Bool
  | .sc s => decide (s = .iface)
  | .ptr _ => false
  | .slice t => hasIface t
  | .arr _ t => hasIface t
  | .map k v => hasIface k || hasIface v
  | .struct fs => hasIfaceFields fs
def hasIfaceFields : List (Nat × Bool × GT) → Bool
  | [] => false
  | (_, _, t) :: fs => hasIface t || hasIfaceFields fs
end

/-! ### descriptor parser (see harness/c05val/desc.go for the grammar) -/

inductive Node where
  | mk (label head : String) (paren : Bool) (args : List Node)

def isIdentChar (c : Char) : Bool := c.isAlphanum

partial def parseNode (cs : List Char) : Option (Node × List Char) :=
  let id := cs.takeWhile isIdentChar
  let rest := cs.dropWhile isIdentChar
  if id.isEmpty then none else
  let (label, id, rest) : String × List Char × List Char :=
    match rest with
    | ':' :: r => (String.ofList id, r.takeWhile isIdentChar, r.dropWhile isIdentChar)
    | _ => ("", id, rest)
  if id.isEmpty then none else
  match rest with
  | '(' :: ')' :: r => some (.mk label (String.ofList id) true [], r)
  | '(' :: r =>
      let rec args (cs : List Char) (acc : List Node) : Option (List Node × List Char) :=
        match parseNode cs with
        | none => none
        | some (n, ',' :: r) => args r (n :: acc)
        | some (n, ')' :: r) => some ((n :: acc).reverse, r)
        | some _ => none
      match args r [] with
      | none => none
      | some (as, r) => some (.mk label (String.ofList id) true as, r)
  | _ => some (.mk label (String.ofList id) false [], rest)

def nativeOf : String → Option Native
  | "custom" => some .custom | "ascii" => some .ascii | "bigint" => some .bigint | "blob" => some .blob
  | "boolean" => some .boolean | "counter" => some .counter | "decimal" => some .decimal
  | "double" => some .double | "float" => some .float | "int" => some .int | "text" => some .text
  | "timestamp" => some .timestamp | "uuid" => some .uuid | "varchar" => some .varchar
  | "varint" => some .varint | "timeuuid" => some .timeuuid | "inet" => some .inet | "date" => some .date
  | "time" => some .time | "smallint" => some .smallint | "tinyint" => some .tinyint
  | "duration" => some .duration
  | _ => none

def scalarOf : String → Option Sc
  | "int" => some .int | "int8" => some .int8 | "int16" => some .int16 | "int32" => some .int32
  | "int64" => some .int64 | "uint" => some .uint | "uint8" => some .uint8 | "uint16" => some .uint16
  | "uint32" => some .uint32 | "uint64" => some .uint64 | "string" => some .string | "bool" => some .bool
  | "f32" => some .f32 | "f64" => some .f64 | "dur" => some .dur | "ip" => some .ip | "uuid" => some .uuid
  | "time" => some .time | "bigint" => some .bigint | "dec" => some .dec | "cqldur" => some .cqldur
  | "iface" => some .iface
  | _ => none

partial def toCT : Node → Option CT
  | .mk label head paren args =>
    if label ≠ "" then none else
    match nativeOf head with
    | some n => if paren then none else some (.nat n)
    | none =>
      if !paren then none else
      match head, args with
      | "list", [a] => (toCT a).map .list
      | "set", [a] => (toCT a).map .list
      | "map", [k, v] => do some (.map (← toCT k) (← toCT v))
      | "tuple", as => (as.mapM toCT).map .tuple
      | "udt", as =>
          (as.mapM (fun (a : Node) => match a with
            | Node.mk l h p as' => if l = "" then none else
                (toCT (.mk "" h p as')).map (fun t => (nameCode l.toList, t)))).map .udt
      | _, _ => none

partial def toGT : Node → Option GT
  | .mk label head paren args =>
    if label ≠ "" then none else
    match scalarOf head with
    | some s => if paren then none else some (.sc s)
    | none =>
      if !paren then none else
      match head, args with
      | "ptr", [a] => (toGT a).map .ptr
      | "slice", [a] => (toGT a).map .slice
      | "arr", [.mk "" n false [], a] => do some (.arr (← n.toNat?) (← toGT a))
      | "map", [k, v] => do
          let gk ← toGT k
          -- interface{} inside a map key type is out of scope (runtime hashing is not modelled)
          if hasIface gk then none else some (.map gk (← toGT v))
      | "struct", as =>
          (as.mapM (fun (a : Node) => match a with
            | Node.mk l h p as' => if l = "" then none else
                (toGT (.mk "" h p as')).map (fun t =>
                  (nameCode l.toList, !(l.front.isUpper), t)))).map .struct
      | _, _ => none

def toDest : Node → Option Dest
  | .mk "" "def" false [] => some .deflt
  | .mk "" "ifs" true as => (as.mapM toGT).map .ifs
  | n => (toGT n).map .val

def hexVal (c : Char) : Option Nat :=
  if '0' ≤ c ∧ c ≤ '9' then some (c.toNat - '0'.toNat)
  else if 'a' ≤ c ∧ c ≤ 'f' then some (c.toNat - 'a'.toNat + 10)
  else if 'A' ≤ c ∧ c ≤ 'F' then some (c.toNat - 'A'.toNat + 10)
  else none

def parseHexChars : List Char → Option Bytes
  | [] => some []
  | [_] => none
  | a :: b :: r => do
    let x ← hexVal a
    let y ← hexVal b
    let rest ← parseHexChars r
    pure (UInt8.ofNat (x*16+y) :: rest)

/-- `nil` = NULL, `-` = empty, else hex -/
def parseData (s : String) : Option (Option Bytes) :=
  if s == "nil" then some none
  else if s == "-" then some (some [])
  else (parseHexChars s.toList).map some

def parseWord {α : Type} (f : Node → Option α) (s : String) : Option α :=
  match parseNode s.toList with
  | some (n, []) => f n
  | _ => none

/-- op line `val <proto> <type> <dest> <hex|nil|->`: the model's answer; `none` for other ops -/
def answer (ws : List String) : Option String :=
  match ws with
  | ["alloc", "val", p, t, d, h] =>
    -- allocation class of one Unmarshal: `ok` = the element count asked of reflect fits the bytes received
    -- (always, by C05Value.C05_top_alloc_bound), `over:<count>` otherwise
    (match p.toNat?, parseWord toCT t, parseWord toDest d, parseData h with
     | some proto, some ct, some dst, some data =>
       if proto > 255 then some "bad-op" else
       let c := (match destType ct dst with | some g => topAllocCount proto ct g data | none => 0)
       if c * (if proto > 2 then 4 else 2) ≤ (data.getD []).length then some "ok" else some ("over:" ++ toString c)
     | _, _, _, _ => some "bad-op")
  | "val" :: rest =>
    match rest with
    | [p, t, d, h] =>
      match p.toNat?, parseWord toCT t, parseWord toDest d, parseData h with
      | some proto, some ct, some dst, some data =>
          if proto > 255 then some "bad-op" else some (unmarshal proto ct dst data).str
      | _, _, _, _ => some "bad-op"
    | _ => some "bad-op"
  | _ => none

end CrashValue
