/-
C04 — MODEL side: a whole query as the application sees it — every response the server gives to the
QUERY and to the follow-up requests of its further pages, read through ONE Iter.

  conn.go     executeQuery (1425-1505): the switch on the parsed response (void / rows / set-keyspace /
              schema-change / UNPREPARED → execute again / any other ERROR → iter.err / anything else →
              protocol error), `iter.next` when the page says has_more_pages, the Tracer call
  session.go  Iter.Scan (1587-1600): `if iter.pos >= iter.numRows { if iter.next != nil {
              *iter = *iter.next.fetch(); return iter.Scan(dest...) } return false }`,
              iterScanner.Next (1476-1489): `is.iter = iter.next.fetch(); return is.Next()` (is.cols keeps
              the length it got from the FIRST page), Iter.Warnings / GetCustomPayload (of the CURRENT
              page's framer), nextIter.fetch (each page requested once)

The statement is one that is not prepared (a QUERY frame: `info == nil`, `params.skipMeta == false`);
skip-metadata is Model/Rows.iterMeta's subject. The server's answers are the list `future` of wire
frames, the k-th request of the query getting the k-th (which request carries which paging state is
C15's subject). Which bytes a response consists of is decided by the receive path of C18 / C04
(`recv`). Core Lean only.
-/
import Model.Rows
import Model.Compress
namespace Paged
open FrameRead Rows

/-- conn.go recv + parseFrame on the wire bytes of one frame (no compressor negotiated) -/
def recv (fv : Nat) (wire : Bytes) : Outcome (Resp × Bytes) :=
  match (Compress.newFramer none (UInt8.ofNat fv)).decode wire with
  | .ok (h, body) =>
    parseResp fv { version := h.version, flags := h.flags, stream := h.stream, op := h.op, length := h.length } body
  | .error _ => .err

/-- `iter.err` as the application can tell it apart -/
inductive IterErr
  | server (code : Int) (msg : Bytes) (d : ErrDetail)   -- the ERROR frame the server sent (a RequestError)
  | protocol      -- NewErrProtocol("Unknown type in response to execute query …")
  | parse         -- parseFrame returned an error: `&Iter{err: err}` (no framer)
  | scan          -- set by Iter.Scan / iterScanner.Next (destination count, a cell that is cut short)
deriving Repr

/-- what parseFrame left in the framer the Iter holds: `Iter.Warnings()`, `Iter.GetCustomPayload()`;
    `traceId` is what the query's Tracer is called with (when it is not empty) -/
structure PageHdr where
  traceId : Option Bytes
  warnings : Option (List Bytes)
  payload : Option (List (Bytes × Option Bytes))
deriving Repr

/-- the Iter executeQuery returns. `it.failed` ⇔ `iter.err != nil`; `hdr = none` ⇔ `iter.framer == nil`;
    `more` ⇔ `iter.next != nil` -/
structure QIter where
  it : Iter
  err : Option IterErr
  hdr : Option PageHdr
  more : Bool
deriving Repr

def hdrOf (r : Resp) : PageHdr := { traceId := r.traceId, warnings := r.warnings, payload := r.payload }

def failedIter (buf : Bytes) : Iter := { failed := true, pos := 0, md := ResultMeta.zero, numRows := 0, buf := buf }

/-- `&Iter{framer: framer}` -/
def emptyQ (r : Resp) (rest : Bytes) : QIter :=
  { it := iterOf ResultMeta.zero 0 rest, err := none, hdr := some (hdrOf r), more := false }

/-- the answer of the harness's node when the script is used up: RESULT/Void without flags -/
def exhaustedQ : QIter :=
  { it := iterOf ResultMeta.zero 0 [], err := none, hdr := some { traceId := none, warnings := none, payload := none }, more := false }

/-- one response to one request of the query -/
inductive Step
  | iter (q : QIter)     -- executeQuery returns this Iter
  | again                -- RequestErrUnprepared: `return c.executeQuery(ctx, qry)` — the request is sent once more
  | crash
deriving Repr

/-- conn.go executeQuery from `framer.parseFrame()` on, for a statement that is not prepared.
    `autoPage` = `!qry.disableAutoPage`. -/
def dispatch (autoPage : Bool) (r : Resp) (rest : Bytes) : Step :=
  match r.frame with
  | .resultVoid => .iter (emptyQ r rest)
  | .resultRows md n =>
    .iter { it := iterOf md n rest, err := none, hdr := some (hdrOf r),
            more := hasFlag md.flags flagHasMorePages && autoPage }
  | .resultKeyspace _ => .iter (emptyQ r rest)
  | .schemaKeyspace .. => .iter (emptyQ r rest)
  | .schemaTable .. => .iter (emptyQ r rest)
  | .schemaType .. => .iter (emptyQ r rest)
  | .schemaFunction .. => .iter (emptyQ r rest)
  | .schemaAggregate .. => .iter (emptyQ r rest)
  | .error _ _ (.unprepared _) => .again
  | .error code msg d => .iter { it := failedIter rest, err := some (.server code msg d), hdr := some (hdrOf r), more := false }
  | _ => .iter { it := failedIter rest, err := some .protocol, hdr := some (hdrOf r), more := false }

def step1 (fv : Nat) (autoPage : Bool) (wire : Bytes) : Step :=
  match recv fv wire with
  | .ok (r, rest) => dispatch autoPage r rest
  | .err => .iter { it := failedIter [], err := some .parse, hdr := none, more := false }
  | .crash => .crash

/-- Session.Query(stmt).Iter(): the first request and what the server answers; `none` = a panic.
    Returns the Iter and the answers not yet used. -/
def execute (fv : Nat) (autoPage : Bool) : List Bytes → Option (QIter × List Bytes)
  | [] => some (exhaustedQ, [])
  | w :: ws =>
    match step1 fv autoPage w with
    | .iter q => some (q, ws)
    | .again => execute fv autoPage ws
    | .crash => none

/-- `iter.pos >= iter.numRows && iter.next != nil` on an iterator without error (Iter.WillSwitchPage) -/
def needFetch (q : QIter) : Bool := !q.it.failed && decide (q.it.pos ≥ q.it.numRows) && q.more

/-- Iter.WillSwitchPage(): `iter.pos >= iter.numRows && iter.next != nil` -/
def willSwitchPage (q : QIter) : Bool := decide (q.it.pos ≥ q.it.numRows) && q.more

inductive PScanOut
  | row (q : QIter) (future : List Bytes) (calls : List Call)    -- Scan returned true
  | stop (q : QIter) (future : List Bytes) (calls : List Call)   -- Scan returned false
  | crash
deriving Repr

/-- Iter.Scan on the current page -/
def scanHere (q : QIter) (future : List Bytes) (dests : List Bool) : PScanOut :=
  match scan q.it dests with
  | .row it' calls => .row { q with it := it' } future calls
  | .stop it' calls =>
    .stop { q with it := it', err := if it'.failed && q.err.isNone then some .scan else q.err } future calls
  | .crash => .crash

/-- Iter.Scan (session.go:1587-1631) with `iter.next`: at the end of a page that has a successor the
    iterator BECOMES the successor's (`*iter = *iter.next.fetch()`) and Scan starts over. -/
def pscan (fv : Nat) (autoPage : Bool) (dests : List Bool) : List Bytes → QIter → PScanOut
  | [], q => if needFetch q then .stop exhaustedQ [] [] else scanHere q [] dests
  | w :: ws, q =>
    if needFetch q then
      match step1 fv autoPage w with
      | .iter q' => pscan fv autoPage dests ws q'
      | .again => pscan fv autoPage dests ws q
      | .crash => .crash
    else scanHere q (w :: ws) dests

/-- `for iter.Scan(dests...) { }`: the calls of every successful Scan up to the first `false` (which must
    deliver nothing), the iterator and the unused answers then; `none`: out of fuel, a panic, or a `false`
    after some destinations were written -/
def pdrain (fv : Nat) (dests : List Bool) : Nat → List Bytes → QIter → Option (List (List Call) × QIter × List Bytes)
  | 0, _, _ => none
  | n + 1, fut, q =>
    match pscan fv true dests fut q with
    | .row q' fut' calls =>
      (match pdrain fv dests n fut' q' with
       | some (cs, q'', f) => some (calls :: cs, q'', f)
       | none => none)
    | .stop q' fut' [] => some ([], q', fut')
    | _ => none

/-! ## the Scanner over pages -/

structure PScanner where
  q : QIter
  cols : List (Option Bytes)    -- `is.cols`: made once, by Iter.Scanner(), from the FIRST page's column count
  valid : Bool
deriving Repr

def QIter.scanner (q : QIter) : PScanner := { q := q, cols := q.it.md.columns.map (fun _ => none), valid := false }

inductive PNextOut
  | ok (s : PScanner) (future : List Bytes) (more : Bool)    -- Next returned `more`
  | crash
deriving Repr

def nextHere (s : PScanner) (future : List Bytes) : PNextOut :=
  match Scanner.next { it := s.q.it, cols := s.cols, valid := s.valid } with
  | .ok (s', b) =>
    .ok { q := { s.q with it := s'.it, err := if s'.it.failed && s.q.err.isNone then some .scan else s.q.err },
          cols := s'.cols, valid := s'.valid } future b
  | .err => .crash
  | .crash => .crash

/-- iterScanner.Next (session.go:1476-1502) with `iter.next` -/
def pnext (fv : Nat) (autoPage : Bool) : List Bytes → PScanner → PNextOut
  | [], s => if needFetch s.q then .ok { s with q := exhaustedQ } [] false else nextHere s []
  | w :: ws, s =>
    if needFetch s.q then
      match step1 fv autoPage w with
      | .iter q' => pnext fv autoPage ws { s with q := q' }
      | .again => pnext fv autoPage ws s
      | .crash => .crash
    else nextHere s (w :: ws)

/-- iterScanner.Scan on the current row -/
def pscannerScan (s : PScanner) (dests : List Bool) : ScannerScanOut :=
  Scanner.scan { it := s.q.it, cols := s.cols, valid := s.valid } dests

/-- `sc := iter.Scanner(); for sc.Next() { sc.Scan(dests...) }`: the calls of every row up to the first `Next() == false`,
    the scanner and the unused answers then; `none`: out of fuel, a panic, or a Scan that returned an error -/
def pdrainS (fv : Nat) (dests : List Bool) : Nat → List Bytes → PScanner → Option (List (List Call) × PScanner × List Bytes)
  | 0, _, _ => none
  | n + 1, fut, s =>
    match pnext fv true fut s with
    | .ok s' fut' false => some ([], s', fut')
    | .ok s' fut' true =>
      (match pscannerScan s' dests with
       | .ok s'' calls =>
         (match pdrainS fv dests n fut' { s' with cols := s''.cols, valid := s''.valid } with
          | some (cs, s3, f) => some (calls :: cs, s3, f)
          | none => none)
       | _ => none)
    | .crash => none

/-! ## the one-row conveniences: Query.Scan, Query.ScanCAS, Query.MapScanCAS (session.go:1337-1394) -/

/-- the error these calls return: nil, ErrNotFound, or `iter.err` -/
inductive QErr
  | nil
  | notFound
  | iter (e : IterErr)
deriving Repr

/-- iter.Close() -/
def closeErr (q : QIter) : QErr := match q.err with | none => .nil | some e => .iter e

/-- Iter.checkErrAndNotFound's loop (session.go:1683-1685, since the repair of KF-C15-4): while the page is empty,
    without error, and announces more, the iterator BECOMES the next page's. `none` = a panic. The conveniences below
    then look at `iter.err` / `iter.numRows == 0` of the page reached. -/
def skipEmpty (fv : Nat) (autoPage : Bool) : List Bytes → QIter → Option (QIter × List Bytes)
  | [], q => if !q.it.failed && q.it.numRows == 0 && q.more then some (exhaustedQ, []) else some (q, [])
  | w :: ws, q =>
    if !q.it.failed && q.it.numRows == 0 && q.more then
      match step1 fv autoPage w with
      | .iter q' => skipEmpty fv autoPage ws q'
      | .again => skipEmpty fv autoPage ws q
      | .crash => none
    else some (q, w :: ws)

/-- Query.Scan(dest...): `checkErrAndNotFound` (its loop is `skipEmpty`, applied by the caller), ONE Iter.Scan whose result is ignored, `iter.Close()`.
    `none` = a panic. (numRows > 0 and pos = 0: no page is fetched.) -/
def queryScan (q : QIter) (dests : List Bool) : Option (List Call × QErr) :=
  if q.it.failed then some ([], closeErr q)
  else if q.it.numRows == 0 then some ([], .notFound)
  else match scanHere q [] dests with
    | .row q' _ calls => some (calls, closeErr q')
    | .stop q' _ calls => some (calls, closeErr q')
    | .crash => none

/-- Query.MapScan(m) with an empty map, columns of blob / ascii / text / varchar type: `checkErrAndNotFound` (skipEmpty,
    by the caller), ONE Iter.MapScan whose result is ignored, `iter.Close()` -/
def queryMapScan (q : QIter) : Option (List (Bytes × Bytes) × QErr) :=
  if q.it.failed then some ([], closeErr q)
  else if q.it.numRows == 0 then some ([], .notFound)
  else match mapScan q.it with
    | .crash => none
    | .stop it' => some ([], if it'.failed then .iter .scan else closeErr q)
    | .row _ m => some (m.map (fun kv => (kv.1, kv.2.getD [])), closeErr q)

/-- marshal.go decBool -/
def decBool : Option Bytes → Bool
  | some (b :: _) => b != 0
  | _ => false

def isBoolean (t : TypeInfo) : Bool := match t with | .native n => n.typ == 0x04 | _ => false

/-- Query.ScanCAS(dest...): with more than one column `&applied` is put in front of the caller's destinations,
    with one column only `&applied` is scanned. Destination 0 is a typed `*bool`: Unmarshal fails there unless the
    (first element of the) first column is boolean, and the Scan stops. The caller's destination j is position j + 1. -/
def scanCAS (q : QIter) (ndests : Nat) : Option (Bool × List Call × QErr) :=
  if q.it.failed then some (false, [], closeErr q)
  else if q.it.numRows == 0 then some (false, [], .notFound)
  else
    let dests := if q.it.md.columns.length > 1 then List.replicate (ndests + 1) true else [true]
    match scanHere q [] dests with
    | .crash => none
    | .row q' _ calls | .stop q' _ calls =>
      match calls with
      | [] => some (false, [], closeErr q')
      | c0 :: more =>
        if c0.dest == 0 && !isBoolean c0.typ then some (false, [], .iter .scan)
        else some (decBool c0.data, more.map (fun c => { c with dest := c.dest - 1 }), closeErr q')

/-- is the LAST plain column called `[applied]` boolean (`dest["[applied]"]` then holds a Go bool)? -/
def appliedIsBool (cols : List ColumnInfo) : Bool :=
  match (cols.filter (fun c => c.name == [0x5B, 0x61, 0x70, 0x70, 0x6C, 0x69, 0x65, 0x64, 0x5D])).getLast? with
  | some c => isBoolean c.typ
  | none => false

/-- Query.MapScanCAS(map) with an empty map, columns of boolean / blob / ascii / text / varchar type (the typed value
    is the cell's bytes), AFTER the repair of KF-C04-8: `iter.MapScan(dest)`, then `applied, ok := dest["[applied]"].(bool)`;
    when MapScan returned false (nothing stored) or the result has no boolean `[applied]` column: (false, iter.Close()'s
    error, or "no boolean [applied] column" when there is none), the map as MapScan left it. A panic (`none`) only
    where Iter.MapScan itself panics. -/
def mapScanCAS (q : QIter) : Option (Bool × List (Bytes × Bytes) × QErr) :=
  if q.it.failed then some (false, [], closeErr q)
  else if q.it.numRows == 0 then some (false, [], .notFound)
  else match mapScan q.it with
    | .crash => none
    | .stop _ => some (false, [], .iter .scan)
    | .row _ m =>
      match m.lookup [0x5B, 0x61, 0x70, 0x70, 0x6C, 0x69, 0x65, 0x64, 0x5D], appliedIsBool q.it.md.columns with
      | some v, true => some (decBool v, (m.filter (fun kv => kv.1 != [0x5B, 0x61, 0x70, 0x70, 0x6C, 0x69, 0x65, 0x64, 0x5D])).map (fun kv => (kv.1, kv.2.getD [])), closeErr q)
      | _, _ => some (false, m.map (fun kv => (kv.1, kv.2.getD [])), .iter .scan)

end Paged
