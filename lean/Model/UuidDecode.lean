import Model.Uuid
/-
  Model of the DECODING ENTRY POINTS of gocql's UUID type and of what they do to the DESTINATION they are
  called on (hand-written from /repo/uuid.go and /repo/marshal.go; core Lean only; tied to the source by
  `harness/cmd/c19`, ops `utext` / `ujson` / `jsonu` / `ucql` / `useq` / `rtdirty`):

  * `ParseUUID` as the code has it: an array `var u UUID` (all zero) into which every hex digit is OR-ed,
    `u[j/2] |= byte(nib) << uint(4-j&1*4)` (`parseLoopArr` / `orNibble`), for an ARBITRARY initial content
    of the array (that is the loop's invariant; the code only ever starts from zero);
  * `(*UUID).UnmarshalText`  (uuid.go:340-343): `*u, err = ParseUUID(string(text))` — a failed decode ZEROES `*u`;
  * `(*UUID).UnmarshalJSON`  (uuid.go:322-334): `strings.Trim(data, "\"")`, `len(str) > 36` → error,
    `ParseUUID`, `copy(u[:], parsed[:])` only on success — a failed decode leaves `*u` UNTOUCHED;
  * `unmarshalUUID` / `unmarshalTimeUUID` (marshal.go:1910-1971) into `*UUID`, `*[16]byte`, `*[]byte`, `*string`.
-/
namespace Uuid

/-! ### Go's `string(bytes)` + `for _, r := range s` -/

/-- Go's `for _, r := range string` over raw bytes: ASCII bytes are always runes of their own (an invalid or
    multi-byte sequence never swallows a byte < 0x80); every other rune is ≥ 0x80, and the parser rejects at the
    first such rune whatever it is, so one U+FFFD per byte ≥ 0x80 is an exact stand-in. -/
def runes (bs : List UInt8) : List Char :=
  bs.map (fun b => if b.toNat < 128 then Char.ofNat b.toNat else Char.ofNat 0xFFFD)

/-- `[]byte(s)` for an ASCII string -/
def asciiBytes (s : List Char) : List UInt8 := s.map (fun c => UInt8.ofNat c.toNat)

/-! ### ParseUUID, as written: OR into an array -/

def zero16 : List UInt8 := List.replicate 16 0

/-- `u[j/2] |= byte(nib) << uint(4-j&1*4)`; Go parses `4-j&1*4` as `4 - ((j&1)*4)` (`&` and `*` have the
    same precedence, higher than `-`): shift 4 for even `j`, 0 for odd `j`. -/
def orNibble (u : List UInt8) (j nib : Nat) : List UInt8 :=
  u.set (j / 2) (byteAt u (j / 2) ||| (UInt8.ofNat nib <<< UInt8.ofNat (4 - (j % 2) * 4)))

/-- the `for _, r := range input` loop of `ParseUUID` over the array `u` with digit counter `j`
    (same arms as `parseLoop`; `none` = the error returns, where the array is dropped: `return UUID{}, err`) -/
def parseLoopArr : List Char → List UInt8 → Nat → Option (List UInt8)
  | [], u, j => if j = 32 then some u else none
  | c :: cs, u, j =>
    if c = '-' ∧ j % 2 = 0 then parseLoopArr cs u j
    else match hexVal c with
      | some d => if j < 32 then parseLoopArr cs (orNibble u j d) (j + 1) else none
      | none => none

/-- `ParseUUID(input)`: `var u UUID` is zero -/
def parseUUID (s : List Char) : Option (List UInt8) := parseLoopArr s zero16 0

/-- bytewise OR of two arrays -/
def orBytes (a b : List UInt8) : List UInt8 := List.zipWith (· ||| ·) a b

/-! ### UnmarshalText / UnmarshalJSON: (error == nil, destination afterwards) -/

/-- `*u, err = ParseUUID(string(text))`: on an error `ParseUUID` returned `UUID{}`, which is assigned -/
def unmarshalText (_dst : List UInt8) (text : List UInt8) : Bool × List UInt8 :=
  match parseUUID (runes text) with
  | some u => (true, u)
  | none => (false, zero16)

def trimLeftQ : List UInt8 → List UInt8
  | [] => []
  | b :: bs => if b = 34 then trimLeftQ bs else b :: bs

def trimRightQ : List UInt8 → List UInt8
  | [] => []
  | b :: bs => match trimRightQ bs with
    | [] => if b = 34 then [] else [b]
    | r => b :: r

/-- `strings.Trim(s, "\"")`: every leading and every trailing `"` (0x22) -/
def trimQuotes (bs : List UInt8) : List UInt8 := trimRightQ (trimLeftQ bs)

/-- `UnmarshalJSON(data)`: `str := strings.Trim(string(data), "\"")`; `len(str) > 36` → error;
    `parsed, err := ParseUUID(str)`; `if err == nil { copy(u[:], parsed[:]) }` -/
def unmarshalJSON (dst : List UInt8) (data : List UInt8) : Bool × List UInt8 :=
  let str := trimQuotes data
  if str.length > 36 then (false, dst)
  else match parseUUID (runes str) with
    | some p => (true, p)
    | none => (false, dst)

/-- `json.Unmarshal` of a document that names the same UUID field more than once: encoding/json calls
    `UnmarshalJSON` on the same destination once per occurrence, in order, and stops at the first error -/
def jsonCalls (dst : List UInt8) : List (List UInt8) → Bool × List UInt8
  | [] => (true, dst)
  | l :: ls => let r := unmarshalJSON dst l; if r.1 then jsonCalls r.2 ls else r

/-! ### CQL unmarshal of a uuid / timeuuid column -/

/-- the destinations `unmarshalUUID` knows, with their content -/
inductive Dst where
  | uuid (u : List UInt8)            -- *UUID
  | arr (a : List UInt8)             -- *[16]byte
  | bytes (b : Option (List UInt8))  -- *[]byte (none = nil slice)
  | str (s : List UInt8)             -- *string (its bytes)
  deriving Repr, DecidableEq

/-- `unmarshalUUID(info, data, value)` (and `unmarshalTimeUUID`, whose default arm is the same function; the
    destinations here are neither `Unmarshaler` nor `*time.Time`).  `data` is the column value, `[]` for both a
    null and an empty value (`len(data) == 0`). -/
def unmarshalCQL (data : List UInt8) (dst : Dst) : Bool × Dst :=
  if data.length = 0 then
    match dst with
    | .str _ => (true, .str [])
    | .bytes _ => (true, .bytes none)
    | .uuid _ => (true, .uuid zero16)
    | .arr a => (false, .arr a)
  else if data.length ≠ 16 then (false, dst)
  else match dst with
    | .arr _ => (true, .arr data)
    | .uuid _ => (true, .uuid data)
    | .str _ => (true, .str (asciiBytes (print data)))
    | .bytes _ => (true, .bytes (some data))

/-- `marshalUUID(info, value)` for the four value kinds (`none` = error) -/
def marshalCQL : Dst → Option (List UInt8)
  | .uuid u => some u
  | .arr a => some a
  | .bytes (some b) => if b.length = 16 then some b else none
  | .bytes none => none      -- a nil []byte has length 0 ≠ 16
  | .str s => parseUUID (runes s)

/-- `unmarshalTimeUUID` / `unmarshalUUID` into a `*time.Time` holding `prev` (Unix seconds, nanoseconds).
    timeuuid column: `UUIDFromBytes(data)` (error unless 16 bytes — also for a null value), `Version() != 1` →
    error, else `*v = id.Time()`.  uuid column: every path ends in an error.  An error leaves `*v` untouched. -/
def unmarshalCQLTime (timeuuid : Bool) (data : List UInt8) (prev : Int × Nat) : Bool × (Int × Nat) :=
  if !timeuuid then (false, prev)
  else if data.length ≠ 16 then (false, prev)
  else match time data with
    | some t => (true, t)
    | none => (false, prev)     -- version ≠ 1

/-! ### nullable destinations `**T` of `gocql.Unmarshal` (marshal.go `unmarshalNullable`) and pointer values of `Marshal` -/

/-- what a fresh allocation `reflect.New(T)` of each destination kind holds -/
def Dst.zero : Dst → Dst
  | .uuid _ => .uuid zero16
  | .arr _ => .arr zero16
  | .bytes _ => .bytes none
  | .str _ => .str []

/-- `Unmarshal(info, data, &p)` with `p` a `*UUID` / `*[16]byte` / `*[]byte` / `*string` (`kind` names which;
    its content is irrelevant).  A null column (`data == nil`, here `none`) sets `p = nil`.  Anything else — also
    an EMPTY non-nil value — allocates a fresh zero value, stores the new pointer in `p` BEFORE decoding, then
    decodes into it: `p` points to the fresh value also when the decode fails; the value `p` pointed to before
    is never written.  Result: status and the new `p` (`none` = nil pointer, `some d` = points to `d`). -/
def unmarshalNullable (data : Option (List UInt8)) (kind : Dst) : Bool × Option Dst :=
  match data with
  | none => (true, none)
  | some d => ((unmarshalCQL d kind.zero).1, some (unmarshalCQL d kind.zero).2)

/-- `time.Time{}` as (Unix seconds, nanoseconds): 0001-01-01T00:00:00Z -/
def zeroTime : Int × Nat := (-62135596800, 0)

/-- the same for a `**time.Time` destination -/
def unmarshalNullableTime (timeuuid : Bool) (data : Option (List UInt8)) : Bool × Option (Int × Nat) :=
  match data with
  | none => (true, none)
  | some d => ((unmarshalCQLTime timeuuid d zeroTime).1, some (unmarshalCQLTime timeuuid d zeroTime).2)

/-- `Marshal(info, p)` with `p` a `*UUID`: nil pointer → null (`nil, nil`), else `Marshal` of the value pointed to.
    Outer `none` = error, inner `none` = null column. -/
def marshalPtr : Option (List UInt8) → Option (Option (List UInt8))
  | none => some none
  | some u => (marshalCQL (.uuid u)).map some

/-! ### sequences of decodes on ONE *UUID destination -/

inductive Step where
  | text (t : List UInt8)   -- u.UnmarshalText(t)
  | json (d : List UInt8)   -- u.UnmarshalJSON(d)
  | cql (d : List UInt8)    -- gocql.Unmarshal(uuid column, d, &u)
  deriving Repr

def applyStep (dst : List UInt8) : Step → Bool × List UInt8
  | .text t => unmarshalText dst t
  | .json d => unmarshalJSON dst d
  | .cql d => match unmarshalCQL d (.uuid dst) with
    | (ok, .uuid u) => (ok, u)
    | (ok, _) => (ok, dst)

/-- all intermediate (status, destination) pairs, in order -/
def runSeq (dst : List UInt8) : List Step → List (Bool × List UInt8)
  | [] => []
  | s :: ss => let r := applyStep dst s; r :: runSeq r.2 ss

/-- the destination after the whole sequence -/
def finalDst (dst : List UInt8) (ss : List Step) : List UInt8 := ss.foldl (fun d s => (applyStep d s).2) dst

end Uuid
