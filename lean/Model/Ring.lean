/-
  Model of gocql's `ring` (ring.go) — the three indexes `hosts` (by host id), `hostIPToUUID`
  (host id by node-to-node address), `hostList` (ordered) — and of the diff loop of
  `refreshRing` (host_source.go): add / update / replace on address change / remove.
  `Ring.remove` is `removeHost` as REPAIRED for KF-C16-1 (props/C16.fix-KF-C16-1.diff).

  An `RHost` stands for one `*HostInfo` object: `obj` is the identity of the object, `id` its host id,
  `addr` its node-to-node address (broadcast_address or peer; 0 = none, i.e. 0.0.0.0),
  `caddr` its connectAddress field (0 = unset, ConnectAddress() then falls back to `addr`).
  `HostInfo.update` only fills fields that are empty, so it never changes id or a set address: the
  model treats it as the identity on (id, addr, caddr).
  Core Lean only.
-/
namespace Ring

structure RHost where
  obj : Nat
  id : Nat
  addr : Nat
  caddr : Nat
deriving DecidableEq, Repr, Inhabited

/-- `invalidConnectAddr()` -/
def RHost.invalid (h : RHost) : Bool := h.caddr == 0 && h.addr == 0

/-! association lists standing for Go maps: lookup = first match, insert only on a missing key or
as overwrite (erase + cons), delete = erase every entry of the key -/
def lookup {β : Type} (m : List (Nat × β)) (k : Nat) : Option β := (m.find? (fun e => e.1 == k)).map (·.2)
def erase {β : Type} (m : List (Nat × β)) (k : Nat) : List (Nat × β) := m.filter (fun e => e.1 != k)
def put {β : Type} (m : List (Nat × β)) (k : Nat) (v : β) : List (Nat × β) := (k, v) :: erase m k

structure Ring where
  byId : List (Nat × RHost)      -- r.hosts
  byIp : List (Nat × Nat)        -- r.hostIPToUUID
  list : List RHost              -- r.hostList
deriving Repr

def Ring.empty : Ring := ⟨[], [], []⟩

/-- `getHost` -/
def Ring.getHost (r : Ring) (id : Nat) : Option RHost := lookup r.byId id

/-- `getHostByIP`: `hi, ok := hostIPToUUID[ip]; return hosts[hi], ok` -/
def Ring.getHostByIP (r : Ring) (ip : Nat) : Option RHost × Bool :=
  match lookup r.byIp ip with
  | some id => (lookup r.byId id, true)
  | none => (lookup r.byId 0, false)   -- `hi` is "" (host id 0 stands for the empty id)

/-- `allHosts` / `currentHosts` (a set: map iteration order is not observable) -/
def Ring.allHosts (r : Ring) : List RHost := r.byId.map (·.2)

def Ring.ids (r : Ring) : List Nat := r.byId.map (·.1)

/-- `addHostIfMissing` (the caller has checked `invalidConnectAddr`, which panics) -/
def Ring.addIfMissing (r : Ring) (h : RHost) : Ring × RHost × Bool :=
  match lookup r.byId h.id with
  | some e => (r, e, true)
  | none => ({ byId := put r.byId h.id h, byIp := put r.byIp h.addr h.id, list := r.list ++ [h] }, h, false)

/-- `addOrUpdate`: returns the stored object -/
def Ring.addOrUpdate (r : Ring) (h : RHost) : Ring × RHost :=
  let (r', e, _) := r.addIfMissing h
  (r', e)

/-- remove the first entry of the list with the given host id -/
def eraseFirstId : List RHost → Nat → List RHost
  | [], _ => []
  | h :: t, id => if h.id == id then t else h :: eraseFirstId t id

/-- `removeHost` (repaired, KF-C16-1): the by-address entry of the removed host's address is deleted
only when it still maps to the host id being removed
(`if ip := h.nodeToNodeAddress().String(); r.hostIPToUUID[ip] == hostID { delete(r.hostIPToUUID, ip) }`;
for the empty id and a missing entry the Go comparison is true and the delete a no-op, as here) -/
def Ring.remove (r : Ring) (id : Nat) : Ring × Bool :=
  match lookup r.byId id with
  | some h => ({ byId := erase r.byId id,
                 byIp := if lookup r.byIp h.addr = some id then erase r.byIp h.addr else r.byIp,
                 list := eraseFirstId r.list id }, true)
  | none => (r, false)

/-- `removeHost` as it was before the repair of KF-C16-1 (kept for the regression examples only):
the by-address entry is deleted unconditionally -/
def Ring.removeOld (r : Ring) (id : Nat) : Ring × Bool :=
  match lookup r.byId id with
  | some h => ({ byId := erase r.byId id, byIp := erase r.byIp h.addr, list := eraseFirstId r.list id }, true)
  | none => (r, false)

inductive RefreshResult | ok | errCannotFind | errAlreadyExists
deriving DecidableEq, Repr

/-- what the refresh asked the session to do besides the ring updates -/
structure Effects where
  filled : List RHost := []     -- startPoolFill(h): pool.addHost + policy.AddHost
  removed : List RHost := []    -- session.removeHost(h): policy.RemoveHost + pool.removeHost + ring.removeHost
deriving Repr

/-- one iteration of the `for _, h := range hosts` loop of `refreshRing`;
state: ring, prevHosts, effects. A result other than `ok` means the function returned that error
at this point (the state is what it left behind). -/
def refreshStep (filter : RHost → Bool) (st : Ring × List (Nat × RHost) × Effects) (h : RHost) :
    (Ring × List (Nat × RHost) × Effects) × RefreshResult :=
  let (r, prev, eff) := st
  if filter h then (st, .ok) else
  match r.addIfMissing h with
  | (r1, _, false) => ((r1, erase prev h.id, { eff with filled := eff.filled ++ [h] }), .ok)
  | (_, _, true) =>
    match lookup prev h.id with
    | none => (st, .errCannotFind)
    | some existing =>
      if h.caddr == existing.caddr && h.addr == existing.addr then
        ((r, erase prev h.id, eff), .ok)       -- host.update(h)
      else
        let r2 := (r.remove existing.id).1
        let eff2 : Effects := { eff with removed := eff.removed ++ [existing] }
        match r2.addIfMissing h with
        | (_, _, true) => ((r2, prev, eff2), .errAlreadyExists)
        | (r3, _, false) => ((r3, erase prev h.id, { eff2 with filled := eff2.filled ++ [h] }), .ok)

def refreshLoop (filter : RHost → Bool) :
    List RHost → Ring × List (Nat × RHost) × Effects → (Ring × List (Nat × RHost) × Effects) × RefreshResult
  | [], st => (st, .ok)
  | h :: t, st =>
    let (st', res) := refreshStep filter st h
    if res = .ok then refreshLoop filter t st' else (st', res)

/-- the final `for _, host := range prevHosts { removeHost(host) }` (order irrelevant: a set) -/
def removeAll (r : Ring) : List (Nat × RHost) → Ring
  | [] => r
  | (_, h) :: t => removeAll (r.remove h.id).1 t

/-- the diff part of `refreshRing` given the reported hosts (local host + valid peers).
On an error the function returns where it is: the remaining hosts are not processed, nothing else is removed. -/
def Ring.refresh (r : Ring) (filter : RHost → Bool) (reported : List RHost) : Ring × RefreshResult × Effects :=
  match refreshLoop filter reported (r, r.byId, {}) with
  | ((r1, prev, eff), .ok) => (removeAll r1 prev, .ok, { eff with removed := eff.removed ++ prev.map (·.2) })
  | ((r1, _, eff), e) => (r1, e, eff)

/-! ### the observations the property speaks of ("node details are looked up by id and by address consistently") -/

/-- the hosts of the ring that are NOT found by their id and by their address (the property: none) -/
def Ring.notFound (r : Ring) : List RHost :=
  r.allHosts.filter (fun h => !(decide (r.getHost h.id = some h) && decide (r.getHostByIP h.addr = (some h, true))))

/-- the weaker observation that also makes sense while hosts share an address: the hosts of the ring that
are not found by their id, or whose address does not lead to a host of the ring with that address, or not
to the host itself although no other host of the ring has its address -/
def Ring.uncovered (r : Ring) : List RHost :=
  r.allHosts.filter (fun h => !(decide (r.getHost h.id = some h) &&
    (match r.getHostByIP h.addr with
     | (some h', true) => decide (h' ∈ r.allHosts) && h'.addr == h.addr &&
                          (decide (h' = h) || r.allHosts.any (fun x => decide (x ≠ h) && x.addr == h.addr))
     | _ => false)))

/-- the addresses `a ≤ n` for which `getHostByIP a` answers "known address" with something else than a
host of the ring with address `a` — a stale by-address entry (the property: none, after every history) -/
def Ring.staleAddrs (r : Ring) (n : Nat) : List Nat :=
  (List.range (n + 1)).filter (fun a =>
    match r.getHostByIP a with
    | (some h, true) => !(decide (h ∈ r.allHosts) && h.addr == a)
    | (none, true) => true
    | _ => false)

end Ring
