/-
  Model of gocql's `ring` (ring.go) — the three indexes `hosts` (by host id), `hostIPToUUID`
  (host id by node-to-node address), `hostList` (ordered) — and of the diff part of
  `refreshRing` (host_source.go): remove what is gone (vanished, address changed), add what is missing.
  `Ring.remove` is `removeHost` as REPAIRED for KF-C16-1, `Ring.updateStored` is `addOrUpdate` as repaired
  for KF-C16-5, `Ring.refresh` is `refreshRing` as repaired for KF-C16-4 / KF-C16-6 (props/C16.fix-*.diff).

  An `RHost` stands for one `*HostInfo` object: `obj` is the identity of the object, `id` its host id,
  `addr` its node-to-node address (broadcast_address or peer; 0 = none, i.e. 0.0.0.0),
  `caddr` its connectAddress field (0 = unset, ConnectAddress() then falls back to `addr`).
  `HostInfo.update` only fills fields that are empty, so it never changes id or a set address: in
  `refreshRing` (where it is called for a row with the addresses of the stored object) the model treats it
  as the identity on (id, addr, caddr); in `addOrUpdate` it can change the node address (`updateStored`).
  Core Lean only.
-/
namespace Ring

structure RHost where
  obj : Nat
  id : Nat
  addr : Nat
  caddr : Nat
deriving DecidableEq, Repr, Inhabited

/-- `invalidConnectAddr()` -/
def RHost.invalid (h : RHost) : Bool := h.caddr == 0 && h.addr == 0

/-! association lists standing for Go maps: lookup = first match, insert only on a missing key or
as overwrite (erase + cons), delete = erase every entry of the key -/
def lookup {β : Type} (m : List (Nat × β)) (k : Nat) : Option β := (m.find? (fun e => e.1 == k)).map (·.2)
def erase {β : Type} (m : List (Nat × β)) (k : Nat) : List (Nat × β) := m.filter (fun e => e.1 != k)
def put {β : Type} (m : List (Nat × β)) (k : Nat) (v : β) : List (Nat × β) := (k, v) :: erase m k

structure Ring where
  byId : List (Nat × RHost)      -- r.hosts
  byIp : List (Nat × Nat)        -- r.hostIPToUUID
  list : List RHost              -- r.hostList
deriving Repr

def Ring.empty : Ring := ⟨[], [], []⟩

/-- `getHost` -/
def Ring.getHost (r : Ring) (id : Nat) : Option RHost := lookup r.byId id

/-- `getHostByIP`: `hi, ok := hostIPToUUID[ip]; return hosts[hi], ok` -/
def Ring.getHostByIP (r : Ring) (ip : Nat) : Option RHost × Bool :=
  match lookup r.byIp ip with
  | some id => (lookup r.byId id, true)
  | none => (lookup r.byId 0, false)   -- `hi` is "" (host id 0 stands for the empty id)

/-- `allHosts` / `currentHosts` (a set: map iteration order is not observable) -/
def Ring.allHosts (r : Ring) : List RHost := r.byId.map (·.2)

def Ring.ids (r : Ring) : List Nat := r.byId.map (·.1)

/-- `addHostIfMissing` (the caller has checked `invalidConnectAddr`, which panics) -/
def Ring.addIfMissing (r : Ring) (h : RHost) : Ring × RHost × Bool :=
  match lookup r.byId h.id with
  | some e => (r, e, true)
  | none => ({ byId := put r.byId h.id h, byIp := put r.byIp h.addr h.id, list := r.list ++ [h] }, h, false)

/-- `addOrUpdate`: returns the stored object -/
def Ring.addOrUpdate (r : Ring) (h : RHost) : Ring × RHost :=
  let (r', e, _) := r.addIfMissing h
  (r', e)

/-- remove the first entry of the list with the given host id -/
def eraseFirstId : List RHost → Nat → List RHost
  | [], _ => []
  | h :: t, id => if h.id == id then t else h :: eraseFirstId t id

/-- `removeHost` (repaired, KF-C16-1): the by-address entry of the removed host's address is deleted
only when it still maps to the host id being removed
(`if ip := h.nodeToNodeAddress().String(); r.hostIPToUUID[ip] == hostID { delete(r.hostIPToUUID, ip) }`;
for the empty id and a missing entry the Go comparison is true and the delete a no-op, as here) -/
def Ring.remove (r : Ring) (id : Nat) : Ring × Bool :=
  match lookup r.byId id with
  | some h => ({ byId := erase r.byId id,
                 byIp := if lookup r.byIp h.addr = some id then erase r.byIp h.addr else r.byIp,
                 list := eraseFirstId r.list id }, true)
  | none => (r, false)

/-- `removeHost` as it was before the repair of KF-C16-1 (kept for the regression examples only):
the by-address entry is deleted unconditionally -/
def Ring.removeOld (r : Ring) (id : Nat) : Ring × Bool :=
  match lookup r.byId id with
  | some h => ({ byId := erase r.byId id, byIp := erase r.byIp h.addr, list := eraseFirstId r.list id }, true)
  | none => (r, false)

/-- `addOrUpdate` on a host id that is stored, when `HostInfo.update(host)` leaves the stored object with
node address `a` and connectAddress field `c` (`update` fills unset fields: a peer-sourced object that
receives a broadcast_address gets a new node address). Every reference to the object sees the new
fields. REPAIRED (KF-C16-5): when the node address changed the by-address index is re-keyed
(`if r.hostIPToUUID[oldIP] == hostID { delete(r.hostIPToUUID, oldIP) }; r.hostIPToUUID[newIP] = hostID`). -/
def Ring.updateStored (r : Ring) (id a c : Nat) : Ring :=
  match lookup r.byId id with
  | none => r
  | some h =>
    let h' : RHost := { h with addr := a, caddr := c }
    { byId := r.byId.map (fun e => if e.1 == id then (e.1, h') else e),
      byIp := if a == h.addr then r.byIp
              else put (if lookup r.byIp h.addr = some id then erase r.byIp h.addr else r.byIp) a id,
      list := r.list.map (fun x => if x == h then h' else x) }

/-- the same before the repair of KF-C16-5 (kept for the regression example only): the by-address index
keeps the old key -/
def Ring.updateStoredOld (r : Ring) (id a c : Nat) : Ring :=
  match lookup r.byId id with
  | none => r
  | some h =>
    let h' : RHost := { h with addr := a, caddr := c }
    { byId := r.byId.map (fun e => if e.1 == id then (e.1, h') else e), byIp := r.byIp,
      list := r.list.map (fun x => if x == h then h' else x) }

/-! ### refreshRing (host_source.go), REPAIRED for KF-C16-4 and KF-C16-6

    reported := the accepted (not filtered) reported hosts by host id, the FIRST row of every id
    for hostID, existing := range prevHosts:            -- pass 1: what is gone is removed first
        unless reported[hostID] has the connect address and node address of existing: session.removeHost(existing)
    for _, h := range hosts:                             -- pass 2: what is missing is added
        skip h when filtered or when it is not the first row of its id
        if addHostIfMissing(h) added it: startPoolFill(h)  else  host.update(h)

Before the repair the hosts were added (and moved hosts replaced) in one loop and the vanished hosts removed
afterwards, and a host id reported twice aborted the loop with ErrCannotFindHost. -/

/-- what the refresh asked the session to do besides the ring updates -/
structure Effects where
  filled : List RHost := []     -- startPoolFill(h): pool.addHost + policy.AddHost
  removed : List RHost := []    -- session.removeHost(h): policy.RemoveHost + pool.removeHost + ring.removeHost
deriving Repr

/-- the `reported` map: the accepted reported hosts by host id (`lookup` = first match: of a host id
reported twice the first accepted row counts) -/
def reportedMap (filter : RHost → Bool) (reported : List RHost) : List (Nat × RHost) :=
  (reported.filter (fun h => !filter h)).map (fun h => (h.id, h))

/-- a host of the ring stays: its id is still reported, with the same connect address and node address -/
def stays (rep : List (Nat × RHost)) (e : Nat × RHost) : Bool :=
  match lookup rep e.1 with
  | some h => h.caddr == e.2.caddr && h.addr == e.2.addr
  | none => false

/-- `for … { session.removeHost(existing) }` over the given hosts (order irrelevant: a set) -/
def removeAll (r : Ring) : List (Nat × RHost) → Ring
  | [] => r
  | (_, h) :: t => removeAll (r.remove h.id).1 t

/-- one iteration of the second loop for an accepted host: state = ring, hosts filled so far.
When the id is already stored the row is either the first row of a host that stayed (`host.update(h)`: the
identity on id and addresses, the rows agree on them) or a later row of an id reported twice (skipped by
`reported[h.HostID()] != h`): the ring is left as it is in both cases. -/
def addStep (st : Ring × List RHost) (h : RHost) : Ring × List RHost :=
  match st.1.addIfMissing h with
  | (r1, _, false) => (r1, st.2 ++ [h])
  | (_, _, true) => st

/-- the diff part of `refreshRing` given the reported hosts (local host + valid peers); it cannot fail -/
def Ring.refresh (r : Ring) (filter : RHost → Bool) (reported : List RHost) : Ring × Effects :=
  let gone := r.byId.filter (fun e => !stays (reportedMap filter reported) e)
  let res := (reported.filter (fun h => !filter h)).foldl addStep (removeAll r gone, [])
  (res.1, { filled := res.2, removed := gone.map (·.2) })

/-! ### the observations the property speaks of ("node details are looked up by id and by address consistently") -/

/-- the hosts of the ring that are NOT found by their id and by their address (the property: none) -/
def Ring.notFound (r : Ring) : List RHost :=
  r.allHosts.filter (fun h => !(decide (r.getHost h.id = some h) && decide (r.getHostByIP h.addr = (some h, true))))

/-- the weaker observation that also makes sense while hosts share an address: the hosts of the ring that
are not found by their id, or whose address does not lead to a host of the ring with that address, or not
to the host itself although no other host of the ring has its address -/
def Ring.uncovered (r : Ring) : List RHost :=
  r.allHosts.filter (fun h => !(decide (r.getHost h.id = some h) &&
    (match r.getHostByIP h.addr with
     | (some h', true) => decide (h' ∈ r.allHosts) && h'.addr == h.addr &&
                          (decide (h' = h) || r.allHosts.any (fun x => decide (x ≠ h) && x.addr == h.addr))
     | _ => false)))

/-- the addresses `a ≤ n` for which `getHostByIP a` answers "known address" with something else than a
host of the ring with address `a` — a stale by-address entry (the property: none, after every history) -/
def Ring.staleAddrs (r : Ring) (n : Nat) : List Nat :=
  (List.range (n + 1)).filter (fun a =>
    match r.getHostByIP a with
    | (some h, true) => !(decide (h ∈ r.allHosts) && h.addr == a)
    | (none, true) => true
    | _ => false)

end Ring
