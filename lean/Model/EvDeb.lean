/-
  eventDebouncer of /repo/events.go against the receive loop (C06, round g). Conn.recv hands every EVENT frame to
  Session.handleEvent → eventDebouncer.debounce, which takes the debouncer's mutex; the flusher goroutine takes the
  same mutex when the debounce timer fires and starts the handler (ring refresh / schema refresh: queries on the
  control connection, i.e. work that needs the receive loop) ON A GOROUTINE OF ITS OWN.

    event        recv: debounce(frame): lock, reset the timer, append, unlock (needs the mutex free)
    timerFire    flusher: the timer fired: lock
    flush        flusher: `go e.callback(e.events)` for a non-empty buffer, new buffer, unlock
    handlerDone  a handler returns (environment: whenever the server answers its queries - possibly never)
-/
namespace EvDeb

inductive Fl where
  | idle
  | locked       -- holds the mutex, about to flush
  | inCallback   -- (only in the variant `stepSync`) runs the handler itself, still holding the mutex
deriving DecidableEq, Repr

structure St where
  fl : Fl
  buf : Nat          -- events buffered
  running : Nat      -- handlers running on goroutines of their own
  handed : Nat       -- (ghost) events handed to handlers so far
deriving DecidableEq, Repr

inductive Act where
  | event | timerFire | flush | handlerDone
deriving DecidableEq, Repr

def init : St := { fl := .idle, buf := 0, running := 0, handed := 0 }

def step (st : St) : Act → Option St
  | .event => if st.fl = .idle then some { st with buf := st.buf + 1 } else none
  | .timerFire => if st.fl = .idle then some { st with fl := .locked } else none
  | .flush => if st.fl = .locked then
      (if st.buf = 0 then some { st with fl := .idle }
       else some { st with fl := .idle, running := st.running + 1, handed := st.handed + st.buf, buf := 0 }) else none
  | .handlerDone => if st.running > 0 then some { st with running := st.running - 1 } else none

def run : St → List Act → Option St
  | s, [] => some s
  | s, a :: as => match step s a with
    | some s' => run s' as
    | none => none

/-- the flusher of seeded change C06-10 (NOT the code that exists; used only by the counterexample theorem): the handler
    runs on the flusher goroutine, under the mutex -/
def stepSync (st : St) : Act → Option St
  | .flush => if st.fl = .locked then
      (if st.buf = 0 then some { st with fl := .idle }
       else some { st with fl := .inCallback, handed := st.handed + st.buf, buf := 0 }) else none
  | .handlerDone => if st.fl = .inCallback then some { st with fl := .idle } else none
  | a => step st a

def runSync : St → List Act → Option St
  | s, [] => some s
  | s, a :: as => match stepSync s a with
    | some s' => runSync s' as
    | none => none

end EvDeb
