/-
  Model of /repo/internal/murmur/murmur.go (Murmur3H1, fmix, rotl, block, getBlock)
  and an independent specification of Cassandra's MurmurHash.hash3_x64_128 (first word).

  Core Lean only (compiled into the native driver `vdrv`).
-/
namespace Murmur

abbrev W := BitVec 64

def c1 : W := 0x87c37b91114253d5#64
def c2 : W := 0x4cf5ad432745937f#64
def fmix1 : W := 0xff51afd7ed558ccd#64
def fmix2 : W := 0xc4ceb9fe1a85ec53#64

/-- murmur.go `fmix` -/
def fmix (n : W) : W :=
  let n := n ^^^ (n >>> 33)
  let n := n * fmix1
  let n := n ^^^ (n >>> 33)
  let n := n * fmix2
  n ^^^ (n >>> 33)

/-- murmur.go `rotl` : `(x << r) | (uint64(x) >> (64-r))` -/
def rotl (x : W) (r : Nat) : W := (x <<< r) ||| (x >>> (64 - r))

/-- murmur.go `block` : `int64(int8(p))` (sign extension) -/
def sext (b : UInt8) : W := b.toBitVec.signExtend 64

/-- zero extension of a byte -/
def zext (b : UInt8) : W := b.toBitVec.setWidth 64

/-- little-endian load of (up to) 8 bytes: `getBlock` halves -/
def le64 (bs : List UInt8) : W :=
  bs.foldr (fun b acc => (acc <<< 8) ||| zext b) 0#64

/-- one iteration of the block loop -/
def mixBlock (h : W × W) (k1 k2 : W) : W × W :=
  let h1 := h.1
  let h2 := h.2
  let k1 := k1 * c1
  let k1 := rotl k1 31
  let k1 := k1 * c2
  let h1 := h1 ^^^ k1
  let h1 := rotl h1 27
  let h1 := h1 + h2
  let h1 := h1 * 5#64 + 0x52dce729#64
  let k2 := k2 * c2
  let k2 := rotl k2 33
  let k2 := k2 * c1
  let h2 := h2 ^^^ k2
  let h2 := rotl h2 31
  let h2 := h2 + h1
  let h2 := h2 * 5#64 + 0x38495ab5#64
  (h1, h2)

/-- the block loop of `Murmur3H1` as the Go code does it: `for i < nBlocks` reading
    `data[i*16 .. i*16+16)` by index (`getBlock`); generic in the mixing step so that the
    loop-restructuring lemma is proved without unfolding the arithmetic. -/
def bodyLoopG (mix : W × W → W → W → W × W) (data : List UInt8) (nBlocks : Nat) : Nat → W × W → W × W
  | 0, h => h
  | fuel+1, h =>
    let i := nBlocks - (fuel+1)
    let blk := (data.drop (i*16)).take 16
    bodyLoopG mix data nBlocks fuel (mix h (le64 (blk.take 8)) (le64 ((blk.drop 8).take 8)))

def bodyLoop (data : List UInt8) (nBlocks fuel : Nat) (h : W × W) : W × W :=
  bodyLoopG mixBlock data nBlocks fuel h

def tb (t : List UInt8) (i : Nat) : W := sext (t.getD i 0)

/-- the `switch length & 15` with its fallthrough chain: arm `k` runs iff `n ≥ k`. -/
def tailK2 (t : List UInt8) (n : Nat) : W :=
  let k2 : W := 0#64
  let k2 := k2 ^^^ (if n ≥ 15 then tb t 14 <<< 48 else 0#64)
  let k2 := k2 ^^^ (if n ≥ 14 then tb t 13 <<< 40 else 0#64)
  let k2 := k2 ^^^ (if n ≥ 13 then tb t 12 <<< 32 else 0#64)
  let k2 := k2 ^^^ (if n ≥ 12 then tb t 11 <<< 24 else 0#64)
  let k2 := k2 ^^^ (if n ≥ 11 then tb t 10 <<< 16 else 0#64)
  let k2 := k2 ^^^ (if n ≥ 10 then tb t 9 <<< 8 else 0#64)
  let k2 := k2 ^^^ (if n ≥ 9 then tb t 8 else 0#64)
  k2

def tailK1 (t : List UInt8) (n : Nat) : W :=
  let k1 : W := 0#64
  let k1 := k1 ^^^ (if n ≥ 8 then tb t 7 <<< 56 else 0#64)
  let k1 := k1 ^^^ (if n ≥ 7 then tb t 6 <<< 48 else 0#64)
  let k1 := k1 ^^^ (if n ≥ 6 then tb t 5 <<< 40 else 0#64)
  let k1 := k1 ^^^ (if n ≥ 5 then tb t 4 <<< 32 else 0#64)
  let k1 := k1 ^^^ (if n ≥ 4 then tb t 3 <<< 24 else 0#64)
  let k1 := k1 ^^^ (if n ≥ 3 then tb t 2 <<< 16 else 0#64)
  let k1 := k1 ^^^ (if n ≥ 2 then tb t 1 <<< 8 else 0#64)
  let k1 := k1 ^^^ (if n ≥ 1 then tb t 0 else 0#64)
  k1

def mixTail (h : W × W) (k1 k2 : W) (n : Nat) : W × W :=
  let h2 := if n ≥ 9 then h.2 ^^^ (rotl (k2 * c2) 33 * c1) else h.2
  let h1 := if n ≥ 1 then h.1 ^^^ (rotl (k1 * c1) 31 * c2) else h.1
  (h1, h2)

def finish (h : W × W) (length : Nat) : W :=
  let h1 := h.1 ^^^ BitVec.ofNat 64 length
  let h2 := h.2 ^^^ BitVec.ofNat 64 length
  let h1 := h1 + h2
  let h2 := h2 + h1
  let h1 := fmix h1
  let h2 := fmix h2
  h1 + h2

/-- Model of `murmur.Murmur3H1`. -/
def murmur3H1 (data : List UInt8) : W :=
  let length := data.length
  let nBlocks := length / 16
  let h := bodyLoop data nBlocks nBlocks (0#64, 0#64)
  let tail := data.drop (nBlocks * 16)
  let n := length % 16          -- `length & 15`
  let h := mixTail h (tailK1 tail n) (tailK2 tail n) n
  finish h length

/-! ### Specification: Cassandra `MurmurHash.hash3_x64_128(key, 0, len, 0)[0]`
    written as structural recursion over 16-byte chunks, tail as an xor-fold of
    *sign-extended* bytes (`key.get` returns a signed Java byte). -/
namespace Spec

/-- xor of sign-extended bytes, byte `i` shifted by `8*(i+off)` -/
def xorBytes : List UInt8 → Nat → W
  | [], _ => 0#64
  | b :: bs, i => (sext b <<< (8*i)) ^^^ xorBytes bs (i+1)

def tail (h : W × W) (t : List UInt8) : W × W :=
  let k1 := xorBytes (t.take 8) 0
  let k2 := xorBytes (t.drop 8) 0
  let h2 := if t.length > 8 then h.2 ^^^ (rotl (k2 * c2) 33 * c1) else h.2
  let h1 := if t.length > 0 then h.1 ^^^ (rotl (k1 * c1) 31 * c2) else h.1
  (h1, h2)

/-- consume 16-byte blocks while at least 16 bytes remain, then the tail -/
def blocksG (mix : W × W → W → W → W × W) (tl : W × W → List UInt8 → W × W) (h : W × W) (d : List UInt8) : W × W :=
  if _h16 : d.length ≥ 16 then
    blocksG mix tl (mix h (le64 (d.take 8)) (le64 ((d.drop 8).take 8))) (d.drop 16)
  else tl h d
termination_by d.length
decreasing_by simp; omega

def blocks (h : W × W) (d : List UInt8) : W × W := blocksG mixBlock tail h d

def cassandraH1 (data : List UInt8) : W :=
  finish (blocks (0#64, 0#64) data) data.length

/-- Cassandra's Murmur3Partitioner.getToken: `normalize` maps Long.MIN_VALUE to Long.MAX_VALUE. -/
def cassandraToken (data : List UInt8) : W :=
  let h := cassandraH1 data
  if h = BitVec.intMin 64 then BitVec.intMax 64 else h

end Spec
end Murmur
