import Model.Ring
/-
  Model of what a gocql `Session` knows about the cluster beyond the ring: the connection pools
  (`policyConnPool.hostConnPools`, by host id), the host lists of the selection policy
  (`cowHostList`, keyed by CONNECT ADDRESS: `add` refuses a host whose `ConnectAddress()` equals
  that of an entry, `remove(ip)` drops the entries with that connect address), the up/down state of
  every `*HostInfo` object, and the number of `debounceRingRefresh()` requests — and of the code that
  updates them:

    events.go        handleNodeEvent (coalescing of STATUS_CHANGE frames per address: the map entry is
                     created on the first frame of an address and `event.change = f.change` on every
                     frame; one refresh request for any number of TOPOLOGY_CHANGE frames),
                     handleNodeUp, handleNodeDown, handleNodeConnected, startPoolFill
    session.go       removeHost (policy.RemoveHost, pool.removeHost, ring.removeHost)
    host_source.go   refreshRing (REPAIRED, KF-C16-4 / KF-C16-6: what is gone is removed first, then what is
                     missing is added, with the session-level effects IN PROGRAM ORDER),
                     GetHosts / hostInfoFromMap / isValidPeer (which rows of system.local / system.peers
                     become reported hosts; REPAIRED, KF-C16-3: a NULL host_id leaves the host id empty),
                     refreshDebouncer (timed protocol)
    ring.go          addOrUpdate with HostInfo.update changing a node address (REPAIRED, KF-C16-5)
    conn.go          recv: EVENT frames are handed to the debouncer in wire order (REPAIRED, KF-C16-2)
    events.go        eventDebouncer (buffer of at most 1000 frames per window)
    policies.go      roundRobinHostPolicy, dcAwareRR (two lists by IsLocal), tokenAwareHostPolicy
                     (own list + fallback; HostUp/HostDown go to the fallback only)

  An `RHost` is one `*HostInfo` object (`obj` = identity). Objects are immutable here except for the
  state flag (kept in `View.down`) and `View.updateStored` (HostInfo.update filling address fields).
  Core Lean only.
-/
namespace ClusterView
open Ring

/-- `HostInfo.ConnectAddress()`: the connectAddress field, else the node address -/
def cAddr (h : RHost) : Nat := if h.caddr == 0 then h.addr else h.caddr

/-- static configuration of the session -/
structure Env where
  filter : RHost → Bool          -- cfg.filterHost(h): true = rejected
  isLocal : RHost → Bool         -- fallback policy's IsLocal (round-robin: always true)
  tokenAware : Bool              -- the policy is TokenAwareHostPolicy(fallback)
  noTopo : Bool                  -- cfg.Events.DisableTopologyEvents
  noStatus : Bool                -- cfg.Events.DisableNodeStatusEvents

/-! ### cowHostList -/

/-- `cowHostList.add`: refused when an entry `Equal`s the host (same connect address) -/
def cowAdd (l : List RHost) (h : RHost) : List RHost :=
  if l.any (fun e => cAddr e == cAddr h) then l else l ++ [h]

/-- `cowHostList.remove(ip)`: the entries with that connect address are dropped (the list never holds
two entries with one connect address — `cowAdd` — so at most one entry goes and the code's
`newL[:size-1]` is exactly the filtered list) -/
def cowRemove (l : List RHost) (ip : Nat) : List RHost := l.filter (fun e => cAddr e != ip)

structure Policy where
  ta : List RHost := []      -- tokenAwareHostPolicy.hosts
  loc : List RHost := []     -- roundRobinHostPolicy.hosts / dcAwareRR.localHosts
  rem : List RHost := []     -- dcAwareRR.remoteHosts
deriving Repr

/-- fallback.AddHost (= HostUp for round-robin and dc-aware) -/
def Policy.fbAdd (env : Env) (p : Policy) (h : RHost) : Policy :=
  if env.isLocal h then { p with loc := cowAdd p.loc h } else { p with rem := cowAdd p.rem h }

/-- fallback.RemoveHost (= HostDown) -/
def Policy.fbRemove (env : Env) (p : Policy) (h : RHost) : Policy :=
  if env.isLocal h then { p with loc := cowRemove p.loc (cAddr h) } else { p with rem := cowRemove p.rem (cAddr h) }

/-- policy.AddHost -/
def Policy.add (env : Env) (p : Policy) (h : RHost) : Policy :=
  let p1 := if env.tokenAware then { p with ta := cowAdd p.ta h } else p
  p1.fbAdd env h

/-- policy.RemoveHost -/
def Policy.remove (env : Env) (p : Policy) (h : RHost) : Policy :=
  let p1 := if env.tokenAware then { p with ta := cowRemove p.ta (cAddr h) } else p
  p1.fbRemove env h

/-- policy.HostUp / policy.HostDown -/
def Policy.up (env : Env) (p : Policy) (h : RHost) : Policy := p.fbAdd env h
def Policy.dn (env : Env) (p : Policy) (h : RHost) : Policy := p.fbRemove env h

/-- hosts the policy iterates over when picking (token-aware: its replicas come from `ta`, the rest from the fallback) -/
def Policy.all (p : Policy) : List RHost := p.ta ++ p.loc ++ p.rem

/-! ### the view -/

structure View where
  ring : Ring.Ring := Ring.empty
  pools : List (Nat × RHost) := []   -- hostConnPools: host id ↦ pool.host
  pol : Policy := {}
  down : List Nat := []              -- objects whose state is NodeDown (a new object is NodeUp)
  refreshReq : Nat := 0              -- debounceRingRefresh() calls so far
  crashed : Bool := false            -- a nil *HostInfo was dereferenced (panic)
deriving Repr

def View.empty : View := {}

def hasKey {β : Type} (m : List (Nat × β)) (k : Nat) : Bool := m.any (fun e => e.1 == k)

/-- `policyConnPool.addHost` (the fill never connects by itself here: see `connected`) -/
def poolAdd (pools : List (Nat × RHost)) (h : RHost) : List (Nat × RHost) :=
  if hasKey pools h.id then pools else pools ++ [(h.id, h)]

/-- `Session.startPoolFill` -/
def View.startPoolFill (env : Env) (v : View) (h : RHost) : View :=
  { v with pools := poolAdd v.pools h, pol := v.pol.add env h }

/-- `Session.removeHost` -/
def View.removeHost (env : Env) (v : View) (h : RHost) : View :=
  { v with pol := v.pol.remove env h, pools := erase v.pools h.id, ring := (v.ring.remove h.id).1 }

/-- what `Session.init` does with an initial host: `ring.addOrUpdate`, then (unless filtered) `pool.addHost`, `policy.AddHost` -/
def View.addInitial (env : Env) (v : View) (h : RHost) : View :=
  let (r, e) := v.ring.addOrUpdate h
  let v1 := { v with ring := r }
  if env.filter e then v1 else v1.startPoolFill env e

/-- `Session.handleNodeUp` -/
def View.nodeUp (env : Env) (v : View) (ip : Nat) : View :=
  match v.ring.getHostByIP ip with
  | (_, false) => { v with refreshReq := v.refreshReq + 1 }
  | (none, true) => { v with crashed := true }
  | (some h, true) => if env.filter h then v else v.startPoolFill env h

/-- `Session.handleNodeDown` -/
def View.nodeDown (env : Env) (v : View) (ip : Nat) : View :=
  match v.ring.getHostByIP ip with
  | (_, false) => v
  | (none, true) => { v with crashed := true }
  | (some h, true) =>
    let v1 := { v with down := h.obj :: v.down.filter (· != h.obj) }
    if env.filter h then v1 else { v1 with pol := v1.pol.dn env h, pools := erase v1.pools h.id }

/-- `Session.handleNodeConnected(pool.host)`, called by the pool of host `id` after a successful connect -/
def View.connected (env : Env) (v : View) (id : Nat) : View :=
  match lookup v.pools id with
  | none => v
  | some h =>
    let v1 := { v with down := v.down.filter (· != h.obj) }
    if env.filter h then v1 else { v1 with pol := v1.pol.up env h }

/-- `hostConnPool.fillingStopped(err)` with no connection and a convicting policy:
`handleNodeDown(host.ConnectAddress(), port)` — the CONNECT address is looked up in the node-address index -/
def View.connectFailed (env : Env) (v : View) (id : Nat) : View :=
  match lookup v.pools id with
  | none => v
  | some h => v.nodeDown env (cAddr h)

/-! ### node events -/

inductive Change | up | down | other
deriving DecidableEq, Repr

inductive Ev
  | topology
  | status (c : Change) (addr : Nat)
deriving DecidableEq, Repr

/-- the `sEvents` map of `handleNodeEvent` after the frames seen so far (an association list with the
keys in order of first appearance): a missing key is inserted, then `event.change = f.change` -/
def coalesceStep (m : List (Nat × Change)) : Ev → List (Nat × Change)
  | .topology => m
  | .status c a => if hasKey m a then m.map (fun e => if e.1 == a then (a, c) else e) else m ++ [(a, c)]

def coalesce (b : List Ev) : List (Nat × Change) := b.foldl coalesceStep []

def hasTopology (b : List Ev) : Bool := b.any (fun e => e == .topology)

/-- dispatch of one coalesced status event -/
def View.status (env : Env) (v : View) (e : Nat × Change) : View :=
  if v.crashed then v else      -- a panic ends the handler
  match e.2 with
  | .up => v.nodeUp env e.1
  | .down => v.nodeDown env e.1
  | .other => v

/-- `handleNodeEvent` with the coalesced status events dispatched in the given order (Go iterates the
map in an unspecified order: `handleBatch` fixes first-appearance order, `C16_status_order_irrelevant` shows
that the order does not matter) -/
def View.dispatch (env : Env) (v : View) (topo : Bool) (evs : List (Nat × Change)) : View :=
  let v1 := if topo && !env.noTopo then { v with refreshReq := v.refreshReq + 1 } else v
  if env.noStatus then v1 else evs.foldl (View.status env) v1

def View.handleBatch (env : Env) (v : View) (b : List Ev) : View :=
  v.dispatch env (hasTopology b) (coalesce b)

/-! ### refreshRing (repaired: KF-C16-4, KF-C16-6)

Pass 1 removes (`Session.removeHost`: policy, pool, ring) every host of the ring that is not reported any
more or is reported with another connect / node address; pass 2 adds every accepted reported host whose
id is missing (`addHostIfMissing` + `startPoolFill`). Of a host id reported twice the first accepted row
counts (`reportedMap`, `stays`, `removeAll`: Model/Ring.lean). -/

def removeAllV (env : Env) (v : View) : List (Nat × RHost) → View
  | [] => v
  | (_, h) :: t => removeAllV env (v.removeHost env h) t

/-- one iteration of the second loop for an accepted host (see `Ring.addStep`) -/
def addStepV (env : Env) (v : View) (h : RHost) : View :=
  match v.ring.addIfMissing h with
  | (r1, _, false) => ({ v with ring := r1 }).startPoolFill env h
  | (_, _, true) => v

/-- `refreshRing` given the hosts `GetHosts` returned; it cannot fail -/
def View.refresh (env : Env) (v : View) (reported : List RHost) : View :=
  let gone := v.ring.byId.filter (fun e => !stays (reportedMap env.filter reported) e)
  (reported.filter (fun h => !env.filter h)).foldl (addStepV env) (removeAllV env v gone)

/-! ### GetHosts: rows of system.local / system.peers → reported hosts

Addresses in a row: 0 = NULL cell, 1 = the unspecified address 0.0.0.0, ≥ 2 a usable address
(`validIpAddr`). Text / uuid / set cells: 0 = NULL or empty. -/

structure Row where
  id : Nat        -- host_id (0 = NULL)
  peer : Nat      -- peer (system.peers only)
  rpc : Nat       -- rpc_address
  bcast : Nat     -- broadcast_address (system.local only)
  dc : Nat        -- data_center (0 = NULL)
  rack : Nat      -- rack (0 = NULL)
  tokens : Nat    -- number of tokens (0 = NULL or empty set)
deriving DecidableEq, Repr

def validIp (a : Nat) : Bool := a ≥ 2

/-- `nodeToNodeAddress()`; the ring's key 0 stands for "0.0.0.0" -/
def Row.nodeAddr (r : Row) : Nat := if validIp r.bcast then r.bcast else if validIp r.peer then r.peer else 0

/-- `connectAddressLocked()` for a host built with connectAddress `ca` (0 = nil): first usable of
connect_address, rpc_address, (preferred_ip: never set here), broadcast_address, peer -/
def Row.connectAddr (r : Row) (ca : Nat) : Option Nat :=
  if validIp ca then some ca else if validIp r.rpc then some r.rpc else
  if validIp r.bcast then some r.bcast else if validIp r.peer then some r.peer else none

/-- `hostInfoFromMap`: `none` = the error it returns for a row without any usable address (repair of KF-C05-25;
`ConnectAddress()` panicked there before) -/
def Row.host (r : Row) (obj ca : Nat) : Option RHost :=
  match r.connectAddr ca with
  | none => none
  | some c => some ⟨obj, r.id, r.nodeAddr, c⟩

/-- `isValidPeer` as the code evaluates it on a row: a NULL inet cell gives a nil address (0.0.0.0 is a
non-empty address); a NULL `host_id` cell is scanned into the zero UUID, for which `hostInfoFromMap`
(REPAIRED, KF-C16-3) leaves `hostId` empty, so that `host.hostId == ""` fires. -/
def Row.validPeer (r : Row) : Bool :=
  !(r.rpc == 0 || r.id == 0 || r.dc == 0 || r.rack == 0 || r.tokens == 0)

/-- `isValidPeer` before the repair of KF-C16-3 (kept for the regression example only): the zero UUID's string
"00000000-0000-0000-0000-000000000000" is not "", the `hostId == ""` test never fired on a row that has the column -/
def Row.validPeerOld (r : Row) : Bool := r.rpc != 0 && r.dc != 0 && r.rack != 0 && r.tokens != 0

/-- what the property calls a valid peer row: all of rpc_address, host_id, data_center, rack, tokens present -/
def Row.validPeerSpec (r : Row) : Bool := r.rpc != 0 && r.id != 0 && r.dc != 0 && r.rack != 0 && r.tokens != 0

/-- `GetHosts`: local host, then the valid peers in row order; objects numbered `obj0, obj0+1, …` in row order.
`none` = an error from `hostInfoFromMap` (GetHosts returns it, the refresh fails). -/
def peersHosts : List Row → Nat → Option (List RHost)
  | [], _ => some []
  | r :: t, obj =>
    match r.host obj 0, peersHosts t (obj + 1) with
    | some h, some l => some (if r.validPeer then h :: l else l)
    | _, _ => none

def getHosts (localRow : Row) (peers : List Row) (obj0 : Nat) : Option (List RHost) :=
  match localRow.host obj0 0, peersHosts peers (obj0 + 1) with
  | some h, some l => some (h :: l)
  | _, _ => none

/-- the property's reported set: local host + the peers rows that are valid in the property's sense (same object numbering) -/
def peersHostsSpec : List Row → Nat → List RHost
  | [], _ => []
  | r :: t, obj =>
    match r.host obj 0 with
    | some h => if r.validPeerSpec then h :: peersHostsSpec t (obj + 1) else peersHostsSpec t (obj + 1)
    | none => peersHostsSpec t (obj + 1)

def getHostsSpec (localRow : Row) (peers : List Row) (obj0 : Nat) : List RHost :=
  match localRow.host obj0 0 with
  | some h => h :: peersHostsSpec peers (obj0 + 1)
  | none => peersHostsSpec peers (obj0 + 1)

/-! ### HostInfo.update: address fields of a stored object are filled in place

`update` copies `peer`, `broadcast_address`, `connectAddress` (among others) from the reported object
when the stored one has them unset; a peer-sourced stored host that receives a broadcast_address gets a
new node address (`nodeToNodeAddress()` prefers broadcast_address) while the ring's by-address index
keeps the old key. -/

/-- the address fields of a `HostInfo` (0 = nil) -/
structure Addrs where
  peer : Nat
  bcast : Nat
  conn : Nat
deriving DecidableEq, Repr

def Addrs.update (h src : Addrs) : Addrs :=
  ⟨if h.peer == 0 then src.peer else h.peer, if h.bcast == 0 then src.bcast else h.bcast, if h.conn == 0 then src.conn else h.conn⟩

def Addrs.nodeAddr (a : Addrs) : Nat := if a.bcast != 0 then a.bcast else a.peer

/-- `ring.addOrUpdate(host)` finding host id `id` stored, `HostInfo.update` leaving the stored object with
node address `a` and connectAddress field `c`: every reference to the object (ring, pools, policy lists)
sees the new fields, and the by-address index is re-keyed (`Ring.updateStored`: repaired, KF-C16-5).
The references are found by value: in a view that satisfies the invariant of all histories every pool and
policy entry of the host id IS the ring's object. -/
def View.updateStored (v : View) (id a c : Nat) : View :=
  match lookup v.ring.byId id with
  | none => v
  | some h =>
    let h' : RHost := { h with addr := a, caddr := c }
    let f : RHost → RHost := fun x => if x == h then h' else x
    { v with
      ring := v.ring.updateStored id a c
      pools := v.pools.map (fun e => (e.1, f e.2))
      pol := { ta := v.pol.ta.map f, loc := v.pol.loc.map f, rem := v.pol.rem.map f } }

/-- the same before the repair of KF-C16-5 (regression example only) -/
def View.updateStoredOld (v : View) (id a c : Nat) : View :=
  { v.updateStored id a c with ring := v.ring.updateStoredOld id a c }

/-! ### the property's oracles, evaluated on a view (the harness evaluates the same predicates on the
snapshots of the real Session) -/

def subsetB (l1 l2 : List Nat) : Bool := l1.all (fun x => l2.contains x)

/-- the ring's object of host id `h.id` carries the addresses of `h` -/
def View.storedMatches (v : View) (h : RHost) : Bool :=
  match v.ring.getHost h.id with
  | some s => s.addr == h.addr && s.caddr == h.caddr
  | none => false

/-- clauses of "the view follows the report" that do NOT hold: 1 ring ids ⊆ accepted ids, 2 accepted ids ⊆
ring ids, 3 pools only of accepted ids, 4 policy entries only of accepted ids, 5 every id new in the ring
(not in `prevIds`) has a pool, 6 the stored object of every accepted host that is the first accepted row of
its host id has the reported addresses -/
def View.followsViolations (env : Env) (prevIds : List Nat) (v : View) (reported : List RHost) : List Nat :=
  let acc := reported.filter (fun h => !env.filter h)
  let accIds := acc.map (·.id)
  (if subsetB v.ring.ids accIds then [] else [1]) ++
  (if subsetB accIds v.ring.ids then [] else [2]) ++
  (if subsetB (v.pools.map (·.1)) accIds then [] else [3]) ++
  (if subsetB (v.pol.all.map (·.id)) accIds then [] else [4]) ++
  (if (v.ring.ids.filter (fun id => !prevIds.contains id)).all (fun id => hasKey v.pools id) then [] else [5]) ++
  (if acc.all (fun h => lookup (acc.map (fun x => (x.id, x))) h.id != some h || v.storedMatches h) then [] else [6])

/-- `s` is in the policy's lists: in the token-aware list when the policy is token aware, and in one of the fallback's lists -/
def Policy.has (env : Env) (p : Policy) (s : RHost) : Bool :=
  (!env.tokenAware || p.ta.contains s) && (p.loc.contains s || p.rem.contains s)

/-- host ids whose stored object is new in the ring (not among the objects `prev` of the ring before the
refresh: a new node, or the new object of a node whose address changed) and is NOT in the policy's lists -/
def View.newNotInPolicy (env : Env) (prev : List RHost) (v : View) : List Nat :=
  (v.ring.byId.filter (fun e => !prev.contains e.2 && !v.pol.has env e.2)).map (·.1)

/-- the objects of `tracked` that the executor could use: in a policy list, state up, pool present -/
def View.offeredObjs (v : View) (tracked : List Nat) : List Nat :=
  tracked.filter (fun o => !v.down.contains o && v.pol.all.any (fun h => h.obj == o && hasKey v.pools h.id))

/-! ### eventDebouncer: at most `eventBufferSize` frames per window, later ones are dropped -/

def eventBufferSize : Nat := 1000

def debounceAdd (buf : List Ev) (e : Ev) : List Ev := if buf.length < eventBufferSize then buf ++ [e] else buf

/-- the frames handed to `handleNodeEvent` for a burst received within one debounce window -/
def debounced (burst : List Ev) : List Ev := burst.foldl debounceAdd []

/-! ### Conn.recv → Session.handleEvent → eventDebouncer (repaired, KF-C16-2)

A frame on stream -1 is parsed and appended to the node-event debouncer's buffer by the reader goroutine
ITSELF (`c.session.handleEvent(framer)`), before the next frame is read: the buffer holds the event
frames in wire order. Frames of other streams go to their callers, schema events to the other debouncer. -/

inductive WireFrame
  | nodeEvent (e : Ev)        -- stream -1, TOPOLOGY_CHANGE / STATUS_CHANGE
  | schemaEvent               -- stream -1, SCHEMA_CHANGE
  | response (stream : Nat)   -- a response to a request of this connection
deriving DecidableEq, Repr

def recvStep (buf : List Ev) : WireFrame → List Ev
  | .nodeEvent e => debounceAdd buf e
  | _ => buf

/-- the node-event debouncer's buffer after the reader goroutine has processed these frames (one window) -/
def recvBuffer (wire : List WireFrame) : List Ev := wire.foldl recvStep []

/-- the node events of a wire sequence, in wire order -/
def wireEvents : List WireFrame → List Ev
  | [] => []
  | .nodeEvent e :: t => e :: wireEvents t
  | _ :: t => wireEvents t

/-- before the repair (regression example only): `go c.session.handleEvent(framer)` — one goroutine per frame,
the frames reach the buffer in the order `sched` in which the goroutines happen to run (a permutation of
the positions of the node events) -/
def recvBufferOld (wire : List WireFrame) (sched : List Nat) : List Ev :=
  (sched.filterMap (fun i => (wireEvents wire)[i]?)).foldl debounceAdd []

/-! ### refreshDebouncer (host_source.go) with logical time

`debounce()` re-arms the timer to `now + interval`; `refreshNow()` creates the broadcaster its callers
listen on (if there is none) and puts a token into `refreshNowCh` (capacity 1). The flusher goroutine leaves
its `select` on the timer channel (capacity 1) or on `refreshNowCh` (`wakeT` / `wakeN`), then, holding the
mutex, drains both channels, stops the timer, detaches the broadcaster and — outside the mutex — runs the
refresh (`start`), which takes time: requests (`debounce`, `refreshNow`) and timer expiries happen while
the flusher is between `select` and the mutex (`woken`) and while a refresh is in progress (`running`).
`done` = refreshFn returned (the flusher goes back to its `select`; it does not touch the timer). -/

inductive RPhase
  | idle      -- the flusher is in its select
  | woken     -- it received from timer.C / refreshNowCh and has not yet taken the mutex
  | running   -- it is inside refreshFn
deriving DecidableEq, Repr

structure RDeb where
  now : Nat := 0
  deadline : Option Nat := none   -- timer armed, fires at this time
  fired : Bool := false           -- a value sits in timer.C
  nowPending : Bool := false      -- a token sits in refreshNowCh
  bc : Bool := false              -- d.broadcaster != nil: callers of refreshNow() wait for the next refresh to START
  phase : RPhase := .idle
  refreshes : Nat := 0            -- refreshFn calls started
deriving DecidableEq, Repr

inductive RAct
  | tick          -- one unit of time passes (the timer fires when its deadline is reached)
  | debounce      -- debounceRingRefresh()
  | refreshNow    -- refreshNow()
  | wakeT         -- the flusher's select receives from timer.C
  | wakeN         -- the flusher's select receives from refreshNowCh
  | start         -- the flusher, holding the mutex, clears both channels, stops the timer, takes the broadcaster; refreshFn starts
  | done          -- refreshFn returned
deriving DecidableEq, Repr

/-- `afterRefresh` is what the flusher does to the debouncer when refreshFn has returned: nothing in the code
that exists (`id`); the parameter is there for the variants the counterexamples are about -/
def rstepWith (afterRefresh : RDeb → RDeb) (interval : Nat) (d : RDeb) : RAct → RDeb
  | .tick =>
    let t := d.now + 1
    match d.deadline with
    | some dl => if dl ≤ t then { d with now := t, deadline := none, fired := true } else { d with now := t }
    | none => { d with now := t }
  | .debounce => { d with deadline := some (d.now + interval) }
  | .refreshNow => if d.bc then d else { d with bc := true, nowPending := true }
  | .wakeT => if d.phase = .idle ∧ d.fired = true then { d with phase := .woken, fired := false } else d
  | .wakeN => if d.phase = .idle ∧ d.nowPending = true then { d with phase := .woken, nowPending := false } else d
  | .start =>
    if d.phase = .woken then
      { d with phase := .running, fired := false, nowPending := false, deadline := none, bc := false, refreshes := d.refreshes + 1 }
    else d
  | .done => if d.phase = .running then afterRefresh { d with phase := .idle } else d

def rstep (interval : Nat) (d : RDeb) (a : RAct) : RDeb := rstepWith id interval d a

def rrun (interval : Nat) (d : RDeb) (as : List RAct) : RDeb := as.foldl (rstep interval) d

/-- a variant that is NOT the code (counterexample `C16_cex_drain_after_refresh_loses_request`): after refreshFn
has returned the flusher stops the timer and drains its channel once more ("the refresh that just finished
covers what was requested meanwhile") -/
def drainAfterRefresh (d : RDeb) : RDeb := { d with deadline := none, fired := false }

/-- a refresh is certainly still to come: the flusher is on its way to one, or a channel it selects on holds a
value, or the timer is armed -/
def RDeb.armed (d : RDeb) : Bool := d.phase == .woken || d.fired || d.nowPending || d.deadline.isSome

/-- nothing is pending and no refresh is in progress -/
def RDeb.quiet (d : RDeb) : Bool := !d.armed && d.phase == .idle

/-! requests with their bookkeeping (ghost state): `reqs` = for every request made so far, the number of
refreshes that had been STARTED when it was made; a request is served once a later refresh has started -/

structure RGhost where
  d : RDeb := {}
  reqs : List Nat := []
  /- callers of refreshNow() (positions in `reqs`): listening on the debouncer's current broadcaster / on the
     broadcaster the running refresh took / answered, with the ordinal of the refresh whose result they got -/
  waiting : List Nat := []
  cur : List Nat := []
  answers : List (Nat × Nat) := []
deriving DecidableEq, Repr

def gstepWith (afterRefresh : RDeb → RDeb) (interval : Nat) (g : RGhost) (a : RAct) : RGhost :=
  let d' := rstepWith afterRefresh interval g.d a
  match a with
  | .debounce => { g with d := d', reqs := g.reqs ++ [g.d.refreshes] }
  | .refreshNow => { g with d := d', reqs := g.reqs ++ [g.d.refreshes], waiting := g.waiting ++ [g.reqs.length] }
  | .start => if g.d.phase = .woken then { g with d := d', cur := g.waiting, waiting := [] } else { g with d := d' }
  | .done =>
    if g.d.phase = .running then
      { g with d := d', answers := g.answers ++ g.cur.map (fun i => (i, g.d.refreshes)), cur := [] }
    else { g with d := d' }
  | _ => { g with d := d' }

def gstep (interval : Nat) (g : RGhost) (a : RAct) : RGhost := gstepWith id interval g a
def grun (interval : Nat) (g : RGhost) (as : List RAct) : RGhost := as.foldl (gstep interval) g
def grunWith (afterRefresh : RDeb → RDeb) (interval : Nat) (g : RGhost) (as : List RAct) : RGhost :=
  as.foldl (gstepWith afterRefresh interval) g

/-- the requests (positions in the history) after which no refresh has started -/
def RGhost.lost (g : RGhost) : List Nat :=
  (List.range g.reqs.length).filter (fun i => decide (g.d.refreshes ≤ g.reqs.getD i 0))

/-- the refreshNow() callers that were handed the result of a refresh that had started BEFORE their call -/
def RGhost.early (g : RGhost) : List Nat :=
  (g.answers.filter (fun e => decide (e.2 ≤ g.reqs.getD e.1 0))).map (·.1)

/-- the refreshNow() callers still without an answer -/
def RGhost.unanswered (g : RGhost) : List Nat := g.waiting ++ g.cur

/-! the schedules the unit-level harness drives the real refreshDebouncer through (one hour interval, a refreshFn
that blocks until released, the timer fired by hand = logical time): every harness op stands for a schedule
of the protocol model, chosen by the state -/

inductive DOp
  | req        -- debounce()
  | now        -- refreshNow(); when the flusher is idle it starts the refresh at once
  | fire       -- time passes until the timer (if armed) fires; when the flusher is idle it starts the refresh
  | release    -- the running refreshFn returns; the flusher starts the next refresh if a channel holds a value
  | drain      -- release / fire until nothing is pending
deriving DecidableEq, Repr

def ticksToFire (d : RDeb) : List RAct :=
  match d.deadline with
  | some dl => List.replicate (max 1 (dl - d.now)) .tick
  | none => []

/-- what the idle flusher does when a channel holds a value -/
def flusherSched (d : RDeb) : List RAct :=
  if d.phase = .idle ∧ d.fired = true then [.wakeT, .start]
  else if d.phase = .idle ∧ d.nowPending = true then [.wakeN, .start]
  else if d.phase = .woken then [.start]
  else []

/-- the schedule a harness op stands for in state `d` (`drain` excepted) -/
def dschedOne (interval : Nat) (d : RDeb) : DOp → List RAct
  | .req => [.debounce]
  | .now => .refreshNow :: flusherSched (rstep interval d .refreshNow)
  | .fire => ticksToFire d ++ flusherSched (rrun interval d (ticksToFire d))
  | .release => .done :: flusherSched (rstep interval d .done)
  | .drain => []

/-- `drain` = release, fire, release: reaches a quiet state from EVERY state (`drain_quiet`) -/
def dsched (interval : Nat) (d : RDeb) : DOp → List RAct
  | .drain =>
    let s1 := dschedOne interval d .release
    let d1 := rrun interval d s1
    let s2 := dschedOne interval d1 .fire
    let d2 := rrun interval d1 s2
    s1 ++ s2 ++ dschedOne interval d2 .release
  | op => dschedOne interval d op

def dstep (interval : Nat) (g : RGhost) (op : DOp) : RGhost := grun interval g (dsched interval g.d op)

def drun (interval : Nat) (g : RGhost) (ops : List DOp) : RGhost := ops.foldl (dstep interval) g

/-! ### refreshRing BEFORE the repairs of KF-C16-4 / KF-C16-6 (kept for the regression examples only): one
loop that adds new hosts and replaces moved ones, a host id reported twice aborts it, the vanished hosts are
removed afterwards -/

inductive RefreshResult | ok | errCannotFind | errAlreadyExists
deriving DecidableEq, Repr

structure RState where
  v : View
  prev : List (Nat × RHost)

def refreshStepVOld (env : Env) (st : RState) (h : RHost) : RState × RefreshResult :=
  if env.filter h then (st, .ok) else
  match st.v.ring.addIfMissing h with
  | (r1, _, false) =>
    (⟨({ st.v with ring := r1 }).startPoolFill env h, erase st.prev h.id⟩, .ok)
  | (_, _, true) =>
    match lookup st.prev h.id with
    | none => (st, .errCannotFind)
    | some existing =>
      if h.caddr == existing.caddr && h.addr == existing.addr then
        (⟨st.v, erase st.prev h.id⟩, .ok)
      else
        let v2 := st.v.removeHost env existing
        match v2.ring.addIfMissing h with
        | (_, _, true) => (⟨v2, st.prev⟩, .errAlreadyExists)
        | (r3, _, false) => (⟨({ v2 with ring := r3 }).startPoolFill env h, erase st.prev h.id⟩, .ok)

def refreshLoopVOld (env : Env) : List RHost → RState → RState × RefreshResult
  | [], st => (st, .ok)
  | h :: t, st =>
    let (st', res) := refreshStepVOld env st h
    if res = .ok then refreshLoopVOld env t st' else (st', res)

def View.refreshOld (env : Env) (v : View) (reported : List RHost) : View × RefreshResult :=
  match refreshLoopVOld env reported ⟨v, v.ring.byId⟩ with
  | (st, .ok) => (removeAllV env st.v st.prev, .ok)
  | (st, e) => (st.v, e)

end ClusterView
