/-
C03, multi-step exchanges — the connection handshake and the first requests on a connection, where
the logical request of step k depends on what the peer answered to step k-1:

  OPTIONS → SUPPORTED → STARTUP (options chosen from the SUPPORTED map) → READY
                                   | AUTHENTICATE → AUTH_RESPONSE (→ AUTH_CHALLENGE → AUTH_RESPONSE)* → AUTH_SUCCESS
  then the plan of the connection's owner: USE "<keyspace>", REGISTER <events>, PREPARE → EXECUTE <id of the answer>,
  a later execution of a statement whose id is known: EXECUTE <known id> at once (no PREPARE), and
  EXECUTE → ERROR Unprepared <id> → (forget the id if it is the known one) → PREPARE → EXECUTE <new id>.

SPECIFICATION side (`Spec…`, `specReqs`): a pure function from the configuration, the authenticator
(a function from the history of challenges to a reply) and the list of peer answers to the list of
logical requests (`FrameSpec.Req`) that have to appear on the wire; the token of every
AUTH_RESPONSE is computed from the challenge history at the moment it is due.

MODEL side (`step`, `modelReqs`, `encodeAll`): conn.go's startupCoordinator.options / startup /
authenticateHandshake (with its loop variables `req` and `challenger`), hostConnPool.connect's
UseKeyspace, controlConn.registerEvents, Conn.prepareStatement / executeQuery with the session's
prepared-statement cache (prepared_cache.go: execIfMissing / evictPreparedID) and executeQuery's
RequestErrUnprepared arm, producing the Go
structs the frame builders of Model/FrameWrite.lean take, and from those the bytes.
Core Lean only.
-/
import Model.FrameSpec
import Model.FrameWrite
namespace Handshake
open FrameSpec (Bytes Val NVal QParams Req Decoded decodeReq)
open FrameWrite (GReq GParams GVal encodeReq)


/-- one response of the peer -/
inductive PeerAnswer
  | supported (m : List (Bytes × List Bytes))   -- SUPPORTED <string multimap>
  | ready
  | authenticate (cls : Bytes)
  | authChallenge (tok : Option Bytes)
  | authSuccess (tok : Option Bytes)
  | error                                        -- ERROR (server error)
  | setKeyspace                                  -- RESULT set_keyspace
  | void                                         -- RESULT void
  | prepared (id : Bytes) (ncols : Nat)          -- RESULT prepared, `ncols` bind columns (blobs)
  | unprepared (id : Bytes)                      -- ERROR 0x2500 Unprepared <short bytes id>
deriving DecidableEq, Repr

/-- what identifies a prepared statement on one host: (keyspace in use when it was prepared, statement text) -/
abbrev Key := Bytes × Bytes

/-- statement ids learnt from PREPARED answers, with the number of bind columns; newest first -/
abbrev Known := List (Key × (Bytes × Nat))

/-- what Authenticator.Challenge returns -/
inductive AuthReply
  | fail                                         -- err != nil
  | reply (tok : Option Bytes) (next : Bool)     -- the token (nil = none) and whether a challenger came with it
deriving DecidableEq, Repr

/-- The authenticator chain (the configured Authenticator and the challengers it hands out) as a
    function of the history of challenges: the AUTHENTICATE class first, then every AUTH_CHALLENGE
    token. `success` is the verdict of Success(data) of the challenger in charge after that history. -/
structure Authn where
  challenge : List (Option Bytes) → AuthReply
  success : List (Option Bytes) → Option Bytes → Bool

/-- what the owner of the connection does once it is up -/
inductive Action
  | useKs (ks : Bytes)                            -- hostConnPool.connect: conn.UseKeyspace(pool.keyspace)
  | register (topo status schema : Bool)          -- controlConn.registerEvents, flag = event class enabled
  | exec (stmt : Bytes) (cons : Nat) (vals : List (Option Bytes))   -- Conn.executeQuery of a DML statement
deriving DecidableEq, Repr

structure Config where
  v : Nat
  cqlVersion : Bytes
  driverName : Bytes
  driverVersion : Bytes
  compressor : Option Bytes      -- Name() of the configured compressor
  hasAuth : Bool                 -- conn.auth != nil
  cons : Nat                     -- session consistency (USE)
  skipMeta : Bool                -- !cfg.DisableSkipMetadata
  plan : List Action
  /-- iteration order of the STARTUP options map (a Go map): an environment parameter, like `now` -/
  mapOrder : List (Bytes × Bytes) → List (Bytes × Bytes)

/-- "CQL_VERSION" -/
def kCql : Bytes := [67, 81, 76, 95, 86, 69, 82, 83, 73, 79, 78]
/-- "DRIVER_NAME" -/
def kName : Bytes := [68, 82, 73, 86, 69, 82, 95, 78, 65, 77, 69]
/-- "DRIVER_VERSION" -/
def kVersion : Bytes := [68, 82, 73, 86, 69, 82, 95, 86, 69, 82, 83, 73, 79, 78]
/-- "COMPRESSION" -/
def kCompression : Bytes := [67, 79, 77, 80, 82, 69, 83, 83, 73, 79, 78]

/-- `USE "<ks>"` -/
def useStmt (ks : Bytes) : Bytes := [85, 83, 69, 32, 34] ++ ks ++ [34]

/-- "TOPOLOGY_CHANGE" -/
def evTopology : Bytes := [84, 79, 80, 79, 76, 79, 71, 89, 95, 67, 72, 65, 78, 71, 69]
/-- "STATUS_CHANGE" -/
def evStatus : Bytes := [83, 84, 65, 84, 85, 83, 95, 67, 72, 65, 78, 71, 69]
/-- "SCHEMA_CHANGE" -/
def evSchema : Bytes := [83, 67, 72, 69, 77, 65, 95, 67, 72, 65, 78, 71, 69]

/-! ## specification -/

/-- the algorithms the SUPPORTED answer offers -/
def offered (m : List (Bytes × List Bytes)) : List Bytes := (m.lookup kCompression).getD []

/-- compression is in effect on the connection iff an algorithm is configured and the peer offers it -/
def negotiated (cfg : Config) (m : List (Bytes × List Bytes)) : Bool :=
  match cfg.compressor with
  | some n => (offered m).contains n
  | none => false

def specStartup (cfg : Config) (m : List (Bytes × List Bytes)) : Req :=
  Req.startup (cfg.mapOrder
    ([(kCql, cfg.cqlVersion), (kName, cfg.driverName), (kVersion, cfg.driverVersion)] ++
     match cfg.compressor with
     | some n => if negotiated cfg m then [(kCompression, n)] else []
     | none => []))

def specUse (cons : Nat) (ks : Bytes) : Req := Req.query (useStmt ks) (FrameSpec.noParams cons []) []

def specEvents (t s c : Bool) : List Bytes :=
  (if t then [evTopology] else []) ++ (if s then [evStatus] else []) ++
  (if c then [evSchema] else [])

/-- the per-request keyspace exists from v5 and is the keyspace of the last answered USE -/
def specKs (v : Nat) (curKs : Bytes) : Option Bytes := if v ≥ 5 ∧ curKs ≠ [] then some curKs else none

def specPrepare (v : Nat) (curKs stmt : Bytes) : Req := Req.prepare stmt (specKs v curKs) []

def specVal : Option Bytes → NVal
  | none => ⟨none, Val.null⟩
  | some b => ⟨none, Val.bytes b⟩

def specExecute (cfg : Config) (curKs id : Bytes) (cons : Nat) (vals : List (Option Bytes)) : Req :=
  Req.execute id ⟨cons, cfg.skipMeta, vals.map specVal, none, none, none, none, specKs cfg.v curKs⟩ []

def tokenOf : AuthReply → Option Bytes
  | .fail => none
  | .reply t _ => t

def nextOf : AuthReply → Bool
  | .fail => false
  | .reply _ n => n

/-- why no further request is due -/
inductive Stop
  | hsFailed       -- the handshake was abandoned: the connection is never handed out
  | actFailed      -- a request of the plan was answered by something else than its result
  | finished       -- the plan is done
deriving DecidableEq, Repr

/-- where the exchange is; in the plan: what the last request was, and the statement ids known -/
inductive SpecAt
  | options
  | startup (compressed : Bool)
  | auth (compressed : Bool) (hist : List (Option Bytes))
  | use (compressed : Bool) (curKs ks : Bytes) (known : Known) (rest : List Action)
  | reg (compressed : Bool) (curKs : Bytes) (known : Known) (rest : List Action)
  | prep (compressed : Bool) (curKs : Bytes) (known : Known) (stmt : Bytes) (cons : Nat) (vals : List (Option Bytes))
      (rest : List Action)
  | exe (compressed : Bool) (curKs : Bytes) (known : Known) (stmt : Bytes) (cons : Nat) (vals : List (Option Bytes))
      (rest : List Action)
  | stop (why : Stop)
deriving DecidableEq, Repr

/-- an ERROR Unprepared <uid> for an EXECUTE of `key`: the id is forgotten iff it is the one known for `key`
    (an UNPREPARED naming another id says nothing about the known one) -/
def specForget (known : Known) (key : Key) (uid : Bytes) : Known :=
  match known.lookup key with
  | some (id, _) => if id = uid then known.filter (fun e => e.1 != key) else known
  | none => known

/-- executing `stmt` with `vals`: with a known id for (keyspace in use, statement) the EXECUTE goes out at
    once (refused locally when the number of values is not the statement's number of bind columns);
    otherwise the statement is prepared first -/
def specExec (cfg : Config) (z : Bool) (curKs : Bytes) (known : Known) (stmt : Bytes) (cons : Nat)
    (vals : List (Option Bytes)) (rest : List Action) : SpecAt × Option (Req × Bool) :=
  match known.lookup (curKs, stmt) with
  | some (id, n) =>
    if n = vals.length then (.exe z curKs known stmt cons vals rest, some (specExecute cfg curKs id cons vals, z))
    else (.stop .actFailed, none)
  | none => (.prep z curKs known stmt cons vals rest, some (specPrepare cfg.v curKs stmt, z))

/-- the first request of the rest of the plan (a REGISTER with no event class is not sent) -/
def specNext (cfg : Config) (z : Bool) (curKs : Bytes) (known : Known) : List Action → SpecAt × Option (Req × Bool)
  | [] => (.stop .finished, none)
  | .useKs ks :: rest => (.use z curKs ks known rest, some (specUse cfg.cons ks, z))
  | .register t s c :: rest =>
    if specEvents t s c = [] then specNext cfg z curKs known rest
    else (.reg z curKs known rest, some (Req.register (specEvents t s c), z))
  | .exec stmt cons vals :: rest => specExec cfg z curKs known stmt cons vals rest

/-- One answer of the peer: where the exchange is afterwards, the request that is due (with: is its
    body compressed), and the argument Success() is called with, if it is. -/
def specStep (cfg : Config) (au : Authn) : SpecAt → PeerAnswer → SpecAt × Option (Req × Bool) × Option (Option Bytes)
  | .options, .supported m => (.startup (negotiated cfg m), some (specStartup cfg m, false), none)
  | .options, _ => (.stop .hsFailed, none, none)
  | .startup z, .ready => let (a, r) := specNext cfg z [] [] cfg.plan; (a, r, none)
  | .startup z, .authenticate cls =>
    if cfg.hasAuth ∧ au.challenge [some cls] ≠ .fail then
      (.auth z [some cls], some (Req.authResponse (tokenOf (au.challenge [some cls])), z), none)
    else (.stop .hsFailed, none, none)
  | .startup _, _ => (.stop .hsFailed, none, none)
  | .auth z hist, .authChallenge c =>
    if nextOf (au.challenge hist) ∧ au.challenge (hist ++ [c]) ≠ .fail then
      (.auth z (hist ++ [c]), some (Req.authResponse (tokenOf (au.challenge (hist ++ [c]))), z), none)
    else (.stop .hsFailed, none, none)
  | .auth z hist, .authSuccess t =>
    if nextOf (au.challenge hist) then
      if au.success hist t then let (a, r) := specNext cfg z [] [] cfg.plan; (a, r, some t)
      else (.stop .hsFailed, none, some t)
    else let (a, r) := specNext cfg z [] [] cfg.plan; (a, r, none)
  | .auth _ _, _ => (.stop .hsFailed, none, none)
  | .use z _ ks known rest, .setKeyspace => let (a, r) := specNext cfg z ks known rest; (a, r, none)
  | .use .., _ => (.stop .actFailed, none, none)
  | .reg z curKs known rest, .ready => let (a, r) := specNext cfg z curKs known rest; (a, r, none)
  | .reg .., _ => (.stop .actFailed, none, none)
  | .prep z curKs known stmt cons vals rest, .prepared id n =>
    if n = vals.length then
      (.exe z curKs (((curKs, stmt), (id, n)) :: known) stmt cons vals rest, some (specExecute cfg curKs id cons vals, z), none)
    else (.stop .actFailed, none, none)
  | .prep .., _ => (.stop .actFailed, none, none)
  | .exe z curKs known _ _ _ rest, .void => let (a, r) := specNext cfg z curKs known rest; (a, r, none)
  | .exe z curKs known _ _ _ rest, .setKeyspace => let (a, r) := specNext cfg z curKs known rest; (a, r, none)
  | .exe z curKs known stmt cons vals rest, .unprepared uid =>
    let (a, r) := specExec cfg z curKs (specForget known (curKs, stmt) uid) stmt cons vals rest; (a, r, none)
  | .exe .., _ => (.stop .actFailed, none, none)
  | .stop w, _ => (.stop w, none, none)

/-- the requests due after each of the answers -/
def specRun (cfg : Config) (au : Authn) : SpecAt → List PeerAnswer → List (Req × Bool)
  | _, [] => []
  | at_, a :: as =>
    let r := specStep cfg au at_ a
    r.2.1.toList ++ specRun cfg au r.1 as

def specFinal (cfg : Config) (au : Authn) : SpecAt → List PeerAnswer → SpecAt
  | at_, [] => at_
  | at_, a :: as => specFinal cfg au (specStep cfg au at_ a).1 as

/-- every call of Success(), in order -/
def specSuccess (cfg : Config) (au : Authn) : SpecAt → List PeerAnswer → List (Option Bytes)
  | _, [] => []
  | at_, a :: as =>
    let r := specStep cfg au at_ a
    r.2.2.toList ++ specSuccess cfg au r.1 as

/-- **the specification**: the logical requests a connection with configuration `cfg` and
    authenticator `au` has to put on the wire when the peer answers `answers` (one answer per
    request, in order), each with the flag "body compressed". OPTIONS comes first, unasked. -/
def specReqs (cfg : Config) (au : Authn) (answers : List PeerAnswer) : List (Req × Bool) :=
  (Req.options, false) :: specRun cfg au .options answers

/-! ## model of the code -/

inductive Pending
  | use (ks : Bytes)
  | reg
  | prep (stmt : Bytes) (cons : Nat) (vals : List (Option Bytes))
  | exe (stmt : Bytes) (cons : Nat) (vals : List (Option Bytes))     -- the *Query executeQuery re-runs on UNPREPARED
deriving DecidableEq, Repr

inductive Phase
  | awaitSupported
  | awaitStartup
  /-- inside authenticateHandshake's loop: `hist` identifies the current `challenger` object,
      `hasNext` is `challenger != nil`, `req` is the loop variable `req` -/
  | awaitAuth (hist : List (Option Bytes)) (hasNext : Bool) (req : GReq)
  | conn (pending : Pending) (rest : List Action)
  | stopped (why : Stop)
deriving DecidableEq, Repr

structure State where
  phase : Phase
  curKs : Bytes                       -- conn.currentKeyspace
  compress : Bool                     -- conn.compressor != nil
  successArgs : List (Option Bytes)   -- calls of Success(data) so far
  /-- session.stmtsLRU restricted to this host: key (currentKeyspace, statement) ↦ the resolved
      inflightPrepare (id, request.actualColCount). Unbounded here (the LRU bound is an assumption). -/
  cache : Known
deriving DecidableEq, Repr

def init (cfg : Config) : State := ⟨.awaitSupported, [], cfg.compressor.isSome, [], []⟩

/-- startupCoordinator.startup: the options map, and whether conn.compressor survives -/
def startupOpts (cfg : Config) (m : List (Bytes × List Bytes)) : List (Bytes × Bytes) × Bool :=
  let base := [(kCql, cfg.cqlVersion), (kName, cfg.driverName), (kVersion, cfg.driverVersion)]
  match cfg.compressor with
  | none => (base, false)
  | some name =>
    let comp := (m.lookup kCompression).getD []
    if comp.contains name then (base ++ [(kCompression, name)], true) else (base, false)

def gval (x : Option Bytes) : GVal := ⟨[], false, x⟩

/-- queryParams as Conn.executeQuery fills them for a Query with nothing but a consistency -/
def execParams (cfg : Config) (curKs : Bytes) (cons : Nat) (vals : List (Option Bytes)) : GParams :=
  ⟨cons, cfg.skipMeta, vals.map gval, 0, [], 0, false, 0, if cfg.v > 4 then curKs else []⟩

/-- controlConn.registerEvents' list -/
def regEvents (t s c : Bool) : List Bytes :=
  let e0 : List Bytes := []
  let e1 := if t then e0 ++ [evTopology] else e0
  let e2 := if s then e1 ++ [evStatus] else e1
  if c then e2 ++ [evSchema] else e2

/-- preparedLRU.evictPreparedID(key, id): the entry goes iff `bytes.Equal(id, ifp.preparedStatment.id)` -/
def evictPreparedID (cache : Known) (key : Key) (id : Bytes) : Known :=
  match cache.lookup key with
  | none => cache
  | some info => if id = info.1 then cache.filter (fun e => e.1 != key) else cache

/-- Conn.executeQuery of a DML statement up to its c.exec: prepareStatement finds the flight in the cache
    (execIfMissing) or sends PREPARE; with the statement's info: the value-count check, then EXECUTE -/
def execQuery (cfg : Config) (curKs : Bytes) (cache : Known) (stmt : Bytes) (cons : Nat) (vals : List (Option Bytes))
    (rest : List Action) : Phase × Option GReq :=
  match cache.lookup (curKs, stmt) with
  | some info =>
    if vals.length ≠ info.2 then (.stopped .actFailed, none)     -- "gocql: expected %d values send got %d"
    else (.conn (.exe stmt cons vals) rest, some (GReq.execute info.1 (execParams cfg curKs cons vals) []))
  | none => (.conn (.prep stmt cons vals) rest, some (GReq.prepare stmt (if cfg.v > 4 then curKs else []) []))

/-- the owner of the connection starts its next action -/
def advance (cfg : Config) (curKs : Bytes) (cache : Known) : List Action → Phase × Option GReq
  | [] => (.stopped .finished, none)
  | .useKs ks :: rest =>
    (.conn (.use ks) rest, some (GReq.query (useStmt ks) ⟨cfg.cons, false, [], 0, [], 0, false, 0, []⟩ []))
  | .register t s c :: rest =>
    if (regEvents t s c).length = 0 then advance cfg curKs cache rest
    else (.conn .reg rest, some (GReq.register (regEvents t s c)))
  | .exec stmt cons vals :: rest => execQuery cfg curKs cache stmt cons vals rest

def failHs (s : State) : State × Option GReq := ({ s with phase := .stopped .hsFailed }, none)
def failAct (s : State) : State × Option GReq := ({ s with phase := .stopped .actFailed }, none)

def enter (cfg : Config) (s : State) (curKs : Bytes) (rest : List Action) : State × Option GReq :=
  let r := advance cfg curKs s.cache rest
  ({ s with phase := r.1, curKs := curKs }, r.2)

/-- one response frame handed to the code that waits for it; the request written next, if any -/
def step (cfg : Config) (au : Authn) (s : State) (a : PeerAnswer) : State × Option GReq :=
  match s.phase with
  | .awaitSupported =>
    match a with
    | .supported m =>
      let o := startupOpts cfg m
      ({ s with phase := .awaitStartup, compress := o.2 }, some (GReq.startup (cfg.mapOrder o.1)))
    | _ => failHs s
  | .awaitStartup =>
    match a with
    | .ready => enter cfg s s.curKs cfg.plan
    | .authenticate cls =>
      if !cfg.hasAuth then failHs s else
      match au.challenge [some cls] with
      | .fail => failHs s
      | .reply resp next =>
        let req := GReq.authResponse resp
        ({ s with phase := .awaitAuth [some cls] next req }, some req)
    | _ => failHs s
  | .awaitAuth hist hasNext _ =>
    match a with
    | .authSuccess t =>
      if hasNext then
        let s' := { s with successArgs := s.successArgs ++ [t] }
        if au.success hist t then enter cfg s' s.curKs cfg.plan else failHs s'
      else enter cfg s s.curKs cfg.plan
    | .authChallenge c =>
      if !hasNext then failHs s else
      match au.challenge (hist ++ [c]) with
      | .fail => failHs s
      | .reply resp next =>
        let req := GReq.authResponse resp       -- req = &writeAuthResponseFrame{data: resp}
        ({ s with phase := .awaitAuth (hist ++ [c]) next req }, some req)
    | _ => failHs s
  | .conn pending rest =>
    match pending, a with
    | .use ks, .setKeyspace => enter cfg s ks rest
    | .reg, .ready => enter cfg s s.curKs rest
    | .prep stmt cons vals, .prepared id n =>
      -- the flight in the cache is resolved: flight.preparedStatment = {id, request (n columns)}
      let s' := { s with cache := ((s.curKs, stmt), (id, n)) :: s.cache }
      if n ≠ vals.length then failAct s'
      else ({ s' with phase := .conn (.exe stmt cons vals) rest },
            some (GReq.execute id (execParams cfg s.curKs cons vals) []))
    | .exe _ _ _, .void => enter cfg s s.curKs rest
    | .exe _ _ _, .setKeyspace => enter cfg s s.curKs rest
    | .exe stmt cons vals, .unprepared uid =>
      -- case *RequestErrUnprepared: evictPreparedID(keyFor(host, c.currentKeyspace, qry.stmt), x.StatementId);
      -- return c.executeQuery(ctx, qry)
      let cache' := evictPreparedID s.cache (s.curKs, stmt) uid
      let r := execQuery cfg s.curKs cache' stmt cons vals rest
      ({ s with phase := r.1, cache := cache' }, r.2)
    | _, _ => failAct s
  | .stopped _ => (s, none)

/-- is the request written after an answer compressed: conn.compressor != nil at that moment,
    except for STARTUP, which never is -/
def flagOf (s s' : State) : Bool :=
  match s.phase with
  | .awaitSupported => false
  | _ => s'.compress

/-- the requests written after each answer, each with its `flagOf` -/
def run (cfg : Config) (au : Authn) : State → List PeerAnswer → List (GReq × Bool)
  | _, [] => []
  | s, a :: as =>
    let r := step cfg au s a
    (match r.2 with
     | some g => [(g, flagOf s r.1)]
     | none => []) ++ run cfg au r.1 as

def final (cfg : Config) (au : Authn) : State → List PeerAnswer → State
  | s, [] => s
  | s, a :: as => final cfg au (step cfg au s a).1 as

def modelReqs (cfg : Config) (au : Authn) (answers : List PeerAnswer) : List (GReq × Bool) :=
  (GReq.options, false) :: run cfg au (init cfg) answers

/-! ## bytes -/

/-- framer.finish with the identity "compressor" of the harness: the header flag 0x01 is set, the body
    is handed to Encode (and comes back unchanged) -/
def setCompress : Bytes → Bytes
  | a :: f :: r => a :: (f ||| 1) :: r
  | bs => bs

/-- the receiving side of the same: a frame of a connection on which compression is in effect must
    carry the flag; its body is handed to Decode (identity). Without compression in effect the frame
    is taken as it is (and `decodeReq` refuses the flag). -/
def clearCompress (z : Bool) : Bytes → Option Bytes
  | a :: f :: r => if z then (if f &&& 1 = 1 then some (a :: (f &&& 0xFE) :: r) else none) else some (a :: f :: r)
  | _ => none

def decodeZ (z : Bool) (bs : Bytes) : Option Decoded :=
  match clearCompress z bs with
  | some p => decodeReq p
  | none => none

/-- the frames of the model: request i goes out on stream `streams[i]` (the allocator's choice, C08) -/
def encodeAll (v : Nat) (now : Int) : List Int → List (GReq × Bool) → Option (List Bytes)
  | [], [] => some []
  | s :: ss, (g, z) :: gs =>
    match encodeReq v false s now g, encodeAll v now ss gs with
    | .ok bs, some rest => some ((if z then setCompress bs else bs) :: rest)
    | _, _ => none
  | _, _ => none

/-- what the peer has to find on the wire -/
def expectAll (v : Nat) : List Int → List (Req × Bool) → List Bytes → Prop
  | [], [], [] => True
  | s :: ss, (r, z) :: rs, f :: fs => decodeZ z f = some ⟨v, false, s, r, []⟩ ∧ expectAll v ss rs fs
  | _, _, _ => False

end Handshake
