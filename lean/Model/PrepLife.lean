import Model.Dispatch
/-
# Life cycle of the prepared-statement cache under arbitrary server answers (property C05, part "sequences")

Hand-written executable model of

  prepared_cache.go  execIfMissing / remove / evictPreparedID
  conn.go            prepareStatement (lookup-or-insert; the flight's goroutine completes the flight from the
                     answer to PREPARE: RESULT/Prepared → statement, everything else → error + remove(key);
                     waiters read the flight), executeQuery / executeBatch (prepare every entry, value-count
                     check, one EXECUTE / BATCH, the response type switch, UNPREPARED → evictPreparedID + restart),
                     session.go Iter paging (a ROWS answer with more pages → the same query again)

as a state machine whose INPUTS are the answers of the peer: any of the 18 frame kinds `framer.parseFrame`
can return (`Dispatch.FrameKind`, dispatched by the tables of Model/Dispatch.lean), or a malformed body
(parse error), to the pending PREPARE of a statement or to the pending EXECUTE / BATCH of a caller.

The cache entry of a statement is absent | in flight | finished with a statement (`ok id`) | finished WITHOUT a
statement (`failed`): the last state is representable (a cached flight may be `failed`), so the invariant
`Inv` (every cached flight that is finished holds a statement) says something: `evictPreparedID` reads
`ifp.preparedStatment.id` of a finished cached flight, a nil dereference exactly when the invariant is broken
(`evict` returns `none`, `step` answers `Res.crash`).

`rm : PArm → Bool` = which arms of the flight's goroutine end with `stmtsLRU.remove(key)`; the code that exists
is `PArm.removes` (all failing arms). The model is parametric in it so that Proofs/C05Seq.lean can show the
hypothesis `failed → removed` is what the safety argument needs (and that dropping it for ONE arm makes the
crash reachable).

One `Input` = one step of a conducted scenario on ONE connection; after each step the real driver is run to
quiescence (harness/c05disp/seq.go) and the observable events (PREPARE / EXECUTE frames at the peer, returns
of the calls) and the cache (hook VerifC05dStmtCache) are compared with `step`'s.
Core Lean only.
-/
namespace PrepLife
open Dispatch

inductive FSt
  | inflight
  | ok (id ncols : Nat)
  | failed
  deriving DecidableEq, Repr

structure Flight where
  stmt : Nat
  st   : FSt

/-- the statement cache (key = statement number: one host, one keyspace) and every flight ever created -/
structure Core where
  cache   : Nat → Option Nat
  flights : List Flight

inductive CKind | query | batch | page
  deriving DecidableEq, Repr

inductive PC
  | idle                 -- not started
  | waitFlight (f : Nat) -- in prepareStatement's select, waiting for flight f
  | waitExec             -- EXECUTE / BATCH sent
  | returned (ok : Bool)
  deriving DecidableEq, Repr

structure Caller where
  kind    : CKind
  entries : List Nat     -- statements (a query: one)
  got     : List Nat     -- flights whose statement was taken for entries 0 .. got.length-1
  rows    : Nat          -- rows scanned so far (paging caller)
  pc      : PC

structure State where
  core    : Core
  callers : List Caller

inductive Ev
  | prep (s : Nat)                      -- a PREPARE for statement s reached the peer
  | exec (c : Nat) (ids : List Nat)     -- call c's EXECUTE / BATCH reached the peer, carrying these ids
  | ret (c : Nat) (ok : Bool) (rows : Nat)
  deriving DecidableEq, Repr

/-- the peer's answer to a PREPARE: a well-formed frame of kind k (id / bind-column count: RESULT/Prepared
    only) or a malformed body -/
inductive PAns
  | frame (k : FrameKind) (id ncols : Nat)
  | malformed

/-- the peer's answer to an EXECUTE / BATCH (id: ERROR/Unprepared only; more: RESULT/Rows has_more_pages) -/
inductive XAns
  | frame (k : FrameKind) (id : Nat) (more : Bool)
  | malformed

inductive Input
  | start (c : Nat)
  | pans (s : Nat) (a : PAns)
  | xans (c : Nat) (a : XAns)
  | event (k : FrameKind)      -- a frame on stream -1 (handleEvent): no effect on the cache

/-- the arms of the flight's goroutine in conn.go prepareStatement -/
inductive PArm
  | parseErr                    -- `framer.parseFrame()` failed (also `c.exec` failed)
  | prepared (id ncols : Nat)   -- `case *resultPreparedFrame`
  | errorFrame                  -- `case error`
  | dflt                        -- `default:` ("Unknown type in response to prepare frame")
  deriving DecidableEq, Repr

def prepArm : PAns → PArm
  | .malformed => .parseErr
  | .frame k id n =>
    match firstArm k (desc .prepareStatement).arms with
    | some .handled => .prepared id n
    | some _ => .errorFrame
    | none => .dflt

/-- what the arm stores in the flight: `flight.preparedStatment = ..` or `flight.err = ..` -/
def PArm.result : PArm → FSt
  | .prepared id n => .ok id n
  | _ => .failed

/-- the arms that end with `c.session.stmtsLRU.remove(stmtCacheKey)` in the code that exists: the two early
    returns, and `if flight.err != nil { remove }` after the switch -/
def PArm.removes : PArm → Bool
  | .prepared _ _ => false
  | _ => true

def Core.removeKey (c : Core) (k : Nat) : Core :=
  { c with cache := fun k' => if k' = k then none else c.cache k' }

def Core.setSt (c : Core) (f : Nat) (st : FSt) : Core :=
  match c.flights[f]? with
  | none => c
  | some fl => { c with flights := c.flights.set f { fl with st := st } }

/-- the flight's goroutine: store the result, remove the key if the arm does, (deferred) close(done) -/
def complete (rm : PArm → Bool) (c : Core) (f : Nat) (a : PArm) : Core :=
  match c.flights[f]? with
  | none => c
  | some fl =>
    let c1 := c.setSt f a.result
    if rm a then c1.removeKey fl.stmt else c1

/-- prepared_cache.go evictPreparedID(key, id); `none` = nil dereference (`ifp.preparedStatment.id` of a finished
    flight without statement) -/
def evict (c : Core) (key id : Nat) : Option Core :=
  match c.cache key with
  | none => some c
  | some f =>
    match c.flights[f]? with
    | none => some c
    | some fl =>
      match fl.st with
      | .inflight => some c
      | .ok id' _ => if id = id' then some (c.removeKey key) else some c
      | .failed => none

def idOf (c : Core) (f : Nat) : Nat :=
  match c.flights[f]? with
  | some fl => (match fl.st with | .ok id _ => id | _ => 0)
  | none => 0

def stOf (c : Core) (f : Nat) : Option FSt := (c.flights[f]?).map (·.st)

/-- every caller binds exactly one value per entry -/
def boundValues : Nat := 1

/-- the caller runs executeQuery / executeBatch from entry `got.length` until it blocks or returns:
    prepareStatement per entry (miss: publish a flight, its goroutine sends PREPARE; hit: wait for / read the
    flight), value-count check, then the frame -/
def prepLoop : Nat → Nat → Core → Caller → Core × Caller × List Ev
  | 0, _, core, cl => (core, cl, [])
  | fuel + 1, c, core, cl =>
    match cl.entries[cl.got.length]? with
    | none => (core, { cl with pc := .waitExec }, [.exec c (cl.got.map (idOf core))])
    | some s =>
      match core.cache s with
      | none =>
        let f := core.flights.length
        ({ cache := fun k => if k = s then some f else core.cache k,
           flights := core.flights ++ [{ stmt := s, st := .inflight }] },
         { cl with pc := .waitFlight f }, [.prep s])
      | some f =>
        match stOf core f with
        | some FSt.inflight => (core, { cl with pc := .waitFlight f }, [])
        | some (FSt.ok _ n) =>
          if n = boundValues then prepLoop fuel c core { cl with got := cl.got ++ [f] }
          else (core, { cl with pc := .returned false }, [.ret c false cl.rows])
        | _ => (core, { cl with pc := .returned false }, [.ret c false cl.rows])

def fuelOf (cl : Caller) : Nat := cl.entries.length + 1

/-- a waiter of flight f after close(done): `return flight.preparedStatment, flight.err` -/
def resume (c : Nat) (core : Core) (cl : Caller) (f : Nat) : Core × Caller × List Ev :=
  match stOf core f with
  | some (FSt.ok _ n) =>
    if n = boundValues then prepLoop (fuelOf cl) c core { cl with got := cl.got ++ [f] }
    else (core, { cl with pc := .returned false }, [.ret c false cl.rows])
  | _ => (core, { cl with pc := .returned false }, [.ret c false cl.rows])

/-- every waiter of flight f goes on (they run concurrently; their steps commute up to who publishes a new
    flight, which no observable distinguishes) -/
def wake (f : Nat) : Nat → List Caller → Core → List Caller × Core × List Ev
  | _, [], core => ([], core, [])
  | i, cl :: rest, core =>
    if cl.pc = .waitFlight f then
      let r := resume i core cl f
      let r2 := wake f (i + 1) rest r.1
      (r.2.1 :: r2.1, r2.2.1, r.2.2 ++ r2.2.2)
    else
      let r2 := wake f (i + 1) rest core
      (cl :: r2.1, r2.2.1, r2.2.2)

/-- the oldest flight of statement s whose PREPARE is unanswered -/
def pendingFlight (s : Nat) : Nat → List Flight → Option Nat
  | _, [] => none
  | i, fl :: rest => if fl.stmt = s ∧ fl.st = .inflight then some i else pendingFlight s (i + 1) rest

def execSite : CKind → Site
  | .batch => .executeBatch
  | _ => .executeQuery

/-- what the response type switch of executeQuery / executeBatch (and the Iter of a paging caller) makes of
    the answer -/
inductive XArm
  | done (ok : Bool) (rows : Nat)
  | nextPage (rows : Nat)
  | unprepared (id : Nat)

def execArm (ck : CKind) : XAns → XArm
  | .malformed => .done false 0
  | .frame k id more =>
    match action (execSite ck) k with
    | some .handled =>
      if k = .resultRows ∧ ck = .page then
        (if more then .nextPage 1 else .done true 1)
      else .done true 0
    | some .retry => .unprepared id
    | _ => .done false 0

/-- executeQuery: the statement's own key; executeBatch: `stmts[string(x.StatementId)]`, the map filled in entry
    order (a later entry with the same id overwrites); not found → no eviction -/
def unprepKey (core : Core) (cl : Caller) (id : Nat) : Option Nat :=
  match cl.kind with
  | .batch => ((cl.entries.zip cl.got).reverse.find? (fun e => idOf core e.2 = id)).map (·.1)
  | _ => cl.entries.head?

inductive Res
  | next (s : State) (log : List Ev)
  | crash      -- nil dereference in evictPreparedID
  | bad        -- the step does not apply (no such pending request)

def restart (s : State) (core : Core) (c : Nat) (cl : Caller) (rows : Nat) : Res :=
  let r := prepLoop (fuelOf cl) c core { cl with got := [], rows := rows }
  .next { core := r.1, callers := s.callers.set c r.2.1 } r.2.2

def step (rm : PArm → Bool) (s : State) : Input → Res
  | .start c =>
    match s.callers[c]? with
    | none => .bad
    | some cl => if cl.pc = .idle then restart s s.core c cl 0 else .bad
  | .pans st a =>
    match pendingFlight st 0 s.core.flights with
    | none => .bad
    | some f =>
      let r := wake f 0 s.callers (complete rm s.core f (prepArm a))
      .next { core := r.2.1, callers := r.1 } r.2.2
  | .xans c a =>
    match s.callers[c]? with
    | none => .bad
    | some cl =>
      if cl.pc = .waitExec then
        match execArm cl.kind a with
        | .done ok rows =>
          .next { s with callers := s.callers.set c { cl with pc := .returned ok, rows := cl.rows + rows } }
                [.ret c ok (cl.rows + rows)]
        | .nextPage rows => restart s s.core c cl (cl.rows + rows)
        | .unprepared id =>
          match unprepKey s.core cl id with
          | none => restart s s.core c cl cl.rows
          | some key =>
            match evict s.core key id with
            | none => .crash
            | some core1 => restart s core1 c cl cl.rows
      else .bad
  | .event _ => .next s []

def initCore : Core := { cache := fun _ => none, flights := [] }

def mkCaller (k : CKind) (es : List Nat) : Caller := { kind := k, entries := es, got := [], rows := 0, pc := .idle }

def init (cs : List (CKind × List Nat)) : State :=
  { core := initCore, callers := cs.map (fun c => mkCaller c.1 c.2) }

/-- a whole scenario: the state after the last applicable step, the per-step logs, whether it crashed.
    A `bad` step leaves the state as it is. -/
structure Run where
  state   : State
  crashed : Bool

def run (rm : PArm → Bool) : State → List Input → Run
  | s, [] => { state := s, crashed := false }
  | s, i :: is =>
    match step rm s i with
    | .next s' _ => run rm s' is
    | .crash => { state := s, crashed := true }
    | .bad => run rm s is

/-- the invariant the dereference in evictPreparedID relies on: a cached flight exists, belongs to the key, and
    if it is finished it holds a statement -/
def Inv (c : Core) : Prop :=
  ∀ k f, c.cache k = some f → ∃ fl, c.flights[f]? = some fl ∧ fl.stmt = k ∧ fl.st ≠ .failed

/-- executable form of the invariant for the statements the driver looks at -/
def invOK (c : Core) (nstmts : Nat) : Bool :=
  (List.range nstmts).all (fun k =>
    match c.cache k with
    | none => true
    | some f =>
      match c.flights[f]? with
      | none => false
      | some fl => fl.stmt == k && fl.st != .failed)

/-! ## rendering (vdrv) -/

def idLetter : Nat → String
  | 1 => "A" | 2 => "B" | 3 => "C" | 9 => "U" | _ => "?"

def snapEntry (c : Core) (k : Nat) : String :=
  match c.cache k with
  | none => "-"
  | some f =>
    match c.flights[f]? with
    | none => "?"
    | some fl => match fl.st with
      | .inflight => "i"
      | .ok id _ => idLetter id
      | .failed => "n"

def nStmts : Nat := 3

def snapshot (c : Core) : String :=
  String.join ((List.range nStmts).map (snapEntry c)) ++ "#" ++
    toString ((List.range nStmts).filter (fun k => (c.cache k).isSome)).length

/-- canonical order inside one step: PREPAREs by statement, then frames by caller, then returns by caller -/
def Ev.key : Ev → Nat
  | .prep s => s
  | .exec c _ => 1000 + c
  | .ret c _ _ => 2000 + c

def Ev.str : Ev → String
  | .prep s => "P" ++ toString s
  | .exec c ids => "X" ++ toString c ++ ":" ++ String.join (ids.map idLetter)
  | .ret c true rows => "R" ++ toString c ++ ":ok:" ++ toString rows
  | .ret c false _ => "R" ++ toString c ++ ":err"

def insertEv (e : Ev) : List Ev → List Ev
  | [] => [e]
  | x :: xs => if e.key < x.key then e :: x :: xs else x :: insertEv e xs

def sortEvs (l : List Ev) : List Ev := l.foldr insertEv []

def stepStr (log : List Ev) (c : Core) : String :=
  joinWith "," ((sortEvs log).map Ev.str) ++ "/" ++ snapshot c

def crashLabel : String := "crash:preparedLRU.evictPreparedID:nil"

/-- the answer line of op `seq`: one item per step -/
def render (rm : PArm → Bool) : State → List Input → List String
  | _, [] => []
  | s, i :: is =>
    match step rm s i with
    | .next s' log => stepStr log s'.core :: render rm s' is
    | .crash => [crashLabel]
    | .bad => "bad" :: render rm s is

/-- the answer of op `seqinv`: the invariant at every quiescent point of the scenario -/
def invAnswer (rm : PArm → Bool) : State → List Input → String
  | s, [] => if invOK s.core nStmts then "ok" else "bad:nil-entry"
  | s, i :: is =>
    if invOK s.core nStmts then
      match step rm s i with
      | .next s' _ => invAnswer rm s' is
      | .crash => crashLabel
      | .bad => invAnswer rm s is
    else "bad:nil-entry"

/-! ## parsing of the op line

  seq <callers> <step> <step> ...
  callers: comma separated `q<s>` | `g<s>` (a query whose execution runs on a driver goroutine) | `p<s>` (paging)
           | `b<s><s>..` (batch)
  steps:   s<c> | p<s>=<answer> | x<c>=<answer> | e=<kind>
  answer:  <kind>[.<id letter>[.<ncols>]] | resultRows.more | error.<code> | mal.<variant>
-/

def digit? (c : Char) : Option Nat := if c.isDigit then some (c.toNat - '0'.toNat) else none

def idOfLetter : String → Nat
  | "A" => 1 | "B" => 2 | "C" => 3 | "U" => 9 | _ => 0

def parseCaller (w : String) : Option (CKind × List Nat) :=
  match w.toList with
  | k :: ds =>
    match ds.mapM digit? with
    | none => none
    | some es =>
      if es.isEmpty || es.any (· ≥ nStmts) then none else
      match k with
      | 'q' | 'g' => if es.length = 1 then some (.query, es) else none
      | 'p' => if es.length = 1 then some (.page, es) else none
      | 'b' => some (.batch, es)
      | _ => none
  | [] => none

/-- (kind, id, ncols, more) or malformed -/
def parseAns (w : String) : Option (Option (FrameKind × Nat × Nat × Bool)) :=
  match w.splitOn "." with
  | "mal" :: _ => some none
  | k :: rest =>
    match FrameKind.ofName k with
    | none => none
    | some fk =>
      match rest with
      | [] => some (some (fk, 0, 1, false))
      | ["more"] => some (some (fk, 0, 1, true))
      | [a] => if fk = .error then some (some (fk, 0, 1, false)) else some (some (fk, idOfLetter a, 1, false))
      | [a, n] => (n.toNat?).map (fun n => some (fk, idOfLetter a, n, false))
      | _ => none
  | [] => none

def parseStep (w : String) : Option Input :=
  match w.splitOn "=" with
  | [l] =>
    match l.toList with
    | ['s', d] => (digit? d).map Input.start
    | _ => none
  | [l, a] =>
    match l.toList, parseAns a with
    | ['p', d], some r =>
      (digit? d).map (fun s => .pans s (match r with
        | none => .malformed
        | some (k, id, n, _) => .frame k id n))
    | ['x', d], some r =>
      (digit? d).map (fun c => .xans c (match r with
        | none => .malformed
        | some (k, id, _, more) => .frame k id more))
    | ['e'], some (some (k, _, _, _)) => some (.event k)
    | _, _ => none
  | _ => none

def parseScenario (ws : List String) : Option (State × List Input) :=
  match ws with
  | cs :: steps =>
    match (cs.splitOn ",").mapM parseCaller, steps.mapM parseStep with
    | some cs, some is => some (init cs, is)
    | _, _ => none
  | [] => none

def answer (ws : List String) : Option String :=
  match ws with
  | "seq" :: rest =>
    some (match parseScenario rest with
      | some (s, is) => joinWith ";" (render PArm.removes s is)
      | none => "bad-op")
  | "seqinv" :: rest =>
    some (match parseScenario rest with
      | some (s, is) => invAnswer PArm.removes s is
      | none => "bad-op")
  | _ => none

end PrepLife
