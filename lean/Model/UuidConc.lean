import Model.UuidGen
/-
  Small-step model of CONCURRENT callers of the time-UUID generator of /repo/uuid.go.  Hand-written, core Lean only.

    func TimeUUID() UUID           { return UUIDFromTime(time.Now()) }                        // step 1: the reading
    func UUIDFromTime(t time.Time) { ts := getTimestamp(t)                                    // (pure)
                                     clock := atomic.AddUint32(&clockSeq, 1)                  // step 2: ONE atomic action
                                     return TimeUUIDWith(ts, clock, hardwareAddr) }           // (pure)

  Shared state: the counter `clockSeq` (the node `hardwareAddr` is fixed after `init`) and the environment's wall
  clock.  A goroutine inside `TimeUUID()` is between its two steps exactly when it holds a reading.  A schedule is
  ANY list of actions — any number of goroutines, any interleaving, the wall clock set to anything at any point
  (also backwards); a caller of `UUIDFromTime(t)` with its own `t` is `wall t; now g; inc g`.  Everything else in
  the two functions is goroutine-local and pure, so one `inc` action per call is exact under the assumption
  that `atomic.AddUint32` is atomic.
-/
namespace Uuid

inductive Act where
  /-- goroutine `g` evaluates `time.Now()` (ignored while `g` is still inside a call: a goroutine is sequential) -/
  | now (g : Nat)
  /-- goroutine `g` runs `UUIDFromTime` on the reading it holds: the atomic increment, the result is returned -/
  | inc (g : Nat)
  /-- environment: the wall clock shows `t` from here on -/
  | wall (t : Int × Nat)
  deriving DecidableEq

/-- one returned call: who, the reading it used, what it got -/
structure Ret where
  g : Nat
  reading : Int × Nat
  uuid : List UInt8
  deriving DecidableEq

structure Conc where
  clockSeq : Nat
  wall : Int × Nat
  /-- goroutines between `time.Now()` and the increment, with the reading they hold -/
  held : List (Nat × (Int × Nat))
  /-- the calls that returned, in the order of their increments -/
  out : List Ret

def heldOf (h : List (Nat × (Int × Nat))) (g : Nat) : Option (Int × Nat) := (h.find? (·.1 == g)).map (·.2)

def concStep (hw : List UInt8) (s : Conc) : Act → Conc
  | .now g => match heldOf s.held g with
    | some _ => s
    | none => { s with held := (g, s.wall) :: s.held }
  | .inc g => match heldOf s.held g with
    | none => s
    | some r =>
      { s with clockSeq := (timeUUID s.clockSeq hw r).2,
               held := s.held.filter (·.1 != g),
               out := s.out ++ [⟨g, r, (timeUUID s.clockSeq hw r).1⟩] }
  | .wall t => { s with wall := t }

def concRun (hw : List UInt8) (s : Conc) (acts : List Act) : Conc := acts.foldl (concStep hw) s

/-- the same machine with `out` kept newest-first, so that a step costs O(1) (what the driver runs on schedules
    of tens of thousands of calls); `C19_conc_fast_eq`: `concRunFast = concRun` -/
def concStepR (hw : List UInt8) (s : Conc) : Act → Conc
  | .now g => match heldOf s.held g with
    | some _ => s
    | none => { s with held := (g, s.wall) :: s.held }
  | .inc g => match heldOf s.held g with
    | none => s
    | some r =>
      { s with clockSeq := (timeUUID s.clockSeq hw r).2,
               held := s.held.filter (·.1 != g),
               out := ⟨g, r, (timeUUID s.clockSeq hw r).1⟩ :: s.out }
  | .wall t => { s with wall := t }

def revOut (s : Conc) : Conc := { s with out := s.out.reverse }

def concRunFast (hw : List UInt8) (s : Conc) (acts : List Act) : Conc :=
  revOut (acts.foldl (concStepR hw) (revOut s))

def concInit (c : Nat) (t : Int × Nat) : Conc := ⟨c, t, [], []⟩

/-- the line protocol's schedule words, relative to a start reading `(sec, nsec)` and a running offset in ns:
    `n<g>` / `i<g>` one action; `w<d>` the wall clock moves on by `d` ns; `c<g>` one whole call `now g; inc g`;
    `r<k>:<g>:<d>` = k times (`w<d>`, `c<g>`) -/
inductive Word where
  | now (g : Nat) | inc (g : Nat) | adv (d : Nat) | call (g : Nat) | rep (k g d : Nat)

/-- expansion of schedule words into actions; state = ns offset from the start reading -/
def expandWords (sec : Int) (nsec : Nat) : List Word → Nat → List Act
  | [], _ => []
  | .now g :: ws, off => .now g :: expandWords sec nsec ws off
  | .inc g :: ws, off => .inc g :: expandWords sec nsec ws off
  | .call g :: ws, off => .now g :: .inc g :: expandWords sec nsec ws off
  | .adv d :: ws, off => .wall (unixNorm sec (nsec + off + d)) :: expandWords sec nsec ws (off + d)
  | .rep k g d :: ws, off =>
    ((List.range k).flatMap fun i => [Act.wall (unixNorm sec (nsec + off + (i + 1) * d)), .now g, .inc g])
      ++ expandWords sec nsec ws (off + k * d)

/-- one step of the monitors below: `acc.2` keeps, per goroutine, the timestamp of its latest result -/
def monStep (lo hi : Nat) (acc : Bool × List (Nat × Nat)) (r : Ret) : Bool × List (Nat × Nat) :=
  (acc.1 && decide (lo ≤ timestamp r.uuid) && decide (timestamp r.uuid ≤ hi) &&
     decide (((acc.2.find? (·.1 == r.g)).map (·.2)).getD 0 ≤ timestamp r.uuid),
   (r.g, timestamp r.uuid) :: acc.2.filter (·.1 != r.g))

/-- the two monitors of `C19_conc_goroutine_timestamps_monotone`, evaluated on a run's results: every timestamp lies in
    `[tick start, tick (wall at the end)]`, and the timestamps of one goroutine never decrease in return order
    (`C19_sched_monitors_ok`: on a model run under a wall clock that never steps back the answer is `true`) -/
def monitorsOk (t0 wallEnd : Int × Nat) (out : List Ret) : Bool :=
  (out.foldl (monStep (tick t0) (tick wallEnd)) (true, [])).1

/-- FNV-style fold over all bytes of all results, in return order (so that long runs compare in one number) -/
def foldHash (us : List (List UInt8)) : Nat :=
  us.foldl (fun h u => u.foldl (fun h b => (h * 1099511628211 + b.toNat) % 2 ^ 64) h) 14695981039346656037

end Uuid
