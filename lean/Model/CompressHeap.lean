import Model.Compress
/-
  Memory discipline at the compressor boundary (C18, ownership / aliasing of the buffers that cross it).

  gocql hands slices across the `Compressor` interface in both directions:
    frame.go readFrame   `f.buf, err = f.compres.Decode(f.buf)`     — the decoded body is KEPT by the framer
                         that Conn.recv hands to the waiting caller (an Iter keeps it until its last row
                         was scanned) while the receive loop goes on decoding the next responses;
    frame.go finish      `compressed, err := f.compres.Encode(f.buf[f.headSize:])`
    compressor.go        `snappy.Decode(nil, data)` / `snappy.Encode(nil, data)`   — nil destination: a new
                         buffer per call
    lz4/lz4.go           `buf := make([]byte, …)` per call, both directions.

  A small heap makes that explicit: buffers have ids, a slice is a `View` (id, offset, length) into a
  buffer, a codec call reads a caller-owned input buffer and PLACES its result somewhere. Where it is
  placed is the `Discipline`:
    `fresh`       the code that exists: a new buffer per result;
    `pooled`      a `sync.Pool`-like free list: the result is written into a recycled buffer when it
                  fits, and the buffer goes back to the pool when the call returns (`defer pool.Put`)
                  although the returned slice still points into it;
    `aliasInput`  the result is returned as a sub-slice of the caller's input when its bytes happen to
                  stand there already (a "stored" block handed back without a copy).
  The machine keeps any number of earlier results alive ("held" slots), runs further codec calls, lets
  the caller scribble over its input buffers afterwards, and reads held results back at any time.
-/
namespace Compress

/-- a Go slice: buffer id, offset, length -/
structure View where
  id  : Nat
  off : Nat
  len : Nat
  deriving DecidableEq, Repr

/-- buffer id ↦ contents; `pool` = the buffers handed back to a free list (most recent first) -/
structure Heap where
  mem  : List Bytes
  pool : List Nat

def Heap.empty : Heap := { mem := [], pool := [] }

def Heap.buf (h : Heap) (id : Nat) : Bytes := h.mem.getD id []

/-- the bytes a slice shows NOW -/
def Heap.read (h : Heap) (v : View) : Bytes := ((h.buf v.id).drop v.off).take v.len

/-- `make` + fill: a new buffer, existing ones untouched -/
def Heap.alloc (h : Heap) (b : Bytes) : Heap × View :=
  ({ h with mem := h.mem ++ [b] }, { id := h.mem.length, off := 0, len := b.length })

/-- `copy(buf, b)`: in-place write at the start of an existing buffer (capacity unchanged) -/
def Heap.overwrite (h : Heap) (id : Nat) (b : Bytes) : Heap :=
  { h with mem := h.mem.set id (b ++ (h.buf id).drop b.length) }

def xorAt : Bytes → Nat → UInt8 → Bytes
  | [], _, _ => []
  | b :: r, 0, x => (b ^^^ x) :: r
  | b :: r, i + 1, x => b :: xorAt r i x

/-- `buf[i] ^= x` -/
def Heap.poke (h : Heap) (id i : Nat) (x : UInt8) : Heap :=
  { h with mem := h.mem.set id (xorAt (h.buf id) i x) }

inductive Discipline
  | fresh | pooled | aliasInput
  deriving DecidableEq, Repr

/-- where a codec call whose input is the slice `inp` puts its result `out` -/
def Heap.place (d : Discipline) (h : Heap) (inp : View) (out : Bytes) : Heap × View :=
  match d with
  | .fresh => h.alloc out
  | .pooled =>
    match h.pool with
    | id :: rest =>
      if out.length ≤ (h.buf id).length then
        -- fits: decoded in place; the deferred Put hands the buffer back at once
        ({ h.overwrite id out with pool := id :: rest }, { id := id, off := 0, len := out.length })
      else
        -- too small: the codec allocates, `*buf = decoded`, Put
        let r := h.alloc out
        ({ r.1 with pool := r.2.id :: rest }, r.2)
    | [] =>
      let r := h.alloc out
      ({ r.1 with pool := [r.2.id] }, r.2)
  | .aliasInput =>
    if out.length ≤ inp.len ∧ (h.read inp).drop (inp.len - out.length) = out then
      (h, { id := inp.id, off := inp.off + (inp.len - out.length), len := out.length })
    else h.alloc out

/-- which function crosses the boundary: `Compressor.Encode`, `Compressor.Decode`, or the receive
    path of a connection (`readHeader` + `readFrame`, whose result is the body the framer keeps) -/
inductive Dir
  | enc | dec | recv
  deriving DecidableEq, Repr

/-- a result somebody still holds -/
structure Slot where
  dir  : Dir
  /-- what the caller passed -/
  arg  : Bytes
  /-- the caller's input buffer -/
  inp  : View
  /-- the slice the call returned -/
  res  : View
  /-- the value the call returned (its bytes at the moment of the return) -/
  want : Bytes

def lookupSlot (k : Nat) : List (Nat × Slot) → Option Slot
  | [] => none
  | (k', sl) :: r => if k' = k then some sl else lookupSlot k r

def eraseSlot (k : Nat) : List (Nat × Slot) → List (Nat × Slot)
  | [] => []
  | (k', sl) :: r => if k' = k then eraseSlot k r else (k', sl) :: eraseSlot k r

structure St where
  heap  : Heap
  slots : List (Nat × Slot)

def St.init : St := { heap := Heap.empty, slots := [] }

def St.lookup (s : St) (k : Nat) : Option Slot := lookupSlot k s.slots

/-- op `chk`: what the holder of slot `k` reads now -/
def St.chk (s : St) (k : Nat) : Option Bytes := (s.lookup k).map fun sl => s.heap.read sl.res

/-- op `inchk`: what the caller's input buffer of slot `k` shows now -/
def St.input (s : St) (k : Nat) : Option Bytes := (s.lookup k).map fun sl => s.heap.read sl.inp

inductive Op
  /-- the caller fills a buffer of its own with `x`, calls the function, keeps the result in `slot`
      (an error result is not kept) -/
  | hold (slot : Nat) (dir : Dir) (x : Bytes)
  /-- the holder lets go -/
  | drop (slot : Nat)
  /-- the caller reuses its input buffer AFTER the call: `in[i] ^= x` -/
  | mutIn (slot i : Nat) (x : UInt8)

def Op.touches (k : Nat) : Op → Bool
  | .hold k' _ _ => k' == k
  | .drop k' => k' == k
  | .mutIn _ _ _ => false

/-- one step; `F` is the function table (the codec is a parameter, as everywhere in C18) -/
def step (d : Discipline) (F : Dir → Bytes → Except Unit Bytes) (s : St) : Op → St
  | .hold k dir x =>
    let a := s.heap.alloc x
    match F dir x with
    | .error _ => { heap := a.1, slots := eraseSlot k s.slots }
    | .ok out =>
      let p := a.1.place d a.2 out
      { heap := p.1,
        slots := (k, { dir := dir, arg := x, inp := a.2, res := p.2, want := out }) :: eraseSlot k s.slots }
  | .drop k => { s with slots := eraseSlot k s.slots }
  | .mutIn k i x =>
    match s.lookup k with
    | none => s
    | some sl => if i < sl.inp.len then { s with heap := s.heap.poke sl.inp.id (sl.inp.off + i) x } else s

def run (d : Discipline) (F : Dir → Bytes → Except Unit Bytes) (ops : List Op) : St :=
  ops.foldl (step d F) St.init

/-- the function table of a connection with framer `f` (its compressor `c`) -/
def connF (f : Framer) (c : Codec) : Dir → Bytes → Except Unit Bytes
  | .enc, x => c.enc x
  | .dec, y => c.dec y
  | .recv, w => match f.decode w with
    | .ok (_, b) => .ok b
    | .error _ => .error ()

/-- the compressor of the model's own peers (driver, examples): one tag byte in front. It round-trips
    and never fails; by the codec-parametric theorems any such codec stands for snappy / lz4. -/
def tagCodec : Codec :=
  { enc := fun x => .ok (0x5A :: x),
    dec := fun y => match y with
      | 0x5A :: x => .ok x
      | _ => .error () }

end Compress
