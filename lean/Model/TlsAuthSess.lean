/-
  Model of SEVERAL connections of one gocql session (conn.go `Session.connect` → `Session.dial` →
  `dialWithoutObserver` → `Conn.init`; control.go `discoverProtocol` / `controlConn.connect`): every connection is
  handed a `*ConnConfig` — pool connections the session-wide object `Session.connCfg` itself, the control connection
  a COPY of it made at that moment — and `Conn.init` decides from it (and from the host) which authenticator the
  connection uses.  The state of the session machine below is exactly that shared object's authentication part.
  Hand-written, core Lean only; tied to the source by `harness/cmd/c20` (ops `sessauth`, `sessx`).
-/
import Model.TlsAuth
namespace TlsAuth

/-- how a connection is opened: `Session.connect` (pool connections: `c.cfg` IS the session-wide `*ConnConfig`) or by
    the control connection (`connCfg := *c.session.connCfg`: `c.cfg` points to a copy made at that moment) -/
inductive Via | pool | control
  deriving DecidableEq, Repr

/-- one connection attempt of the session: how, to which host, and what the node at that host answers -/
structure Dial where
  via : Via
  host : Nat
  fs : List SFrame
  deriving DecidableEq, Repr

/-- `Conn.init` as a step on the configuration object the connection was handed (`c.cfg`): the code that exists
    READS `Authenticator` / `AuthProvider` and writes nothing back; the authenticator it resolved lives in the
    connection (`c.auth`) only -/
def initConn (c : AuthCfg) (host : Nat) (fs : List SFrame) : AuthCfg × Trace := (c, connect c host fs)

/-- one connection of a session whose `Conn.init` is `init`; the state is the session-wide configuration object.
    A pool connection works on the object itself (what `init` leaves in it is what the next connection sees), the
    control connection on a copy (what `init` does to the copy is dropped with it). -/
def sessStep (init : AuthCfg → Nat → List SFrame → AuthCfg × Trace) (shared : AuthCfg) (d : Dial) : AuthCfg × Trace :=
  let r := init shared d.host d.fs
  (match d.via with
   | .pool => r.1
   | .control => shared, r.2)

/-- the connections of a session in the order they are opened: the trace of each -/
def sessRun (init : AuthCfg → Nat → List SFrame → AuthCfg × Trace) (shared : AuthCfg) : List Dial → List Trace
  | [] => []
  | d :: ds => (sessStep init shared d).2 :: sessRun init (sessStep init shared d).1 ds

/-- the session-wide configuration object after the connections were opened -/
def sessFinal (init : AuthCfg → Nat → List SFrame → AuthCfg × Trace) (shared : AuthCfg) : List Dial → AuthCfg
  | [] => shared
  | d :: ds => sessFinal init (sessStep init shared d).1 ds

/-- the code that exists -/
def session (cfg : AuthCfg) (ds : List Dial) : List Trace := sessRun initConn cfg ds

/-- NOT the code: the variant of `Conn.init` that stores the authenticator obtained from the AuthProvider in the
    configuration object it was handed (`if c.cfg.Authenticator == nil && c.cfg.AuthProvider != nil { …;
    c.cfg.Authenticator = auth }; c.auth = c.cfg.Authenticator`) — the "resolve once, keep it" design.  Modelled to
    show what the per-host theorem excludes (C20_cex_pinned_auth). -/
def initPinned (c : AuthCfg) (host : Nat) (fs : List SFrame) : AuthCfg × Trace :=
  match c.static, c.provider with
  | none, some f =>
    match f host with
    | .err _ => (c, { Trace.stop .errProvider with provCalls := [host] })
    | .auth a => ({ c with static := a }, { handshake a fs with provCalls := [host] })
  | _, _ => (c, handshake c.static fs)

/-! #### what the property demands of a session with several hosts (stated without the handshake code) -/

namespace Spec

/-- a node of the scenarios: it demands authentication advertising the authenticator class `cls` and accepts the
    first token it is sent, or it demands none -/
inductive Node
  | auth (cls : List UInt8)
  | noauth
  deriving DecidableEq, Repr

def Node.script : Node → List SFrame
  | .auth cls => [.supported, .authenticate cls, .authSuccess []]
  | .noauth => [.supported, .ready]

/-- what is observed of one connection: the hosts the AuthProvider was consulted for, the first AUTH_RESPONSE token
    the node received, whether the connection was established -/
structure Obs where
  prov : List Nat
  token : Option (List UInt8)
  ready : Bool
  deriving DecidableEq, Repr

/-- what THE HOST'S OWN credentials (`Spec.credentials cfg host`: the provider's answer for this host, else the
    static Authenticator) make of a node: the token of ITS authenticator and only if ITS allow-list approves the
    class the node advertises; a function of (configuration, host, node) — no connection opened before or after
    matters -/
def expectFor (cfg : AuthCfg) (host : Nat) (n : Node) : Obs :=
  let prov := if cfg.provider.isSome then [host] else []
  match credentials cfg host, n with
  | none, _ => ⟨prov, none, false⟩                       -- the provider failed for this host: nothing is sent
  | some _, .noauth => ⟨prov, none, true⟩
  | some none, .auth _ => ⟨prov, none, false⟩            -- no credentials for this host
  | some (some (.pw p)), .auth cls =>
    if approve cls p.allowed then ⟨prov, some (plainToken p.user p.pass), true⟩ else ⟨prov, none, false⟩
  | some (some (.custom [] _)), .auth _ => ⟨prov, none, false⟩
  | some (some (.custom (r :: _) sf)), .auth _ =>
    if r.fail then ⟨prov, none, false⟩ else ⟨prov, some r.resp, r.last || !sf⟩

end Spec

/-- the first AUTH_RESPONSE token among the requests written -/
def firstToken : List Sent → Option (List UInt8)
  | [] => none
  | .authResponse t :: _ => some t
  | _ :: r => firstToken r

/-- the observation of a trace -/
def observe (t : Trace) : Spec.Obs := ⟨t.provCalls, firstToken t.sent, t.outcome = .ready⟩

end TlsAuth
