/-
  Model of /repo/session.go `Session.routingKeyInfo` (from the metadata of a prepared statement to
  the partition-key value indexes and types), `createRoutingKey` and `Query.GetRoutingKey` /
  `Batch.GetRoutingKey`, and of the token ring order (`newTokenRing`: `sort.Sort` with `token.Less`).

  Generic in the column type `τ`, the bound Go value `ν` and the component encoder `enc`
  (gocql.Marshal — the subject of C02/C12; the driver instantiates it with `Marshal.marshal`).
-/
import Model.Token
namespace Routing

abbrev Bytes := List UInt8

/-- outcome of `Marshal(type, value)`: bytes (or nil), an error, a run-time panic -/
inductive Enc
  | ok (b : Option Bytes)
  | err
  | crash

/-- one bind marker of the statement (`ColumnInfo`: name and type; keyspace/table are per statement) -/
structure Col (τ : Type) where
  name : String
  ty : τ

/-- `preparedMetadata` of the request: the bind markers in statement order, the partition-key
    bind indexes (protocol ≥ 4; empty otherwise or when the statement does not bind the whole key),
    keyspace and table (empty without the global table spec). -/
structure Meta (τ : Type) where
  cols : List (Col τ)
  pkeys : List Nat
  keyspace : String
  table : String

/-- `routingKeyInfo` -/
structure Info (τ : Type) where
  indexes : List Nat
  types : List τ
  keyspace : String
  table : String

inductive InfoRes (τ : Type)
  | none                 -- (nil, nil): no routing key, no error
  | info (i : Info τ)
  | errMeta              -- ErrNoMetadata (table not in the keyspace metadata)
  | crash                -- index out of range

/-- protocol-4 branch: `for i, col := range pkeyColumns { types[i] = columns[col].TypeInfo }` -/
def typesAt {τ : Type} (cols : List (Col τ)) : List Nat → Option (List τ)
  | [] => some []
  | i :: is =>
    match cols[i]? with
    | none => none
    | some c =>
      match typesAt cols is with
      | some ts => some (c.ty :: ts)
      | none => none

/-- schema branch, inner loop: the FIRST bound column with that name (`break`) -/
def findBound {τ : Type} (name : String) : List (Col τ) → Nat → Option (Nat × τ)
  | [], _ => none
  | c :: cs, k => if c.name = name then some (k, c.ty) else findBound name cs (k + 1)

/-- schema branch, outer loop over the partition key columns of the table; a key column that is
    not bound ends it with (nil, nil) -/
def byName {τ : Type} (cols : List (Col τ)) : List String → Option (List Nat × List τ)
  | [] => some ([], [])
  | n :: ns =>
    match findBound n cols 0 with
    | none => none
    | some (i, t) =>
      match byName cols ns with
      | some (is, ts) => some (i :: is, t :: ts)
      | none => none

/-- `Session.routingKeyInfo` after the statement has been prepared. `schema` = the partition key
    column names of `Tables[table]` in the keyspace metadata, `none` when the table is not there. -/
def routingKeyInfo {τ : Type} (m : Meta τ) (schema : Option (List String)) : InfoRes τ :=
  if m.cols.isEmpty then .none
  else if !m.pkeys.isEmpty then
    match typesAt m.cols m.pkeys with
    | some ts => .info ⟨m.pkeys, ts, m.keyspace, m.table⟩
    | none => .crash
  else
    match schema with
    | none => .errMeta
    | some pk =>
      match byName m.cols pk with
      | some (is, ts) => .info ⟨is, ts, m.keyspace, m.table⟩
      | none => .none

inductive KeyRes
  | nokey                      -- (nil, nil) because there is no routing key info
  | key (b : Option Bytes)     -- the routing key (`none`: a nil key from a nil single component)
  | errMarshal
  | errMeta
  | errValues                  -- a key marker has no bound value (repaired code, KF-C09-1): an error, no panic
  | crash
  deriving DecidableEq

/-- `Marshal(types[i], values[indexes[i]])`: the index expression is evaluated first -/
def encAt {τ ν : Type} (enc : τ → ν → Enc) (vals : List ν) (t : τ) (i : Nat) : Enc :=
  match vals[i]? with
  | none => .crash
  | some v => enc t v

def bytesOf : Option Bytes → Bytes
  | some b => b
  | none => []

/-- composite branch of `createRoutingKey`: per component `uint16(len)`, bytes, 0 -/
def compositeLoop {τ ν : Type} (enc : τ → ν → Enc) (vals : List ν) : List Nat → List τ → Bytes → KeyRes
  | [], _, acc => .key (some acc)
  | _ :: _, [], _ => .crash
  | i :: is, t :: ts, acc =>
    match encAt enc vals t i with
    | .ok b => compositeLoop enc vals is ts (acc ++ (Token.be16 ((bytesOf b).length % 65536) ++ bytesOf b ++ [0]))
    | .err => .errMarshal
    | .crash => .crash

/-- the body of `createRoutingKey` behind its guard: one index ↦ the raw encoded value, otherwise composite -/
def createRoutingKeyCore {τ ν : Type} (enc : τ → ν → Enc) (info : Info τ) (vals : List ν) : KeyRes :=
  match info.indexes, info.types with
  | [i], t :: _ =>
    match encAt enc vals t i with
    | .ok b => .key b
    | .err => .errMarshal
    | .crash => .crash
  | [_], [] => .crash
  | is, ts => compositeLoop enc vals is ts []

/-- `createRoutingKey` for a non-nil info (repaired, props/C09.fix-KF-C09-1.diff): FIRST every partition-key marker index is
    checked against the bound values - an index beyond them is an error, before anything is marshalled -, then the key -/
def createRoutingKey {τ ν : Type} (enc : τ → ν → Enc) (info : Info τ) (vals : List ν) : KeyRes :=
  if info.indexes.any (fun i => decide (vals.length ≤ i)) then .errValues
  else createRoutingKeyCore enc info vals

/-- `Query.GetRoutingKey` (no explicit key) / `Batch.GetRoutingKey` (first entry) -/
def getRoutingKey {τ ν : Type} (enc : τ → ν → Enc) (m : Meta τ) (schema : Option (List String))
    (vals : List ν) : KeyRes :=
  match routingKeyInfo m schema with
  | .none => .nokey
  | .errMeta => .errMeta
  | .crash => .crash
  | .info i => createRoutingKey enc i vals

/-! ### Specification -/

/-- SPEC: the encoded partition key component bound to marker `i`: the value bound to THAT marker
    encoded with the type of THAT marker's column; defined when it is a (non-null) byte string -/
def Spec.component {τ ν : Type} (enc : τ → ν → Enc) (cols : List (Col τ)) (vals : List ν) (i : Nat) : Option Bytes :=
  match cols[i]?, vals[i]? with
  | some c, some v =>
    match enc c.ty v with
    | .ok (some b) => some b
    | _ => none
  | _, _ => none

/-- SPEC: the first bind marker whose column has that name -/
def Spec.firstMarker {τ : Type} (name : String) (cols : List (Col τ)) : Option Nat :=
  cols.findIdx? (fun c => decide (c.name = name))

/-! ### the table's partition key from the schema rows (metadata.go compileV2Metadata) -/

/-- `componentColumnCountOfType`: the largest position + 1 (rows: name, position of the partition-key columns).
    Generic in the type `α` of column names (`String` for op rkm, byte strings for op rkn). -/
def pkCount {α : Type} : List (α × Nat) → Nat
  | [] => 0
  | (_, p) :: r => max (p + 1) (pkCount r)

/-- `table.PartitionKey[column.ComponentIndex] = column` for every partition-key column row, in arrival order -/
def place {α : Type} : List (α × Nat) → List (Option α) → List (Option α)
  | [], a => a
  | (n, p) :: r, a => place r (a.set p (some n))

/-- `TableMetadata.PartitionKey` (names; `none` = a nil entry) -/
def schemaPartitionKey {α : Type} (pk : List (α × Nat)) : List (Option α) :=
  place pk (List.replicate (pkCount pk) none)

/-! ### token ring order (token.go `newTokenRing`: parse every token string, `sort.Sort`) -/

def intLe (a b : Int) : Bool := decide (a ≤ b)
def natLe (a b : Nat) : Bool := decide (a ≤ b)
def lexLe (a b : List UInt8) : Bool := !Token.lexLt b a

def ringSortInt (l : List Int) : List Int := l.mergeSort intLe
def ringSortNat (l : List Nat) : List Nat := l.mergeSort natLe
def ringSortLex (l : List (List UInt8)) : List (List UInt8) := l.mergeSort lexLe

end Routing
