/-
C10 — two mutators of `tokenAwareHostPolicy` on two goroutines.  Every mutator (AddHost, AddHosts, RemoveHost,
SetPartitioner, KeyspaceChanged) is `t.mu.Lock(); …; t.mu.Unlock()` around a sequence of micro-steps that read and
write the shared fields (t.hosts, t.partitioner, t.metadata) and a goroutine-local copy (`meta`, the result of
getMetadataForUpdate).  The machine below interleaves two such goroutines step by step under the mutex; a mutator is a
LIST of critical sections so that variants which give the lock up in between can be expressed as well.

Core Lean only.
-/
import Model.PlacementPol
namespace PlacementConc
open Placement PlacementPol

/-- a micro-step: acts on the shared state and on the goroutine's local state -/
abbrev Micro (σ L : Type) := σ → L → σ × L

/-- a goroutine running one mutator: the critical sections still to run (the head is the current one while `holding`) -/
structure Thr (σ L : Type) where
  secs : List (List (Micro σ L))
  holding : Bool
  loc : L

structure Mach (σ L : Type) where
  sh : σ
  thr : Bool → Thr σ L

def setThr {σ L : Type} (m : Mach σ L) (x : Bool) (t : Thr σ L) : Mach σ L :=
  { m with thr := fun z => if z = x then t else m.thr z }

/-- one scheduling decision: goroutine `x` makes its next step — `Lock` (blocked = no step while the other goroutine
holds the mutex), a micro-step of its critical section, or `Unlock` at the section's end; a finished goroutine idles -/
def step {σ L : Type} (m : Mach σ L) (x : Bool) : Mach σ L :=
  let t := m.thr x
  match t.secs with
  | [] => m
  | sec :: rest =>
    if t.holding = false then
      (if (m.thr (!x)).holding then m else setThr m x { t with holding := true })
    else
      match sec with
      | [] => setThr m x { t with secs := rest, holding := false }
      | f :: fs =>
        let r := f m.sh t.loc
        { setThr m x { t with secs := fs :: rest, loc := r.2 } with sh := r.1 }

def run {σ L : Type} (m : Mach σ L) (sched : List Bool) : Mach σ L := sched.foldl step m

/-- running micro-steps one after the other -/
def exec {σ L : Type} (p : List (Micro σ L)) (st : σ × L) : σ × L := p.foldl (fun st f => f st.1 st.2) st

/-- both goroutines before their first step; `progs x` = the critical sections of goroutine `x` -/
def start {σ L : Type} (s : σ) (l0 : L) (progs : Bool → List (List (Micro σ L))) : Mach σ L :=
  { sh := s, thr := fun x => { secs := progs x, holding := false, loc := l0 } }

/-! ## the mutators of the policy as micro-steps on (PolState, local `meta`) -/

/-- `meta := t.getMetadataForUpdate()`: a copy of the stored metadata (ring, replicas; with the ghost field) -/
def snapshot : Micro PolState (Option PolState) := fun sh _ => (sh, some sh)

/-- `t.updateReplicas(meta, ks)` on the local copy; reads the schema (the environment) -/
def compute (ks : Nat) : Micro PolState (Option PolState) := fun sh l =>
  (sh, l.map (fun c => updateReplicas { c with schema := sh.schema } ks))

/-- `t.metadata.Store(meta)` (a panic inside updateReplicas stores nothing) -/
def store : Micro PolState (Option PolState) := fun sh l =>
  match l with
  | none => (sh, none)
  | some c =>
    (if c.crashed then { sh with crashed := true }
     else { sh with ring := c.ring, replicas := c.replicas, fresh := c.fresh }, none)

/-- every other mutator runs entirely inside one critical section; its body is taken as one micro-step -/
def whole (e : PolEvent) : Micro PolState (Option PolState) := fun sh l => (polStep sh e, l)

/-- KeyspaceChanged as in policies.go: Lock; snapshot; updateReplicas; Store; Unlock -/
def kcLocked (ks : Nat) : List (List (Micro PolState (Option PolState))) :=
  [[fun sh l => if sh.crashed then (sh, none) else snapshot sh l, compute ks, store]]

/-- the variant that computes outside the mutex: Lock; snapshot; Unlock; updateReplicas; Lock; Store; Unlock -/
def kcUnlocked (ks : Nat) : List (List (Micro PolState (Option PolState))) :=
  [[fun sh l => if sh.crashed then (sh, none) else snapshot sh l], [compute ks, store]]

/-- the critical sections of a mutator -/
def progOf : PolEvent → List (List (Micro PolState (Option PolState)))
  | .keyspaceChanged ks => kcLocked ks
  | e => [[whole e]]

end PlacementConc
