/-
Model of gocql's two schema type-string parsers (property C05: no bytes from the network can
crash the application), outcome + result tree:

* metadata.go:1200-1489  `parseType` / `typeParser` (Cassandra 2.x validator / comparator class
  strings such as `org.apache.cassandra.db.marshal.CompositeType(...)`), as a recursive-descent
  model.  The Go parser keeps `(input, index)`; the model keeps the REMAINING input (the suffix
  `input[index:]`), so `index = len(input) - len(suffix)`, `index == len(input)` is `suffix = []`
  and `t.input[t.index]` is the head of the suffix — an index-out-of-range panic exactly when the
  suffix is empty.  "backup" (`t.index = backupIndex`) is "continue from the saved suffix".
* helpers.go:157-250 `getCassandraType` / `getCassandraBaseType` / `splitCompositeTypes` /
  `apacheToCassandraType`, metadata.go `getTypeInfo`.

Strings are byte strings: `List Nat` (one element per byte; the theorems hold for every list of
naturals, a superset).  Every index / slice expression of the Go code is an explicit check here:
where the Go code has no guard the model returns `crash site`; where the Go code's slice bounds
are always fine the model still carries the check (`inputSlice`, `paramsSlice`, `nameSlice`) and
Proofs/C05TypeStr.lean proves those sites unreachable.

The model describes the code AFTER the repairs of KF-C05-1..3 (parseParamNodes checks for the end of
the input before each of its three reads; parse / asTypeInfo check the parameter count before
`params[count-1]`, `params[0]`, `params[1]` and skip an unnamed ColumnToCollectionType parameter) and of
KF-C05-4 (apacheToCassandraType translates each class name where it stands).

TERMINATION.  The Go code terminates on every input (every loop iteration / recursive call consumes
at least one input byte); the model uses fuel only to stay structurally recursive (kernel
evaluation by `decide`), and `fuel` running out is proved impossible for the fuel the entry points
pass (`|input| + 1`).  NOT modelled: Go's goroutine stack limit (recursion depth is linear in the
input length: a 100 MB type string nested 10^7 deep overflows the 1 GB stack, which is fatal).
-/
namespace TypeStr

abbrev Str := List Nat

/-- "org.apache.cassandra.db.marshal.ReversedType" -/
def kREVERSED : Str := [111, 114, 103, 46, 97, 112, 97, 99, 104, 101, 46, 99, 97, 115, 115, 97, 110, 100, 114, 97, 46, 100, 98, 46, 109, 97, 114, 115, 104, 97, 108, 46, 82, 101, 118, 101, 114, 115, 101, 100, 84, 121, 112, 101]

/-- "org.apache.cassandra.db.marshal.CompositeType" -/
def kCOMPOSITE : Str := [111, 114, 103, 46, 97, 112, 97, 99, 104, 101, 46, 99, 97, 115, 115, 97, 110, 100, 114, 97, 46, 100, 98, 46, 109, 97, 114, 115, 104, 97, 108, 46, 67, 111, 109, 112, 111, 115, 105, 116, 101, 84, 121, 112, 101]

/-- "org.apache.cassandra.db.marshal.ColumnToCollectionType" -/
def kCOLLECTION : Str := [111, 114, 103, 46, 97, 112, 97, 99, 104, 101, 46, 99, 97, 115, 115, 97, 110, 100, 114, 97, 46, 100, 98, 46, 109, 97, 114, 115, 104, 97, 108, 46, 67, 111, 108, 117, 109, 110, 84, 111, 67, 111, 108, 108, 101, 99, 116, 105, 111, 110, 84, 121, 112, 101]

/-- "org.apache.cassandra.db.marshal.ListType" -/
def kLISTT : Str := [111, 114, 103, 46, 97, 112, 97, 99, 104, 101, 46, 99, 97, 115, 115, 97, 110, 100, 114, 97, 46, 100, 98, 46, 109, 97, 114, 115, 104, 97, 108, 46, 76, 105, 115, 116, 84, 121, 112, 101]

/-- "org.apache.cassandra.db.marshal.SetType" -/
def kSETT : Str := [111, 114, 103, 46, 97, 112, 97, 99, 104, 101, 46, 99, 97, 115, 115, 97, 110, 100, 114, 97, 46, 100, 98, 46, 109, 97, 114, 115, 104, 97, 108, 46, 83, 101, 116, 84, 121, 112, 101]

/-- "org.apache.cassandra.db.marshal.MapType" -/
def kMAPT : Str := [111, 114, 103, 46, 97, 112, 97, 99, 104, 101, 46, 99, 97, 115, 115, 97, 110, 100, 114, 97, 46, 100, 98, 46, 109, 97, 114, 115, 104, 97, 108, 46, 77, 97, 112, 84, 121, 112, 101]

/-- "org.apache.cassandra.db.marshal." -/
def kAPACHE : Str := [111, 114, 103, 46, 97, 112, 97, 99, 104, 101, 46, 99, 97, 115, 115, 97, 110, 100, 114, 97, 46, 100, 98, 46, 109, 97, 114, 115, 104, 97, 108, 46]

/-- "frozen<" -/
def kfrozenLt : Str := [102, 114, 111, 122, 101, 110, 60]

/-- "set<" -/
def ksetLt : Str := [115, 101, 116, 60]

/-- "list<" -/
def klistLt : Str := [108, 105, 115, 116, 60]

/-- "map<" -/
def kmapLt : Str := [109, 97, 112, 60]

/-- "tuple<" -/
def ktupleLt : Str := [116, 117, 112, 108, 101, 60]

/-- ", " -/
def kcommaSp : Str := [44, 32]

/-- helpers.go getApacheCassandraType's switch (after TrimPrefix of the package prefix) -/
def apacheTable : List (Str × Nat) := [
  ([65, 115, 99, 105, 105, 84, 121, 112, 101], 1) /- AsciiType -/,
  ([76, 111, 110, 103, 84, 121, 112, 101], 2) /- LongType -/,
  ([66, 121, 116, 101, 115, 84, 121, 112, 101], 3) /- BytesType -/,
  ([66, 111, 111, 108, 101, 97, 110, 84, 121, 112, 101], 4) /- BooleanType -/,
  ([67, 111, 117, 110, 116, 101, 114, 67, 111, 108, 117, 109, 110, 84, 121, 112, 101], 5) /- CounterColumnType -/,
  ([68, 101, 99, 105, 109, 97, 108, 84, 121, 112, 101], 6) /- DecimalType -/,
  ([68, 111, 117, 98, 108, 101, 84, 121, 112, 101], 7) /- DoubleType -/,
  ([70, 108, 111, 97, 116, 84, 121, 112, 101], 8) /- FloatType -/,
  ([73, 110, 116, 51, 50, 84, 121, 112, 101], 9) /- Int32Type -/,
  ([83, 104, 111, 114, 116, 84, 121, 112, 101], 19) /- ShortType -/,
  ([66, 121, 116, 101, 84, 121, 112, 101], 20) /- ByteType -/,
  ([84, 105, 109, 101, 84, 121, 112, 101], 18) /- TimeType -/,
  ([68, 97, 116, 101, 84, 121, 112, 101], 11) /- DateType -/,
  ([84, 105, 109, 101, 115, 116, 97, 109, 112, 84, 121, 112, 101], 11) /- TimestampType -/,
  ([85, 85, 73, 68, 84, 121, 112, 101], 12) /- UUIDType -/,
  ([76, 101, 120, 105, 99, 97, 108, 85, 85, 73, 68, 84, 121, 112, 101], 12) /- LexicalUUIDType -/,
  ([85, 84, 70, 56, 84, 121, 112, 101], 13) /- UTF8Type -/,
  ([73, 110, 116, 101, 103, 101, 114, 84, 121, 112, 101], 14) /- IntegerType -/,
  ([84, 105, 109, 101, 85, 85, 73, 68, 84, 121, 112, 101], 15) /- TimeUUIDType -/,
  ([73, 110, 101, 116, 65, 100, 100, 114, 101, 115, 115, 84, 121, 112, 101], 16) /- InetAddressType -/,
  ([77, 97, 112, 84, 121, 112, 101], 33) /- MapType -/,
  ([76, 105, 115, 116, 84, 121, 112, 101], 32) /- ListType -/,
  ([83, 101, 116, 84, 121, 112, 101], 34) /- SetType -/,
  ([84, 117, 112, 108, 101, 84, 121, 112, 101], 49) /- TupleType -/,
  ([68, 117, 114, 97, 116, 105, 111, 110, 84, 121, 112, 101], 21) /- DurationType -/]

/-- helpers.go getCassandraBaseType's switch -/
def baseTable : List (Str × Nat) := [
  ([97, 115, 99, 105, 105], 1) /- ascii -/,
  ([98, 105, 103, 105, 110, 116], 2) /- bigint -/,
  ([98, 108, 111, 98], 3) /- blob -/,
  ([98, 111, 111, 108, 101, 97, 110], 4) /- boolean -/,
  ([99, 111, 117, 110, 116, 101, 114], 5) /- counter -/,
  ([100, 97, 116, 101], 17) /- date -/,
  ([100, 101, 99, 105, 109, 97, 108], 6) /- decimal -/,
  ([100, 111, 117, 98, 108, 101], 7) /- double -/,
  ([100, 117, 114, 97, 116, 105, 111, 110], 21) /- duration -/,
  ([102, 108, 111, 97, 116], 8) /- float -/,
  ([105, 110, 116], 9) /- int -/,
  ([115, 109, 97, 108, 108, 105, 110, 116], 19) /- smallint -/,
  ([116, 105, 110, 121, 105, 110, 116], 20) /- tinyint -/,
  ([116, 105, 109, 101], 18) /- time -/,
  ([116, 105, 109, 101, 115, 116, 97, 109, 112], 11) /- timestamp -/,
  ([117, 117, 105, 100], 12) /- uuid -/,
  ([118, 97, 114, 99, 104, 97, 114], 13) /- varchar -/,
  ([116, 101, 120, 116], 10) /- text -/,
  ([118, 97, 114, 105, 110, 116], 14) /- varint -/,
  ([116, 105, 109, 101, 117, 117, 105, 100], 15) /- timeuuid -/,
  ([105, 110, 101, 116], 16) /- inet -/,
  ([77, 97, 112, 84, 121, 112, 101], 33) /- MapType -/,
  ([76, 105, 115, 116, 84, 121, 112, 101], 32) /- ListType -/,
  ([83, 101, 116, 84, 121, 112, 101], 34) /- SetType -/,
  ([84, 117, 112, 108, 101, 84, 121, 112, 101], 49) /- TupleType -/]

/-- marshal.go Type.String() for the ids getApacheCassandraType can return -/
def typeNameTable : List (Nat × Str) := [
  (0, [99, 117, 115, 116, 111, 109]) /- custom -/,
  (1, [97, 115, 99, 105, 105]) /- ascii -/,
  (2, [98, 105, 103, 105, 110, 116]) /- bigint -/,
  (3, [98, 108, 111, 98]) /- blob -/,
  (4, [98, 111, 111, 108, 101, 97, 110]) /- boolean -/,
  (5, [99, 111, 117, 110, 116, 101, 114]) /- counter -/,
  (6, [100, 101, 99, 105, 109, 97, 108]) /- decimal -/,
  (7, [100, 111, 117, 98, 108, 101]) /- double -/,
  (8, [102, 108, 111, 97, 116]) /- float -/,
  (9, [105, 110, 116]) /- int -/,
  (10, [116, 101, 120, 116]) /- text -/,
  (11, [116, 105, 109, 101, 115, 116, 97, 109, 112]) /- timestamp -/,
  (12, [117, 117, 105, 100]) /- uuid -/,
  (13, [118, 97, 114, 99, 104, 97, 114]) /- varchar -/,
  (15, [116, 105, 109, 101, 117, 117, 105, 100]) /- timeuuid -/,
  (16, [105, 110, 101, 116]) /- inet -/,
  (17, [100, 97, 116, 101]) /- date -/,
  (21, [100, 117, 114, 97, 116, 105, 111, 110]) /- duration -/,
  (18, [116, 105, 109, 101]) /- time -/,
  (19, [115, 109, 97, 108, 108, 105, 110, 116]) /- smallint -/,
  (20, [116, 105, 110, 121, 105, 110, 116]) /- tinyint -/,
  (32, [108, 105, 115, 116]) /- list -/,
  (33, [109, 97, 112]) /- map -/,
  (34, [115, 101, 116]) /- set -/,
  (14, [118, 97, 114, 105, 110, 116]) /- varint -/,
  (49, [116, 117, 112, 108, 101]) /- tuple -/]

/-- crash sites: the index/slice expressions that carry no guard of their own in the Go code (the
proofs show their bounds always hold). The accesses `t.input[t.index]`, `ast.params[count-1]`,
`class.params[0]`, `class.params[1]`, `*param.name` are guarded in the Go code (an explicit check
right before each of them), so the model has a `fail` / custom-type branch there and no site. -/
inductive Site
  | inputSlice         -- parseClassNode: `t.input[startIndex:endIndex]`
  | paramsSlice        -- parse: `ast.params[:count]`
  | nameSlice          -- getCassandraType: `name[:len(name)-1]`
  | fuel               -- model artefact
deriving DecidableEq, Repr

/-- `<Go function>:<panic kind>` as printed by the harness (c05util.Guard) -/
def Site.label : Site → String
  | .inputSlice => "parseClassNode:slice"
  | .paramsSlice => "parse:slice"
  | .nameSlice => "getCassandraType:slice"
  | .fuel => "model:fuel"

inductive Out (α : Type)
  | ok (a : α)
  | fail            -- the parser's `ok == false`
  | crash (s : Site)

def Out.crashSite {α : Type} : Out α → Option Site
  | .crash s => some s
  | _ => none

/-- the type tree gocql builds (TypeInfo): NativeType{typ}, NativeType{TypeCustom, custom},
CollectionType, TupleTypeInfo -/
inductive Ty
  | native (t : Nat)
  | custom (s : Str)
  | list (e : Ty)
  | set (e : Ty)
  | map (k v : Ty)
  | tuple (es : List Ty)

/-- typeParserClassNode{name, params []typeParserParamNode{name *string, class}, input} -/
inductive Node
  | mk (name : Str) (params : List (Option Str × Node)) (input : Str)

def Node.name : Node → Str | .mk n _ _ => n
def Node.params : Node → List (Option Str × Node) | .mk _ p _ => p
def Node.input : Node → Str | .mk _ _ i => i

/-- isWhitespaceChar -/
def isWs (c : Nat) : Bool := c == 32 || c == 10 || c == 9

/-- isIdentifierChar -/
def isIdent (c : Nat) : Bool :=
  (48 ≤ c && c ≤ 57) || (97 ≤ c && c ≤ 122) || (65 ≤ c && c ≤ 90) ||
  c == 45 || c == 43 || c == 46 || c == 95 || c == 38

/-- skipWhitespace -/
def skipWs : Str → Str
  | [] => []
  | c :: r => if isWs c then skipWs r else c :: r

/-- nextIdentifier: (identifier, rest); found ⇔ identifier ≠ [] -/
def takeIdent : Str → Str × Str
  | [] => ([], [])
  | c :: r => if isIdent c then ((takeIdent r).1 |> (c :: ·), (takeIdent r).2) else ([], c :: r)

abbrev Params := List (Option Str × Node)

mutual
/-- parseClassNode (with parseParamNodes' prologue inlined) -/
def parseClass : Nat → Str → Out (Node × Str)
  | 0, _ => .crash .fuel
  | f+1, s =>
    let s0 := skipWs s
    let p := takeIdent s0
    if p.1.isEmpty then .fail else
    let s1 := skipWs p.2
    match s1 with
    | [] => if s1.length ≤ s0.length then .ok (.mk p.1 [] (s0.take (s0.length - s1.length)), s1) else .crash .inputSlice
    | c :: r =>
      if c != 40 then
        (if s1.length ≤ s0.length then .ok (.mk p.1 [] (s0.take (s0.length - s1.length)), s1) else .crash .inputSlice)
      else
        match paramLoop f (skipWs r) [] with
        | .ok (params, s2) =>
          if s2.length ≤ s0.length then .ok (.mk p.1 params (s0.take (s0.length - s2.length)), s2) else .crash .inputSlice
        | .fail => .fail
        | .crash x => .crash x
/-- the parameter loop of parseParamNodes (`for { if t.index == len(t.input) { return nil, false }; if
t.input[t.index] == ')' { break } … }`); `acc` is `params` reversed. The three `[] => .fail` arms are the
three end-of-input checks. -/
def paramLoop : Nat → Str → Params → Out (Params × Str)
  | 0, _, _ => .crash .fuel
  | f+1, s, acc =>
    match s with
    | [] => .fail
    | c :: r =>
      if c == 41 then .ok (acc.reverse, r) else
      let p := takeIdent s
      if p.1.isEmpty then .fail else
      match skipWs p.2 with
      | [] => .fail
      | c2 :: r2 =>
        let hasName := c2 == 58
        let s3 := if hasName then skipWs r2 else s
        match parseClass f s3 with
        | .ok (node, s4) =>
          (match skipWs s4 with
           | [] => .fail
           | c5 :: r5 =>
             let s6 := if c5 == 44 then skipWs r5 else c5 :: r5
             paramLoop f s6 ((if hasName then some p.1 else none, node) :: acc))
        | .fail => .fail
        | .crash x => .crash x
end

def lookup (tbl : List (Str × Nat)) (s : Str) : Option Nat :=
  match tbl with
  | [] => none
  | (k, v) :: r => if k == s then some v else lookup r s

def trimPrefix (p s : Str) : Str := if p.isPrefixOf s then s.drop p.length else s

/-- getApacheCassandraType: 0 = TypeCustom -/
def apacheType (cls : Str) : Nat := (lookup apacheTable (trimPrefix kAPACHE cls)).getD 0

/-- getCassandraBaseType -/
def baseType (name : Str) : Nat := (lookup baseTable name).getD 0

/-- typeParserClassNode.asTypeInfo: a ListType / SetType needs one parameter, a MapType two
(`&& len(class.params) >= 1|2`); without them the class falls through to the simple/custom tail, where a
collection id is turned into TypeCustom -/
def asTypeInfo : Node → Out Ty
  | .mk name params input =>
    if kLISTT.isPrefixOf name then
      match params with
      | [] => .ok (.custom input)
      | (_, c) :: _ =>
        match asTypeInfo c with
        | .ok e => .ok (.list e)
        | .fail => .fail
        | .crash x => .crash x
    else if kSETT.isPrefixOf name then
      match params with
      | [] => .ok (.custom input)
      | (_, c) :: _ =>
        match asTypeInfo c with
        | .ok e => .ok (.set e)
        | .fail => .fail
        | .crash x => .crash x
    else if kMAPT.isPrefixOf name then
      match params with
      | (_, k) :: (_, v) :: _ =>
        match asTypeInfo k with
        | .ok kt =>
          (match asTypeInfo v with
           | .ok vt => .ok (.map kt vt)
           | .fail => .fail
           | .crash x => .crash x)
        | .fail => .fail
        | .crash x => .crash x
      | [_] => .ok (.custom input)
      | [] => .ok (.custom input)
    else
      let t := apacheType name
      if t == 0 then .ok (.custom input)
      else if t == 0x20 || t == 0x21 || t == 0x22 then .ok (.custom input)
      else .ok (.native t)

/-- result of parseType: isComposite, (reversed, type) per component, collections sorted by name -/
structure PResult where
  isComposite : Bool
  types : List (Bool × Ty)
  collections : List (Str × Ty)

def hexVal (c : Nat) : Option Nat :=
  if 48 ≤ c && c ≤ 57 then some (c - 48)
  else if 97 ≤ c && c ≤ 102 then some (c - 87)
  else if 65 ≤ c && c ≤ 70 then some (c - 55)
  else none

/-- encoding/hex DecodeString: none on odd length or a non-hex byte -/
def hexDecode : Str → Option Str
  | [] => some []
  | [_] => none
  | a :: b :: r =>
    match hexVal a, hexVal b, hexDecode r with
    | some x, some y, some t => some ((x * 16 + y) :: t)
    | _, _, _ => none

def strLt : Str → Str → Bool
  | [], [] => false
  | [], _ :: _ => true
  | _ :: _, [] => false
  | a :: x, b :: y => if a < b then true else if b < a then false else strLt x y

/-- `collections[name] = ty` on an association list kept sorted by key (Go map: last write wins) -/
def insertColl (k : Str) (v : Ty) : List (Str × Ty) → List (Str × Ty)
  | [] => [(k, v)]
  | (k', v') :: r =>
    if k == k' then (k, v) :: r
    else if strLt k k' then (k, v) :: (k', v') :: r
    else (k', v') :: insertColl k v r

/-- the `for _, param := range last.class.params` loop of parse -/
def collLoop : Params → List (Str × Ty) → Out (List (Str × Ty))
  | [], acc => .ok acc
  | (name, cls) :: r, acc =>
    match name with
    | none => collLoop r acc   -- `if param.name == nil { continue }`
    | some nm =>
      let key := (hexDecode nm).getD nm
      match asTypeInfo cls with
      | .ok t => collLoop r (insertColl key t acc)
      | .fail => .fail
      | .crash x => .crash x

/-- one component: `reversed := HasPrefix(class.name, REVERSED_TYPE) && len(class.params) > 0; if reversed { class = class.params[0].class }` -/
def component (cls : Node) : Out (Bool × Ty) :=
  if kREVERSED.isPrefixOf cls.name then
    match cls.params with
    | [] =>
      (match asTypeInfo cls with
       | .ok t => .ok (false, t)
       | .fail => .fail
       | .crash x => .crash x)
    | (_, c) :: _ =>
      match asTypeInfo c with
      | .ok t => .ok (true, t)
      | .fail => .fail
      | .crash x => .crash x
  else
    match asTypeInfo cls with
    | .ok t => .ok (false, t)
    | .fail => .fail
    | .crash x => .crash x

/-- the `for i, param := range ast.params[:count]` loop of parse -/
def typesLoop : Params → Out (List (Bool × Ty))
  | [] => .ok []
  | (_, cls) :: r =>
    match component cls with
    | .ok c =>
      (match typesLoop r with
       | .ok cs => .ok (c :: cs)
       | .fail => .fail
       | .crash x => .crash x)
    | .fail => .fail
    | .crash x => .crash x

def customResult (input : Str) : PResult :=
  { isComposite := false, types := [(false, .custom input)], collections := [] }

/-- typeParser.parse on an already parsed AST -/
def interpret (input : Str) (ast : Node) : Out PResult :=
  if kCOMPOSITE.isPrefixOf ast.name then
    let params := ast.params
    match params.getLast? with
    | none => .ok (customResult input)   -- `if count == 0`: treated as a custom type
    | some (_, lastCls) =>
      let isColl := kCOLLECTION.isPrefixOf lastCls.name
      let count := if isColl then params.length - 1 else params.length
      match (if isColl then collLoop lastCls.params [] else .ok []) with
      | .ok colls =>
        if count ≤ params.length then
          (match typesLoop (params.take count) with
           | .ok ts => .ok { isComposite := true, types := ts, collections := colls }
           | .fail => .fail
           | .crash x => .crash x)
        else .crash .paramsSlice
      | .fail => .fail
      | .crash x => .crash x
  else
    match component ast with
    | .ok c => .ok { isComposite := false, types := [c], collections := [] }
    | .fail => .fail
    | .crash x => .crash x

/-- metadata.go parseType -/
def parseType (input : Str) : Out PResult :=
  match parseClass (input.length + 1) input with
  | .fail => .ok (customResult input)
  | .crash x => .crash x
  | .ok (ast, _) => interpret input ast

/-! ### helpers.go -/

/-- strings.Split(name, ", ") -/
def splitCS : Str → Str → List Str
  | [], cur => [cur.reverse]
  | [c], cur => [(c :: cur).reverse]
  | a :: b :: r, cur =>
    if a == 44 && b == 32 then cur.reverse :: splitCS r []
    else splitCS (b :: r) (a :: cur)

/-- the six ASCII white-space bytes of strings.TrimSpace -/
def isSpace (c : Nat) : Bool := c == 32 || c == 9 || c == 10 || c == 11 || c == 12 || c == 13

def trimLeft : Str → Str
  | [] => []
  | c :: r => if isSpace c then trimLeft r else c :: r

/-- strings.TrimSpace (ASCII; see the header about non-ASCII input) -/
def trimSpace (s : Str) : Str := (trimLeft (trimLeft s).reverse).reverse

/-- the rune loop of splitCompositeTypes; `seg` is `segment` reversed, `less` is lessCount -/
def splitLoop : Str → Str → Int → List Str
  | [], seg, _ => if seg.isEmpty then [] else [trimSpace seg.reverse]
  | c :: r, seg, less =>
    if c == 44 && less == 0 then
      (if seg.isEmpty then splitLoop r [] less else trimSpace seg.reverse :: splitLoop r [] less)
    else
      splitLoop r (c :: seg) (if c == 60 then less + 1 else if c == 62 then less - 1 else less)

/-- splitCompositeTypes -/
def splitComposite (name : Str) : List Str :=
  if name.contains 60 then splitLoop name [] 0 else splitCS name []

/-- `strings.TrimPrefix(name[:len(name)-1], p)` -/
def inner (p name : Str) : Out Str :=
  if 1 ≤ name.length then .ok (trimPrefix p (name.take (name.length - 1))) else .crash .nameSlice

/-- `for i, name := range names { types[i] = f(name) }` -/
def mapOut (g : Str → Out Ty) : List Str → Out (List Ty)
  | [] => .ok []
  | n :: ns =>
    match g n with
    | .ok t => (match mapOut g ns with | .ok ts => .ok (t :: ts) | .fail => .fail | .crash x => .crash x)
    | .fail => .fail
    | .crash x => .crash x

/-- getCassandraType -/
def getCT : Nat → Str → Out Ty
  | 0, _ => .crash .fuel
  | f+1, name =>
    if kfrozenLt.isPrefixOf name then
      match inner kfrozenLt name with
      | .ok s => getCT f s
      | .fail => .fail
      | .crash x => .crash x
    else if ksetLt.isPrefixOf name then
      match inner ksetLt name with
      | .ok s => (match getCT f s with | .ok e => .ok (.set e) | .fail => .fail | .crash x => .crash x)
      | .fail => .fail
      | .crash x => .crash x
    else if klistLt.isPrefixOf name then
      match inner klistLt name with
      | .ok s => (match getCT f s with | .ok e => .ok (.list e) | .fail => .fail | .crash x => .crash x)
      | .fail => .fail
      | .crash x => .crash x
    else if kmapLt.isPrefixOf name then
      match inner kmapLt name with
      | .ok s =>
        (match splitComposite s with
         | [a, b] =>
           (match getCT f a with
            | .ok k => (match getCT f b with | .ok v => .ok (.map k v) | .fail => .fail | .crash x => .crash x)
            | .fail => .fail
            | .crash x => .crash x)
         | _ => .ok (.native 0))
      | .fail => .fail
      | .crash x => .crash x
    else if ktupleLt.isPrefixOf name then
      match inner ktupleLt name with
      | .ok s => (match mapOut (getCT f) (splitComposite s) with | .ok es => .ok (.tuple es) | .fail => .fail | .crash x => .crash x)
      | .fail => .fail
      | .crash x => .crash x
    else .ok (.native (baseType name))

/-- helpers.go getCassandraType -/
def getCassandraType (name : Str) : Out Ty := getCT (name.length + 1) name

/-! ### apacheToCassandraType / getTypeInfo -/

/-- strings.Replace(s, old, new, -1) for non-empty `old`: non-overlapping, left to right.
`n` is fuel = |s| + 1 -/
def replaceAll (old new : Str) : Nat → Str → Str
  | 0, s => s
  | _, [] => []
  | n+1, c :: r =>
    if old.isPrefixOf (c :: r) then new ++ replaceAll old new n ((c :: r).drop old.length)
    else c :: replaceAll old new n r

def replace (s old new : Str) : Str := if old.isEmpty then s else replaceAll old new (s.length + 1) s

def typeName (t : Nat) : Str :=
  match typeNameTable.find? (fun p => p.1 == t) with
  | some p => p.2
  | none => []

/-- the translation loop of apacheToCassandraType: each class name (maximal run without `<`, `>`, `,`) is
replaced by its CQL name where it stands; `cur` reversed -/
def translateFields : Str → Str → Str
  | [], cur => if cur.isEmpty then [] else typeName (apacheType cur.reverse)
  | c :: r, cur =>
    if c == 60 || c == 62 || c == 44 then
      (if cur.isEmpty then [] else typeName (apacheType cur.reverse)) ++ c :: translateFields r []
    else translateFields r (c :: cur)

/-- helpers.go apacheToCassandraType -/
def apacheToCassandraType (t : Str) : Str :=
  let t1 := replace t kAPACHE []
  let t2 := replace t1 [40] [60]
  let t3 := replace t2 [41] [62]
  let t4 := translateFields t3 []
  replace t4 [44] kcommaSp

/-- metadata.go getTypeInfo -/
def getTypeInfo (t : Str) : Out Ty :=
  if kAPACHE.isPrefixOf t then getCassandraType (apacheToCassandraType t) else getCassandraType t

/-! ### canonical rendering (driver) -/

def hexDigit (n : Nat) : Char :=
  if n < 10 then Char.ofNat (48 + n) else Char.ofNat (87 + n)

def hexOf (s : Str) : String :=
  if s.isEmpty then "-" else String.ofList (s.foldr (fun b acc => hexDigit (b / 16 % 16) :: hexDigit (b % 16) :: acc) [])

mutual
def renderTy : Ty → String
  | .native t => if t == 0 then "c-" else "n" ++ toString t
  | .custom s => "c" ++ hexOf s
  | .list e => "L(" ++ renderTy e ++ ")"
  | .set e => "S(" ++ renderTy e ++ ")"
  | .map k v => "M(" ++ renderTy k ++ "," ++ renderTy v ++ ")"
  | .tuple es => "T(" ++ renderTys es ++ ")"
def renderTys : List Ty → String
  | [] => ""
  | [t] => renderTy t
  | t :: r => renderTy t ++ "," ++ renderTys r
end

def renderComp (c : Bool × Ty) : String := (if c.1 then "r:" else "") ++ renderTy c.2

def renderResult (r : PResult) : String :=
  (if r.isComposite then "C" else "S") ++ "[" ++ ",".intercalate (r.types.map renderComp) ++ "]" ++
  "{" ++ ",".intercalate (r.collections.map (fun p => hexOf p.1 ++ "=" ++ renderTy p.2)) ++ "}"

def renderOut {α : Type} (f : α → String) : Out α → String
  | .ok a => "ok:" ++ f a
  | .fail => "err"
  | .crash s => "crash:" ++ s.label

def bytesOfHex (bs : List UInt8) : Str := bs.map (·.toNat)

end TypeStr
