/-
  Model of the ROUTING-KEY INFO CACHE of /repo/session.go: `Session.routingKeyInfoCache` (an
  `internal/lru.Cache` keyed by the statement TEXT, `MaxEntries = ClusterConfig.MaxRoutingKeyInfo`)
  as `Session.routingKeyInfo` uses it, over a HISTORY of one session: several statements, the
  connection going away and coming back, the server's answer to PREPARE / the schema metadata of a
  statement's table changing, the size of the cache changing (`routingKeyInfoLRU.Max`), and the front
  of `Query.GetRoutingKey` / `Batch.GetRoutingKey` (explicit routing key, binding callbacks, empty batch).

  What the code does on a miss (session.go:611-): a NEW inflight entry is `Add`ed first (which may evict
  the least recently used statement), then the info is computed into that entry; `ErrNoMetadata` removes
  the entry again, and so does "no connection available" (AFTER the repair props/C09.fix-KF-C09-2.diff; the
  unrepaired code kept that error cached), a (nil, nil) outcome stays cached as an entry without value.  On a hit (`lru.Get` moves the entry to the front) the entry's
  error / value is returned without looking at the prepared statement or the schema again.
  Nothing ever invalidates an entry when the table's partition key changes.

  Generic in the column type `τ`, the bound value `ν`, the encoder `enc` (as Model/Routing.lean).
-/
import Model.Routing
namespace RoutingCache
open Routing

/-- a finished `inflightCachedEntry`: `value` a routingKeyInfo / nil, or `err` -/
inductive Entry (τ : Type)
  | info (i : Info τ)
  | nothing
  | errNoConn

/-- `lru.Cache`: the entries from the most recently used to the oldest; key = statement number -/
abbrev LRU (τ : Type) := List (Nat × Entry τ)

/-- what the server's PREPARE answer and the session's schema metadata say about a statement NOW -/
structure Stmt (τ : Type) where
  md : Meta τ
  schema : Option (List String)

structure State (τ : Type) where
  stmts : List (Stmt τ)
  up : Bool
  max : Nat          -- `MaxEntries`; 0 = no limit
  lru : LRU τ

def isKey {τ : Type} (k : Nat) (p : Nat × Entry τ) : Bool := p.1 == k

def lookup {τ : Type} (k : Nat) (l : LRU τ) : Option (Entry τ) := (l.find? (isKey k)).map (·.2)

/-- `lru.Remove` -/
def remove {τ : Type} (k : Nat) (l : LRU τ) : LRU τ := l.eraseP (isKey k)

/-- `lru.Add`: an existing key moves to the front with the new value; a new key is pushed to the front and the
    oldest entry goes when there are more than `MaxEntries` -/
def add {τ : Type} (max k : Nat) (e : Entry τ) (l : LRU τ) : LRU τ :=
  match lookup k l with
  | some _ => (k, e) :: remove k l
  | none =>
    let l' := (k, e) :: l
    if max != 0 && l'.length > max then l'.dropLast else l'

/-- the inflight entry is filled in place (`inflight.value = …`, `inflight.err = …`) -/
def setEntry {τ : Type} (k : Nat) (e : Entry τ) (l : LRU τ) : LRU τ :=
  l.map (fun p => if isKey k p then (k, e) else p)

/-- `routingKeyInfoLRU.Max(n)`: `for Len() > n { RemoveOldest() }; MaxEntries = n` -/
def trim {τ : Type} (n : Nat) (l : LRU τ) : LRU τ := l.take n

inductive InfoOut (τ : Type)
  | info (i : Info τ)
  | nothing             -- (nil, nil)
  | errMeta
  | errNoConn
  | crash

def entryOut {τ : Type} : Entry τ → InfoOut τ
  | .info i => .info i
  | .nothing => .nothing
  | .errNoConn => .errNoConn

/-- `Session.routingKeyInfo(stmt k)` with its cache -/
def routingKeyInfoC {τ : Type} (s : State τ) (k : Nat) : InfoOut τ × State τ :=
  match lookup k s.lru with
  | some e => (entryOut e, { s with lru := (k, e) :: remove k s.lru })
  | none =>
    match s.stmts[k]? with
    | none => (.crash, s)          -- not a statement of the session (never generated)
    | some st =>
      let l1 := add s.max k .nothing s.lru
      if !s.up then (.errNoConn, { s with lru := remove k l1 })   -- repaired (KF-C09-2): the error is not cached
      else match routingKeyInfo st.md st.schema with
        | .info i => (.info i, { s with lru := setEntry k (.info i) l1 })
        | .none => (.nothing, { s with lru := l1 })
        | .errMeta => (.errMeta, { s with lru := remove k l1 })
        | .crash => (.crash, { s with lru := l1 })   -- the panic leaves the entry without a value

inductive Out
  | res (r : KeyRes)
  | errNoConn
  deriving DecidableEq

def keyOut {τ ν : Type} (enc : τ → ν → Enc) (vals : List ν) : InfoOut τ → Out
  | .info i => .res (createRoutingKey enc i vals)
  | .nothing => .res .nokey
  | .errMeta => .res .errMeta
  | .errNoConn => .errNoConn
  | .crash => .res .crash

inductive Step (τ ν : Type)
  | use (k : Nat) (vals : List ν)                    -- Query(stmt k, vals…).GetRoutingKey() / a Batch whose first entry it is
  | useExplicit (key : Bytes) (k : Nat) (vals : List ν)   -- …with RoutingKey(key) set: the explicit key, cache not consulted
  | useBinding (k : Nat)                             -- Session.Bind / Batch.Bind (binding callback, no values yet): (nil, nil)
  | batchEmpty                                       -- a Batch without entries: (nil, nil)
  | down
  | up
  | setMax (n : Nat)
  | change (k : Nat) (st : Stmt τ)                   -- the table of statement k is dropped and re-created / re-prepared

def step {τ ν : Type} (enc : τ → ν → Enc) (s : State τ) : Step τ ν → Option Out × State τ
  | .use k vals => let r := routingKeyInfoC s k; (some (keyOut enc vals r.1), r.2)
  | .useExplicit key _ _ => (some (.res (.key (some key))), s)
  | .useBinding _ => (some (.res .nokey), s)
  | .batchEmpty => (some (.res .nokey), s)
  | .down => (none, { s with up := false })
  | .up => (none, { s with up := true })
  | .setMax n => (none, { s with max := n, lru := trim n s.lru })
  | .change k st => (none, { s with stmts := s.stmts.set k st })

def run {τ ν : Type} (enc : τ → ν → Enc) : State τ → List (Step τ ν) → List (Option Out)
  | _, [] => []
  | s, st :: rest => let r := step enc s st; r.1 :: run enc r.2 rest

/-! ### Specification: no cache — every use computes the key from what the server / schema say NOW -/

def Spec.stepOut {τ ν : Type} (enc : τ → ν → Enc) (stmts : List (Stmt τ)) : Step τ ν → Option Out
  | .use k vals => match stmts[k]? with
      | some st => some (.res (getRoutingKey enc st.md st.schema vals))
      | none => some (.res .crash)
  | .useExplicit key _ _ => some (.res (.key (some key)))
  | .useBinding _ => some (.res .nokey)
  | .batchEmpty => some (.res .nokey)
  | _ => none

def Spec.stmtsAfter {τ ν : Type} (stmts : List (Stmt τ)) : Step τ ν → List (Stmt τ)
  | .change k st => stmts.set k st
  | _ => stmts

def Spec.run {τ ν : Type} (enc : τ → ν → Enc) : List (Stmt τ) → List (Step τ ν) → List (Option Out)
  | _, [] => []
  | stmts, st :: rest => Spec.stepOut enc stmts st :: Spec.run enc (Spec.stmtsAfter stmts st) rest

/-- WITH connectivity: a use answers the key computed from what the server / schema say now, or - only while no
    connection is available - the "no connection available" error -/
def Spec.isUse {τ ν : Type} : Step τ ν → Bool
  | .use _ _ => true
  | _ => false

def Spec.accepts {τ ν : Type} (enc : τ → ν → Enc) (stmts : List (Stmt τ)) (up : Bool) (st : Step τ ν) (o : Option Out) : Bool :=
  decide (o = Spec.stepOut enc stmts st) || (!up && Spec.isUse st && decide (o = some .errNoConn))

def Spec.upAfter {τ ν : Type} (up : Bool) : Step τ ν → Bool
  | .down => false
  | .up => true
  | _ => up

def Spec.acceptsRun {τ ν : Type} (enc : τ → ν → Enc) : List (Stmt τ) → Bool → List (Step τ ν) → List (Option Out) → Bool
  | _, _, [], [] => true
  | stmts, up, st :: rest, o :: os =>
    Spec.accepts enc stmts up st o && Spec.acceptsRun enc (Spec.stmtsAfter stmts st) (Spec.upAfter up st) rest os
  | _, _, _, _ => false

/-- a statement whose PREPARE answer names a partition-key index that is no marker (malformed answer: index panic) -/
def crashes {τ : Type} (st : Stmt τ) : Bool :=
  match routingKeyInfo st.md st.schema with
  | .crash => true
  | _ => false

/-- THE EXCLUDED HISTORIES, step by step (decided along the run; the predicate the `_partial` theorem carries):
    * a change of a statement's partition key / metadata while the cache holds the statement (KF-C09-3: stale),
    * statements that are not the session's or whose PREPARE answer is malformed. -/
def safeStep {τ ν : Type} (s : State τ) : Step τ ν → Bool
  | .use k _ => match s.stmts[k]? with
      | none => false
      | some st => !crashes st
  | .change k _ => (lookup k s.lru).isNone
  | _ => true

def safe {τ ν : Type} (enc : τ → ν → Enc) : State τ → List (Step τ ν) → Bool
  | _, [] => true
  | s, st :: rest => safeStep s st && safe enc (step enc s st).2 rest

/-! ### CONCURRENT first uses of ONE statement: the inflight wait (session.go:598-610)

The first goroutine that misses adds the inflight entry and computes (blocked in `Conn.prepareStatement` until the
server answers PREPARE); every goroutine that asks meanwhile finds the entry and blocks in `inflight.wg.Wait()`; when
the owner is done they all read the SAME entry (value or error) and each builds the key from ITS OWN bound values.
A failed PREPARE / ErrNoMetadata removes the entry: the waiters share the owner's error, a later use starts afresh.
Events are conducted by the harness: `go g vals` (goroutine g calls GetRoutingKey and runs until it returns or blocks),
`ansOk` / `ansFail` (the server's answer to PREPARE arrives). -/
namespace Conc

inductive CState (τ ν : Type)
  | idle
  | pending (owner : Nat × List ν) (waiters : List (Nat × List ν))
  | cached (e : Entry τ)

inductive Ev (ν : Type)
  | go (g : Nat) (vals : List ν)
  | ansOk
  | ansFail

inductive COut
  | res (r : KeyRes)
  | errPrepare
  deriving DecidableEq

def entryKey {τ ν : Type} (enc : τ → ν → Enc) (vals : List ν) : Entry τ → COut
  | .info i => .res (createRoutingKey enc i vals)
  | _ => .res .nokey

/-- the owner's computation once the prepared statement is at hand: the answers of the goroutines `gs` (owner first)
    and what stays in the cache -/
def compute {τ ν : Type} (enc : τ → ν → Enc) (st : Stmt τ) (gs : List (Nat × List ν)) : List (Nat × COut) × CState τ ν :=
  match routingKeyInfo st.md st.schema with
  | .info i => (gs.map (fun p => (p.1, .res (createRoutingKey enc i p.2))), .cached (.info i))
  | .none => (gs.map (fun p => (p.1, .res .nokey)), .cached .nothing)
  | .errMeta => (gs.map (fun p => (p.1, .res .errMeta)), .idle)
  | .crash => (gs.map (fun p => (p.1, .res .crash)), .cached .nothing)   -- malformed PREPARE answer (never generated)

/-- state: has the server answered PREPARE (the prepared-statement cache holds the statement), and the cache entry -/
def step {τ ν : Type} (enc : τ → ν → Enc) (st : Stmt τ) : Bool × CState τ ν → Ev ν → List (Nat × COut) × (Bool × CState τ ν)
  | (false, .idle), .go g vals => ([], (false, .pending (g, vals) []))
  | (true, .idle), .go g vals => let r := compute enc st [(g, vals)]; (r.1, (true, r.2))
  | (p, .pending o ws), .go g vals => ([], (p, .pending o (ws ++ [(g, vals)])))
  | (p, .cached e), .go g vals => ([(g, entryKey enc vals e)], (p, .cached e))
  | (_, .pending o ws), .ansOk => let r := compute enc st (o :: ws); (r.1, (true, r.2))
  | (_, .pending o ws), .ansFail => ((o :: ws).map (fun p => (p.1, .errPrepare)), (false, .idle))
  | s, _ => ([], s)

def run {τ ν : Type} (enc : τ → ν → Enc) (st : Stmt τ) : Bool × CState τ ν → List (Ev ν) → List (List (Nat × COut))
  | _, [] => []
  | s, e :: rest => let r := step enc st s e; r.1 :: run enc st r.2 rest

/-- SPECIFICATION (no cache, no sharing): a goroutine gets the key of ITS values computed from the statement's
    metadata as soon as the statement is prepared; all goroutines in flight when PREPARE fails get that failure -/
def Spec.step {τ ν : Type} (enc : τ → ν → Enc) (st : Stmt τ) :
    Bool × List (Nat × List ν) → Ev ν → List (Nat × COut) × (Bool × List (Nat × List ν))
  | (true, infl), .go g vals => ([(g, .res (getRoutingKey enc st.md st.schema vals))], (true, infl))
  | (false, infl), .go g vals => ([], (false, infl ++ [(g, vals)]))
  | (p, []), _ => ([], (p, []))
  | (_, infl), .ansOk => (infl.map (fun p => (p.1, .res (getRoutingKey enc st.md st.schema p.2))), (true, []))
  | (_, infl), .ansFail => (infl.map (fun p => (p.1, .errPrepare)), (false, []))

def Spec.run {τ ν : Type} (enc : τ → ν → Enc) (st : Stmt τ) :
    Bool × List (Nat × List ν) → List (Ev ν) → List (List (Nat × COut))
  | _, [] => []
  | s, e :: rest => let r := Spec.step enc st s e; r.1 :: Spec.run enc st r.2 rest

end Conc

end RoutingCache
