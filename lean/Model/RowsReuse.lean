/-
C04 — MODEL side: REAL typed destinations that are REUSED across the rows of a page.

  session.go  Iter.Scan (1587-1631) / iterScanner.Scan (1531-1555): the same `dest ...interface{}` on every call —
              the ordinary loop `var b []byte; var s string; for iter.Scan(&b, &s) { ... }`
  marshal.go  Unmarshal (225-286) and the per-type functions, as far as they look at what the destination
              ALREADY HOLDS:
                unmarshalVarchar `case *[]byte` (346-352)   `*v = append((*v)[:0], data...)` / `*v = nil`
                unmarshalList into `*[n]T` (1686-1737)      the elements are unmarshalled in place
                unmarshalUDT into a struct (2449-2523)      the fields are unmarshalled in place; a value that
                                                            carries fewer fields than the type resets the rest to
                                                            their zero values (repair of KF-C04-7)
              everything else assigns a freshly built value (`*v = string(data)`, `rv.Set(reflect.MakeSlice…)`,
              `reflect.MakeMapWithSize`, unmarshalNullable: `reflect.New`, …).

`Model/Rows.lean` says WHICH `Unmarshal(info, data, dest[j])` calls a row stands for (`Call`: destination index, type,
data); `Model/MarshalDecode.lean` (C12 / C02, imported, not edited) says what such a call stores in a FRESH zero value.
This file adds the third piece: what the call stores in a destination that still holds the value of an earlier row
(`unmarshalInto … prev`), and the row loop over typed destinations (`scanT`, `Scanner.scanT`): the calls of the row are
applied in order to the destination values; the first call that returns an error ends the Scan (iter.err / returned
error) with the earlier destinations already overwritten.

Core Lean only.
-/
import Model.Rows
import Model.MarshalDecode
namespace RowsReuse
open Marshal
open Rows (Iter Scanner Call scan)
open ValueSpec (CqlTy)

abbrev Bytes := List UInt8

/-! ## the column type as Unmarshal's dispatch sees it -/

/-- `info.Type()` of a NativeType → the scalar column types Unmarshal has a case for -/
def scalarOf (id : Nat) : Option CqlTy :=
  if id == 0x01 then some .ascii else if id == 0x02 then some .bigint else if id == 0x03 then some .blob
  else if id == 0x04 then some .boolean else if id == 0x05 then some .counter else if id == 0x06 then some .decimal
  else if id == 0x07 then some .double else if id == 0x08 then some .float else if id == 0x09 then some .int
  else if id == 0x0A then some .text else if id == 0x0B then some .timestamp else if id == 0x0C then some .uuid
  else if id == 0x0D then some .varchar else if id == 0x0E then some .varint else if id == 0x0F then some .timeuuid
  else if id == 0x10 then some .inet else if id == 0x11 then some .date else if id == 0x12 then some .time
  else if id == 0x13 then some .smallint else if id == 0x14 then some .tinyint else if id == 0x15 then some .duration
  else none

/-- UDT field names are Go strings; the harness uses ASCII identifiers -/
def nameStr (b : Bytes) : String := String.ofList (b.map (fun c => Char.ofNat c.toNat))

mutual
/-- the column type of C12's decode model for a TypeInfo the parser produced; `none`: a type Unmarshal's switch has
    no case for (custom / unknown id): every call is an error (a `**T` destination still takes a null) -/
def cqlOf : FrameRead.TypeInfo → Option CqlTy
  | .native n => scalarOf n.typ
  | .coll n key elem =>
    if n.typ == FrameRead.typeList then (cqlOf elem).map CqlTy.list
    else if n.typ == FrameRead.typeSet then (cqlOf elem).map CqlTy.set
    else if n.typ == FrameRead.typeMap then
      (match cqlOfOpt key, cqlOf elem with
       | some k, some v => some (.map k v)
       | _, _ => none)
    else none
  | .tuple _ elems => (cqlOfList elems).map CqlTy.tuple
  | .udt _ _ _ fields => (cqlOfFields fields).map (fun l => CqlTy.udt (l.map (·.1)) (l.map (·.2)))
def cqlOfOpt : Option FrameRead.TypeInfo → Option CqlTy
  | none => none
  | some t => cqlOf t
def cqlOfList : List FrameRead.TypeInfo → Option (List CqlTy)
  | [] => some []
  | t :: ts => (match cqlOf t, cqlOfList ts with
      | some a, some r => some (a :: r)
      | _, _ => none)
def cqlOfFields : List (Bytes × FrameRead.TypeInfo) → Option (List (String × CqlTy))
  | [] => some []
  | f :: fs => (match cqlOfField f, cqlOfFields fs with
      | some a, some r => some (a :: r)
      | _, _ => none)
def cqlOfField : Bytes × FrameRead.TypeInfo → Option (String × CqlTy)
  | (n, t) => (cqlOf t).map (fun c => (nameStr n, c))
end

/-! ## one Unmarshal call on a destination that holds `prev` -/

def textFamily : CqlTy → Bool
  | .ascii | .text | .varchar | .blob => true
  | _ => false

/-- `Unmarshal(info, data, &x)` into a FRESH zero `x` of Go type `ty` (MarshalDecode.unmarshal); a column type
    without a case in Unmarshal's switch is an error after the `**T` test -/
def unmarshalFresh (p : Nat) (t : Option CqlTy) (ty : GoTy) (data : Option Bytes) : URes :=
  match t with
  | none => withPtr (fun _ _ => .err) ty data
  | some t => unmarshal p t ty data

/-- is the `[]byte` the destination holds nil? -/
def bytesIsNil : GoVal → Bool
  | .bytes _ isNil _ => isNil
  | _ => true

/-- the elements of the array / the fields of the struct a destination holds -/
def partsOf : GoVal → List GoVal
  | .array vs => vs
  | .struct vs => vs
  | .udtstruct _ vs => vs
  | _ => []

/-- the parts as a list of exactly `n` values (a destination of the right Go type always has exactly `n` parts: then
    `fit n l = l`; the padding only makes the model total on ill-shaped values) -/
def fit (n : Nat) (l : List GoVal) : List GoVal := (l ++ List.replicate n GoVal.nil).take n

/-- unmarshalList's element loop on an ARRAY target: `Unmarshal(elem, item, rv.Index(i).Addr())` — element `i` of
    the array the destination already holds is the target of the call (`f item prev_i`) -/
def elemsInto (p : Nat) (f : Option Bytes → GoVal → URes) : Nat → Bytes → List GoVal → LRes (List GoVal)
  | 0, b, _ => .ok [] b
  | n+1, b, prevs => match readCollItem p b with
    | none => .err
    | some (item, r) => (match f item (prevs.headD .nil) with
        | .ok v => (match elemsInto p f n r prevs.tail with
            | .ok vs r' => .ok (v :: vs) r'
            | other => other)
        | .err => .err | .crash => .crash | .unmodelled => .unmodelled)

/-- unmarshalUDT into a struct, the value's data is used up before the type's fields are (repair of KF-C04-7):
    `for _, missing := range udt.Elements[id:] { f := fields[missing.Name] / k.FieldByName(missing.Name);
    if f.IsValid() && f.CanSet() { f.Set(reflect.Zero(f.Type())) } }` — every struct field that one of the remaining
    fields of the TYPE names is set to its zero value (the field lookup of the loop below: `lookupIdx`) -/
def zeroRest (fnames : List String) (gs : List GoTy) : List String → List CqlTy → List GoVal → List GoVal
  | name :: names, _ :: ts, acc =>
    (match lookupIdx name fnames 0 with
     | none => zeroRest fnames gs names ts acc
     | some i => (match gs[i]? with
       | none => zeroRest fnames gs names ts acc
       | some g => zeroRest fnames gs names ts (acc.set i (zeroOf g))))
  | _, _, acc => acc

mutual
/-- `Unmarshal(info, data, &x)` where `x` (Go type `ty`) currently holds `prev`.
    * `**T`: unmarshalNullable builds a new `*T` (or nil) — nothing of `prev` survives;
    * unmarshalVarchar, `case *[]byte`: `if data != nil { *v = append((*v)[:0], data...) } else { *v = nil }` —
      appending nothing to `(*v)[:0]` gives nil exactly when `*v` was nil: an EMPTY cell leaves a nil destination nil
      and makes a non-nil destination empty;
    * list / set into `*[n]T`: the elements are unmarshalled in place, each seeing the element it replaces;
    * UDT into a struct: the fields are unmarshalled in place, in the order of the value's fields; a value with
      FEWER fields than the type (`len(data) == 0` before the type's fields are exhausted) sets the struct fields
      that the remaining fields of the type name to their zero values (`zeroRest`, the repair of KF-C04-7) and
      returns nil; a struct field that no field of the type names is never touched by a non-empty value;
    * every other (column type, Go type): a value built from `data` alone is assigned (MarshalDecode.unmarshalBase). -/
def intoBase (p : Nat) (t : CqlTy) (ty : GoTy) (data : Option Bytes) (prev : GoVal) : URes :=
  match ty with
  | .ptr _ => withPtr (unmarshalBase p t) ty data
  | .bytes false =>
    if textFamily t then
      (match data with
       | some [] => .ok (.bytes false (bytesIsNil prev) [])
       | _ => unmarshalBase p t ty data)
    else unmarshalBase p t ty data
  | .array len g =>
    (match t, data with
     | .list et, some d =>
       (match readCollSize p d with
        | none => .err
        | some (n, r) => if n ≠ len then .err else
          (match elemsInto p (intoBase p et g) n.toNat r (partsOf prev) with
           | .ok vs _ => .ok (.array vs)
           | .err => .err | .crash => .crash | .unmodelled => .unmodelled))
     | .set et, some d =>
       (match readCollSize p d with
        | none => .err
        | some (n, r) => if n ≠ len then .err else
          (match elemsInto p (intoBase p et g) n.toNat r (partsOf prev) with
           | .ok vs _ => .ok (.array vs)
           | .err => .err | .crash => .crash | .unmodelled => .unmodelled))
     | _, _ => unmarshalBase p t ty data)
  | .udtstruct fnames gs =>
    (match t with
     | .udt names ts =>
       if dataBytes data = [] then .ok (.udtstruct fnames (zeroOfs gs)) else
       (match udtInto p names ts fnames gs (dataBytes data) (fit gs.length (partsOf prev)) with
        | .ok vs _ => .ok (.udtstruct fnames vs)
        | .err => .err | .crash => .crash | .unmodelled => .unmodelled)
     | _ => unmarshalBase p t ty data)
  | .struct gs =>
    (match t with
     | .udt names ts =>
       -- no cql tags and no field named like a UDT field: every field of the value is read and skipped
       if dataBytes data = [] then .ok (.struct (zeroOfs gs)) else
       (match udtInto p names ts [] gs (dataBytes data) (fit gs.length (partsOf prev)) with
        | .ok vs _ => .ok (.struct vs)
        | .err => .err | .crash => .crash | .unmodelled => .unmodelled)
     | _ => unmarshalBase p t ty data)
  | _ => unmarshalBase p t ty data

/-- the field loop of unmarshalUDT on a struct that holds `acc` -/
def udtInto (p : Nat) : List String → List CqlTy → List String → List GoTy → Bytes → List GoVal → LRes (List GoVal)
  | name :: names, t :: ts, fnames, gs, data, acc =>
    if data = [] then .ok (zeroRest fnames gs (name :: names) (t :: ts) acc) data
    else if ValueSpec.shorter data 4 then .err
    else (match readBytesM data with
     | none => .err
     | some (item, r) =>
       (match lookupIdx name fnames 0 with
        | none => udtInto p names ts fnames gs r acc
        | some i => (match gs[i]? with
          | none => udtInto p names ts fnames gs r acc
          | some g => (match intoBase p t g item (acc.getD i .nil) with
            | .ok v => udtInto p names ts fnames gs r (acc.set i v)
            | .err => .err | .crash => .crash | .unmodelled => .unmodelled))))
  | _, _, _, _, data, acc => .ok acc data
end

/-- `Unmarshal(info, data, &x)` where `x` currently holds `prev`; `t = none`: a column type Unmarshal's switch has no
    case for -/
def unmarshalInto (p : Nat) (t : Option CqlTy) (ty : GoTy) (data : Option Bytes) (prev : GoVal) : URes :=
  match t with
  | none => withPtr (fun _ _ => .err) ty data
  | some t => intoBase p t ty data prev

/-! ## the calls of a row applied to typed destinations -/

/-- outcome of applying the calls of (part of) a row -/
inductive Applied
  | ok (vals : List GoVal)          -- every Unmarshal returned nil
  | err (vals : List GoVal)         -- an Unmarshal returned an error; `vals`: the destinations as they are then
  | crash                           -- a panic reached the caller
  | unmodelled
deriving Repr

/-- `Unmarshal(c.typ, c.data, dest[c.dest])` -/
def applyCall (p : Nat) (tys : List GoTy) (vals : List GoVal) (c : Call) : Applied :=
  match tys[c.dest]?, vals[c.dest]? with
  | some ty, some prev =>
    (match unmarshalInto p (cqlOf c.typ) ty c.data prev with
     | .ok v => .ok (vals.set c.dest v)
     | .err => .err vals
     | .crash => .crash
     | .unmodelled => .unmodelled)
  | _, _ => .crash

/-- the calls in order, up to the first error -/
def applyCalls (p : Nat) (tys : List GoTy) : List Call → List GoVal → Applied
  | [], vals => .ok vals
  | c :: cs, vals =>
    match applyCall p tys vals c with
    | .ok vals' => applyCalls p tys cs vals'
    | other => other

inductive TScanOut
  | row (it : Iter) (vals : List GoVal)      -- Scan returned true
  | stop (it : Iter) (vals : List GoVal)     -- Scan returned false (end of rows, or iter.err set: it.failed)
  | crash
  | unmodelled
deriving Repr

/-- Iter.Scan(&x0, &x1, …) with typed destinations holding `vals`: the Unmarshal calls are those the recorder
    model lists (`Rows.scan` with a non-nil destination everywhere), performed on the typed destinations up to the
    first error, which sets iter.err (the row is not counted) -/
def scanT (p : Nat) (it : Iter) (tys : List GoTy) (vals : List GoVal) : TScanOut :=
  match scan it (tys.map (fun _ => true)) with
  | .row it' calls =>
    (match applyCalls p tys calls vals with
     | .ok vals' => .row it' vals'
     | .err vals' => .stop { it with failed := true } vals'
     | .crash => .crash
     | .unmodelled => .unmodelled)
  | .stop it' calls =>
    (match applyCalls p tys calls vals with
     | .ok vals' => .stop it' vals'
     | .err vals' => .stop { it with failed := true } vals'
     | .crash => .crash
     | .unmodelled => .unmodelled)
  | .crash => .crash

inductive TScannerOut
  | ok (s : Scanner) (vals : List GoVal)       -- Scan returned nil
  | error (s : Scanner) (vals : List GoVal)    -- Scan returned an error
  | crash
  | unmodelled
deriving Repr

/-- iterScanner.Scan(&x0, &x1, …) with typed destinations (an Unmarshal error is returned, iter.err stays unset) -/
def scannerScanT (p : Nat) (s : Scanner) (tys : List GoTy) (vals : List GoVal) : TScannerOut :=
  match s.scan (tys.map (fun _ => true)) with
  | .ok s' calls =>
    (match applyCalls p tys calls vals with
     | .ok vals' => .ok s' vals'
     | .err vals' => .error s' vals'
     | .crash => .crash
     | .unmodelled => .unmodelled)
  | .error s' calls =>
    (match applyCalls p tys calls vals with
     | .ok vals' => .error s' vals'
     | .err vals' => .error s' vals'
     | .crash => .crash
     | .unmodelled => .unmodelled)
  | .crash => .crash


/-- Iter.MapScan(m) where `m` is a NEW map on every call that holds, under every RowData column name, a pointer to
    the SAME typed variable (the documented use: `row := map[string]interface{}{"age": &age, …}` inside the loop,
    helpers.go 418-433): every destination of `rowData.Values` is replaced by the caller's pointer, then `iter.Scan`.
    `unmodelled`: the names do not cover the destinations one to one (a column without a Go type, duplicate names). -/
def mapScanT (p : Nat) (it : Iter) (tys : List GoTy) (vals : List GoVal) : TScanOut :=
  if it.failed then .stop it vals
  else
    match Rows.rowDataNames it.md.columns with
    | none => .crash
    | some names =>
      if names.length == tys.length && decide names.Nodup then scanT p it tys vals else .unmodelled

/-! ## what the destinations hold before the first row -/

mutual
/-- `dirty`: a recognisable non-zero value of the Go type (the variables were used before: an earlier page, an earlier
    query); kinds without an entry start at their zero value. Mirrored by harness/cmd/c04/reuse.go `dirty`. -/
def dirtyOf : GoTy → GoVal
  | .int k named => .int k named 7
  | .str named => .str named [0x78]
  | .bytes named => .bytes named false [0xAA, 0xBB]
  | .bool named => .bool named true
  | .time => .time 1 0
  | .dur => .dur 7
  | .uuid => .uuid (List.replicate 16 0x11)
  | .arr16 => .arr16 (List.replicate 16 0x11)
  | .ptr t => .ptr (dirtyOf t)
  | .slice t => .slice false [dirtyOf t]
  | .map k v => .map false [(dirtyOf k, dirtyOf v)]
  | .array n t => .array (List.replicate n (dirtyOf t))
  | .struct ts => .struct (dirtyOfs ts)
  | .udtstruct names ts => .udtstruct names (dirtyOfs ts)
  | t => zeroOf t
def dirtyOfs : List GoTy → List GoVal
  | [] => []
  | t :: ts => dirtyOf t :: dirtyOfs ts
end

end RowsReuse
