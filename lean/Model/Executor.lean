/-
  Model of /repo/query_executor.go (`queryExecutor.do`, `executeQuery`, `speculate`, `run`) and of the
  built-in retry policies' decision functions in /repo/policies.go.
-/
namespace Executor

/-- a host as offered by the host iterator, with what `do` looks at -/
structure Host where
  id : Nat
  up : Bool          -- host.IsUp()
  conn : Bool        -- the pool exists and Pick() returns a connection
deriving DecidableEq, Repr

/-- result of one attempt (`iter.err` classes) -/
inductive Res where
  | ok
  | err (kind : Nat)     -- a server error / timeout / connection loss; `kind` feeds GetRetryType
  | logical              -- context.Canceled, context.DeadlineExceeded, ErrNotFound: returned at once
deriving DecidableEq, Repr

inductive RT where
  | retry | rethrow | ignore | nextHost | unknown
deriving DecidableEq, Repr

/-- a retry policy: `attempt n` = `rt.Attempt(qry)` when `qry.Attempts() = n` (attempts made so far),
    `rtype k` = `rt.GetRetryType(err)` for an error of kind `k` -/
structure Policy where
  attempt : Nat → Bool
  rtype : Nat → RT

inductive Final where
  | last (r : Res)         -- the iter of the last attempt is returned
  | lastErr (kind : Nat)   -- hosts exhausted: `&Iter{err: lastErr}`
  | noConnections          -- hosts exhausted, nothing attempted
  | unknownRetryType
  | outOfFuel              -- model artefact: the policy never stops (the real loop would not either)
deriving DecidableEq, Repr

structure Out where
  attempts : List Nat      -- host ids, one per attempt, in order
  final : Final
deriving DecidableEq, Repr

/-- next usable host from the iterator: down hosts and hosts without a connection are skipped
    (without consuming retry budget); returns the host and the remaining sequence -/
def nextUsable : List Host → Option (Host × List Host)
  | [] => none
  | h :: hs => if h.up && h.conn then some (h, hs) else nextUsable hs

/-- `queryExecutor.do`. `outcome k` is the result of the k-th attempt overall (0-based), `n0` the value of
    `qry.Attempts()` when `do` starts. `cur` = currently selected host (already known usable), `rest` = what
    the iterator will still offer. -/
def doLoop (pol : Option Policy) (outcome : Nat → Res) :
    Nat → Option Host → List Host → Nat → Option Nat → List Nat → Out
  | 0, _, _, _, _, tr => ⟨tr.reverse, .outOfFuel⟩
  | fuel+1, none, _, _, lastErr, tr =>
      match lastErr with
      | some k => ⟨tr.reverse, .lastErr k⟩
      | none => ⟨tr.reverse, .noConnections⟩
  | fuel+1, some h, rest, n, lastErr, tr =>
      let r := outcome n
      let tr' := h.id :: tr
      match r with
      | .logical => ⟨tr'.reverse, .last r⟩
      | .ok => ⟨tr'.reverse, .last r⟩
      | .err k =>
        match pol with
        | none => ⟨tr'.reverse, .last r⟩
        | some p =>
          if !p.attempt (n+1) then ⟨tr'.reverse, .last r⟩
          else match p.rtype k with
            | .retry => doLoop pol outcome fuel (some h) rest (n+1) (some k) tr'
            | .rethrow => ⟨tr'.reverse, .last r⟩
            | .ignore => ⟨tr'.reverse, .last r⟩
            | .nextHost =>
                match nextUsable rest with
                | some (h', rest') => doLoop pol outcome fuel (some h') rest' (n+1) (some k) tr'
                | none => doLoop pol outcome fuel none [] (n+1) (some k) tr'
            | .unknown => ⟨tr'.reverse, .unknownRetryType⟩

/-- `do` from the start: select the first usable host -/
def doQuery (pol : Option Policy) (outcome : Nat → Res) (fuel : Nat) (hosts : List Host) (n0 : Nat) : Out :=
  match nextUsable hosts with
  | some (h, rest) => doLoop pol outcome fuel (some h) rest n0 none []
  | none => doLoop pol outcome fuel none [] n0 none []

/-! ### built-in policies (policies.go) -/

def simplePolicy (numRetries : Nat) : Policy :=
  { attempt := fun n => decide (n ≤ numRetries), rtype := fun _ => .nextHost }

/-- ExponentialBackoffRetryPolicy: same decisions as Simple (the sleep is not modelled) -/
def exponentialPolicy (numRetries : Nat) : Policy :=
  { attempt := fun n => decide (n ≤ numRetries), rtype := fun _ => .nextHost }

/-- error kinds used by DowngradingConsistencyRetryPolicy.GetRetryType -/
def kUnavailableAlive : Nat := 1      -- RequestErrUnavailable, Alive > 0
def kUnavailableNone : Nat := 2       -- RequestErrUnavailable, Alive = 0
def kWriteTOSimpleRecv : Nat := 3     -- RequestErrWriteTimeout SIMPLE/BATCH/COUNTER, Received > 0
def kWriteTOSimpleNone : Nat := 4     -- … Received = 0
def kWriteTOUnlogged : Nat := 5       -- RequestErrWriteTimeout UNLOGGED_BATCH
def kWriteTOOther : Nat := 6          -- RequestErrWriteTimeout other write type
def kReadTO : Nat := 7                -- RequestErrReadTimeout
-- every other kind: RetryNextHost

def downgradingPolicy (levels : Nat) : Policy :=
  { attempt := fun n => decide (n ≤ levels),
    rtype := fun k =>
      if k = kUnavailableAlive then .retry else if k = kUnavailableNone then .rethrow
      else if k = kWriteTOSimpleRecv then .ignore else if k = kWriteTOSimpleNone then .rethrow
      else if k = kWriteTOUnlogged then .retry else if k = kWriteTOOther then .rethrow
      else if k = kReadTO then .retry else .nextHost }

/-! ### executeQuery: which executions are started -/

/-- number of executions (`go q.run`) `executeQuery` may start: one, plus up to `spAttempts` speculative
    ones — but only for an idempotent query -/
def maxExecutions (idempotent : Bool) (spAttempts : Nat) : Nat :=
  if !idempotent || spAttempts == 0 then 1 else 1 + spAttempts

end Executor
