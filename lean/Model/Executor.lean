/-
  Model of /repo/query_executor.go (`queryExecutor.do`, `executeQuery`, `speculate`, `run`), of the attempt
  accounting of the two statement kinds that implement `ExecutableQuery` (`Query.attempt`, `Batch.attempt`,
  `queryMetrics.attempt` in /repo/session.go) and of the built-in retry policies' decision functions in
  /repo/policies.go.

  The hosts' usability is an ENVIRONMENT that may change during one execution: `us k h` = host `h` is usable
  (HostInfo present and up, pool registered, Pick() returns a connection) when `k` requests have been sent.
  The loop head re-examines the selected host every time round, so a `Retry` on a host that has gone walks on
  along the iterator, and the error returned when nothing usable is left is the one recorded last.
-/
namespace Executor

/-- result of one attempt (`iter.err` classes) -/
inductive Res where
  | ok
  | err (kind : Nat)     -- a server error / timeout / connection loss; `kind` feeds GetRetryType
  | logical              -- context.Canceled, context.DeadlineExceeded, ErrNotFound: returned at once
deriving DecidableEq, Repr

inductive RT where
  | retry | rethrow | ignore | nextHost | unknown
deriving DecidableEq, Repr

/-- the two implementations of `ExecutableQuery` (and the three batch types, which share all executor code) -/
inductive Kind where
  | query | batchLogged | batchUnlogged | batchCounter
deriving DecidableEq, Repr

/-- what the executor is handed: the statement kind and whether an observer (QueryObserver / BatchObserver,
    from the session or set on the statement) is attached to it -/
structure Req where
  kind : Kind
  observed : Bool
deriving DecidableEq, Repr

/-- `qry.attempt(keyspace, end, start, iter, host)` as far as the attempt counter goes: `Query.attempt`
    (session.go) and `Batch.attempt` (session.go) both start with
    `metrics.attempt(1, latency, host, observer != nil)`, i.e. `totalAttempts += 1`, whether or not an
    observer is attached; only the observer call-back depends on `observed`. The value returned is the new
    `Attempts()`. -/
def Req.record (r : Req) (cnt : Nat) : Nat :=
  match r.kind, r.observed with
  | .query, _ => cnt + 1
  | _, true => cnt + 1
  | _, false => cnt + 1

/-- a retry policy: `attempt n` = `rt.Attempt(qry)` when `qry.Attempts() = n` (attempts made so far),
    `newCons n` = the consistency `Attempt` sets on the statement when it answers `true` with
    `qry.Attempts() = n` (only DowngradingConsistencyRetryPolicy does), `rtype k` = `rt.GetRetryType(err)`
    for an error of kind `k` -/
structure Policy where
  attempt : Nat → Bool
  newCons : Nat → Option Nat := fun _ => none
  rtype : Nat → RT

/-- one attempt as the statement's observer and the server see it -/
structure Att where
  host : Nat       -- host id
  idx : Nat        -- `Attempts()` before this attempt (= ObservedQuery.Attempt / ObservedBatch.Attempt)
  cons : Nat       -- consistency level the request carried
  res : Res
deriving DecidableEq, Repr

inductive Final where
  | last (r : Res)         -- the iter of the last attempt is returned
  | lastErr (kind : Nat) (idx : Nat)   -- hosts exhausted: `&Iter{err: lastErr}`; `idx` = number of the request whose error it is
  | noConnections          -- hosts exhausted, nothing attempted
  | unknownRetryType
  | outOfFuel              -- model artefact: the policy never stops (the real loop would not either)
deriving DecidableEq, Repr

structure Out where
  attempts : List Att      -- one per attempt, in order
  final : Final
  cnt : Nat                -- `Attempts()` of the statement afterwards
  cons : Nat               -- `GetConsistency()` of the statement afterwards
deriving DecidableEq, Repr

/-- the attempt `a` came before what `o` describes -/
def Out.push (o : Out) (a : Att) : Out := { o with attempts := a :: o.attempts }

/-- the loop head of `do`: starting with the selected host, take hosts from the iterator until one is usable
    NOW (`selectedHost.Info() != nil && host.IsUp()`, `getPool` finds its pool, `pool.Pick()` returns a
    connection); unusable hosts are skipped without consuming retry budget. `pending` = the selected host
    followed by what the iterator will still offer; the result is the host to attempt and what remains. -/
def nextUsable (u : Nat → Bool) : List Nat → Option (Nat × List Nat)
  | [] => none
  | h :: hs => if u h then some (h, hs) else nextUsable u hs

/-- `queryExecutor.do` in a CHANGING environment. `outcome k` is the result of the k-th request that reaches a
    server (0-based, counted over the life of the scenario); `us k h` says whether host `h` is usable when `k`
    requests have been sent — the environment may change arbitrarily between one attempt and the next loop head
    (host marked down / up again, pool removed or closed, connections lost, pool re-created), so the host of a
    failed attempt may be gone when the policy answers `Retry`. `cnt` = the statement's attempt counter
    (`qry.Attempts()`, the state the retry policies read), `cons` its consistency level, `pending` = the
    selected host followed by the rest of the iterator's output, `lastErr` = `(kind, request number)` of the
    error recorded by `lastErr = iter.err`. One unit of fuel = one attempt. -/
def doLoop (req : Req) (pol : Option Policy) (outcome : Nat → Res) (us : Nat → Nat → Bool) :
    Nat → List Nat → Nat → Nat → Nat → Option (Nat × Nat) → Out
  | 0, _, _, cnt, cons, _ => ⟨[], .outOfFuel, cnt, cons⟩
  | fuel+1, pending, k, cnt, cons, lastErr =>
    match nextUsable (us k) pending with
    | none =>
      match lastErr with
      | some (e, j) => ⟨[], .lastErr e j, cnt, cons⟩
      | none => ⟨[], .noConnections, cnt, cons⟩
    | some (h, rest) =>
      let r := outcome k
      let a : Att := ⟨h, cnt, cons, r⟩
      let cnt' := req.record cnt
      match r with
      | .logical => ⟨[a], .last r, cnt', cons⟩
      | .ok => ⟨[a], .last r, cnt', cons⟩
      | .err e =>
        match pol with
        | none => ⟨[a], .last r, cnt', cons⟩
        | some p =>
          if !p.attempt cnt' then ⟨[a], .last r, cnt', cons⟩
          else
            let cons' := (p.newCons cnt').getD cons
            match p.rtype e with
            -- `continue` with the same selectedHost: it is re-examined at the loop head
            | .retry => (doLoop req pol outcome us fuel (h :: rest) (k+1) cnt' cons' (some (e, k))).push a
            | .rethrow => ⟨[a], .last r, cnt', cons'⟩
            | .ignore => ⟨[a], .last r, cnt', cons'⟩
            -- `selectedHost = hostIter(); continue`
            | .nextHost => (doLoop req pol outcome us fuel rest (k+1) cnt' cons' (some (e, k))).push a
            | .unknown => ⟨[a], .unknownRetryType, cnt', cons'⟩

/-- `do` from the start: `ids` = what the host iterator offers, in order -/
def doQuery (req : Req) (pol : Option Policy) (outcome : Nat → Res) (us : Nat → Nat → Bool) (fuel : Nat)
    (ids : List Nat) (k cnt cons : Nat) : Out :=
  doLoop req pol outcome us fuel ids k cnt cons none

/-- one execution of a statement through `Session.executeQuery` / `Session.executeBatch`, including the case of
    a context that is already done when the execution starts: `Conn.exec` then returns `ctx.Err()` before
    anything is written, but `qry.attempt` has still been called (the counter moves, the server sees nothing). -/
structure Run where
  out : Out
  sent : List Att          -- the attempts that reached a server, in order
  ctxDone : Bool           -- the statement's context is done afterwards
deriving DecidableEq, Repr

def execute (req : Req) (pol : Option Policy) (outcome : Nat → Res) (us : Nat → Nat → Bool) (fuel : Nat)
    (ids : List Nat) (k cnt cons : Nat) (ctxDone : Bool) : Run :=
  if ctxDone then
    match nextUsable (us k) ids with
    | some (h, _) => ⟨⟨[⟨h, cnt, cons, .logical⟩], .last .logical, req.record cnt, cons⟩, [], true⟩
    | none => ⟨⟨[], .noConnections, cnt, cons⟩, [], true⟩
  else
    let out := doQuery req pol outcome us fuel ids k cnt cons
    ⟨out, out.attempts, decide (out.final = .last .logical)⟩

/-- the statement's context ends right after the attempt of request `x` — in `SelectedHost.Mark`, between the
    attempt and the retry decision (`kx = some x`): `do` never looks at the context itself; the policy is consulted
    as usual, and the attempt it licenses returns `ctx.Err()` from `Conn.exec` before anything is written (counted,
    observed, no request) and ends the loop. In the model: every request numbered above `x` "answers" with the
    context's error, and only the attempts numbered up to `x` reached a server. -/
def executeX (req : Req) (pol : Option Policy) (outcome : Nat → Res) (us : Nat → Nat → Bool) (fuel : Nat)
    (ids : List Nat) (k cnt cons : Nat) (ctxDone : Bool) (kx : Option Nat) : Run :=
  match kx with
  | none => execute req pol outcome us fuel ids k cnt cons ctxDone
  | some x =>
    if ctxDone then execute req pol outcome us fuel ids k cnt cons true
    else
      let out := doQuery req pol (fun n => if n > x then .logical else outcome n) us fuel ids k cnt cons
      ⟨out, out.attempts.take (x + 1 - k), decide (out.final = .last .logical) || decide (k + out.attempts.length > x)⟩

/-! ### a scripted environment: hosts whose usability is changed between attempts -/

/-- a host of the scenario with what `do` looks at -/
structure Host where
  id : Nat
  up : Bool          -- the SelectedHost carries a HostInfo and host.IsUp()
  conn : Bool        -- the pool exists (`getPool`) and Pick() returns a connection
deriving DecidableEq, Repr

/-- what can happen to a host between two attempts -/
inductive EnvAct where
  | markDown     -- HostInfo state := NodeDown (a DOWN event / a conviction reaching handleNodeDown)
  | markUp       -- HostInfo state := NodeUp
  | poolGone     -- the host's pool is removed from the session's pool map, or closed, or has lost its connections
  | poolBack     -- the pool is re-created and connected (`addHost`; `handleNodeConnected` also marks the host up)
deriving DecidableEq, Repr

def EnvAct.apply (a : EnvAct) (h : Host) : Host :=
  match a with
  | .markDown => { h with up := false }
  | .markUp => { h with up := true }
  | .poolGone => { h with conn := false }
  | .poolBack => { h with up := true, conn := true }

def applyActs (acts : List (EnvAct × Nat)) (w : List Host) : List Host :=
  acts.foldl (fun w (a : EnvAct × Nat) => w.map fun h => if h.id = a.2 then a.1.apply h else h) w

/-- the hosts after the actions scripted for requests `0 .. k-1` -/
def worldAt (w0 : List Host) (script : Nat → List (EnvAct × Nat)) : Nat → List Host
  | 0 => w0
  | k+1 => applyActs (script k) (worldAt w0 script k)

def usableIn (w : List Host) (h : Nat) : Bool :=
  match w.find? (fun x => x.id == h) with
  | some x => x.up && x.conn
  | none => false

/-- the usability function of a scripted environment -/
def usOf (w0 : List Host) (script : Nat → List (EnvAct × Nat)) : Nat → Nat → Bool :=
  fun k h => usableIn (worldAt w0 script k) h

/-! ### built-in policies (policies.go) -/

def simplePolicy (numRetries : Nat) : Policy :=
  { attempt := fun n => decide (n ≤ numRetries), rtype := fun _ => .nextHost }

/-- ExponentialBackoffRetryPolicy: same decisions as Simple (the sleep is not modelled) -/
def exponentialPolicy (numRetries : Nat) : Policy :=
  { attempt := fun n => decide (n ≤ numRetries), rtype := fun _ => .nextHost }

/-- error kinds used by DowngradingConsistencyRetryPolicy.GetRetryType -/
def kUnavailableAlive : Nat := 1      -- RequestErrUnavailable, Alive > 0
def kUnavailableNone : Nat := 2       -- RequestErrUnavailable, Alive = 0
def kWriteTOSimpleRecv : Nat := 3     -- RequestErrWriteTimeout SIMPLE/BATCH/COUNTER, Received > 0
def kWriteTOSimpleNone : Nat := 4     -- … Received = 0
def kWriteTOUnlogged : Nat := 5       -- RequestErrWriteTimeout UNLOGGED_BATCH
def kWriteTOOther : Nat := 6          -- RequestErrWriteTimeout other write type
def kReadTO : Nat := 7                -- RequestErrReadTimeout
-- every other kind: RetryNextHost

def downgradingRType (k : Nat) : RT :=
  if k = kUnavailableAlive then .retry else if k = kUnavailableNone then .rethrow
  else if k = kWriteTOSimpleRecv then .ignore else if k = kWriteTOSimpleNone then .rethrow
  else if k = kWriteTOUnlogged then .retry else if k = kWriteTOOther then .rethrow
  else if k = kReadTO then .retry else .nextHost

/-- DowngradingConsistencyRetryPolicy{ConsistencyLevelsToTry: levels}: `Attempt` answers
    `Attempts() ≤ len(levels)` and, when it answers true with `Attempts() = n > 0`, sets the statement's
    consistency to `levels[n-1]` -/
def downgradingPolicyL (levels : List Nat) : Policy :=
  { attempt := fun n => decide (n ≤ levels.length),
    newCons := fun n => if n = 0 then none else levels[n - 1]?,
    rtype := downgradingRType }

/-- the same with only the number of levels known (the decisions do not depend on the level values) -/
def downgradingPolicy (levels : Nat) : Policy :=
  { attempt := fun n => decide (n ≤ levels), rtype := downgradingRType }

/-! ### the error values the retry policies are handed (errors.go) and the built-in policies' `GetRetryType` on them -/

/-- `RequestErrWriteTimeout.WriteType` (a string on the wire; `other` = any string not listed) -/
inductive WriteType where
  | simple | batch | counter | unloggedBatch | batchLog | cas | view | cdc | other
deriving DecidableEq, Repr

/-- an `error` as `GetRetryType(err)` sees it through its type switch -/
inductive ReqErr where
  | unavailable (required alive : Nat)                       -- *RequestErrUnavailable
  | writeTimeout (wt : WriteType) (received blockFor : Nat)  -- *RequestErrWriteTimeout
  | readTimeout (received blockFor : Nat) (dataPresent : Bool) -- *RequestErrReadTimeout
  | other                                                    -- every other error value (also a WRAPPED timeout error:
                                                             -- the switch is on the dynamic type, not errors.As)
deriving DecidableEq, Repr

/-- `DowngradingConsistencyRetryPolicy.GetRetryType` (policies.go), branch by branch -/
def downgradingGetRetryType : ReqErr → RT
  | .unavailable _ alive => if alive > 0 then .retry else .rethrow
  | .writeTimeout wt received _ =>
      if wt = .simple ∨ wt = .batch ∨ wt = .counter then (if received > 0 then .ignore else .rethrow)
      else if wt = .unloggedBatch then .retry
      else .rethrow
  | .readTimeout _ _ _ => .retry
  | .other => .nextHost

/-- `SimpleRetryPolicy.GetRetryType` / `ExponentialBackoffRetryPolicy.GetRetryType` -/
def simpleGetRetryType : ReqErr → RT := fun _ => .nextHost

/-- the abstract error kind the executor model (`doLoop`, `Policy.rtype`) files an error value under -/
def kindOf : ReqErr → Nat
  | .unavailable _ alive => if alive > 0 then kUnavailableAlive else kUnavailableNone
  | .writeTimeout wt received _ =>
      if wt = .simple ∨ wt = .batch ∨ wt = .counter then (if received > 0 then kWriteTOSimpleRecv else kWriteTOSimpleNone)
      else if wt = .unloggedBatch then kWriteTOUnlogged
      else kWriteTOOther
  | .readTimeout _ _ _ => kReadTO
  | .other => 9

/-- `Attempt(q)` of the three built-in policies as a function of `q.Attempts()`: the answer and the consistency
    it sets on the statement (`none`: untouched) -/
def simpleAttempt (numRetries attempts : Nat) : Bool × Option Nat := (decide (attempts ≤ numRetries), none)

def downgradingAttempt (levels : List Nat) (attempts : Nat) : Bool × Option Nat :=
  if attempts > levels.length then (false, none)
  else if attempts > 0 then (true, levels[attempts - 1]?)
  else (true, none)

/-! ### `queryMetrics` (session.go): what `Attempts()`, `Latency()` and the observers' `Metrics` are computed from -/

/-- `hostMetrics` of one host (`queryMetrics.m[host]`) -/
structure HostM where
  host : Nat
  attempts : Nat
  total : Nat         -- TotalLatency, nanoseconds
deriving DecidableEq, Repr

structure QM where
  totalAttempts : Nat := 0
  m : List HostM := []        -- the map, as an association list (one entry per host, created on first use)
deriving DecidableEq, Repr

/-- `hostMetricsLocked(host)` (get or create) followed by `Attempts += 1; TotalLatency += lat` -/
def bumpHost : List HostM → Nat → Nat → List HostM
  | [], h, lat => [⟨h, 1, lat⟩]
  | x :: xs, h, lat => if x.host = h then ⟨h, x.attempts + 1, x.total + lat⟩ :: xs else x :: bumpHost xs h lat

def hostAtt : List HostM → Nat → Nat
  | [], _ => 0
  | x :: xs, h => if x.host = h then x.attempts else hostAtt xs h

def hostTot : List HostM → Nat → Nat
  | [], _ => 0
  | x :: xs, h => if x.host = h then x.total else hostTot xs h

/-- what one attempt hands to the observer: its number (`Attempt`), and the host's `Metrics` after it -/
structure ObsM where
  idx : Nat
  hostAttempts : Nat
  hostTotal : Nat
deriving DecidableEq, Repr

/-- `queryMetrics.attempt(1, latency, host, true)` -/
def QM.attempt (q : QM) (h lat : Nat) : QM × ObsM :=
  let m' := bumpHost q.m h lat
  (⟨q.totalAttempts + 1, m'⟩, ⟨q.totalAttempts, hostAtt m' h, hostTot m' h⟩)

/-- `queryMetrics.latency()`: total latency over all hosts / attempts over all hosts (integer division), 0 before
    the first attempt -/
def QM.latency (q : QM) : Nat :=
  let a := (q.m.map (·.attempts)).sum
  let l := (q.m.map (·.total)).sum
  if a > 0 then l / a else 0

/-- the statement's metrics after the attempts `hist` (host, latency of each, in order), with the observer records -/
def QM.run : QM → List (Nat × Nat) → QM × List ObsM
  | q, [] => (q, [])
  | q, (h, lat) :: rest =>
      let (q1, o) := q.attempt h lat
      let (q2, os) := q1.run rest
      (q2, o :: os)

namespace Spec
/-- the documented meaning, from the history alone: the i-th attempt is number i; the host's `Metrics.Attempts` is
    the number of attempts made on that host so far, `Metrics.TotalLatency` the sum of their latencies;
    `Latency()` is the average latency of all attempts; `Attempts()` their number -/
def obsAt (hist : List (Nat × Nat)) (i : Nat) : ObsM :=
  let upto := hist.take (i + 1)
  let h := (hist.getD i (0, 0)).1
  ⟨i, (upto.filter (·.1 == h)).length, ((upto.filter (·.1 == h)).map (·.2)).sum⟩

def avgLatency (hist : List (Nat × Nat)) : Nat :=
  if hist.length > 0 then (hist.map (·.2)).sum / hist.length else 0
end Spec

namespace Spec
/-- The DOCUMENTED decisions of DowngradingConsistencyRetryPolicy (the doc comment above the type in policies.go;
    `none` = the text does not say):
    * "On a read timeout: the operation is retried with the next provided consistency level."
    * "On a write timeout: if the operation is an UNLOGGED_BATCH and at least one replica acknowledged the write,
       the operation is retried with the next consistency level. Furthermore, for other write types, if at least
       one replica acknowledged the write, the timeout is ignored."  — the "other write types" are read as the
       ordinary writes SIMPLE / BATCH / COUNTER (as in the drivers the text comes from); for BATCH_LOG, CAS, VIEW,
       CDC the text is taken to say nothing; a write timeout that no replica acknowledged is neither retried nor
       ignored: it goes back to the caller.
    * "On an unavailable exception: if at least one replica is alive, the operation is retried with the next
       provided consistency level." — otherwise it goes back to the caller. -/
def downgradingDoc : ReqErr → Option RT
  | .readTimeout _ _ _ => some .retry
  | .writeTimeout .unloggedBatch received _ => some (if received > 0 then .retry else .rethrow)
  | .writeTimeout .simple received _ => some (if received > 0 then .ignore else .rethrow)
  | .writeTimeout .batch received _ => some (if received > 0 then .ignore else .rethrow)
  | .writeTimeout .counter received _ => some (if received > 0 then .ignore else .rethrow)
  | .writeTimeout _ _ _ => none
  | .unavailable _ alive => some (if alive > 0 then .retry else .rethrow)
  | .other => none
end Spec

/-! ### which policy / observer a statement carries (session.go: `Session.Query`, `Session.NewBatch`, the
    deprecated package-level `NewBatch`) -/

/-- a setting given at statement level (`some x`; `x = none` is an explicit `RetryPolicy(nil)` / `Observer(nil)`)
    wins; otherwise the session's default applies — unless the statement was made by the deprecated
    package-level `NewBatch`, which copies no session defaults -/
def effective {α : Type} (fromSession : Bool) (sessionLevel : Option α) (statementLevel : Option (Option α)) :
    Option α :=
  match statementLevel with
  | some x => x
  | none => if fromSession then sessionLevel else none

/-! ### executeQuery: which executions are started -/

/-- number of executions (`go q.run`) `executeQuery` may start: one, plus up to `spAttempts` speculative
    ones — but only for an idempotent statement (a batch is idempotent iff every entry is) -/
def maxExecutions (idempotent : Bool) (spAttempts : Nat) : Nat :=
  if !idempotent || spAttempts == 0 then 1 else 1 + spAttempts

def batchIdempotent (entries : List Bool) : Bool := entries.all id

/-- `IsIdempotent()` of a `*Query`: `Session.Query` copies `ClusterConfig.DefaultIdempotence` into the query
    (`defaultsFromSession`), `Query.Idempotent(v)` overwrites it -/
def queryIdempotent (sessionDefault : Bool) (stmtLevel : Option Bool) : Bool := stmtLevel.getD sessionDefault

end Executor
