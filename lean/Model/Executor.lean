/-
  Model of /repo/query_executor.go (`queryExecutor.do`, `executeQuery`, `speculate`, `run`), of the attempt
  accounting of the two statement kinds that implement `ExecutableQuery` (`Query.attempt`, `Batch.attempt`,
  `queryMetrics.attempt` in /repo/session.go) and of the built-in retry policies' decision functions in
  /repo/policies.go.
-/
namespace Executor

/-- a host as offered by the host iterator, with what `do` looks at -/
structure Host where
  id : Nat
  up : Bool          -- the SelectedHost carries a HostInfo and host.IsUp()
  conn : Bool        -- the pool exists (`getPool`) and Pick() returns a connection
deriving DecidableEq, Repr

/-- result of one attempt (`iter.err` classes) -/
inductive Res where
  | ok
  | err (kind : Nat)     -- a server error / timeout / connection loss; `kind` feeds GetRetryType
  | logical              -- context.Canceled, context.DeadlineExceeded, ErrNotFound: returned at once
deriving DecidableEq, Repr

inductive RT where
  | retry | rethrow | ignore | nextHost | unknown
deriving DecidableEq, Repr

/-- the two implementations of `ExecutableQuery` (and the three batch types, which share all executor code) -/
inductive Kind where
  | query | batchLogged | batchUnlogged | batchCounter
deriving DecidableEq, Repr

/-- what the executor is handed: the statement kind and whether an observer (QueryObserver / BatchObserver,
    from the session or set on the statement) is attached to it -/
structure Req where
  kind : Kind
  observed : Bool
deriving DecidableEq, Repr

/-- `qry.attempt(keyspace, end, start, iter, host)` as far as the attempt counter goes: `Query.attempt`
    (session.go) and `Batch.attempt` (session.go) both start with
    `metrics.attempt(1, latency, host, observer != nil)`, i.e. `totalAttempts += 1`, whether or not an
    observer is attached; only the observer call-back depends on `observed`. The value returned is the new
    `Attempts()`. -/
def Req.record (r : Req) (cnt : Nat) : Nat :=
  match r.kind, r.observed with
  | .query, _ => cnt + 1
  | _, true => cnt + 1
  | _, false => cnt + 1

/-- a retry policy: `attempt n` = `rt.Attempt(qry)` when `qry.Attempts() = n` (attempts made so far),
    `newCons n` = the consistency `Attempt` sets on the statement when it answers `true` with
    `qry.Attempts() = n` (only DowngradingConsistencyRetryPolicy does), `rtype k` = `rt.GetRetryType(err)`
    for an error of kind `k` -/
structure Policy where
  attempt : Nat → Bool
  newCons : Nat → Option Nat := fun _ => none
  rtype : Nat → RT

/-- one attempt as the statement's observer and the server see it -/
structure Att where
  host : Nat       -- host id
  idx : Nat        -- `Attempts()` before this attempt (= ObservedQuery.Attempt / ObservedBatch.Attempt)
  cons : Nat       -- consistency level the request carried
  res : Res
deriving DecidableEq, Repr

inductive Final where
  | last (r : Res)         -- the iter of the last attempt is returned
  | lastErr (kind : Nat)   -- hosts exhausted: `&Iter{err: lastErr}`
  | noConnections          -- hosts exhausted, nothing attempted
  | unknownRetryType
  | outOfFuel              -- model artefact: the policy never stops (the real loop would not either)
deriving DecidableEq, Repr

structure Out where
  attempts : List Att      -- one per attempt, in order
  final : Final
  cnt : Nat                -- `Attempts()` of the statement afterwards
  cons : Nat               -- `GetConsistency()` of the statement afterwards
deriving DecidableEq, Repr

/-- the attempt `a` came before what `o` describes -/
def Out.push (o : Out) (a : Att) : Out := { o with attempts := a :: o.attempts }

/-- next usable host from the iterator: down hosts and hosts without a connection are skipped
    (without consuming retry budget); returns the host and the remaining sequence -/
def nextUsable : List Host → Option (Host × List Host)
  | [] => none
  | h :: hs => if h.up && h.conn then some (h, hs) else nextUsable hs

/-- `queryExecutor.do`. `outcome k` is the result of the k-th request that reaches a server (0-based, counted
    over the life of the scenario), `cnt` the statement's attempt counter (`qry.Attempts()`, the state the
    retry policies read), `cons` its consistency level. `cur` = currently selected host (already known
    usable), `rest` = what the iterator will still offer, `lastErr` = the error of the previous attempt. -/
def doLoop (req : Req) (pol : Option Policy) (outcome : Nat → Res) :
    Nat → Option Host → List Host → Nat → Nat → Nat → Option Nat → Out
  | 0, _, _, _, cnt, cons, _ => ⟨[], .outOfFuel, cnt, cons⟩
  | _+1, none, _, _, cnt, cons, lastErr =>
      match lastErr with
      | some k => ⟨[], .lastErr k, cnt, cons⟩
      | none => ⟨[], .noConnections, cnt, cons⟩
  | fuel+1, some h, rest, k, cnt, cons, _ =>
      let r := outcome k
      let a : Att := ⟨h.id, cnt, cons, r⟩
      let cnt' := req.record cnt
      match r with
      | .logical => ⟨[a], .last r, cnt', cons⟩
      | .ok => ⟨[a], .last r, cnt', cons⟩
      | .err e =>
        match pol with
        | none => ⟨[a], .last r, cnt', cons⟩
        | some p =>
          if !p.attempt cnt' then ⟨[a], .last r, cnt', cons⟩
          else
            let cons' := (p.newCons cnt').getD cons
            match p.rtype e with
            | .retry => (doLoop req pol outcome fuel (some h) rest (k+1) cnt' cons' (some e)).push a
            | .rethrow => ⟨[a], .last r, cnt', cons'⟩
            | .ignore => ⟨[a], .last r, cnt', cons'⟩
            | .nextHost =>
                match nextUsable rest with
                | some (h', rest') => (doLoop req pol outcome fuel (some h') rest' (k+1) cnt' cons' (some e)).push a
                | none => (doLoop req pol outcome fuel none [] (k+1) cnt' cons' (some e)).push a
            | .unknown => ⟨[a], .unknownRetryType, cnt', cons'⟩

/-- `do` from the start: select the first usable host -/
def doQuery (req : Req) (pol : Option Policy) (outcome : Nat → Res) (fuel : Nat) (hosts : List Host)
    (k cnt cons : Nat) : Out :=
  match nextUsable hosts with
  | some (h, rest) => doLoop req pol outcome fuel (some h) rest k cnt cons none
  | none => doLoop req pol outcome fuel none [] k cnt cons none

/-- one execution of a statement through `Session.executeQuery` / `Session.executeBatch`, including the case of
    a context that is already done when the execution starts: `Conn.exec` then returns `ctx.Err()` before
    anything is written, but `qry.attempt` has still been called (the counter moves, the server sees nothing). -/
structure Run where
  out : Out
  sent : List Att          -- the attempts that reached a server, in order
  ctxDone : Bool           -- the statement's context is done afterwards
deriving DecidableEq, Repr

def execute (req : Req) (pol : Option Policy) (outcome : Nat → Res) (fuel : Nat) (hosts : List Host)
    (k cnt cons : Nat) (ctxDone : Bool) : Run :=
  if ctxDone then
    match nextUsable hosts with
    | some (h, _) => ⟨⟨[⟨h.id, cnt, cons, .logical⟩], .last .logical, req.record cnt, cons⟩, [], true⟩
    | none => ⟨⟨[], .noConnections, cnt, cons⟩, [], true⟩
  else
    let out := doQuery req pol outcome fuel hosts k cnt cons
    ⟨out, out.attempts, decide (out.final = .last .logical)⟩

/-! ### built-in policies (policies.go) -/

def simplePolicy (numRetries : Nat) : Policy :=
  { attempt := fun n => decide (n ≤ numRetries), rtype := fun _ => .nextHost }

/-- ExponentialBackoffRetryPolicy: same decisions as Simple (the sleep is not modelled) -/
def exponentialPolicy (numRetries : Nat) : Policy :=
  { attempt := fun n => decide (n ≤ numRetries), rtype := fun _ => .nextHost }

/-- error kinds used by DowngradingConsistencyRetryPolicy.GetRetryType -/
def kUnavailableAlive : Nat := 1      -- RequestErrUnavailable, Alive > 0
def kUnavailableNone : Nat := 2       -- RequestErrUnavailable, Alive = 0
def kWriteTOSimpleRecv : Nat := 3     -- RequestErrWriteTimeout SIMPLE/BATCH/COUNTER, Received > 0
def kWriteTOSimpleNone : Nat := 4     -- … Received = 0
def kWriteTOUnlogged : Nat := 5       -- RequestErrWriteTimeout UNLOGGED_BATCH
def kWriteTOOther : Nat := 6          -- RequestErrWriteTimeout other write type
def kReadTO : Nat := 7                -- RequestErrReadTimeout
-- every other kind: RetryNextHost

def downgradingRType (k : Nat) : RT :=
  if k = kUnavailableAlive then .retry else if k = kUnavailableNone then .rethrow
  else if k = kWriteTOSimpleRecv then .ignore else if k = kWriteTOSimpleNone then .rethrow
  else if k = kWriteTOUnlogged then .retry else if k = kWriteTOOther then .rethrow
  else if k = kReadTO then .retry else .nextHost

/-- DowngradingConsistencyRetryPolicy{ConsistencyLevelsToTry: levels}: `Attempt` answers
    `Attempts() ≤ len(levels)` and, when it answers true with `Attempts() = n > 0`, sets the statement's
    consistency to `levels[n-1]` -/
def downgradingPolicyL (levels : List Nat) : Policy :=
  { attempt := fun n => decide (n ≤ levels.length),
    newCons := fun n => if n = 0 then none else levels[n - 1]?,
    rtype := downgradingRType }

/-- the same with only the number of levels known (the decisions do not depend on the level values) -/
def downgradingPolicy (levels : Nat) : Policy :=
  { attempt := fun n => decide (n ≤ levels), rtype := downgradingRType }

/-! ### which policy / observer a statement carries (session.go: `Session.Query`, `Session.NewBatch`, the
    deprecated package-level `NewBatch`) -/

/-- a setting given at statement level (`some x`; `x = none` is an explicit `RetryPolicy(nil)` / `Observer(nil)`)
    wins; otherwise the session's default applies — unless the statement was made by the deprecated
    package-level `NewBatch`, which copies no session defaults -/
def effective {α : Type} (fromSession : Bool) (sessionLevel : Option α) (statementLevel : Option (Option α)) :
    Option α :=
  match statementLevel with
  | some x => x
  | none => if fromSession then sessionLevel else none

/-! ### executeQuery: which executions are started -/

/-- number of executions (`go q.run`) `executeQuery` may start: one, plus up to `spAttempts` speculative
    ones — but only for an idempotent statement (a batch is idempotent iff every entry is) -/
def maxExecutions (idempotent : Bool) (spAttempts : Nat) : Nat :=
  if !idempotent || spAttempts == 0 then 1 else 1 + spAttempts

def batchIdempotent (entries : List Bool) : Bool := entries.all id

end Executor
