/-
C12 / C02 — MODEL side, part 1: the byte-level helpers and the scalar encoders / decoders of
/repo/marshal.go, transliterated function by function (defects included).  Go's fixed-width integers are
`Int`s kept in range by explicit conversions (`toS`/`toU` = what `int16(x)`, `uint64(x)` … do); `x >> k` on a
signed integer is `Int.shiftRight` (floor); `byte(x)` is `byteOf`.  big.Int is `Int`.
Core Lean only (compiled into vdrv).  Tied to the code by the differential run of harness/cmd/c12, c02.
-/
import Model.ValueSpec
namespace Marshal
open ValueSpec (Bytes)

/-! ## Go integer conversions -/

/-- `intN(x)` : wrap into the signed range of `bits` bits -/
def toS (bits : Nat) (x : Int) : Int := (x + (2:Int)^(bits-1)) % (2:Int)^bits - (2:Int)^(bits-1)
/-- `uintN(x)` -/
def toU (bits : Nat) (x : Int) : Int := x % (2:Int)^bits
/-- `byte(x)` -/
def byteOf (x : Int) : UInt8 := UInt8.ofNat (x % 256).toNat

inductive IntKind | int | int8 | int16 | int32 | int64 | uint | uint8 | uint16 | uint32 | uint64
deriving DecidableEq, Repr

def IntKind.signed : IntKind → Bool
  | .int | .int8 | .int16 | .int32 | .int64 => true
  | _ => false

/-- width in bits (the harness runs on a 64-bit platform: int/uint are 64 bits) -/
def IntKind.bits : IntKind → Nat
  | .int8 | .uint8 => 8
  | .int16 | .uint16 => 16
  | .int32 | .uint32 => 32
  | _ => 64

/-- the values a Go variable of kind `k` can hold -/
def IntKind.holds (k : IntKind) (v : Int) : Bool :=
  if k.signed then ValueSpec.leB (-((2:Int)^(k.bits-1))) v && ValueSpec.ltB v ((2:Int)^(k.bits-1))
  else ValueSpec.leB 0 v && ValueSpec.ltB v ((2:Int)^k.bits)

/-! ## marshal.go:612-705  encInt / encShort / encBigInt / dec* -/

def encTiny (x : Int) : Bytes := [byteOf x]
def encShort (x : Int) : Bytes := [byteOf (x >>> 8), byteOf x]
def encInt (x : Int) : Bytes := [byteOf (x >>> 24), byteOf (x >>> 16), byteOf (x >>> 8), byteOf x]
def encBigInt (x : Int) : Bytes :=
  [byteOf (x >>> 56), byteOf (x >>> 48), byteOf (x >>> 40), byteOf (x >>> 32),
   byteOf (x >>> 24), byteOf (x >>> 16), byteOf (x >>> 8), byteOf x]

/-- `int32(x[0])<<24 | int32(x[1])<<16 | …` (0 unless exactly 4 bytes) -/
def decInt (b : Bytes) : Int :=
  match b with
  | [a, b, c, d] => toS 32 (a.toNat * 2^24 + b.toNat * 2^16 + c.toNat * 2^8 + d.toNat)
  | _ => 0
def decShort (b : Bytes) : Int :=
  match b with
  | [a, b] => toS 16 (a.toNat * 2^8 + b.toNat)
  | _ => 0
def decTiny (b : Bytes) : Int :=
  match b with
  | [a] => toS 8 a.toNat
  | _ => 0
def decBigInt (b : Bytes) : Int :=
  match b with
  | [a, b, c, d, e, f, g, h] =>
    toS 64 (a.toNat * 2^56 + b.toNat * 2^48 + c.toNat * 2^40 + d.toNat * 2^32 +
            e.toNat * 2^24 + f.toNat * 2^16 + g.toNat * 2^8 + h.toNat)
  | _ => 0

/-- bytesToInt64 / bytesToUint64 (callers pass ≤ 8 bytes): `ret |= int64(data[i]) << (8*(len-i-1))` -/
def bytesToUint64 (b : Bytes) : Int := toU 64 (ValueSpec.beNat b)
def bytesToInt64 (b : Bytes) : Int := toS 64 (ValueSpec.beNat b)

/-! ## strconv.ParseInt(s, 10, bits) / FormatInt -/

def digitVal (c : UInt8) : Option Nat := if 48 ≤ c.toNat ∧ c.toNat ≤ 57 then some (c.toNat - 48) else none

def parseDigits : Bytes → Nat → Option Nat
  | [], acc => some acc
  | c :: r, acc => match digitVal c with
    | some d => parseDigits r (acc * 10 + d)
    | none => none

/-- the mathematical value of `[+-]?[0-9]+`, `none` on a syntax error -/
def parseDec (s : Bytes) : Option Int :=
  match s with
  | [] => none
  | c :: r =>
    if c = 43 then (if r = [] then none else (parseDigits r 0).map (fun n => (n : Int)))
    else if c = 45 then (if r = [] then none else (parseDigits r 0).map (fun n => -(n : Int)))
    else (parseDigits s 0).map (fun n => (n : Int))

/-- `strconv.ParseInt(s, 10, bits)`: syntax or range error → none -/
def parseInt (bits : Nat) (s : Bytes) : Option Int :=
  match parseDec s with
  | some n => if -((2:Int)^(bits-1)) ≤ n ∧ n < (2:Int)^(bits-1) then some n else none
  | none => none

def natDigits (n : Nat) : Bytes :=
  if n < 10 then [UInt8.ofNat (48 + n)] else natDigits (n / 10) ++ [UInt8.ofNat (48 + n % 10)]

/-- `strconv.FormatInt(n, 10)` -/
def formatInt (n : Int) : Bytes := if n < 0 then 45 :: natDigits n.natAbs else natDigits n.toNat

/-! ## marshal.go:1203-1241  decBigInt2C / encBigInt2C (big.Int = Int) -/

/-- `big.Int.Bytes()`: big-endian magnitude without leading zeros (empty for 0) -/
def natBytes (n : Nat) : Bytes := if n = 0 then [] else natBytes (n / 256) ++ [ValueSpec.byteOfNat n]

/-- `big.Int.BitLen()` of the magnitude -/
def bitLen (n : Nat) : Nat := if n = 0 then 0 else bitLen (n / 2) + 1

def encBigInt2C (n : Int) : Bytes :=
  if n = 0 then [0]
  else if n > 0 then
    let b := natBytes n.toNat
    match b with
    | x :: _ => if x.toNat ≥ 128 then 0 :: b else b
    | [] => b
  else
    let length := (bitLen n.natAbs / 8 + 1) * 8
    let b := natBytes (n + (2:Int)^length).toNat
    match b with
    | x :: y :: r => if x = 255 ∧ y.toNat ≥ 128 then y :: r else b
    | _ => b

def decBigInt2C (data : Bytes) : Int :=
  match data with
  | [] => 0
  | x :: _ => if x.toNat ≥ 128 then (ValueSpec.beNat data : Int) - (2:Int)^(data.length * 8) else ValueSpec.beNat data

/-! ## marshal.go:759-808  the trimming loop of marshalVarint -/

def trimTC : Bytes → Bytes
  | b0 :: b1 :: rest =>
    if b0 ≠ 0 ∧ b0 ≠ 255 then b0 :: b1 :: rest
    else if b0 = 0 ∧ b1 ≠ 0 then (if b1.toNat < 128 then b1 :: rest else b0 :: b1 :: rest)
    else if b0 = 255 ∧ b1 ≠ 255 then (if b1.toNat ≥ 128 then b1 :: rest else b0 :: b1 :: rest)
    else trimTC (b1 :: rest)
  | b => b

/-! ## marshal.go:378-700  integer columns: source kind × column -/

inductive IntCol | tiny | small | int | big
deriving DecidableEq, Repr

def IntCol.bytes : IntCol → Nat
  | .tiny => 1 | .small => 2 | .int => 4 | .big => 8

/-- marshalTinyInt / marshalSmallInt / marshalInt / marshalBigInt on an integer of Go kind `k`
    (`named` = a named type, which takes the reflect.Kind fallback).  `none` = error. -/
def marshalIntKind (col : IntCol) (k : IntKind) (named : Bool) (v : Int) : Option Bytes :=
  match col, named with
  | .tiny, false =>
    (match k with
     | .int8 => some (encTiny v)
     | .uint8 => some (encTiny v)
     | .int16 | .int | .int32 | .int64 => if v > 127 ∨ v < -128 then none else some (encTiny v)
     | .uint16 | .uint | .uint32 | .uint64 => if v > 255 then none else some (encTiny v))
  | .tiny, true =>
    if k.signed then (if v > 127 ∨ v < -128 then none else some (encTiny v))
    else (if v > 255 then none else some (encTiny v))
  | .small, false =>
    (match k with
     | .int16 => some (encShort v)
     | .uint16 | .int8 | .uint8 => some (encShort (toS 16 v))
     | .int | .int32 | .int64 => if v > 32767 ∨ v < -32768 then none else some (encShort (toS 16 v))
     | .uint | .uint32 | .uint64 => if v > 65535 then none else some (encShort (toS 16 v)))
  | .small, true =>
    if k.signed then (if v > 32767 ∨ v < -32768 then none else some (encShort (toS 16 v)))
    else (if v > 65535 then none else some (encShort (toS 16 v)))
  | .int, false =>
    (match k with
     | .int | .int64 => if v > 2147483647 ∨ v < -2147483648 then none else some (encInt (toS 32 v))
     | .uint | .uint64 => if v > 4294967295 then none else some (encInt (toS 32 v))
     | .int32 => some (encInt v)
     | .uint32 | .int16 | .uint16 | .int8 | .uint8 => some (encInt (toS 32 v)))
  | .int, true =>
    if k.signed then (if v > 2147483647 ∨ v < -2147483648 then none else some (encInt (toS 32 v)))
    else (if v > 2147483647 then none else some (encInt (toS 32 v)))
  | .big, false =>
    (match k with
     | .uint => if v > 9223372036854775807 then none else some (encBigInt (toS 64 v))
     | .int64 => some (encBigInt v)
     | _ => some (encBigInt (toS 64 v)))
  | .big, true =>
    if k.signed then some (encBigInt v)
    else (if v > 9223372036854775807 then none else some (encBigInt (toS 64 v)))

/-- a Go `string` bound to an integer column: `strconv.ParseInt(v, 10, 8·w)` -/
def marshalIntString (col : IntCol) (s : Bytes) : Option Bytes :=
  match parseInt (8 * col.bytes) s with
  | none => none
  | some n => some (match col with
      | .tiny => encTiny n | .small => encShort (toS 16 n) | .int => encInt (toS 32 n) | .big => encBigInt n)

/-- marshalVarint on an integer kind: the unnamed-uint64 special case, otherwise marshalBigInt + trim -/
def marshalVarintKind (k : IntKind) (named : Bool) (v : Int) : Option Bytes :=
  if k = .uint64 ∧ named = false then
    (if v > 9223372036854775807 then some (trimTC (0 :: ValueSpec.beBytes 8 v.toNat))
     else some (trimTC (ValueSpec.beBytes 8 v.toNat)))
  else (marshalIntKind .big k named v).map trimTC

def marshalVarintString (s : Bytes) : Option Bytes := (marshalIntString .big s).map trimTC

/-- big.Int → varint: encBigInt2C then the trimming loop -/
def marshalVarintBig (n : Int) : Bytes := trimTC (encBigInt2C n)

/-! ## marshal.go:810-1010  unmarshalIntlike -/

/-- the column as `info.Type()` sees it in unmarshalIntlike's switches -/
inductive IntSrc | tiny | small | int | big | varint
deriving DecidableEq, Repr

/-- unmarshalIntlike into a Go integer of kind `k` (named or not: both paths apply the same checks on a
    64-bit platform).  `none` = error. -/
def unmarshalIntKind (src : IntSrc) (v : Int) (k : IntKind) : Option Int :=
  match k with
  | .int => some v
  | .int64 => some v
  | .int32 => if v < -2147483648 ∨ v > 2147483647 then none else some v
  | .int16 => if v < -32768 ∨ v > 32767 then none else some v
  | .int8 => if v < -128 ∨ v > 127 then none else some v
  | .uint | .uint64 =>
    (match src with
     | .int => some (toU 64 v % 4294967296)
     | .small => some (toU 64 v % 65536)
     | .tiny => some (toU 64 v % 256)
     | _ => some (toU 64 v))
  | .uint32 =>
    (match src with
     | .int => some (toU 32 v)
     | .small => some (toU 32 v % 65536)
     | .tiny => some (toU 32 v % 256)
     | _ => if v < 0 ∨ v > 4294967295 then none else some (toU 32 v))
  | .uint16 =>
    (match src with
     | .small => some (toU 16 v)
     | .tiny => some (toU 16 v % 256)
     | _ => if v < 0 ∨ v > 65535 then none else some (toU 16 v))
  | .uint8 =>
    if src ≠ .tiny ∧ (v < 0 ∨ v > 255) then none else some (toU 8 v)

/-- the int64 the fixed-width unmarshalers hand to unmarshalIntlike -/
def decodeFixed (src : IntSrc) (data : Bytes) : Int :=
  match src with
  | .tiny => decTiny data
  | .small => decShort data
  | .int => decInt data
  | .big => decBigInt data
  | .varint => 0

/-- unmarshalVarint's own front part for integer targets other than *big.Int: `none` = error,
    otherwise the int64 passed on (or, for *uint64 with 9 bytes and a leading 0, the final value) -/
inductive VarintFront
  | direct (v : Int)   -- *uint64 special case: stored as is
  | val (v : Int)      -- goes through unmarshalIntlike
  | err
deriving Repr

def unmarshalVarintFront (data : Bytes) (k : IntKind) (named : Bool) : VarintFront :=
  match data with
  | x :: r =>
    if k = .uint64 ∧ named = false ∧ data.length = 9 ∧ x = 0 then .direct (bytesToUint64 r)
    else if data.length > 8 then .err
    else
      let v := bytesToInt64 data
      if data.length < 8 ∧ x.toNat ≥ 128 then .val (toS 64 (v - (2:Int)^(data.length * 8))) else .val v
  | [] => .val 0

/-! ## marshal.go:1485-1551  vints -/

/-- `uint64((n >> 63) ^ (n << 1))` on int64 -/
def encIntZigZag (n : Int) : Nat :=
  ((BitVec.ofInt 64 n).sshiftRight 63 ^^^ (BitVec.ofInt 64 n <<< 1)).toNat

/-- `int64((n >> 1) ^ -(n & 1))` on uint64 -/
def decIntZigZag (u : Nat) : Int :=
  ((BitVec.ofNat 64 u >>> 1) ^^^ (- (BitVec.ofNat 64 u &&& 1#64))).toInt

/-- bits.LeadingZeros64 -/
def leadingZeros64 (u : Nat) : Nat := 64 - bitLen u

/-- the `for i := extraBytes; i >= 0; i--` loop: `n+1` bytes, low byte last, of `v` -/
def lowBytes : Nat → Nat → Bytes
  | 0, v => [ValueSpec.byteOfNat v]
  | n+1, v => lowBytes n (v / 256) ++ [ValueSpec.byteOfNat v]

def encVint (v : Int) : Bytes :=
  let vEnc := encIntZigZag v
  let lead0 := leadingZeros64 vEnc
  let numBytes := (639 - lead0 * 9) >>> 6
  if numBytes ≤ 1 then [ValueSpec.byteOfNat vEnc]
  else
    let extraBytes := numBytes - 1
    match lowBytes extraBytes vEnc with
    | b0 :: r => (b0 ||| UInt8.ofNat (255 - (255 >>> extraBytes))) :: r
    | [] => []

def encVints (m d n : Int) : Bytes := encVint m ++ encVint d ++ encVint n

/-- number of leading one bits of a byte: `bits.LeadingZeros32(uint32(^firstByte)) - 24` -/
def leadOnes (b : UInt8) : Nat := 8 - bitLen (255 - b.toNat)

/-- decVint(data, start) on the suffix starting at `start`: (value, rest) or error -/
def decVint (data : Bytes) : Option (Int × Bytes) :=
  match data with
  | [] => none
  | first :: r =>
    if first.toNat < 128 then some (decIntZigZag first.toNat, r)
    else
      let numBytes := leadOnes first
      let ret0 := first.toNat &&& (255 >>> numBytes)
      if r.length < numBytes then none
      else some (decIntZigZag ((r.take numBytes).foldl (fun acc x => (acc * 256 + x.toNat) % 2^64) ret0), r.drop numBytes)

/-- decVints: months, days (truncated to int32), nanoseconds; trailing bytes ignored -/
def decVints (data : Bytes) : Option (Int × Int × Int) :=
  match decVint data with
  | none => none
  | some (m, r1) => match decVint r1 with
    | none => none
    | some (d, r2) => match decVint r2 with
      | none => none
      | some (n, _) => some (toS 32 m, toS 32 d, n)

/-! ## other scalars -/

def encBool (b : Bool) : Bytes := if b then [1] else [0]
def decBool (b : Bytes) : Bool := match b with | [] => false | x :: _ => x ≠ 0

/-- milliseconds of a time.Time (Unix seconds, nanosecond part 0..999999999):
    `int64(v.UTC().Unix()*1e3) + int64(v.UTC().Nanosecond()/1e6)` (int64 arithmetic wraps) -/
def timeMillis (sec nsec : Int) : Int := toS 64 (toS 64 (sec * 1000) + nsec / 1000000)

/-- the zero time.Time: January 1, year 1, 00:00:00 UTC -/
def zeroTimeSec : Int := -62135596800
def timeIsZero (sec nsec : Int) : Bool := sec = zeroTimeSec ∧ nsec = 0

/-- Go's `/` on int64 truncates toward zero -/
def goDiv (a b : Int) : Int := Int.tdiv a b

/-- Go's `%` on int64: the remainder has the sign of the dividend -/
def goMod (a b : Int) : Int := Int.tmod a b

def millisInADay : Int := 86400000

/-- marshal.go daysSinceEpoch (repair of KF-C12-4): `days := ts / millisecondsInADay; if ts % millisecondsInADay < 0 { days-- }`
    — the day that CONTAINS the instant (floor), also before 1970 -/
def daysSinceEpoch (ts : Int) : Int :=
  let days := goDiv ts millisInADay
  if goMod ts millisInADay < 0 then days - 1 else days

/-- marshalDate's `encInt(int32(daysSinceEpoch(timestamp) + int64(1<<31)))` -/
def encDateMillis (ts : Int) : Bytes := encInt (toS 32 (daysSinceEpoch ts + 2147483648))

/-- unmarshalTimestamp into *time.Time: sec := x/1000; nsec := (x - sec*1000)*1e6; time.Unix normalises -/
def timeOfMillis (x : Int) : Int × Int :=
  let sec := goDiv x 1000
  let nsec := (x - sec * 1000) * 1000000
  (sec + nsec / 1000000000, nsec % 1000000000)

/-- net.IP.To4 (nil = none) -/
def ipTo4 (ip : Bytes) : Option Bytes :=
  if ip.length = 4 then some ip
  else if ip.length = 16 ∧ ip.take 10 = List.replicate 10 0 ∧ (ip.drop 10).take 2 = [255, 255] then some (ip.drop 12)
  else none

def ipTo16 (ip : Bytes) : Option Bytes :=
  if ip.length = 4 then some (List.replicate 10 0 ++ [255, 255] ++ ip)
  else if ip.length = 16 then some ip else none

/-! ## uuid.go: ParseUUID / UUID.String -/

def hexNibble (c : UInt8) : Option Nat :=
  let n := c.toNat
  if 48 ≤ n ∧ n ≤ 57 then some (n - 48)
  else if 97 ≤ n ∧ n ≤ 102 then some (n - 97 + 10)
  else if 65 ≤ n ∧ n ≤ 70 then some (n - 65 + 10)
  else none

/-- the loop of ParseUUID: `j` = nibbles seen so far (dashes are skipped when j is even) -/
def parseUUIDLoop : Bytes → List Nat → Option (List Nat)
  | [], acc => some acc
  | c :: r, acc =>
    if c = 45 ∧ acc.length % 2 = 0 then parseUUIDLoop r acc
    else match hexNibble c with
      | some d => if acc.length < 32 then parseUUIDLoop r (acc ++ [d]) else none
      | none => none

def pairUp : List Nat → Bytes
  | a :: b :: r => UInt8.ofNat (a * 16 + b) :: pairUp r
  | _ => []

def parseUUID (s : Bytes) : Option Bytes :=
  match parseUUIDLoop s [] with
  | some ns => if ns.length = 32 then some (pairUp ns) else none
  | none => none

def hexChar (n : Nat) : UInt8 := if n < 10 then UInt8.ofNat (48 + n) else UInt8.ofNat (87 + n)
def hexOf (b : Bytes) : Bytes := b.flatMap (fun x => [hexChar (x.toNat / 16), hexChar (x.toNat % 16)])

/-- UUID.String(): 8-4-4-4-12 lower-case hex -/
def uuidString (u : Bytes) : Bytes :=
  hexOf (u.take 4) ++ [45] ++ hexOf ((u.drop 4).take 2) ++ [45] ++ hexOf ((u.drop 6).take 2) ++ [45] ++
  hexOf ((u.drop 8).take 2) ++ [45] ++ hexOf (u.drop 10)

/-! ## net.IP.String (unmarshalInet into *string) -/

def hexNoLead (n : Nat) : Bytes :=
  if n < 16 then [hexChar n] else hexNoLead (n / 16) ++ [hexChar (n % 16)]

def groups16 : Bytes → List Nat
  | a :: b :: r => (a.toNat * 256 + b.toNat) :: groups16 r
  | _ => []

def zeroPrefix : List Nat → Nat
  | 0 :: r => zeroPrefix r + 1
  | _ => 0

/-- the first longest run (length ≥ 2) of zero groups: (start, end) -/
def bestZeroRun : List Nat → Nat → Option (Nat × Nat) → Option (Nat × Nat)
  | [], _, best => best
  | g :: r, i, best =>
    let l := zeroPrefix (g :: r)
    let better : Bool := decide (l ≥ 2) && (match best with | some (s, e) => decide (l > e - s) | none => true)
    bestZeroRun r (i+1) (if better then some (i, i + l) else best)

def joinColon : List Nat → Bytes
  | [] => []
  | [g] => hexNoLead g
  | g :: r => hexNoLead g ++ [58] ++ joinColon r

def ip6String (b : Bytes) : Bytes :=
  let gs := groups16 b
  match bestZeroRun gs 0 none with
  | none => joinColon gs
  | some (s, e) => joinColon (gs.take s) ++ [58, 58] ++ joinColon (gs.drop e)

def ip4String (b : Bytes) : Bytes :=
  match b with
  | [a, b, c, d] => natDigits a.toNat ++ [46] ++ natDigits b.toNat ++ [46] ++ natDigits c.toNat ++ [46] ++ natDigits d.toNat
  | _ => []

/-- `net.IP(data).String()` as unmarshalInet calls it (data non-empty) -/
def ipString (data : Bytes) : Bytes :=
  match ipTo4 data with
  | some v4 => ip4String v4
  | none => if data.length = 16 then ip6String data else [63] ++ hexOf data

end Marshal
