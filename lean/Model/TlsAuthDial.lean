/-
  Model of HOW gocql dials a host, for every dialer configuration (connectionpool.go `connConfig`: HostDialer /
  Dialer / defaults × SslOpts; dial.go `defaultHostDialer.DialHost` → `WrapTLS` → `tlsConfigForAddr` →
  crypto/tls), and of SEVERAL dials through the ONE `*tls.Config` the session's dialer holds
  (`defaultHostDialer.tlsConfig`: "safe to be reused by connections but it must not be modified after being used").
  Hand-written, core Lean only; tied to the source by `harness/cmd/c20` (ops `dialplan`, `dialsec`).
-/
import Model.TlsAuth
namespace TlsAuth

/-- the dialling part of a ClusterConfig -/
structure DialCfg where
  hostDialer : Bool          -- ClusterConfig.HostDialer != nil
  dialer : Bool              -- ClusterConfig.Dialer != nil
  ssl : Option SslOpts       -- ClusterConfig.SslOpts
  deriving DecidableEq, Repr

/-- what `connConfig` stores in `ConnConfig.HostDialer` -/
inductive HostDialerK
  | caller                                          -- the caller's HostDialer: Dialer and SslOpts are ignored
  | dflt (ownDialer : Bool) (tls : Option OutCfg)   -- `&defaultHostDialer{dialer, tlsConfig}`
  deriving DecidableEq, Repr

/-- connectionpool.go `connConfig`: the TLS set-up (and with it the reading of the CA / key-pair files) happens
    only when the driver dials itself; a caller-supplied `Dialer` replaces the TCP dial, never the TLS wrapping -/
def connConfig (c : DialCfg) : Except TlsErr HostDialerK :=
  if c.hostDialer then .ok .caller
  else match c.ssl with
    | none => .ok (.dflt c.dialer none)
    | some o =>
      match setupTLSConfig o with
      | .error e => .error e
      | .ok t => .ok (.dflt c.dialer (some t))

/-- a host as `DialHost` sees it -/
structure HostAddr where
  hostname : List UInt8           -- HostInfo.hostname ("" = the host has none)
  ip : Option (List UInt8)        -- textual form of the connect address; `none` = no valid connect address
  port : List UInt8               -- decimal text of HostInfo.port
  deriving DecidableEq, Repr

/-- the name `HostnameAndPort()` uses: the hostname, or the connect address literal when there is none -/
def HostAddr.name (h : HostAddr) : List UInt8 :=
  if h.hostname.isEmpty then h.ip.getD [] else h.hostname

inductive DialRes
  | caller        -- the caller's HostDialer was asked; the driver did nothing else
  | panicNoAddr   -- `HostInfo.ConnectAddress()` panics: no valid connect address (the check after it is never reached)
  | errNoPort     -- "host missing port"
  | errDial       -- the (caller's or default) Dialer's error
  | plain         -- connection returned unwrapped: `DialedHost{Conn: conn, DisableCoalesce: false}`
  | tls           -- TLS session established: `DialedHost{Conn: tconn, DisableCoalesce: true}`
  | errTls        -- the TLS handshake failed: connection closed, the error returned
  deriving DecidableEq, Repr

/-- what can be observed of one `DialHost` call -/
structure DialObs where
  tcp : Option (List UInt8)         -- the address handed to `Dialer.DialContext("tcp", ·)`
  serverName : Option (List UInt8)  -- ServerName of the `*tls.Config` handed to `tls.Client`
  res : DialRes
  deriving DecidableEq, Repr

/-- `WrapTLS` on the dialer's shared config: (the shared config afterwards, the ServerName crypto/tls is given) -/
abbrev Wrap := OutCfg → List UInt8 → OutCfg × List UInt8

/-- the code that exists: `tlsConfigForAddr` writes the name into a CLONE; the shared config is only read -/
def wrapCode : Wrap := fun t addr => (t, (tlsConfigForAddr t.insecure t.serverName addr).1)

/-- NOT the code: the variant that fills the name in on the shared config itself ("set it once") — modelled to show
    what the per-dial theorem excludes (C20_cex_pinned_server_name) -/
def wrapPinned : Wrap := fun t addr =>
  let sn := (tlsConfigForAddr t.insecure t.serverName addr).1
  ({ t with serverName := sn }, sn)

/-- one attempt: the host, whether the TCP dial succeeds, the certificate the node presents -/
structure DialTry where
  host : HostAddr
  dialOk : Bool
  cert : ServerCert
  /-- the caller's OWN verification callback (`VerifyConnection` / `VerifyPeerCertificate` of SslOpts.Config, which
      crypto/tls runs after its own checks, also with InsecureSkipVerify) rejects this node -/
  veto : Bool
  deriving DecidableEq, Repr

/-- dial.go `defaultHostDialer.DialHost` + `WrapTLS`; `trust` = which signers the config's RootCAs contain, `cb` =
    the config is a clone of the caller's Config and so carries the caller's callbacks -/
def dialDefault (wrap : Wrap) (trust : Signer → Bool) (cb : Bool) (tls : Option OutCfg) (d : DialTry) : Option OutCfg × DialObs :=
  match d.host.ip with
  | none => (tls, ⟨none, none, .panicNoAddr⟩)
  | some ip =>
    if d.host.port = [48] then (tls, ⟨none, none, .errNoPort⟩)
    else
      let tcp := joinHostPort ip d.host.port                 -- ConnectAddressAndPort()
      if !d.dialOk then (tls, ⟨some tcp, none, .errDial⟩)
      else match tls with
        | none => (none, ⟨some tcp, none, .plain⟩)
        | some t =>
          let r := wrap t (joinHostPort d.host.name d.host.port)   -- HostnameAndPort()
          (some r.1, ⟨some tcp, some r.2,
            if tlsAccepts t.insecure (trust (d.cert.signer)) r.2 d.cert && !(cb && d.veto) then .tls else .errTls⟩)

/-- several dials through one `defaultHostDialer`, in order; the state is its `tlsConfig` -/
def dialSeq (wrap : Wrap) (trust : Signer → Bool) (cb : Bool) (tls : Option OutCfg) : List DialTry → List DialObs
  | [] => []
  | d :: ds => (dialDefault wrap trust cb tls d).2 :: dialSeq wrap trust cb (dialDefault wrap trust cb tls d).1 ds

/-- the dialer's `tlsConfig` after the dials -/
def dialFinal (wrap : Wrap) (trust : Signer → Bool) (cb : Bool) (tls : Option OutCfg) : List DialTry → Option OutCfg
  | [] => tls
  | d :: ds => dialFinal wrap trust cb (dialDefault wrap trust cb tls d).1 ds

def trustOf (c : DialCfg) : Signer → Bool :=
  match c.ssl with
  | some o => rootsTrust o
  | none => fun _ => false

/-- does the derived config carry the caller's callbacks?  (`Config.Clone()` keeps them; without a Config there are none) -/
def cbOf (c : DialCfg) : Bool :=
  match c.ssl with
  | some o => o.cfg.isSome
  | none => false

/-- every `DialHost` call of a session configured with `c`, in order (error: `connConfig` failed, nothing is dialled) -/
def dialAll (c : DialCfg) (ds : List DialTry) : Except TlsErr (List DialObs) :=
  match connConfig c with
  | .error e => .error e
  | .ok .caller => .ok (ds.map (fun _ => ⟨none, none, .caller⟩))
  | .ok (.dflt _ tls) => .ok (dialSeq wrapCode (trustOf c) (cbOf c) tls ds)

/-- one dial -/
def dialHost (c : DialCfg) (d : DialTry) : Except TlsErr DialObs :=
  match connConfig c with
  | .error e => .error e
  | .ok .caller => .ok ⟨none, none, .caller⟩
  | .ok (.dflt _ tls) => .ok (dialDefault wrapCode (trustOf c) (cbOf c) tls d).2

/-! #### what the property demands of a dial (stated without the dialling code) -/
namespace Spec

/-- what the NODE sees of a dial and what the caller gets: was a TLS handshake started on the connection, and was
    a connection handed to the start-up code (which will send OPTIONS … credentials on it) -/
structure DialDemand where
  wrapped : Bool
  proceeded : Bool
  deriving DecidableEq, Repr

/-- With SslOpts the driver talks TLS on EVERY connection it dials itself — whichever TCP dialer is configured — and
    hands the connection on exactly when the documented table says "do not verify" or the node's certificate is
    signed by a CA the client was given and valid for the expected name — and the caller's own verification callback
    (which the derived config must still carry) does not reject the node; without SslOpts the connection is plain. -/
def dialDemand (ssl : Option SslOpts) (name : List UInt8) (cert : ServerCert) (veto : Bool) : DialDemand :=
  match ssl with
  | none => ⟨false, true⟩
  | some o => ⟨true, mayProceed o name cert && !(o.cfg.isSome && veto)⟩

end Spec

/-- the observation the demand is about -/
def DialObs.demand (o : DialObs) : Spec.DialDemand :=
  ⟨o.serverName.isSome, o.res = .plain || o.res = .tls⟩

end TlsAuth
