import Model.UuidDecode
/-
  Model of the ERROR VALUES of gocql's UUID entry points: which Go error type and which text (hand-written from
  /repo/uuid.go and /repo/marshal.go; core Lean only; tied to the source by `harness/cmd/c19`, ops `etext` / `ejson` /
  `emcql` / `eucql` / `eucqlt`):

    ParseUUID / UnmarshalText     fmt.Errorf("invalid UUID %q", input)
    UnmarshalJSON                 fmt.Errorf("invalid JSON UUID %s", str)  when len(str) > 36, else ParseUUID's error on str
    UUIDFromBytes                 errors.New("UUIDs must be exactly 16 bytes long")
    marshalUUID                   marshalErrorf("can not marshal []byte %d bytes long into %s, must be exactly 16 bytes long", ..),
                                  ParseUUID's error for a string value
    unmarshalUUID                 unmarshalErrorf("can not unmarshal X %s into %T", ..), unmarshalErrorf("unable to parse UUID: UUIDs must
                                  be exactly 16 bytes long")
    unmarshalTimeUUID (*time.Time) UUIDFromBytes' error unwrapped, unmarshalErrorf("invalid timeuuid")

  `%q` is `strconv.Quote`; it is modelled for strings whose bytes are all < 0x80 (`quoteASCII`); for a string
  with a byte ≥ 0x80 the text depends on UTF-8 validity and on Unicode's table of printable runes and only the
  error's existence and type are modelled (`Err.text = none`).
-/
namespace Uuid

inductive ErrKind where
  | plain      -- *fmt.wrapError / *errors.errorString
  | marshal    -- gocql.MarshalError
  | unmarshal  -- gocql.UnmarshalError
  deriving DecidableEq

structure Err where
  kind : ErrKind
  /-- the bytes of `err.Error()`; `none` = not modelled (a `%q` of a non-ASCII string) -/
  text : Option (List UInt8)
  deriving DecidableEq

def lit (s : String) : List UInt8 := asciiBytes s.toList

def hexLowByte (n : Nat) : UInt8 := UInt8.ofNat (hexDigit n).toNat

/-- `strconv.Quote` on one byte < 0x80 (appendEscapedRune) -/
def quoteByte (b : UInt8) : List UInt8 :=
  if b = 34 then [92, 34]            -- \"
  else if b = 92 then [92, 92]       -- \\
  else if 0x20 ≤ b.toNat ∧ b.toNat < 0x7f then [b]
  else if b = 7 then lit "\\a" else if b = 8 then lit "\\b" else if b = 12 then lit "\\f"
  else if b = 10 then lit "\\n" else if b = 13 then lit "\\r" else if b = 9 then lit "\\t"
  else if b = 11 then lit "\\v"
  else [92, 120, hexLowByte (b.toNat / 16), hexLowByte (b.toNat % 16)]   -- \x..

def quoteASCII (bs : List UInt8) : List UInt8 := 34 :: bs.flatMap quoteByte ++ [34]

def isASCII (bs : List UInt8) : Bool := bs.all (fun b => b.toNat < 128)

/-- `fmt.Errorf("invalid UUID %q", input)` -/
def parseErr (input : List UInt8) : Err :=
  ⟨.plain, if isASCII input then some (lit "invalid UUID " ++ quoteASCII input) else none⟩

/-- `ParseUUID(string(text))` / `UnmarshalText(text)`: the error, `none` = nil -/
def textErr (text : List UInt8) : Option Err :=
  match parseUUID (runes text) with
  | some _ => none
  | none => some (parseErr text)

/-- `UnmarshalJSON(data)` -/
def jsonErr (data : List UInt8) : Option Err :=
  let str := trimQuotes data
  if str.length > 36 then some ⟨.plain, some (lit "invalid JSON UUID " ++ str)⟩   -- %s: the bytes as they are
  else textErr str

def colName (timeuuid : Bool) : String := if timeuuid then "timeuuid" else "uuid"

def natLit (n : Nat) : List UInt8 := lit (toString n)

/-- `marshalUUID(info, value)` -/
def marshalErr (timeuuid : Bool) : Dst → Option Err
  | .uuid _ => none
  | .arr _ => none
  | .bytes b =>
    let n := (b.getD []).length
    if n = 16 then none
    else some ⟨.marshal, some (lit "can not marshal []byte " ++ natLit n ++ lit " bytes long into " ++
      lit (colName timeuuid) ++ lit ", must be exactly 16 bytes long")⟩
  | .str s => textErr s

/-- `%T` of the destination -/
def goTypeName : Dst → String
  | .uuid _ => "*gocql.UUID"
  | .arr _ => "*[16]uint8"
  | .bytes _ => "*[]uint8"
  | .str _ => "*string"

def badLen : List UInt8 := lit "unable to parse UUID: UUIDs must be exactly 16 bytes long"

/-- `unmarshalUUID(info, data, value)` (also the default arm of `unmarshalTimeUUID`) -/
def unmarshalErr (timeuuid : Bool) (data : List UInt8) (dst : Dst) : Option Err :=
  if data.length = 0 then
    match dst with
    | .arr _ => some ⟨.unmarshal, some (lit "can not unmarshal X " ++ lit (colName timeuuid) ++ lit " into " ++ lit (goTypeName dst))⟩
    | _ => none
  else if data.length ≠ 16 then some ⟨.unmarshal, some badLen⟩
  else none

/-- a uuid / timeuuid column into a `*time.Time` -/
def unmarshalTimeErr (timeuuid : Bool) (data : List UInt8) : Option Err :=
  if timeuuid then
    if data.length ≠ 16 then some ⟨.plain, some (lit "UUIDs must be exactly 16 bytes long")⟩
    else if version data ≠ 1 then some ⟨.unmarshal, some (lit "invalid timeuuid")⟩
    else none
  else if data.length ≠ 0 ∧ data.length ≠ 16 then some ⟨.unmarshal, some badLen⟩
  else some ⟨.unmarshal, some (lit "can not unmarshal X uuid into *time.Time")⟩

end Uuid
