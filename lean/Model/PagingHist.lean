import Model.Paging
/-!
  Histories on ONE `*gocql.Query` object (C15, object reuse and everything that decorates the query or
  its context on the way to conn.executeQuery).

    session.go  Query setters (Bind, PageSize, Prefetch, PageState, NoSkipMetadata, WithContext,
                Idempotent, SetSpeculativeExecutionPolicy, Consistency / SerialConsistency /
                WithTimestamp / CustomPayload / Trace / Observer / RetryPolicy = `setIdent`, Release +
                Session.Query = `reset`) change the OBJECT; Query.Iter() executes the object as it is
                at that moment through Session.executeQuery.
    query_executor.go executeQuery: `!IsIdempotent() || Attempts() == 0` ⇒ plain path with the query's own
                context; otherwise the executions run with a CHILD context (`context.WithCancel(
                qry.Context())`, `defer cancel()`: dead as soon as executeQuery returns) but with the
                unchanged query — so the next-page query (conn.go `*newQry = *qry`) keeps the caller's
                context. conn.exec: a context that is already done ⇒ `ctx.Err()` and NO request.
    conn.go     executeQuery's `case *resultRowsFrame`: the Iter of the page + nextIter holding a COPY of
                the query (`pageIter`); every later page of the iterator is fetched from that copy.
    session.go  nextIter.fetch under sync.Once (`force`: by the consumer at the page switch, or at any
                earlier moment by the asynchronous prefetch = scheduler step `prefetched`), Iter.Scan
                (`scanF`).

  The scripted node answers by CONTENT: `srv ident state` is the list of replies it gives to the chain of
  requests that starts with a request carrying bound values/options `ident` and paging state `state`
  (distinct iterators with the same snapshot get the same answers).
-/
namespace Paging.Hist
open Paging

/-- what fetches share: cancelled caller contexts, number of speculative executor calls that have
    returned (their child contexts are dead), whether the statement is in the prepared cache -/
structure Env where
  cancelled : List Nat
  execs : Nat
  cached : Bool
  deriving Repr

/-- the context a request is executed with -/
inductive ECtx where
  | caller (c : Option Nat)                  -- the query's own context
  | child (parent : Option Nat) (serial : Nat) -- the executor's cancellable child, `serial`-th speculative call
  deriving DecidableEq, Repr

def callerDead (e : Env) : Option Nat → Bool
  | none => false
  | some c => e.cancelled.contains c

def dead (e : Env) : ECtx → Bool
  | .caller c => callerDead e c
  | .child p k => callerDead e p || decide (k < e.execs)

/-- result of one executeQuery: the page's Iter, the replies not yet consumed, the requests sent -/
structure Fetch where
  iter : Iter
  rest : List Reply
  reqs : List Req
  deriving Repr

/-- conn.go executeQuery with a live context: one request (again after UNPREPARED), one page or error -/
def connExec (pp : Nat → Nat) : List Reply → Bool → Qry → Fetch
  | [], c, q => ⟨errIter .exhausted, [], prep c q ++ [request q]⟩
  | .unprepared :: rest, c, q =>
    let f := connExec pp rest false q
    { f with reqs := prep c q ++ request q :: f.reqs }
  | .fail f :: rest, c, q => ⟨errIter f, rest, prep c q ++ [request q]⟩
  | .page rows st :: rest, c, q => ⟨pageIter pp q rows st, rest, prep c q ++ [request q]⟩

/-- Session.executeQuery → queryExecutor.executeQuery (`ppOf` turns the query's prefetch into the
    threshold function) -/
def sessExec (ppOf : Int → Nat → Nat) (e : Env) (script : List Reply) (q : Qry) : Fetch × Env :=
  let spec := q.idem && decide (0 < q.spec)
  let c := if spec then ECtx.child q.ctx e.execs else ECtx.caller q.ctx
  let e1 : Env := if spec then { e with execs := e.execs + 1 } else e
  if dead e c then (⟨errIter .ctx, script, []⟩, e1)
  else (connExec (ppOf q.pf) script e.cached q, { e1 with cached := true })

/-- an iterator in the hands of the application -/
structure It where
  snap   : Qry            -- (ghost) the Query as it was when Iter() was called
  script : List Reply     -- (ghost) the node's answers to the chain of that snapshot
  cur    : Iter           -- the current page
  rest   : List Reply     -- answers to the requests this iterator has not sent yet
  pre    : Option Iter    -- `cur.next.next`: the next page if its one fetch has already happened
  out    : List Int       -- rows delivered so far
  reqs   : List Req       -- requests sent on behalf of this iterator
  deriving Repr

/-- nextIter.fetch(): runs once; both callers (the page switch in Scan, the prefetch trigger in Scan)
    come after Scan's `iter.err != nil` test -/
def force (ppOf : Int → Nat → Nat) (e : Env) (it : It) : It × Env :=
  match it.cur.err, it.pre, it.cur.next with
  | none, none, some n =>
    let r := sessExec ppOf e it.rest n.qry
    ({ it with pre := some r.1.iter, rest := r.1.rest, reqs := it.reqs ++ r.1.reqs }, r.2)
  | _, _, _ => (it, e)

/-- Iter.Scan: a row of the current page, or the page switch `*iter = *iter.next.fetch()` and again
    (the recursion ends because every switch consumes a reply; `k` is fuel) -/
def scanF (ppOf : Int → Nat → Nat) : Nat → Env → It → It × Env × Bool
  | 0, e, it => (it, e, false)
  | k + 1, e, it =>
    match scanRow it.cur with
    | some (r, c') => ({ it with cur := c', out := it.out ++ [r] }, e, true)
    | none =>
      match it.cur.err with
      | some _ => (it, e, false)
      | none =>
        match it.cur.next with
        | none => (it, e, false)
        | some _ =>
          let r := force ppOf e it
          match r.1.pre with
          | some nx => scanF ppOf k r.2 { r.1 with cur := nx, pre := none }
          | none => (r.1, r.2, false)

def scanFuel (it : It) : Nat := it.rest.length + 3

/-- `n` calls of Scan, stopping at the first that returns false -/
def scanN (ppOf : Int → Nat → Nat) : Nat → Env → It → It × Env
  | 0, e, it => (it, e)
  | n + 1, e, it =>
    let r := scanF ppOf (scanFuel it) e it
    if r.2.2 then scanN ppOf n r.2.1 r.1 else (r.1, r.2.1)

structure World where
  obj : Qry
  its : List It
  env : Env
  deriving Repr

inductive Step where
  | setIdent (n : Nat)            -- any setter of an option that is carried verbatim (and Bind's values)
  | bind (n : Nat)                -- Bind: values, `pageState = nil`
  | pageSize (n : Int)
  | prefetch (q : Int)
  | pageState (s : Bytes)         -- PageState: state + disableAutoPage
  | noSkipMeta
  | withCtx (c : Option Nat)      -- q = q.WithContext(c)
  | idem (b : Bool)
  | spec (n : Nat)
  | reset (q : Qry)               -- Release, then a (possibly recycled) object from Session.Query
  | iter (c : Option (Option Nat)) -- q.Iter() / q.WithContext(c).Iter()
  | scan (i n : Nat)              -- n calls of Scan on iterator i
  | cancel (c : Nat)              -- the caller cancels context c
  | prefetched (i : Nat)          -- (scheduler) the asynchronous prefetch of iterator i's next page runs now
  deriving Repr

/-- the query that `q.Iter()` / `q.WithContext(c).Iter()` executes -/
def iterQry (obj : Qry) : Option (Option Nat) → Qry
  | none => obj
  | some c => { obj with ctx := c }

/-- Query.Iter(): the first page is fetched at once; the iterator remembers nothing of the object but
    what executeQuery copied -/
def startIter (srv : Nat → Bytes → List Reply) (ppOf : Int → Nat → Nat) (e : Env) (q : Qry) : It × Env :=
  let sc := srv q.ident q.pageState
  let r := sessExec ppOf e sc q
  ({ snap := q, script := sc, cur := r.1.iter, rest := r.1.rest, pre := none, out := [], reqs := r.1.reqs }, r.2)

def step (srv : Nat → Bytes → List Reply) (ppOf : Int → Nat → Nat) (w : World) : Step → World
  | .setIdent n => { w with obj := { w.obj with ident := n } }
  | .bind n => { w with obj := { w.obj with ident := n, pageState := [] } }
  | .pageSize n => { w with obj := { w.obj with pageSize := n } }
  | .prefetch p => { w with obj := { w.obj with pf := p } }
  | .pageState s => { w with obj := { w.obj with pageState := s, disableAutoPage := true } }
  | .noSkipMeta => { w with obj := { w.obj with skipMeta := false } }
  | .withCtx c => { w with obj := { w.obj with ctx := c } }
  | .idem b => { w with obj := { w.obj with idem := b } }
  | .spec n => { w with obj := { w.obj with spec := n } }
  | .reset q => { w with obj := q }
  | .iter c =>
    let r := startIter srv ppOf w.env (iterQry w.obj c)
    { w with its := w.its ++ [r.1], env := r.2 }
  | .scan i n =>
    match w.its[i]? with
    | none => w
    | some it => let r := scanN ppOf n w.env it; { w with its := w.its.set i r.1, env := r.2 }
  | .cancel c => { w with env := { w.env with cancelled := c :: w.env.cancelled } }
  | .prefetched i =>
    match w.its[i]? with
    | none => w
    | some it => let r := force ppOf w.env it; { w with its := w.its.set i r.1, env := r.2 }

def exec (srv : Nat → Bytes → List Reply) (ppOf : Int → Nat → Nat) : World → List Step → World
  | w, [] => w
  | w, s :: rest => exec srv ppOf (step srv ppOf w s) rest

/-- Scan would return false: the iterator has ended (with its error, or normally) -/
def finished (it : It) : Prop :=
  it.cur.err.isSome ∨ (it.cur.rows[it.cur.pos]? = none ∧ it.cur.next = none)

end Paging.Hist
