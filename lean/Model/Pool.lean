/-
  Model of /repo/connectionpool.go hostConnPool (fill / connect / connectMany / fillingStopped /
  HandleError / Close) and of /repo/host_source.go refreshDebouncer + /repo/events.go eventDebouncer
  stop protocols, and of Session.Close's idempotence flag.
-/
namespace Pool

/-- one host pool. `pending` = dials started by the current filler that have not finished;
    `opened` = connections this pool has opened and not yet closed (ghost: those in `conns` plus none
    else — a dial finishing after Close closes its connection at once). -/
structure St where
  size : Nat
  conns : Nat        -- len(pool.conns)
  filling : Bool
  pending : Nat
  closed : Bool
  opened : Nat       -- ghost: open connections attributable to this pool
deriving DecidableEq, Repr

inductive Act where
  | fillStart        -- fill(): check, upgrade lock, re-check, filling := true; work = size - len(conns)
  | dialOk           -- connect(): handshake succeeded; appended unless the pool is closed (then closed at once)
  | dialFail         -- connect(): failed
  | fillStop         -- fillingStopped(): only after every dial of this filler has returned (wg.Wait)
  | connError        -- HandleError(conn, err, closed=true): conn removed, `go pool.fill()`
  | close            -- Close(): closed := true, conns emptied and each connection closed
deriving DecidableEq, Repr

def init (size : Nat) : St := { size := size, conns := 0, filling := false, pending := 0, closed := false, opened := 0 }

def step (s : St) : Act → Option St
  | .fillStart =>
      if !s.closed && !s.filling && s.conns < s.size then
        some { s with filling := true, pending := s.size - s.conns }
      else none
  | .dialOk =>
      if s.pending > 0 then
        if s.closed then some { s with pending := s.pending - 1 }     -- conn.Close() immediately
        else some { s with pending := s.pending - 1, conns := s.conns + 1, opened := s.opened + 1 }
      else none
  | .dialFail => if s.pending > 0 then some { s with pending := s.pending - 1 } else none
  | .fillStop => if s.filling && s.pending == 0 then some { s with filling := false } else none
  | .connError =>
      if !s.closed && s.conns > 0 then some { s with conns := s.conns - 1, opened := s.opened - 1 } else none
  | .close => if s.closed then some s else some { s with closed := true, conns := 0, opened := 0 }

def run : St → List Act → Option St
  | s, [] => some s
  | s, a :: as => match step s a with
    | some s' => run s' as
    | none => none

/-! ### refreshDebouncer (host_source.go), as repaired by the fix commit: stop() closes `quit` -/

inductive FPc where
  | select      -- blocked in the select on refreshNowCh / timer / quit
  | woken       -- left the select, about to take the mutex
  | refreshing  -- running refreshFn outside the mutex
  | exited
deriving DecidableEq, Repr

structure Deb where
  stopped : Bool
  quitClosed : Bool
  nowPending : Bool     -- refreshNowCh (capacity 1) holds a token
  timerArmed : Bool
  f : FPc
  stopDone : Bool       -- stop() has returned
deriving DecidableEq, Repr

inductive DAct where
  | refreshNow | debounce | timerFire
  | wake           -- flusher: a select case is ready
  | lock           -- flusher: takes the mutex, looks at `stopped`
  | refreshDone    -- refreshFn returned
  | stop           -- stop(): lock; stopped := true; unlock; close(quit) — no blocking operation
deriving DecidableEq, Repr

def Deb.init : Deb := { stopped := false, quitClosed := false, nowPending := false, timerArmed := false, f := .select, stopDone := false }

def dstep (d : Deb) : DAct → Option Deb
  | .refreshNow => some { d with nowPending := true }
  | .debounce => if d.stopped then some d else some { d with timerArmed := true }
  | .timerFire => if d.timerArmed then some d else none
  | .wake =>
      if d.f = .select ∧ (d.nowPending ∨ d.timerArmed ∨ d.quitClosed) then some { d with f := .woken } else none
  | .lock =>
      if d.f = .woken then
        if d.stopped then some { d with f := .exited, timerArmed := false }
        else some { d with f := .refreshing, nowPending := false, timerArmed := false }
      else none
  | .refreshDone => if d.f = .refreshing then some { d with f := .select } else none
  | .stop => if d.stopDone then some d else some { d with stopped := true, quitClosed := true, stopDone := true }

/-- the protocol before the fix: stop() SENDS on the unbuffered quit channel, which needs the flusher to be
    in its select. State after `stop` has set `stopped`: can the send ever complete? -/
def oldStopCanComplete (d : Deb) : Bool := d.f == .select

end Pool

namespace Pool
/-- the stop protocol before the fix commit: `stopSet` (lock; stopped := true; unlock) then `stopSend`
    (`d.quit <- struct{}{}`), a rendezvous that needs the flusher to be blocked in its select. -/
inductive OAct where
  | refreshNow | wake | lock | refreshDone | stopSet | stopSend
deriving DecidableEq, Repr

structure ODeb where
  stopped : Bool
  nowPending : Bool
  gotQuit : Bool     -- the flusher received the quit token
  f : FPc
  stopDone : Bool
deriving DecidableEq, Repr

def ODeb.init : ODeb := { stopped := false, nowPending := false, gotQuit := false, f := .select, stopDone := false }

def ostep (d : ODeb) : OAct → Option ODeb
  | .refreshNow => some { d with nowPending := true }
  | .wake => if d.f = .select ∧ d.nowPending then some { d with f := .woken } else none
  | .lock =>
      if d.f = .woken then
        if d.stopped then some { d with f := .exited } else some { d with f := .refreshing, nowPending := false }
      else none
  | .refreshDone => if d.f = .refreshing then some { d with f := .select } else none
  | .stopSet => if d.stopped then none else some { d with stopped := true }
  | .stopSend => if d.stopped ∧ ¬ d.stopDone ∧ d.f = .select then some { d with f := .woken, gotQuit := true, stopDone := true } else none

def orun : ODeb → List OAct → Option ODeb
  | s, [] => some s
  | s, a :: as => match ostep s a with
    | some s' => orun s' as
    | none => none
end Pool

namespace Pool

/-! ### refreshDebouncer WITH its broadcaster and the refreshNow waiters (host_source.go)

```go
func (d *refreshDebouncer) refreshNow() <-chan error {            // lock
    if d.stopped { ch := make(chan error); close(ch); return ch }     // fix: commit for KF-C17-2
    if d.broadcaster == nil { d.broadcaster = newErrorBroadcaster()
        select { case d.refreshNowCh <- struct{}{}: default: } }
    return d.broadcaster.newListener() }
func (d *refreshDebouncer) flusher() { for {
    select { case <-d.refreshNowCh: case <-d.timer.C: case <-d.quit: }
    d.mu.Lock()
    if d.stopped { if d.broadcaster != nil { d.broadcaster.stop(); d.broadcaster = nil }; d.timer.Stop(); unlock; return }
    drain refreshNowCh; d.timer.Stop(); drain timer.C
    curBroadcaster := d.broadcaster; d.broadcaster = nil; unlock
    err := d.refreshFn(); if curBroadcaster != nil { curBroadcaster.broadcast(err) } } }
```
Waiters are numbered in the order of their refreshNow() calls. `served` = got the result of a refresh (value, then the
channel is closed), `shut` = channel closed by broadcaster.stop(). -/

inductive WakeBy where
  | now | timer | quit
deriving DecidableEq, Repr

structure WDeb where
  stopped : Bool
  quitClosed : Bool
  token : Bool               -- refreshNowCh (capacity 1) holds its token
  timerArmed : Bool
  f : FPc
  pend : Option (List Nat)   -- d.broadcaster: the listeners of the refresh asked for and not yet started (none = nil)
  cur : Option (List Nat)    -- curBroadcaster of the refresh being executed
  served : List Nat
  shut : List Nat
  nextW : Nat
  late : Bool                -- ghost: some refreshNow() registered a listener after the flusher had returned
                             -- (impossible in the code that exists; it is what the code before the fix did)
deriving DecidableEq, Repr

inductive WAct where
  | refreshNow | debounce
  | wake (by_ : WakeBy)   -- flusher: the select takes a ready case (Go picks any ready one)
  | lock                  -- flusher: takes the mutex, looks at `stopped`
  | refreshDone           -- refreshFn returned; curBroadcaster.broadcast(err)
  | stop
deriving DecidableEq, Repr

def WDeb.init : WDeb :=
  { stopped := false, quitClosed := false, token := false, timerArmed := false, f := .select, pend := none, cur := none,
    served := [], shut := [], nextW := 0, late := false }

def ls (o : Option (List Nat)) : List Nat := o.getD []

/-- refreshNow() of the code that exists (`fixed = true`: a stopped debouncer hands out a closed channel) and of the
    code before the fix commit for KF-C17-2 (`fixed = false`: `stopped` is not looked at), kept for the regression
    theorem `C17_old_refreshNow_strands_waiter` -/
def wRefreshNow (fixed : Bool) (d : WDeb) : WDeb :=
  if fixed && d.stopped then { d with shut := d.shut ++ [d.nextW], nextW := d.nextW + 1 }
  else match d.pend with
    | none => { d with pend := some [d.nextW], token := true, nextW := d.nextW + 1, late := d.late || d.f == .exited }
    | some l => { d with pend := some (l ++ [d.nextW]), nextW := d.nextW + 1, late := d.late || d.f == .exited }

def wReady (d : WDeb) : WakeBy → Bool
  | .now => d.token
  | .timer => d.timerArmed
  | .quit => d.quitClosed

def wConsume (d : WDeb) : WakeBy → WDeb
  | .now => { d with token := false }
  | .timer => { d with timerArmed := false }
  | .quit => d

def wstepG (fixed : Bool) (d : WDeb) : WAct → Option WDeb
  | .refreshNow => some (wRefreshNow fixed d)
  | .debounce => if d.stopped then some d else some { d with timerArmed := true }
  | .wake b => if d.f = .select ∧ wReady d b then some { wConsume d b with f := .woken } else none
  | .lock =>
      if d.f = .woken then
        if d.stopped then some { d with f := .exited, timerArmed := false, shut := d.shut ++ ls d.pend, pend := none }
        else some { d with f := .refreshing, token := false, timerArmed := false, cur := d.pend, pend := none }
      else none
  | .refreshDone => if d.f = .refreshing then some { d with f := .select, served := d.served ++ ls d.cur, cur := none } else none
  | .stop => some { d with stopped := true, quitClosed := true }

/-- the code that exists -/
def wstep : WDeb → WAct → Option WDeb := wstepG true
/-- the code before the fix commit (refreshNow does not look at `stopped`) -/
def wstepOld : WDeb → WAct → Option WDeb := wstepG false

def wrunG (fixed : Bool) : WDeb → List WAct → Option WDeb
  | s, [] => some s
  | s, a :: as => match wstepG fixed s a with
    | some s' => wrunG fixed s' as
    | none => none

def wrun : WDeb → List WAct → Option WDeb := wrunG true
def wrunOld : WDeb → List WAct → Option WDeb := wrunG false

/-- the seeded family: the flusher returns straight from the quit case of its select (lock; timer.Stop(); unlock;
    return) without the `if d.stopped { broadcaster.stop() … }` block -/
def wstepQuitReturn (d : WDeb) : WAct → Option WDeb
  | .wake .quit => if d.f = .select ∧ d.quitClosed then some { d with f := .exited, timerArmed := false } else none
  | a => wstep d a

def wrunQuitReturn : WDeb → List WAct → Option WDeb
  | s, [] => some s
  | s, a :: as => match wstepQuitReturn s a with
    | some s' => wrunQuitReturn s' as
    | none => none

def WDeb.released (d : WDeb) (w : Nat) : Prop := w ∈ d.served ∨ w ∈ d.shut

end Pool

/-! ### policyConnPool (connectionpool.go): the pool registry of ONE host id under concurrent callers

```go
func (p *policyConnPool) addHost(host *HostInfo) {
    hostID := host.HostID()
    p.mu.Lock()
    if p.closed { p.mu.Unlock(); return }                                 // fix: commit for KF-C17-3
    pool, ok := p.hostConnPools[hostID]                                   // lookup
    if !ok { pool = newHostConnPool(p.session, host, host.Port(), …)      // create
             p.hostConnPools[hostID] = pool }                             // store
    p.mu.Unlock()
    pool.fill() }
func (p *policyConnPool) removeHost(hostID string) { p.mu.Lock(); pool, ok := …; if !ok { unlock; return }
    delete(p.hostConnPools, hostID); p.mu.Unlock(); go pool.Close() }
func (p *policyConnPool) Close() { p.mu.Lock(); defer p.mu.Unlock(); p.closed = true
    for addr, pool := range … { delete; pool.Close() } }
```
Any number of callers (UP event, ring refresh startPoolFill, reconnect ticker, controlConn.setupConn; DOWN event, ring
refresh removeHost; Session.Close) at once. The mutex discipline of the code that exists is built into the state: `crit`
is the one caller inside policyConnPool.mu, every other caller is outside (waiting for the mutex, or past its unlock with
`pool.fill()` / `go pool.Close()` still to run). Pool objects are numbered in the order of their creation. -/
namespace Reg

inductive Crit where
  | addIn                       -- addHost: took the mutex
  | addRefused                  -- … found the pool map closed (policyConnPool.Close has run): unlock and return
  | addLooked (hit : Option Nat) -- … looked the host up
  | addCreated (i : Nat)        -- … missed and built pool i (newHostConnPool returned), not stored yet
  | addStored (i : Nat)         -- … stored it
  | rmIn                        -- removeHost: took the mutex
  | rmMiss                      -- … no pool registered
  | rmDeleted (i : Nat)         -- … deleted the entry of pool i
  | clIn                        -- policyConnPool.Close: took the mutex
  | clDone                      -- … deleted every entry and closed every pool
deriving DecidableEq, Repr

structure St where
  reg : Option Nat          -- hostConnPools[hostID]
  closed : Bool             -- policyConnPool.closed (written and read under policyConnPool.mu only)
  pools : List Bool         -- closed flag of every hostConnPool object ever built for the host
  crit : Option Crit        -- the caller inside policyConnPool.mu (none: the mutex is free)
  addWait : Nat             -- addHost callers that have not taken the mutex yet
  rmWait : Nat
  clWait : Nat
  toFill : List Nat         -- addHost callers past the unlock: pool.fill() still to be called on pool i
  toClose : List Nat        -- removeHost callers past the unlock: `go pool.Close()` still to run on pool i
  filled : List Nat         -- ghost: the pools fill() has been called on
  missed : Nat              -- split-lock variant only: callers that missed under the read lock and are building a pool
  made : List Nat           -- split-lock variant only: callers that built pool i and have not stored it yet
deriving DecidableEq, Repr

def St.init (registered : Bool) : St :=
  { reg := if registered then some 0 else none, closed := false, pools := if registered then [false] else [], crit := none,
    addWait := 0, rmWait := 0, clWait := 0, toFill := [], toClose := [], filled := [], missed := 0, made := [] }

inductive Act where
  | callAdd | callRemove | callClose          -- a new caller arrives
  | addLock | addLookup | addCreate | addStore | addUnlock
  | fill (i : Nat)                            -- pool.fill() of an addHost caller past its unlock
  | rmLock | rmLookup | rmUnlock
  | close (i : Nat)                           -- `go pool.Close()` of a removeHost caller runs
  | clLock | clSweep | clUnlock
  -- the split-lock variant of addHost (lookup under the read lock; create unlocked; store under the write lock, no re-check)
  | sLookup | sMake | sStore (i : Nat)
deriving DecidableEq, Repr

def setClosed : List Bool → Nat → List Bool
  | [], _ => []
  | _ :: bs, 0 => true :: bs
  | b :: bs, n + 1 => b :: setClosed bs n

/-- the code that exists -/
def step (s : St) : Act → Option St
  | .callAdd => some { s with addWait := s.addWait + 1 }
  | .callRemove => some { s with rmWait := s.rmWait + 1 }
  | .callClose => some { s with clWait := s.clWait + 1 }
  | .addLock => if s.crit = none ∧ 0 < s.addWait then some { s with crit := some .addIn, addWait := s.addWait - 1 } else none
  | .addLookup =>
      if s.crit = some .addIn then
        if s.closed then some { s with crit := some .addRefused } else some { s with crit := some (.addLooked s.reg) }
      else none
  | .addCreate =>
      if s.crit = some (.addLooked none) then some { s with crit := some (.addCreated s.pools.length), pools := s.pools ++ [false] }
      else none
  | .addStore => match s.crit with
      | some (.addCreated i) => some { s with crit := some (.addStored i), reg := some i }
      | _ => none
  | .addUnlock => match s.crit with
      | some .addRefused => some { s with crit := none }
      | some (.addLooked (some i)) => some { s with crit := none, toFill := s.toFill ++ [i] }
      | some (.addStored i) => some { s with crit := none, toFill := s.toFill ++ [i] }
      | _ => none
  | .fill i => if i ∈ s.toFill then some { s with toFill := s.toFill.erase i, filled := s.filled ++ [i] } else none
  | .rmLock => if s.crit = none ∧ 0 < s.rmWait then some { s with crit := some .rmIn, rmWait := s.rmWait - 1 } else none
  | .rmLookup =>
      if s.crit = some .rmIn then
        match s.reg with
        | none => some { s with crit := some .rmMiss }
        | some i => some { s with crit := some (.rmDeleted i), reg := none }
      else none
  | .rmUnlock => match s.crit with
      | some .rmMiss => some { s with crit := none }
      | some (.rmDeleted i) => some { s with crit := none, toClose := s.toClose ++ [i] }
      | _ => none
  | .close i => if i ∈ s.toClose then some { s with toClose := s.toClose.erase i, pools := setClosed s.pools i } else none
  | .clLock => if s.crit = none ∧ 0 < s.clWait then some { s with crit := some .clIn, clWait := s.clWait - 1 } else none
  | .clSweep =>
      if s.crit = some .clIn then
        match s.reg with
        | none => some { s with crit := some .clDone, closed := true }
        | some i => some { s with crit := some .clDone, closed := true, reg := none, pools := setClosed s.pools i }
      else none
  | .clUnlock => if s.crit = some .clDone then some { s with crit := none } else none
  | .sLookup => none
  | .sMake => none
  | .sStore _ => none

def run : St → List Act → Option St
  | s, [] => some s
  | s, a :: as => match step s a with
    | some s' => run s' as
    | none => none

/-- the seeded family: addHost looks the pool up under the READ lock (any number of callers at once, none while a
    writer is inside), builds the pool unlocked and stores it under the write lock without looking again -/
def stepSplit (s : St) : Act → Option St
  | .addLock => none | .addLookup => none | .addCreate => none | .addStore => none | .addUnlock => none
  | .sLookup =>
      if s.crit = none ∧ 0 < s.addWait then
        match s.reg with
        | some i => some { s with addWait := s.addWait - 1, toFill := s.toFill ++ [i] }
        | none => some { s with addWait := s.addWait - 1, missed := s.missed + 1 }
      else none
  | .sMake => if 0 < s.missed then some { s with missed := s.missed - 1, made := s.made ++ [s.pools.length], pools := s.pools ++ [false] } else none
  | .sStore i =>
      if s.crit = none ∧ i ∈ s.made then some { s with made := s.made.erase i, reg := some i, toFill := s.toFill ++ [i] } else none
  | a => step s a

def runSplit : St → List Act → Option St
  | s, [] => some s
  | s, a :: as => match stepSplit s a with
    | some s' => runSplit s' as
    | none => none

/-- pool i has been built, is not closed, and nobody is committed to closing it -/
def St.live (s : St) (i : Nat) : Prop :=
  s.pools[i]? = some false ∧ s.crit ≠ some (.rmDeleted i) ∧ i ∉ s.toClose

end Reg
