import Model.CrashValue
/-!
  C05 / value decoders, FIXED variant: the same definitions as Model.CrashValue instantiated with
  `fx := true`, i.e. the code with the guards of props/C05.fix-{6,10,11,12,13,14,15}.diff applied:
    fix-11  unmarshalList: negative length -> error                      (was reflect.MakeSlice panic)
    fix-6  readBytes callers (unmarshalTuple / unmarshalUDT): length beyond the data -> error
    fix-12  unmarshalTuple into []interface{}: fewer entries than tuple elements -> error
    fix-13  unmarshalDate: 1..3 bytes -> error
    fix-10  goType: map key type that is not comparable -> error         (was reflect.MapOf panic)
    fix-14  unmarshalTuple (struct / slice / array): field not settable or of another type -> error;
           unmarshalUDT: unexported struct field named like a UDT field -> error
    fix-15  unmarshalList / unmarshalMap: element count that the remaining bytes cannot hold -> error
           BEFORE reflect.MakeSlice / MakeMapWithSize (allocation bound; outcomes unchanged)
  NOT listed in props/C05.json until the fixes are committed: the integrator switches
  `Driver.C05` from `CrashValue.answer` to `CrashValueFixed.answer` then.
-/
namespace CrashValueFixed
open CrashValue

/-- `gocql.Unmarshal` with the proposed guards: the outcome -/
def unmarshal (proto : Nat) (t : CT) (dst : Dest) (d : Option Bytes) : Outcome :=
  CrashValue.unmarshal true proto t dst d

/-- op line `val <proto> <type> <dest> <hex|nil|->` answered by the fixed model -/
def answer (ws : List String) : Option String :=
  match ws with
  | "val" :: rest =>
    match rest with
    | [p, t, d, h] =>
      match p.toNat?, parseWord toCT t, parseWord toDest d, parseData h with
      | some proto, some ct, some dst, some data =>
          if proto > 255 then some "bad-op" else some (unmarshal proto ct dst data).str
      | _, _, _, _ => some "bad-op"
    | _ => some "bad-op"
  | _ => none

end CrashValueFixed
