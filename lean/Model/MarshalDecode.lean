/-
C12 / C02 — MODEL side, part 3: gocql's `Unmarshal` (marshal.go:225-309 and the per-type functions) into a
fresh zero value of a given Go type.  Follows the code's order of tests; defects included.  Core Lean only.
-/
import Model.Marshal
namespace Marshal
open ValueSpec (Bytes CqlTy beBytes beNat shorter)

/-! ## zero values and goType -/

/-- helpers.go goType: the Go type gocql creates for a column when the caller gave none -/
def goTypeOf : CqlTy → GoTy
  | .varchar | .ascii | .inet | .text => .str false
  | .bigint | .counter => .int .int64 false
  | .time => .dur
  | .timestamp | .date => .time
  | .blob => .bytes false
  | .boolean => .bool false
  | .float => .f32 false
  | .double => .f64 false
  | .int => .int .int false
  | .smallint => .int .int16 false
  | .tinyint => .int .int8 false
  | .decimal => .ptr .dec
  | .uuid | .timeuuid => .uuid
  | .list e | .set e => .slice (goTypeOf e)
  | .map k v => .map (goTypeOf k) (goTypeOf v)
  | .varint => .ptr .big
  | .tuple _ => .slice .iface
  | .udt _ _ => .udtmap
  | .duration => .cqldur

mutual
def zeroOf : GoTy → GoVal
  | .int k named => .int k named 0
  | .str named => .str named []
  | .bytes named => .bytes named true []
  | .bool named => .bool named false
  | .f32 named => .f32 named 0
  | .f64 named => .f64 named 0
  | .big => .big 0
  | .dec => .dec 0 0
  | .time => .time zeroTimeSec 0
  | .dur => .dur 0
  | .cqldur => .cqldur 0 0 0
  | .uuid => .uuid (List.replicate 16 0)
  | .arr16 => .arr16 (List.replicate 16 0)
  | .ip => .ip []
  | .ptr _ => .nilptr
  | .slice _ => .slice true []
  | .array n t => .array (List.replicate n (zeroOf t))
  | .map _ _ => .map true []
  | .iface => .nil
  | .ifaces ts => .ifaces (zeroOfs ts)
  | .struct ts => .struct (zeroOfs ts)
  | .udtmap => .udtmap true [] []
  | .udtstruct names ts => .udtstruct names (zeroOfs ts)
def zeroOfs : List GoTy → List GoVal
  | [] => []
  | t :: ts => zeroOf t :: zeroOfs ts
end

/-! ## scalar columns -/

def intSrcOf : CqlTy → Option IntSrc
  | .tinyint => some .tiny | .smallint => some .small | .int => some .int
  | .bigint => some .big | .counter => some .big | .varint => some .varint | _ => none

def optU (o : Option GoVal) : URes := match o with | some v => .ok v | none => .err

/-- unmarshalIntlike for the targets of its type switch and reflect fallback -/
def unmarshalIntlike (src : IntSrc) (v : Int) (data : Bytes) (ty : GoTy) : URes :=
  match ty with
  | .int k named => optU ((unmarshalIntKind src v k).map (GoVal.int k named))
  | .dur => .ok (.dur v)
  | .big => .ok (.big (decBigInt2C data))
  | .str false => .ok (.str false (formatInt v))
  | _ => .err

def unmarshalVarint (data : Bytes) (ty : GoTy) : URes :=
  match ty with
  | .big => .ok (.big (decBigInt2C data))
  | .int k named => (match unmarshalVarintFront data k named with
      | .direct v => .ok (.int k named v)
      | .val v => unmarshalIntlike .varint v data ty
      | .err => .err)
  | _ => (match unmarshalVarintFront data .int64 true with
      | .val v => unmarshalIntlike .varint v data ty
      | _ => .err)

def quiet32If (named : Bool) (x : Nat) : Nat := if named then quiet32 x else x

/-- Unmarshal of a scalar column; `d` = data as a list (nil and empty both `[]`), `isNil` = data == nil -/
def unmarshalScalar (t : CqlTy) (isNil : Bool) (d : Bytes) (ty : GoTy) : URes :=
  match t with
  | .ascii | .text | .varchar | .blob => (match ty with
      | .str named => .ok (.str named d)
      | .bytes false => .ok (if d = [] then .bytes false true [] else .bytes false false d)
      | .bytes true => .ok (if isNil then .bytes true true [] else .bytes true false d)
      | .ip => .ok (.ip d)                      -- net.IP is a named []byte: reflect path
      | _ => .err)
  | .boolean => (match ty with
      | .bool named => .ok (.bool named (decBool d))
      | _ => .err)
  | .tinyint => unmarshalIntlike .tiny (decTiny d) d ty
  | .smallint => unmarshalIntlike .small (decShort d) d ty
  | .int => unmarshalIntlike .int (decInt d) d ty
  | .bigint | .counter => unmarshalIntlike .big (decBigInt d) d ty
  | .varint => unmarshalVarint d ty
  | .float => (match ty with
      | .f32 named => .ok (.f32 named (quiet32If named (toU 32 (decInt d)).toNat))
      | _ => .err)
  | .double => (match ty with
      | .f64 named => .ok (.f64 named (toU 64 (decBigInt d)).toNat)
      | _ => .err)
  | .decimal => (match ty with
      | .dec => if d.length < 4 then .err else .ok (.dec (decBigInt2C (d.drop 4)) (decInt (d.take 4)))
      | _ => .err)
  | .time => (match ty with
      | .int .int64 named => .ok (.int .int64 named (decBigInt d))
      | .dur => .ok (.dur (decBigInt d))
      | _ => .err)
  | .timestamp => (match ty with
      | .int .int64 named => .ok (.int .int64 named (decBigInt d))
      | .dur => .ok (.dur (decBigInt d))
      | .time => if d = [] then .ok (.time zeroTimeSec 0) else
          let (s, ns) := timeOfMillis (decBigInt d)
          .ok (.time s ns)
      | _ => .err)
  | .date => (match ty with
      | .time => if d = [] then .ok (.time zeroTimeSec 0)
          else if d.length < 4 then .err      -- `if len(data) < 4 { return error }` (repair of KF-C05-17)
          else .ok (.time (((beNat (d.take 4) : Int) - 2147483648) * 86400) 0)
      | .str false => if d = [] then .ok (.str false []) else if d.length < 4 then .err else .unmodelled
      | _ => .err)
  | .duration => (match ty with
      | .cqldur => if d = [] then .ok (.cqldur 0 0 0) else
          (match decVints d with
           | some (m, dd, n) => .ok (.cqldur m dd n)
           | none => .err)
      | _ => .err)
  | .uuid | .timeuuid =>
      if t == .timeuuid ∧ ty == .time then .unmodelled else
      if d = [] then (match ty with
        | .str false => .ok (.str false [])
        | .bytes false => .ok (.bytes false true [])
        | .uuid => .ok (.uuid (List.replicate 16 0))
        | _ => .err)
      else if d.length ≠ 16 then .err
      else (match ty with
        | .arr16 => .ok (.arr16 d)
        | .uuid => .ok (.uuid d)
        | .str false => .ok (.str false (uuidString d))
        | .bytes false => .ok (.bytes false false d)
        | _ => .err)
  | .inet => (match ty with
      | .ip => if d.length ≠ 4 ∧ d.length ≠ 16 then .err else
          (match ipTo4 d with
           | some v4 => .ok (.ip v4)
           | none => .ok (.ip d))
      | .str false => if d = [] then .ok (.str false []) else .ok (.str false (ipString d))
      | _ => .err)
  | _ => .unmodelled

/-! ## framing -/

/-- readCollectionSize: (size, rest) or error -/
def readCollSize (p : Nat) (data : Bytes) : Option (Int × Bytes) :=
  if p > 2 then
    (if shorter data 4 then none else some (decInt (data.take 4), data.drop 4))
  else
    (if shorter data 2 then none else some ((beNat (data.take 2) : Int), data.drop 2))

/-- one element of unmarshalList / unmarshalMap: (unmarshalData, rest) or error -/
def readCollItem (p : Nat) (data : Bytes) : Option (Option Bytes × Bytes) :=
  match readCollSize p data with
  | none => none
  | some (m, r) =>
    if m ≥ 0 then (if shorter r m.toNat then none else some (some (r.take m.toNat), r.drop m.toNat))
    else some (none, r)

inductive LRes (α : Type)
  | ok (vs : α) (rest : Bytes)
  | err | crash | unmodelled

/-- `for i := 0; i < n; i++ { read size; Unmarshal(elem, data, &slot[i]) }` -/
def unmarshalElems (p : Nat) (f : Option Bytes → URes) : Nat → Bytes → LRes (List GoVal)
  | 0, b => .ok [] b
  | n+1, b => match readCollItem p b with
    | none => .err
    | some (item, r) => (match f item with
        | .ok v => (match unmarshalElems p f n r with
            | .ok vs r' => .ok (v :: vs) r'
            | other => other)
        | .err => .err | .crash => .crash | .unmodelled => .unmodelled)

/-- rv.SetMapIndex(key, val): a later equal key replaces the earlier entry -/
def mapInsert (k v : GoVal) : List (GoVal × GoVal) → List (GoVal × GoVal)
  | [] => [(k, v)]
  | (k', v') :: r => if k' == k then (k, v) :: r else (k', v') :: mapInsert k v r

def unmarshalPairs (p : Nat) (f g : Option Bytes → URes) : Nat → Bytes → List (GoVal × GoVal) → LRes (List (GoVal × GoVal))
  | 0, b, acc => .ok acc b
  | n+1, b, acc => match readCollItem p b with
    | none => .err
    | some (ki, r) => (match f ki with
        | .ok k => (match readCollItem p r with
            | none => .err
            | some (vi, r2) => (match g vi with
                | .ok v => unmarshalPairs p f g n r2 (mapInsert k v acc)
                | .err => .err | .crash => .crash | .unmodelled => .unmodelled))
        | .err => .err | .crash => .crash | .unmodelled => .unmodelled)

/-- readBytes of marshal.go:2094 on data with at least 4 bytes: (p, rest); a size beyond the data is a
    returned error (`none`; repair of KF-C05-12) -/
def readBytesM (data : Bytes) : Option (Option Bytes × Bytes) :=
  let size := decInt (data.take 4)
  let r := data.drop 4
  if size < 0 then some (none, r)
  else if shorter r size.toNat then none
  else some (some (r.take size.toNat), r.drop size.toNat)

/-- strip the pointers of a nullable target: (depth, base) -/
def stripPtr : GoTy → Nat × GoTy
  | .ptr t => let (n, b) := stripPtr t; (n+1, b)
  | t => (0, t)

def wrapPtr : Nat → GoVal → GoVal
  | 0, v => v
  | n+1, v => .ptr (wrapPtr n v)

def dataBytes (data : Option Bytes) : Bytes := data.getD []

/-! ## Unmarshal -/

/-- isNullableValue / unmarshalNullable around a decoder `f` of the pointer-free base type:
    a `**T` target gets nil for null, otherwise a fresh `*T` that is filled -/
def withPtr (f : GoTy → Option Bytes → URes) (ty : GoTy) (data : Option Bytes) : URes :=
  match stripPtr ty with
  | (k+1, base) =>
    (match data with
     | none => .ok .nilptr
     | some _ => (match f base data with
         | .ok v => .ok (wrapPtr (k+1) v)
         | other => other))
  | (0, base) => f base data

/-- size of a count / length header: 4 bytes from protocol 3 on, 2 before -/
def collHdr (p : Nat) : Nat := if p > 2 then 4 else 2

/-- unmarshalList's body once the element decoder is fixed. For a slice target a negative count is an
    error (repair of KF-C05-15) and so is a count that the remaining bytes cannot hold — every element
    needs at least its length header — before `reflect.MakeSlice` (repair of KF-C05-21) -/
def unmarshalListTo (p : Nat) (f : Option Bytes → URes) (ty : GoTy) (data : Option Bytes) : URes :=
  match ty with
  | .slice _ =>
    (match data with
     | none => .ok (.slice true [])
     | some d => (match readCollSize p d with
        | none => .err
        | some (n, r) => if n < 0 then .err else if n.toNat > r.length / collHdr p then .err else
          (match unmarshalElems p f n.toNat r with
           | .ok vs _ => .ok (.slice false vs)
           | .err => .err | .crash => .crash | .unmodelled => .unmodelled)))
  | .array len _ =>
    (match data with
     | none => .err
     | some d => (match readCollSize p d with
        | none => .err
        | some (n, r) => if n ≠ len then .err else
          (match unmarshalElems p f n.toNat r with
           | .ok vs _ => .ok (.array vs)
           | .err => .err | .crash => .crash | .unmodelled => .unmodelled)))
  | .int _ _ | .str _ | .bool _ | .f32 _ | .f64 _ | .dur | .map _ _ | .struct _ | .udtstruct _ _ | .udtmap => .err
  | _ => .unmodelled


mutual
/-- Unmarshal on a pointer-free target type -/
def unmarshalBase (p : Nat) : CqlTy → GoTy → Option Bytes → URes
  | .list et, ty, data =>
    (match ty with
     | .slice g => unmarshalListTo p (withPtr (unmarshalBase p et) g) ty data
     | .array _ g => unmarshalListTo p (withPtr (unmarshalBase p et) g) ty data
     | _ => unmarshalListTo p (fun _ => .err) ty data)
  | .set et, ty, data =>
    (match ty with
     | .slice g => unmarshalListTo p (withPtr (unmarshalBase p et) g) ty data
     | .array _ g => unmarshalListTo p (withPtr (unmarshalBase p et) g) ty data
     | _ => unmarshalListTo p (fun _ => .err) ty data)
  | .map kt vt, ty, data =>
    (match ty with
     | .map gk gv =>
       (match data with
        | none => .ok (.map true [])
        | some d => (match readCollSize p d with
          | none => .err
          | some (n, r) =>
            -- `if n > (len(data)-p)/(2*p) { return error }` before reflect.MakeMapWithSize (repair of KF-C05-21)
            if n < 0 then .err else if n.toNat > r.length / (2 * collHdr p) then .err else
            (match unmarshalPairs p (withPtr (unmarshalBase p kt) gk) (withPtr (unmarshalBase p vt) gv) n.toNat r [] with
             | .ok kvs _ => .ok (.map false kvs)
             | .err => .err | .crash => .crash | .unmodelled => .unmodelled)))
     | .int _ _ | .str _ | .bool _ | .f32 _ | .f64 _ | .dur | .slice _ | .array _ _ | .bytes _ | .ip => .err
     | _ => .unmodelled)
  | .tuple ts, ty, data =>
    (match ty with
     | .ifaces gs => if gs.length < ts.length then .err else      -- repair of KF-C05-16
         (match unmarshalTupleScan p ts gs (dataBytes data) with
          | .ok vs _ => .ok (.ifaces vs)
          | .err => .err | .crash => .crash | .unmodelled => .unmodelled)
     | .struct gs => if gs.length ≠ ts.length then .err else
         (match unmarshalTupleSet p ts gs (dataBytes data) with
          | .ok vs _ => .ok (.struct vs)
          | .err => .err | .crash => .crash | .unmodelled => .unmodelled)
     | .slice g =>
         (match unmarshalTupleSet p ts (List.replicate ts.length g) (dataBytes data) with
          | .ok vs _ => .ok (if g == .iface then .ifaces vs else .slice false vs)
          | .err => .err | .crash => .crash | .unmodelled => .unmodelled)
     | .array n g => if n ≠ ts.length then .err else
         (match unmarshalTupleSet p ts (List.replicate ts.length g) (dataBytes data) with
          | .ok vs _ => .ok (.array vs)
          | .err => .err | .crash => .crash | .unmodelled => .unmodelled)
     | .int _ _ | .str _ | .bool _ | .f32 _ | .f64 _ | .dur | .map _ _ => .err
     | _ => .unmodelled)
  | .udt names ts, ty, data =>
    (match ty with
     | .udtmap =>
       (match data with
        | none => .ok (.udtmap true [] [])
        | some d => (match unmarshalUdtMap p names ts d with
            | .ok vs _ => .ok (.udtmap false (names.take vs.length) vs)
            | .err => .err | .crash => .crash | .unmodelled => .unmodelled))
     | .udtstruct fnames gs =>
       if dataBytes data = [] then .ok (.udtstruct fnames (zeroOfs gs)) else
       (match unmarshalUdtStruct p names ts fnames gs (dataBytes data) (zeroOfs gs) with
        | .ok vs _ => .ok (.udtstruct fnames vs)
        | .err => .err | .crash => .crash | .unmodelled => .unmodelled)
     | .struct gs =>
       -- no cql tags and no field named like a UDT field: every field is read and skipped
       if dataBytes data = [] then .ok (.struct (zeroOfs gs)) else
       (match unmarshalUdtStruct p names ts [] gs (dataBytes data) (zeroOfs gs) with
        | .ok vs _ => .ok (.struct vs)
        | .err => .err | .crash => .crash | .unmodelled => .unmodelled)
     | .int _ _ | .str _ | .bool _ | .f32 _ | .f64 _ | .dur | .slice _ | .array _ _ | .bytes _ | .ip | .map _ _ => .err
     | _ => .unmodelled)
  | t, ty, data => unmarshalScalar t (data.isNone) (dataBytes data) ty

/-- `case []interface{}`: `Unmarshal(elem, p, v[i])` for each tuple element; p = nil once fewer than 4 bytes remain -/
def unmarshalTupleScan (p : Nat) : List CqlTy → List GoTy → Bytes → LRes (List GoVal)
  | t :: ts, g :: gs, data =>
    (match (if !(shorter data 4) then readBytesM data else some (none, data)) with
     | none => .err
     | some (item, r) => (match withPtr (unmarshalBase p t) g item with
        | .ok v => (match unmarshalTupleScan p ts gs r with
            | .ok vs r' => .ok (v :: vs) r'
            | other => other)
        | .err => .err | .crash => .crash | .unmodelled => .unmodelled))
  | _, _, data => .ok [] data

/-- struct / slice / array targets: decode into goType(elem), then `Set` the field (types must match) -/
def unmarshalTupleSet (p : Nat) : List CqlTy → List GoTy → Bytes → LRes (List GoVal)
  | t :: ts, g :: gs, data =>
    (match (if !(shorter data 4) then readBytesM data else some (none, data)) with
     | none => .err
     | some (item, r) => (match withPtr (unmarshalBase p t) (goTypeOf t) item with
        | .ok v =>
          let slot : URes :=
            (match g with
             | .ptr g' => if g' == goTypeOf t then (if item.isSome then .ok (.ptr v) else .ok .nilptr) else .err
             | .iface => .ok v
             | g => if g == goTypeOf t then .ok v else
                 -- setTupleElem: AssignableTo — the underlying types are identical and one side is unnamed —
                 -- otherwise an error (repair of KF-C05-18)
                 (match g, v with
                  | .arr16, .uuid b => .ok (.arr16 b)
                  | .bytes true, .bytes false isNil b => .ok (.bytes true isNil b)
                  | .ip, .bytes false _ b => .ok (.ip b)
                  | _, _ => .err))
          (match slot with
           | .ok sv => (match unmarshalTupleSet p ts gs r with
              | .ok vs r' => .ok (sv :: vs) r'
              | other => other)
           | .err => .err | .crash => .crash | .unmodelled => .unmodelled)
        | .err => .err | .crash => .crash | .unmodelled => .unmodelled))
  | _, _, data => .ok [] data

/-- `case *map[string]interface{}`: fields until the data runs out -/
def unmarshalUdtMap (p : Nat) : List String → List CqlTy → Bytes → LRes (List GoVal)
  | _ :: names, t :: ts, data =>
    if data = [] then .ok [] data
    else if shorter data 4 then .err
    else (match readBytesM data with
     | none => .err
     | some (item, r) => (match withPtr (unmarshalBase p t) (goTypeOf t) item with
        | .ok v => (match unmarshalUdtMap p names ts r with
            | .ok vs r' => .ok (v :: vs) r'
            | other => other)
        | .err => .err | .crash => .crash | .unmodelled => .unmodelled))
  | _, _, data => .ok [] data

/-- struct with cql tags: each UDT field is decoded into the Go field of that name (if any) -/
def unmarshalUdtStruct (p : Nat) : List String → List CqlTy → List String → List GoTy → Bytes → List GoVal → LRes (List GoVal)
  | name :: names, t :: ts, fnames, gs, data, acc =>
    if data = [] then .ok acc data
    else if shorter data 4 then .err
    else (match readBytesM data with
     | none => .err
     | some (item, r) =>
       (match lookupIdx name fnames 0 with
        | none => unmarshalUdtStruct p names ts fnames gs r acc
        | some i => (match gs[i]? with
          | none => unmarshalUdtStruct p names ts fnames gs r acc
          | some g => (match withPtr (unmarshalBase p t) g item with
            | .ok v => unmarshalUdtStruct p names ts fnames gs r (acc.set i v)
            | .err => .err | .crash => .crash | .unmodelled => .unmodelled))))
  | _, _, _, _, data, acc => .ok acc data
end

/-- gocql.Unmarshal(info, data, &x) with `x` a fresh zero value of type `ty`; the answer is the new `x`.
    For `ty = .ifaces ts` the call is `Unmarshal(info, data, []interface{}{&x1, …})` and the answer the `x_i`. -/
def unmarshal (p : Nat) (t : CqlTy) (ty : GoTy) (data : Option Bytes) : URes :=
  withPtr (unmarshalBase p t) ty data

end Marshal
