/-
C12 / C02 — SPECIFICATION side: the CQL native protocol value serialisation
(section "6. Data type serialization formats" of native_protocol_v3/v4/v5.spec, and the collection
framing of v1/v2), written from the protocol documents as summarised in DESIGN.md appendix E11.
Nothing in this file refers to gocql's code or to the model of it (Model/Marshal*.lean).
Core Lean only.

  `CqlTy`   the type tree          `CqlVal`  abstract values (what a column holds)
  `specEnc p t v : Option Bytes`   the one and only conformant encoding of `v` as a `t` under protocol `p`
                                   (`none`: `v` is not a value of `t`, e.g. out of range)
  `specDec p t b : Option CqlVal`  the decoder of conformant encodings
-/
namespace ValueSpec

abbrev Bytes := List UInt8

/-! ## bytes and numbers -/

def byteOfNat (n : Nat) : UInt8 := UInt8.ofNat (n % 256)

/-- `k` bytes, big endian, of `n mod 256^k` -/
def beBytes : Nat → Nat → Bytes
  | 0, _ => []
  | k+1, n => beBytes k (n / 256) ++ [byteOfNat n]

/-- `l.length < n`, looking at no more than `n` cells (the readers below test the remaining input against a
    frame length once per element: with `List.length` that would be quadratic in the number of elements) -/
def shorter {α : Type} : List α → Nat → Bool
  | _, 0 => false
  | [], _+1 => true
  | _ :: r, n+1 => shorter r n

theorem shorter_iff {α : Type} (l : List α) (n : Nat) : shorter l n = true ↔ l.length < n := by
  induction l generalizing n with
  | nil => cases n <;> simp [shorter]
  | cons a r ih => cases n <;> simp [shorter, ih]

/-- big-endian value of a byte string -/
def beNat (b : Bytes) : Nat := b.foldl (fun a x => a * 256 + x.toNat) 0

/-- two's complement, `k` bytes, big endian -/
def tcEnc (k : Nat) (n : Int) : Bytes := beBytes k (n % (256:Int)^k).toNat

/-- value of a big-endian two's complement byte string (empty = 0): the unsigned value, minus `256^len` when the
    sign bit is set (i.e. when the unsigned value is at least half the range) -/
def tcDec (b : Bytes) : Int :=
  if 2 * beNat b ≥ 256 ^ b.length then (beNat b : Int) - (256:Int)^b.length else (beNat b : Int)

/-- `n` is representable in `k` bytes two's complement: −256^k/2 ≤ n < 256^k/2 -/
def leB (a b : Int) : Bool := decide (a ≤ b)
def ltB (a b : Int) : Bool := decide (a < b)
theorem leB_iff {a b : Int} : leB a b = true ↔ a ≤ b := by simp [leB]
theorem ltB_iff {a b : Int} : ltB a b = true ↔ a < b := by simp [ltB]
theorem leB_false {a b : Int} : leB a b = false ↔ ¬ a ≤ b := by simp [leB]
theorem ltB_false {a b : Int} : ltB a b = false ↔ ¬ a < b := by simp [ltB]

def fitsS (k : Nat) (n : Int) : Bool := leB (-((256:Int)^k)) (2 * n) && ltB (2 * n) ((256:Int)^k)

def fitsU (k : Nat) (n : Int) : Bool := leB 0 n && ltB n ((256:Int)^k)

/-- varint: the SHORTEST two's complement representation (Java `BigInteger.toByteArray`):
    one byte if the number fits a signed byte, otherwise the varint of `n >> 8` followed by the low byte. -/
def specVarint (n : Int) : Bytes :=
  if -128 ≤ n ∧ n < 128 then [byteOfNat (n % 256).toNat]
  else specVarint (n / 256) ++ [byteOfNat (n % 256).toNat]
termination_by n.natAbs
decreasing_by omega

/-- zig-zag: 0,-1,1,-2,… ↦ 0,1,2,3,… -/
def zigzag (n : Int) : Nat := if n ≥ 0 then (2*n).toNat else (-2*n-1).toNat
def unzigzag (u : Nat) : Int := if u % 2 = 0 then (u/2 : Nat) else -((u/2 : Nat) : Int) - 1

/-- size of the unsigned vint of `u < 2^64`: the least `s ≤ 8` with `u < 2^(7s)`, else 9 -/
def uvintSize (u : Nat) : Nat :=
  if u < 2^7 then 1 else if u < 2^14 then 2 else if u < 2^21 then 3 else if u < 2^28 then 4
  else if u < 2^35 then 5 else if u < 2^42 then 6 else if u < 2^49 then 7 else if u < 2^56 then 8 else 9

/-- unsigned vint: `s-1` leading one bits in the first byte announce `s-1` extra bytes; the value occupies the
    remaining bits, big endian -/
def specUVint (u : Nat) : Bytes :=
  let s := uvintSize u
  beBytes s (u + (256 - 2^(9-s)) * 256^(s-1))

/-- signed vint = unsigned vint of the zig-zag code -/
def specVint (n : Int) : Bytes := specUVint (zigzag n)

/-- reading one unsigned vint off the front -/
def leadingOnes (b : Nat) : Nat :=
  if b < 128 then 0 else if b < 192 then 1 else if b < 224 then 2 else if b < 240 then 3
  else if b < 248 then 4 else if b < 252 then 5 else if b < 254 then 6 else if b < 255 then 7 else 8

def specReadUVint : Bytes → Option (Nat × Bytes)
  | [] => none
  | x :: r =>
    let e := leadingOnes x.toNat
    if r.length < e then none
    else some ((x.toNat % 2^(8-e)) * 256^e + beNat (r.take e), r.drop e)

def specReadVint (b : Bytes) : Option (Int × Bytes) :=
  match specReadUVint b with
  | some (u, r) => some (unzigzag u, r)
  | none => none

/-! ## types and values -/

inductive CqlTy
  | ascii | bigint | blob | boolean | counter | decimal | double | float | int | text | timestamp
  | uuid | varchar | varint | timeuuid | inet | date | time | smallint | tinyint | duration
  | list (e : CqlTy) | set (e : CqlTy) | map (k v : CqlTy)
  | tuple (es : List CqlTy)
  | udt (names : List String) (ts : List CqlTy)
deriving Repr, BEq

/-- abstract column values.
  `int`: tinyint/smallint/int/bigint/counter/varint; timestamp = milliseconds since the epoch; time = nanoseconds
         since midnight; date = days since 1970-01-01 (negative before)
  `bytes`: ascii/text/varchar/blob; uuid/timeuuid (16 bytes); inet (4 or 16 bytes)
  `f32`/`f64`: the IEEE-754 bit pattern
  `null`: only as a collection element / tuple / UDT field -/
inductive CqlVal
  | null
  | int (n : Int)
  | bytes (b : Bytes)
  | bool (b : Bool)
  | f32 (bits : Nat)
  | f64 (bits : Nat)
  | decimal (unscaled : Int) (scale : Int)
  | duration (months days nanos : Int)
  | list (vs : List CqlVal)
  | map (kvs : List (CqlVal × CqlVal))
  | tuple (vs : List CqlVal)
deriving Repr, BEq

/-! ## element framing -/

/-- `[bytes]`: 4-byte signed length, −1 for null -/
def bytesFrame : Option Bytes → Bytes
  | none => [255, 255, 255, 255]
  | some b => tcEnc 4 b.length ++ b

/-- collection element: v3+ `[bytes]`; v1/v2 `[short bytes]` (2-byte unsigned length, no null) -/
def elemFrame (p : Nat) : Option Bytes → Option Bytes
  | none => if p ≥ 3 then some [255, 255, 255, 255] else none
  | some b =>
    if p ≥ 3 then (if b.length < 2^31 then some (tcEnc 4 b.length ++ b) else none)
    else (if b.length < 2^16 then some (beBytes 2 b.length ++ b) else none)

/-- collection count: v3+ 4 bytes, v1/v2 2 bytes -/
def countFrame (p : Nat) (n : Nat) : Option Bytes :=
  if p ≥ 3 then (if n < 2^31 then some (beBytes 4 n) else none)
  else (if n < 2^16 then some (beBytes 2 n) else none)

/-! ## the encoder -/

def CqlVal.isNull : CqlVal → Bool
  | .null => true
  | _ => false

/-- one collection element: null (from v3) or the framed encoding -/
def elemOrNull (p : Nat) (isNull : Bool) (enc : Option Bytes) : Option Bytes :=
  if isNull then elemFrame p none else enc.bind (fun b => elemFrame p (some b))

/-- one tuple / UDT field: `[bytes]`, −1 for null -/
def fieldOrNull (isNull : Bool) (enc : Option Bytes) : Option Bytes :=
  if isNull then some (bytesFrame none)
  else enc.bind (fun b => if b.length < 2^31 then some (bytesFrame (some b)) else none)

mutual
def specEnc (p : Nat) : CqlTy → CqlVal → Option Bytes
  | .tinyint, .int n => if fitsS 1 n then some (tcEnc 1 n) else none
  | .smallint, .int n => if fitsS 2 n then some (tcEnc 2 n) else none
  | .int, .int n => if fitsS 4 n then some (tcEnc 4 n) else none
  | .bigint, .int n => if fitsS 8 n then some (tcEnc 8 n) else none
  | .counter, .int n => if fitsS 8 n then some (tcEnc 8 n) else none
  | .timestamp, .int n => if fitsS 8 n then some (tcEnc 8 n) else none
  | .time, .int n => if fitsS 8 n then some (tcEnc 8 n) else none
  | .date, .int d => if fitsU 4 (d + 2^31) then some (beBytes 4 (d + 2^31).toNat) else none
  | .varint, .int n => some (specVarint n)
  | .ascii, .bytes b => some b
  | .text, .bytes b => some b
  | .varchar, .bytes b => some b
  | .blob, .bytes b => some b
  | .uuid, .bytes b => if b.length = 16 then some b else none
  | .timeuuid, .bytes b => if b.length = 16 then some b else none
  | .inet, .bytes b => if b.length = 4 ∨ b.length = 16 then some b else none
  | .boolean, .bool b => some [if b then 1 else 0]
  | .float, .f32 x => if x < 2^32 then some (beBytes 4 x) else none
  | .double, .f64 x => if x < 2^64 then some (beBytes 8 x) else none
  | .decimal, .decimal u s => if fitsS 4 s then some (tcEnc 4 s ++ specVarint u) else none
  | .duration, .duration m d n =>
      if fitsS 4 m ∧ fitsS 4 d ∧ fitsS 8 n then some (specVint m ++ specVint d ++ specVint n) else none
  | .list t, .list vs => do
      let c ← countFrame p vs.length
      let body ← specEncElems p t vs
      some (c ++ body)
  | .set t, .list vs => do
      let c ← countFrame p vs.length
      let body ← specEncElems p t vs
      some (c ++ body)
  | .map k v, .map kvs => do
      let c ← countFrame p kvs.length
      let body ← specEncPairs p k v kvs
      some (c ++ body)
  | .tuple ts, .tuple vs => specEncFields p ts vs
  | .udt _ ts, .tuple vs => specEncFields p ts vs
  | _, _ => none

/-- collection elements (null allowed from v3) -/
def specEncElems (p : Nat) (t : CqlTy) : List CqlVal → Option Bytes
  | [] => some []
  | v :: vs => do
      let e ← elemOrNull p v.isNull (specEnc p t v)
      let r ← specEncElems p t vs
      some (e ++ r)

def specEncPairs (p : Nat) (kt vt : CqlTy) : List (CqlVal × CqlVal) → Option Bytes
  | [] => some []
  | (k, v) :: r => do
      let a ← elemOrNull p k.isNull (specEnc p kt k)
      let b ← elemOrNull p v.isNull (specEnc p vt v)
      let c ← specEncPairs p kt vt r
      some (a ++ b ++ c)

/-- tuple / UDT fields: `[bytes]` each, −1 for null; a UDT value may stop early (trailing fields absent) -/
def specEncFields (p : Nat) : List CqlTy → List CqlVal → Option Bytes
  | _, [] => some []
  | [], _ :: _ => none
  | t :: ts, v :: vs => do
      let e ← fieldOrNull v.isNull (specEnc p t v)
      let r ← specEncFields p ts vs
      some (e ++ r)
end

/-! ## the decoder of conformant encodings -/

/-- minimal two's complement? (a conformant varint has no redundant leading byte) -/
def minimalTC : Bytes → Bool
  | [] => false
  | [_] => true
  | a :: b :: _ => !((a.toNat = 0 ∧ b.toNat < 128) ∨ (a.toNat = 255 ∧ b.toNat ≥ 128))

def readCount (p : Nat) (b : Bytes) : Option (Nat × Bytes) :=
  if p ≥ 3 then
    (if shorter b 4 then none else
      let n := tcDec (b.take 4)
      if n < 0 then none else some (n.toNat, b.drop 4))
  else
    (if shorter b 2 then none else some (beNat (b.take 2), b.drop 2))

/-- one framed element: (`none` = null, rest) -/
def readElem (p : Nat) (b : Bytes) : Option (Option Bytes × Bytes) :=
  if p ≥ 3 then
    (if shorter b 4 then none else
      let n := tcDec (b.take 4)
      let r := b.drop 4
      if n < 0 then (if n = -1 then some (none, r) else none)
      else if shorter r n.toNat then none else some (some (r.take n.toNat), r.drop n.toNat))
  else
    (if shorter b 2 then none else
      let n := beNat (b.take 2)
      let r := b.drop 2
      if shorter r n then none else some (some (r.take n), r.drop n))

def readBytesFrame (b : Bytes) : Option (Option Bytes × Bytes) := readElem 3 b

/-- `n` elements with decoder `f` -/
def decElems (p : Nat) (f : Bytes → Option CqlVal) : Nat → Bytes → Option (List CqlVal × Bytes)
  | 0, b => some ([], b)
  | n+1, b => do
      let (e, r) ← readElem p b
      let v ← (match e with | none => some CqlVal.null | some x => f x)
      let (vs, r') ← decElems p f n r
      some (v :: vs, r')

def decPairs (p : Nat) (f g : Bytes → Option CqlVal) : Nat → Bytes → Option (List (CqlVal × CqlVal) × Bytes)
  | 0, b => some ([], b)
  | n+1, b => do
      let (e, r) ← readElem p b
      let k ← (match e with | none => some CqlVal.null | some x => f x)
      let (e2, r2) ← readElem p r
      let v ← (match e2 with | none => some CqlVal.null | some x => g x)
      let (kvs, r') ← decPairs p f g n r2
      some ((k, v) :: kvs, r')

mutual
def specDec (p : Nat) : CqlTy → Bytes → Option CqlVal
  | .tinyint, b => if b.length = 1 then some (.int (tcDec b)) else none
  | .smallint, b => if b.length = 2 then some (.int (tcDec b)) else none
  | .int, b => if b.length = 4 then some (.int (tcDec b)) else none
  | .bigint, b => if b.length = 8 then some (.int (tcDec b)) else none
  | .counter, b => if b.length = 8 then some (.int (tcDec b)) else none
  | .timestamp, b => if b.length = 8 then some (.int (tcDec b)) else none
  | .time, b => if b.length = 8 then some (.int (tcDec b)) else none
  | .date, b => if b.length = 4 then some (.int ((beNat b : Int) - 2^31)) else none
  | .varint, b => if minimalTC b then some (.int (tcDec b)) else none
  | .ascii, b => some (.bytes b)
  | .text, b => some (.bytes b)
  | .varchar, b => some (.bytes b)
  | .blob, b => some (.bytes b)
  | .uuid, b => if b.length = 16 then some (.bytes b) else none
  | .timeuuid, b => if b.length = 16 then some (.bytes b) else none
  | .inet, b => if b.length = 4 ∨ b.length = 16 then some (.bytes b) else none
  | .boolean, b => match b with
      | [x] => if x = 0 then some (.bool false) else if x = 1 then some (.bool true) else none
      | _ => none
  | .float, b => if b.length = 4 then some (.f32 (beNat b)) else none
  | .double, b => if b.length = 8 then some (.f64 (beNat b)) else none
  | .decimal, b =>
      if b.length < 5 then none
      else if minimalTC (b.drop 4) then some (.decimal (tcDec (b.drop 4)) (tcDec (b.take 4))) else none
  | .duration, b => do
      let (m, r1) ← specReadVint b
      let (d, r2) ← specReadVint r1
      let (n, r3) ← specReadVint r2
      if r3 = [] ∧ fitsS 4 m ∧ fitsS 4 d ∧ fitsS 8 n then some (.duration m d n) else none
  | .list t, b => do
      let (n, r) ← readCount p b
      let (vs, r') ← decElems p (specDec p t) n r
      if r' = [] then some (.list vs) else none
  | .set t, b => do
      let (n, r) ← readCount p b
      let (vs, r') ← decElems p (specDec p t) n r
      if r' = [] then some (.list vs) else none
  | .map k v, b => do
      let (n, r) ← readCount p b
      let (kvs, r') ← decPairs p (specDec p k) (specDec p v) n r
      if r' = [] then some (.map kvs) else none
  | .tuple ts, b => do
      let vs ← specDecFields p ts b
      some (.tuple vs)
  | .udt _ ts, b => do
      let vs ← specDecFields p ts b
      some (.tuple vs)

/-- tuple / UDT fields until the bytes run out -/
def specDecFields (p : Nat) : List CqlTy → Bytes → Option (List CqlVal)
  | [], b => if b = [] then some [] else none
  | t :: ts, b =>
    if b = [] then some [] else do
      let (e, r) ← readBytesFrame b
      let v ← (match e with | none => some CqlVal.null | some x => specDec p t x)
      let vs ← specDecFields p ts r
      some (v :: vs)
end

end ValueSpec
