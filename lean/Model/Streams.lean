/-
Model of gocql's lock-free stream-id allocator, /repo/internal/streams/streams.go (C08).

Shared state  = the fields of `IDGenerator` that are accessed atomically:
  `words`  (`streams []uint64`, bitset, 1 = in use; id = word*64 + j, bit j of a word is the bit
            `63 - j` counted from the least significant end, `streamOffset`),
  `inuse`  (`inuseStreams int32`; modelled as an unbounded `Int`: it is bounded by the capacity,
            proved in Proofs/C08),
  `offset` (`offset uint32`, rotating start word, as the code has it: a `Nat` below 2^32 whose successor is
            computed in uint32 arithmetic and then reduced `% numBuckets`, `nextOffset`; from `New` it stays
            `< numBuckets`, but NOTHING below assumes that: every theorem holds for every value of the word, and
            the word scan is proved to visit every word exactly once for all 2^32 values, `scanPos32`).
`NumStreams = 64 * words.length` (2 words for protocol <= 2, 512 words for protocol > 2; everything
below is generic in the number of words).

Small-step semantics: `tstep sh pc` performs exactly ONE atomic operation of one thread
(load offset / CAS offset / load word / CAS word / atomic add / load inuse) followed by the
thread-local computation up to the next atomic operation (or the return of the call).
The program counters are numbered like the `yield(k)` verification points added (tag `verif`)
in front of each atomic operation of streams.go; the lock-step correspondence run compares
those numbers and the returned values along seeded and enumerated schedules.
Core Lean only (compiled into the native driver).
-/
namespace Streams

abbrev Word := BitVec 64

/-- `math.MaxUint64` -/
def allOnes : Word := BitVec.allOnes 64

/-- `streamOffset(stream) = bucketBits - uint64(stream%bucketBits) - 1` -/
def streamOffset (j : Nat) : Nat := 64 - (j % 64) - 1

/-- `uint64(1) << streamOffset(j)` -/
def mask (j : Nat) : Word := 1#64 <<< streamOffset j

/-- `bucketOffset(i) = i / bucketBits` -/
def bucketOffset (id : Nat) : Nat := id / 64

/-- `streamFromBucket(bucket, streamInBucket)` -/
def streamFromBucket (b j : Nat) : Nat := b * 64 + j

structure Shared where
  words : List Word
  inuse : Int
  offset : Nat
deriving Repr, DecidableEq

/-- `len(s.streams)`, `s.numBuckets` -/
def Shared.n (sh : Shared) : Nat := sh.words.length
/-- `s.NumStreams` -/
def Shared.numStreams (sh : Shared) : Nat := 64 * sh.words.length

/-- `New(protocol)` with `buckets = n` : word 0 = `1 << 63` (id 0 reserved), offset = n - 1 -/
def init (n : Nat) : Shared :=
  { words := (List.replicate n (0#64)).set 0 (mask 0), inuse := 0, offset := n - 1 }

/-- number of words chosen by `New(protocol)` -/
def wordsOfProto (proto : Nat) : Nat := if proto > 2 then 32768 / 64 else 128 / 64

/-- the capacity the PROPERTY prescribes for a protocol version ("1..127 for v1-2, 1..32767 for v3+": 128 / 32768
    ids including the reserved id 0). Written from the property text, independent of `New` / `wordsOfProto`;
    Proofs/C08 `C08_capacity_by_protocol` proves that the generator `New(protocol)` builds has exactly this capacity. -/
def specCap (proto : Nat) : Nat := if proto ≤ 2 then 128 else 32768

/-- `(offset+1)%s.numBuckets` with `offset uint32`: the increment wraps at 2^32, then `% numBuckets` -/
def nextOffset (n o : Nat) : Nat := (o + 1) % 4294967296 % n

/-- the word index computation of `GetStream`, literally, in uint32 arithmetic:
    `offset = (offset + 1) % s.numBuckets` … `pos := int((i + offset) % s.numBuckets)` for the loaded
    value `o` of the offset word and the loop counter `i`. Proofs/C08: equal to the `Nat` expression
    `(i + nextOffset n o) % n` used by `tstep`, for EVERY `o` (all 2^32 values) -/
def scanPos32 (nb o i : UInt32) : UInt32 := (i + (o + 1) % nb) % nb

/-- is the bit of id `id` set (`isSet`) -/
def bitAt (ws : List Word) (id : Nat) : Bool := (ws.getD (id / 64) 0).getLsbD (streamOffset id)

inductive Ret where
  | stream (id : Nat) (ok : Bool)     -- GetStream
  | cleared (b : Bool)                -- Clear
  | avail (n : Int)                   -- Available
  | crashIndex                        -- Clear: index out of range (never produced since the fix of KF-C08-3)
  | crashNegative                     -- Clear: panic("negative streams inuse")
deriving Repr, DecidableEq

inductive Op where
  | get
  | clear (id : Nat)
  | avail
deriving Repr, DecidableEq

/-- program counter + locals of one thread; constructor `gK`/`cK` = parked in front of the atomic
    operation marked `yield(k)` in streams.go (numbers in `PC.yieldPoint`). -/
inductive PC where
  | idle
  | g1                                   -- GetStream: offset := Load(&s.offset)
  | g2 (offset : Nat)                    -- CAS(&s.offset, offset, (offset+1)%n)
  | g3                                   -- (CAS failed) offset = Load(&s.offset)
  | g4 (off i : Nat)                     -- bucket := Load(&s.streams[(i+off)%n])
  | g5 (off i j : Nat) (bucket : Word)   -- CAS(&s.streams[pos], bucket, bucket|mask j)
  | g6 (off i j : Nat)                   -- (CAS failed) bucket = Load(&s.streams[pos])
  | g7 (id : Nat)                        -- AddInt32(&s.inuseStreams, 1); return id, true
  | c8 (id : Nat)                        -- Clear: bucket := Load(&s.streams[id/64])
  | c9 (id : Nat) (bucket : Word)        -- CAS(&s.streams[id/64], bucket, bucket &^ mask)
  | c10 (id : Nat)                       -- (CAS failed) bucket = Load(...)
  | c11 (id : Nat)                       -- AddInt32(&s.inuseStreams, -1)   (`id` = the id just cleared)
  | a12                                  -- Available: Load(&s.inuseStreams)
deriving Repr, DecidableEq

def PC.yieldPoint : PC → Nat
  | .idle => 0 | .g1 => 1 | .g2 _ => 2 | .g3 => 3 | .g4 _ _ => 4 | .g5 _ _ _ _ => 5 | .g6 _ _ _ => 6
  | .g7 _ => 7 | .c8 _ => 8 | .c9 _ _ => 9 | .c10 _ => 10 | .c11 _ => 11 | .a12 => 12

def startPC : Op → PC
  | .get => .g1
  | .clear id => .c8 id
  | .avail => .a12

/-- first `j' ≥ j`, `j' < 64` with `bucket & mask(j') == 0`
    (`for j ... { mask := ...; for bucket&mask == 0 {` : where the scan over j stops next) -/
def firstClear (b : Word) (j : Nat) : Option Nat :=
  (List.range' j (64 - j)).find? (fun j' => (b &&& mask j') == 0#64)

/-- word `i` of the scan is finished without success: `i++`, loop test, or `return 0, false` -/
def nextWord (n off i : Nat) : PC × Option Ret :=
  if i + 1 < n then (.g4 off (i + 1), none) else (.idle, some (.stream 0 false))

/-- after a (re)load of `bucket` while the j-loop stands at `j` -/
def afterLoad (n off i j : Nat) (b : Word) : PC × Option Ret :=
  match firstClear b j with
  | some j' => (.g5 off i j' b, none)
  | none => nextWord n off i

/-- ONE atomic operation of a thread standing at `pc`, plus its local computation up to the next
    atomic operation / return. -/
def tstep (sh : Shared) (pc : PC) : Shared × PC × Option Ret :=
  let n := sh.words.length
  match pc with
  | .idle => (sh, .idle, none)
  | .g1 => (sh, .g2 sh.offset, none)
  | .g2 o =>
      if sh.offset = o then ({ sh with offset := nextOffset n o }, .g4 (nextOffset n o) 0, none)
      else (sh, .g3, none)
  | .g3 => (sh, .g2 sh.offset, none)
  | .g4 off i =>
      let b := sh.words.getD ((i + off) % n) 0
      let r := if b = allOnes then nextWord n off i else afterLoad n off i 0 b
      (sh, r.1, r.2)
  | .g5 off i j b =>
      let pos := (i + off) % n
      if sh.words.getD pos 0 = b then
        ({ sh with words := sh.words.set pos (b ||| mask j) }, .g7 (streamFromBucket pos j), none)
      else (sh, .g6 off i j, none)
  | .g6 off i j =>
      let b := sh.words.getD ((i + off) % n) 0
      let r := afterLoad n off i j b
      (sh, r.1, r.2)
  | .g7 id => ({ sh with inuse := sh.inuse + 1 }, .idle, some (.stream id true))
  | .c8 id =>
      -- `if stream < 0 || stream >= s.NumStreams { return false }` (ids are `Nat` here: the negative half is
      -- `clearNeg`); `NumStreams = 64 * n`, so `stream < NumStreams` iff `stream / 64 < n`. The guard is thread-local:
      -- for an id beyond the capacity the call returns without any atomic operation (modelled as a step that
      -- leaves the shared state alone; the driver fuses it with the preceding step for the lock-step observations)
      if bucketOffset id < n then
        let b := sh.words.getD (bucketOffset id) 0
        if b &&& mask id ≠ mask id then (sh, .idle, some (.cleared false)) else (sh, .c9 id b, none)
      else (sh, .idle, some (.cleared false))   -- `stream >= s.NumStreams`: not a stream id of this generator (KF-C08-3 fix)
  | .c9 id b =>
      if sh.words.getD (bucketOffset id) 0 = b then
        ({ sh with words := sh.words.set (bucketOffset id) (b &&& ~~~ mask id) }, .c11 id, none)
      else (sh, .c10 id, none)
  | .c10 id =>
      let b := sh.words.getD (bucketOffset id) 0
      if b &&& mask id ≠ mask id then (sh, .idle, some (.cleared false)) else (sh, .c9 id b, none)
  | .c11 _ =>
      let v := sh.inuse - 1
      ({ sh with inuse := v }, .idle, some (if v < 0 then .crashNegative else .cleared true))
  | .a12 => (sh, .idle, some (.avail ((64 * n : Nat) - sh.inuse - 1)))

/-! ### sequential big-step semantics, derived from the small-step one: a single thread runs alone -/

def runThread : Nat → Shared → PC → Shared × Option Ret
  | 0, sh, _ => (sh, none)
  | f + 1, sh, pc =>
    match tstep sh pc with
    | (sh', _, some r) => (sh', some r)
    | (sh', pc', none) => runThread f sh' pc'

/-- fuel: load offset, CAS offset, ≤ n word loads, CAS word, add  (proved sufficient in Proofs/C08Seq) -/
def seqOp (sh : Shared) (op : Op) : Shared × Option Ret :=
  runThread (sh.words.length + 4) sh (startPC op)

def getStream (sh : Shared) : Shared × Option Ret := seqOp sh .get
def clear (sh : Shared) (id : Nat) : Shared × Option Ret := seqOp sh (.clear id)
def available (sh : Shared) : Int := (64 * sh.words.length : Nat) - sh.inuse - 1

/-- `Clear(stream)` for a NEGATIVE argument `stream = -k` (`k ≥ 1`): since the fix of KF-C08-3 the guard
    `if stream < 0 || stream >= s.NumStreams { return false }` answers false and touches nothing. (Before the fix:
    `Clear(-1..-63)` answered true and decremented the in-use counter without clearing a bit — `bucketOffset(-k) = 0`,
    `streamOffset(-k) = 63 + k ≥ 64`, mask 0 —, `Clear(-64..)` panicked with an index error, as did `Clear(id)` for
    `id ≥ NumStreams`.) Tied by the `n<k>` tokens of the seq / smon lines. -/
def clearNeg (sh : Shared) (_k : Nat) : Shared × Option Ret := (sh, some (.cleared false))

/-! ### the concurrent machine: k threads, one action = one atomic operation of one thread -/

structure State where
  sh : Shared
  threads : List PC
  /-- ghost: ids returned by `GetStream` and not yet given back (an id is given back at the moment
      its holder calls `Clear(id)`) -/
  held : List Nat
deriving Repr

inductive Action where
  /-- idle thread `t` calls `op` and performs the first atomic operation of the call -/
  | start (t : Nat) (op : Op)
  /-- thread `t`, in the middle of a call, performs its next atomic operation -/
  | step (t : Nat)
deriving Repr, DecidableEq

def initState (n k : Nat) : State := { sh := init n, threads := List.replicate k .idle, held := [] }

def exec (s : State) (t : Nat) (pc : PC) (held : List Nat) : State × Option Ret :=
  let r := tstep s.sh pc
  ({ sh := r.1, threads := s.threads.set t r.2.1,
     held := match r.2.2 with
       | some (.stream id true) => id :: held
       | _ => held }, r.2.2)

/-- the machine (no client protocol enforced: the code does not enforce one either) -/
def step (s : State) : Action → Option (State × Option Ret)
  | .start t op =>
    if s.threads[t]? = some .idle then
      some (exec s t (startPC op) (match op with | .clear id => s.held.erase id | _ => s.held))
    else none
  | .step t =>
    match s.threads[t]? with
    | some pc => if pc = .idle then none else some (exec s t pc s.held)
    | none => none

/-- client protocol of the property: `Clear(id)` is called only for an id that is currently held -/
def legal (s : State) : Action → Bool
  | .start _ (.clear id) => decide (id ∈ s.held)
  | _ => true

/-- run a schedule (list of actions); `none` if an action is not enabled or breaks the protocol -/
def run (s : State) : List Action → Option State
  | [] => some s
  | a :: as =>
    if legal s a then
      match step s a with
      | some (s', _) => run s' as
      | none => none
    else none

/-! ### history events and runs WITHOUT the client protocol -/

/-- what the monitors count: a `GetStream` call returned `id, true`; a `Clear(id)` call that had
    flipped the bit of `id` from 1 to 0 returned (`true`, or the 'negative streams inuse' panic) -/
inductive Ev where
  | got (id : Nat)
  | released (id : Nat)
deriving Repr, DecidableEq

/-- the event produced when a thread standing at `pc` performs its atomic operation: the calls
    return exactly at `g7` (after the add) and at `c11` (after the add) -/
def evOfPC : PC → List Ev
  | .g7 id => [.got id]
  | .c11 id => [.released id]
  | _ => []

def evOf (s : State) : Action → List Ev
  | .step t => match s.threads[t]? with
    | some pc => evOfPC pc
    | none => []
  | .start _ _ => []

/-- run a schedule with NO client protocol (any thread may call `Clear` of any id at any time); only
    the actions accepted by `ok` are allowed (`anyAct`: all). Events are accumulated in front of `evs`. -/
def runAny (ok : State → Action → Bool) (s : State) (evs : List Ev) : List Action → Option (State × List Ev)
  | [] => some (s, evs)
  | a :: as =>
    if ok s a then
      match step s a with
      | some (s', _) => runAny ok s' (evOf s a ++ evs) as
      | none => none
    else none

def anyAct : State → Action → Bool := fun _ _ => true

/-- excluded case 1: `Clear(0)` (the reserved id) is called -/
def noClear0 : State → Action → Bool
  | _, .start _ (.clear id) => decide (id ≠ 0)
  | _, _ => true

/-- excluded case 2: the CAS of a `Clear(id)` call is about to succeed while a `GetStream` call has
    acquired `id` (its CAS succeeded) but has not returned it yet (only a stale / double release of an id
    that is being handed out again can do that) -/
def rogueCAS (s : State) : Action → Bool
  | .step t => match s.threads[t]? with
    | some (.c9 id b) => decide (s.sh.words.getD (bucketOffset id) 0 = b) && s.threads.any (fun pc => decide (pc = .g7 id))
    | _ => false
  | .start _ _ => false

def calm (s : State) (a : Action) : Bool := noClear0 s a && !rogueCAS s a

/-! ### the sequential specification as a checker of an answer trace

Abstract state of the specification: the set of ids handed out and not yet released, as a table
`tbl[id]` (size `cap` = NumStreams, all false initially) and its cardinality `cnt` (0 initially, +1 when
an id is handed out, -1 when an id that was handed out is released). Independent of the bitset / counter
representation of the code. -/

structure SpecSt where
  tbl : Array Bool
  cnt : Nat

def specInit (cap : Nat) : SpecSt := { tbl := Array.replicate cap false, cnt := 0 }

def specStep (cap : Nat) (tbl : Array Bool) (cnt : Nat) : Op → Option Ret → Option SpecSt
  | .get, some (.stream id true) =>
      -- the id handed out is not 0, in range and was free
      if 1 ≤ id ∧ id < cap ∧ tbl.getD id false = false then some { tbl := tbl.setIfInBounds id true, cnt := cnt + 1 } else none
  | .get, some (.stream id false) =>
      -- exhaustion is reported only when every non-reserved id is handed out
      if id = 0 ∧ cnt = cap - 1 then some { tbl := tbl, cnt := cnt } else none
  | .clear id, some (.cleared b) =>
      -- releasing reports whether the id was in use; releasing a free id — or something that is not an id of the
      -- generator at all (`id ≥ cap`: never handed out, `tbl.getD` is false there) — reports false and changes nothing
      if b = tbl.getD id false then
        some { tbl := tbl.setIfInBounds id false, cnt := if b then cnt - 1 else cnt }
      else none
  | .avail, some (.avail v) =>
      if v = ((cap - 1 - cnt : Nat) : Int) then some { tbl := tbl, cnt := cnt } else none
  | _, _ => none

/-- every answer is allowed by the specification and after every op `Available()` (third component)
    is the number of non-reserved ids not handed out -/
def specCheck (cap : Nat) : SpecSt → List (Op × Option Ret × Int) → Bool
  | _, [] => true
  | st, (op, r, av) :: rest =>
    match specStep cap st.tbl st.cnt op r with
    | some st' => decide (av = ((cap - 1 - st'.cnt : Nat) : Int)) && specCheck cap st' rest
    | none => false

/-- the model's answer trace of a sequential op list: (op, answer, `Available()` afterwards) -/
def seqTrace : Shared → List Op → List (Op × Option Ret × Int)
  | _, [] => []
  | sh, op :: ops => (op, (seqOp sh op).2, available (seqOp sh op).1) :: seqTrace (seqOp sh op).1 ops

/-- `specCheck` on the model's own trace, fused (tail recursive, table updated in place: this is what
    the driver runs; `seqMon_eq` in Proofs/C08SeqSpec) -/
def seqMon (cap : Nat) : Shared → Array Bool → Nat → List Op → Bool
  | _, _, _, [] => true
  | sh, tbl, cnt, op :: ops =>
    match specStep cap tbl cnt op (seqOp sh op).2 with
    | some st' =>
      decide (available (seqOp sh op).1 = ((cap - 1 - st'.cnt : Nat) : Int)) && seqMon cap (seqOp sh op).1 st'.tbl st'.cnt ops
    | none => false

/-! ### linearization of the concurrent machine (Proofs/C08Lin, `C08_linearizable_partial`)

Linearization points (one atomic operation each, inside the call they belong to): `GetStream` returning an id — its
successful CAS on the word (`g5 → g7 id`); `Clear(id)` returning true — its successful CAS (`c9 → c11 id`);
`Clear(id)` returning false — the load that saw the bit clear (`c8`, or `c10` after a failed CAS); `Clear(id)`
beyond the capacity — the call itself. A failing `GetStream` and `Available()` have none. -/

/-- the (op, answer) linearized by the atomic operation of a thread standing at `pc` -/
def lpOf (sh : Shared) : PC → List (Op × Option Ret)
  | .g5 off i j b =>
      if sh.words.getD ((i + off) % sh.words.length) 0 = b then
        [(.get, some (.stream (streamFromBucket ((i + off) % sh.words.length) j) true))]
      else []
  | .c9 id b => if sh.words.getD (bucketOffset id) 0 = b then [(.clear id, some (.cleared true))] else []
  | .c8 id =>
      if bucketOffset id < sh.words.length then
        (if sh.words.getD (bucketOffset id) 0 &&& mask id ≠ mask id then [(.clear id, some (.cleared false))] else [])
      else [(.clear id, some (.cleared false))]
  | .c10 id =>
      if sh.words.getD (bucketOffset id) 0 &&& mask id ≠ mask id then [(.clear id, some (.cleared false))] else []
  | _ => []

def linOf (s : State) : Action → List (Op × Option Ret)
  | .start _ op => lpOf s.sh (startPC op)
  | .step t => match s.threads[t]? with
    | some pc => lpOf s.sh pc
    | none => []

/-- run a schedule (no client protocol; only the actions accepted by `ok`) and collect the linearization:
    the linearized (op, answer) pairs in the order of their linearization points -/
def runLin (ok : State → Action → Bool) : State → List Action → Option (State × List (Op × Option Ret))
  | s, [] => some (s, [])
  | s, a :: as =>
    if ok s a then
      match step s a with
      | some (s', _) => (runLin ok s' as).map (fun p => (p.1, linOf s a ++ p.2))
      | none => none
    else none

/-- the sequential specification accepts a list of (op, answer) pairs (the `Available()` column of `specCheck`
    left out) -/
def specAccepts (cap : Nat) : SpecSt → List (Op × Option Ret) → Option SpecSt
  | st, [] => some st
  | st, (op, r) :: rest =>
    match specStep cap st.tbl st.cnt op r with
    | some st' => specAccepts cap st' rest
    | none => none

/-! ### "any history": sequential histories in which the rotating offset word is set to an arbitrary value

The offset is the only state of the allocator that depends on the NUMBER of past calls; the harness sets the
word of the real generator through a reflection hook (`O…` tokens) to the values it has after ~2^32, ~2^31 …
calls. `HOp.setOffset v` is that preset (the value is truncated to the 32 bits of the word). -/

inductive HOp where
  | op (o : Op)
  | setOffset (v : Nat)
  /-- `Clear(-k)`, `k ≥ 1`: a release of something that is not an id of the generator. In the answer trace it is
      recorded as a `Clear` of the non-id `NumStreams + k` (the specification knows "not in 0..cap-1" only) -/
  | clearNeg (k : Nat)
deriving Repr, DecidableEq

def presetOffset (sh : Shared) (v : Nat) : Shared := { sh with offset := v % 4294967296 }

/-- the model's answer trace of a sequential history with presets (a preset has no answer) -/
def hTrace : Shared → List HOp → List (Op × Option Ret × Int)
  | _, [] => []
  | sh, .op op :: ops => (op, (seqOp sh op).2, available (seqOp sh op).1) :: hTrace (seqOp sh op).1 ops
  | sh, .setOffset v :: ops => hTrace (presetOffset sh v) ops
  | sh, .clearNeg k :: ops =>
      (.clear (64 * sh.words.length + k), (clearNeg sh k).2, available (clearNeg sh k).1) :: hTrace (clearNeg sh k).1 ops

/-- `seqMon` for histories with presets (what the driver runs for `smon` lines) -/
def seqMonH (cap : Nat) : Shared → Array Bool → Nat → List HOp → Bool
  | _, _, _, [] => true
  | sh, tbl, cnt, .setOffset v :: ops => seqMonH cap (presetOffset sh v) tbl cnt ops
  | sh, tbl, cnt, .clearNeg k :: ops =>
    match specStep cap tbl cnt (.clear (64 * sh.words.length + k)) (clearNeg sh k).2 with
    | some st' =>
      decide (available (clearNeg sh k).1 = ((cap - 1 - st'.cnt : Nat) : Int)) && seqMonH cap (clearNeg sh k).1 st'.tbl st'.cnt ops
    | none => false
  | sh, tbl, cnt, .op op :: ops =>
    match specStep cap tbl cnt op (seqOp sh op).2 with
    | some st' =>
      decide (available (seqOp sh op).1 = ((cap - 1 - st'.cnt : Nat) : Int)) && seqMonH cap (seqOp sh op).1 st'.tbl st'.cnt ops
    | none => false

end Streams
