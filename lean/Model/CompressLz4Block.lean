import Model.Compress
/-
  The LZ4 BLOCK FORMAT as a concrete block codec (C18): what `lz4.UncompressBlock(src, dst)` — called
  by lz4/lz4.go Decode on `data[4:]` with `len(dst)` = the 4-byte prefix — accepts and produces,
  written from the format description (pierrec/lz4 v4 internal/lz4block decode_other.go, no dictionary):

      block    = sequence* lastSequence
      sequence = token ‖ [literal length extension] ‖ literals ‖ offset(2, little-endian) ‖ [match length extension]
      token    = literal length (upper nibble; 15 = extension bytes follow: add every byte, stop after the
                 first byte that is not 255) | match length - 4 (lower nibble, same extension rule)
      a match copies `length` bytes starting `offset` bytes back in the OUTPUT, byte by byte (overlap
      allowed); offset 0, an offset reaching before the start of the output, a sequence that runs past
      the input or past the destination are errors; the last sequence ends after its literals.

  The result is the bytes produced, which may be FEWER than the destination holds (UncompressBlock
  returns n ≤ len(dst) and no error): that is what `BlockCodec.decB` means.

  `lz4LitBlock` is the simplest encoder of the format (one sequence, literals only): the witness
  that the format satisfies the block-codec hypotheses `BlockCodec.RoundTrips` / `TotalAtBound` for
  EVERY body (`C18_lz4_format_*`). pierrec's CompressBlock (hash-table matcher) is not modelled: its
  output is decoded by this decoder on every run (op `lz4brt`).
-/
namespace Compress

/-- a length extension: add every byte, stop after the first that is not 255; `none`: input ends inside -/
def lz4LenExt : Nat → Bytes → Option (Nat × Bytes)
  | _, [] => none
  | acc, b :: r => if b = 255 then lz4LenExt (acc + 255) r else some (acc + b.toNat, r)

/-- forward byte-by-byte copy inside the output -/
def lz4CopyFwd (offset : Nat) : Nat → Array UInt8 → Array UInt8
  | 0, out => out
  | k + 1, out => lz4CopyFwd offset k (out.push out[out.size - offset]!)

inductive Lz4Step
  | fail
  | done (out : Array UInt8)
  | more (rest : Bytes) (out : Array UInt8)

/-- one sequence; `n` = len(dst), `out` = dst[:di], `tok :: r` = src[si:] -/
def lz4Seq (tok : UInt8) (r : Bytes) (n : Nat) (out : Array UInt8) : Lz4Step :=
  let ll0 := (tok >>> 4).toNat
  match (if ll0 = 15 then lz4LenExt 15 r else some (ll0, r)) with
  | none => .fail
  | some (ll, r1) =>
    if r1.length < ll ∨ out.size + ll > n then .fail
    else
      let out1 := out ++ (r1.take ll).toArray
      let r2 := r1.drop ll
      if r2 = [] then .done out1
      else if r2.length < 2 then .fail
      else
        let offset := (r2.getD 0 0).toNat + 256 * (r2.getD 1 0).toNat
        let r3 := r2.drop 2
        let ml0 := (tok &&& 15).toNat
        match (if ml0 = 15 then lz4LenExt 15 r3 else some (ml0, r3)) with
        | none => .fail
        | some (ml, r4) =>
          if offset = 0 ∨ out1.size < offset ∨ out1.size + (ml + 4) > n then .fail
          else .more r4 (lz4CopyFwd offset (ml + 4) out1)

/-- the sequence loop. Fuel: every sequence consumes at least its token. Running out of input where a
    token is expected is an error (a block does not end after a match). -/
def lz4Loop : Nat → Bytes → Nat → Array UInt8 → Except Unit (Array UInt8)
  | 0, _, _, _ => .error ()
  | _ + 1, [], _, _ => .error ()
  | f + 1, tok :: r, n, out =>
    match lz4Seq tok r n out with
    | .fail => .error ()
    | .done o => .ok o
    | .more r' o => lz4Loop f r' n o

/-- `lz4.UncompressBlock(src, make([]byte, n))`: the bytes produced (`len(src) == 0` ↦ 0, nil) -/
def lz4BlockDecode (src : Bytes) (n : Nat) : Except Unit Bytes :=
  if src = [] then .ok []
  else match lz4Loop (src.length + 1) src n #[] with
    | .error e => .error e
    | .ok o => .ok o.toList

/-! ### the simplest encoder of the format -/

def lz4PutLenExt (m : Nat) : Bytes := List.replicate (m / 255) 255 ++ [UInt8.ofNat (m % 255)]

/-- one sequence, literals only -/
def lz4LitBlock (x : Bytes) : Bytes :=
  if x.length < 15 then UInt8.ofNat (x.length * 16) :: x
  else 0xF0 :: (lz4PutLenExt (x.length - 15) ++ x)

/-- the LZ4 block format as a block codec: literal-only CompressBlock (an error when the destination
    is too short for it), the format's UncompressBlock -/
def lz4Ref : BlockCodec :=
  { encB := fun x n => if (lz4LitBlock x).length ≤ n then .ok (lz4LitBlock x) else .error (),
    decB := lz4BlockDecode }

end Compress
