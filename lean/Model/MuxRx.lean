/-
  The receive side of one connection at byte level (/repo/conn.go: Conn.Read, recv, discardFrame;
  /repo/frame.go: readHeader, framer.readFrame), over a scripted socket.

  The socket is a flat list of items: `some b` — a byte arrives; `none` — a point at which a read that is
  blocked WITH a read deadline set fails with a timeout (net.Error, Temporary) while a read without
  deadline just keeps waiting. Any real timing of the server's writes (several frames in one write, one frame
  cut into several writes with pauses shorter or longer than the deadline) is such a list.

  recv: header without deadline (conn.go:667-673), then by stream id: event / reserved / registered call /
  no handler; the body through Conn.Read = up to FIVE io.ReadFull attempts, each with a fresh deadline,
  continuing at p[n:] (conn.go:344-365).

  When the fifth attempt times out inside a body that belongs to a registered call, framer.readFrame wraps
  the net.Error with %w and recv finds it with errors.As: recv returns it, Conn.serve closes the connection
  (the repair of KF-C01-1; before it the wrapped error was no longer a net.Error, recv handed it to the call
  and CONTINUED reading "headers" in the middle of that body). Any other readFrame error (EOF, negative
  length, compression) goes to the call and the loop continues, as before.
-/
namespace Rx

abbrev Src := List (Option UInt8)

inductive RErr where
  | ok | timeout | eof
deriving DecidableEq, Repr

/-- io.ReadFull(c.r, p) with len p = k; `dl` = a read deadline is set -/
def readFull (dl : Bool) : Src → Nat → List UInt8 × RErr × Src
  | [], k => if k = 0 then ([], .ok, []) else ([], .eof, [])
  | some b :: r, k =>
    match k with
    | 0 => ([], .ok, some b :: r)
    | k + 1 => let x := readFull dl r k; (b :: x.1, x.2.1, x.2.2)
  | none :: r, k =>
    match k with
    | 0 => ([], .ok, none :: r)
    | k + 1 => if dl then ([], .timeout, r) else readFull dl r (k + 1)

/-- Conn.Read(p), len p = k, with `a` attempts left (conn.go: maxAttempts = 5): the count is accumulated
    over the attempts and the next attempt continues at p[n:] -/
def connRead (dl : Bool) : Nat → Src → Nat → List UInt8 × RErr × Src
  | 0, src, _ => ([], .timeout, src)
  | a + 1, src, k =>
    let x := readFull dl src k
    match x.2.1 with
    | .timeout => let y := connRead dl a x.2.2 (k - x.1.length); (x.1 ++ y.1, y.2.1, y.2.2)
    | _ => x

def maxAttempts : Nat := 5
def maxFrameSize : Nat := 268435456
def discardChunk : Nat := 8192

/-- discardFrame: io.CopyN(ioutil.Discard, c, n) reads through Conn.Read in chunks of 8192 -/
def discard (dl : Bool) : Nat → Src → Nat → RErr × Src
  | 0, src, _ => (.ok, src)
  | f + 1, src, n =>
    if n = 0 then (.ok, src)
    else
      let k := min n discardChunk
      let x := connRead dl maxAttempts src k
      match x.2.1 with
      | .ok => discard dl f x.2.2 (n - k)
      | e => (e, x.2.2)

structure Hdr where
  version : UInt8
  flags : UInt8
  stream : Int
  op : UInt8
  length : Int
deriving DecidableEq, Repr

def be16 (a b : UInt8) : Nat := a.toNat * 256 + b.toNat
def be32 (a b c d : UInt8) : Nat := ((a.toNat * 256 + b.toNat) * 256 + c.toNat) * 256 + d.toNat
def s8 (a : UInt8) : Int := if a.toNat ≥ 128 then (a.toNat : Int) - 256 else a.toNat
def s16 (u : Nat) : Int := if u ≥ 32768 then (u : Int) - 65536 else u
def s32 (u : Nat) : Int := if u ≥ 2147483648 then (u : Int) - 4294967296 else u

inductive HRes where
  | hdr (h : Hdr) (rest : Src)
  | eof
  | badVersion (v : Nat)

/-- frame.go readHeader: the size of the header follows the version byte OF THE FRAME -/
def readHeader (src : Src) : HRes :=
  let x := readFull false src 1
  match x.1, x.2.1 with
  | [v], .ok =>
    let ver := v.toNat % 128
    if ver < 1 ∨ ver > 5 then .badVersion ver
    else
      let n := if ver < 3 then 7 else 8
      let y := readFull false x.2.2 n
      match y.2.1 with
      | .ok =>
        match y.1 with
        | [fl, s0, s1, op, l0, l1, l2, l3] =>
          .hdr ⟨v, fl, s16 (be16 s0 s1), op, s32 (be32 l0 l1 l2 l3)⟩ y.2.2
        | [fl, s0, op, l0, l1, l2, l3] =>
          .hdr ⟨v, fl, s8 s0, op, s32 (be32 l0 l1 l2 l3)⟩ y.2.2
        | _ => .eof
      | _ => .eof
  | _, _ => .eof

/-- what became of one frame -/
inductive Disp where
  | call      -- handed to the registered, waiting call
  | gone      -- registered call had closed its timeout channel: recv releases the stream itself
  | discard   -- no handler: body discarded
  | event     -- stream -1: handed to the session
  | reserved  -- stream 0 or < -1
deriving DecidableEq, Repr

inductive BodyRes where
  | ok
  | gaveUp    -- the body read ended with an error (five deadlines, or EOF)
  | lost      -- registered call, the body read gave up on a read deadline: recv returns the error, the
              -- connection is closed, nothing is handed to the call
  | negLen
  | comp      -- compressed flag, no compressor
deriving DecidableEq, Repr

structure Rec where
  d : Disp
  res : BodyRes
  h : Hdr
  body : List UInt8    -- d = call ∧ res = ok: the body the call finds in its framer
deriving DecidableEq, Repr

inductive Status where
  | eof | tmo | ver (v : Nat) | bounds | proto | neg | comp | big | fuel
deriving DecidableEq, Repr

structure Out where
  recs : List Rec
  status : Status
deriving DecidableEq, Repr

/-- registered calls: stream id ↦ (true = still waiting, false = gone) -/
abbrev Calls := List (Nat × Bool)

def Calls.find (cs : Calls) (s : Int) : Option Bool :=
  (cs.find? (fun e => (e.1 : Int) = s)).map (·.2)

def Calls.erase (cs : Calls) (s : Int) : Calls := cs.filter (fun e => ¬ ((e.1 : Int) = s))

def numStreams (proto : Nat) : Int := if proto > 2 then 32768 else 128

def errStatus : RErr → Status
  | .timeout => .tmo
  | _ => .eof

/-- framer.readFrame(c, head) as far as the byte stream is concerned -/
def readBody (dl : Bool) (src : Src) (h : Hdr) : BodyRes × List UInt8 × RErr × Src :=
  if h.length < 0 then (.negLen, [], .ok, src)
  else
    let x := connRead dl maxAttempts src h.length.toNat
    match x.2.1 with
    | .ok => if h.flags.toNat % 2 = 1 then (.comp, [], .ok, x.2.2) else (.ok, x.1, .ok, x.2.2)
    | e => (.gaveUp, [], e, x.2.2)

/-- Conn.serve: recv until it returns an error -/
def recvLoop (proto : Nat) (dl : Bool) : Nat → Calls → Src → Out
  | 0, _, _ => ⟨[], .fuel⟩
  | f + 1, cs, src =>
    match readHeader src with
    | .eof => ⟨[], .eof⟩
    | .badVersion v => ⟨[], .ver v⟩
    | .hdr h rest =>
      if h.stream > numStreams proto then ⟨[], .bounds⟩
      else if h.length > maxFrameSize then ⟨[], .big⟩       -- not modelled further
      else if h.stream = -1 ∨ h.stream ≤ 0 then
        -- event frame / reserved stream: readFrame, an error ends the loop; a reserved stream always does
        let d := if h.stream = -1 then Disp.event else Disp.reserved
        let x := readBody dl rest h
        match x.1 with
        | .ok => if h.stream = -1 then
                   let o := recvLoop proto dl f cs x.2.2.2
                   ⟨⟨d, .ok, h, []⟩ :: o.recs, o.status⟩
                 else ⟨[⟨d, .ok, h, []⟩], .proto⟩
        | .negLen => ⟨[⟨d, .negLen, h, []⟩], .neg⟩
        | .comp => ⟨[⟨d, .comp, h, []⟩], .comp⟩
        | .gaveUp | .lost => ⟨[⟨d, .gaveUp, h, []⟩], errStatus x.2.2.1⟩   -- (readBody never answers `lost`)
      else
        match cs.find h.stream with
        | none =>
          -- discardFrame
          if h.length < 0 then
            let o := recvLoop proto dl f cs rest
            ⟨⟨.discard, .negLen, h, []⟩ :: o.recs, o.status⟩
          else
            let x := discard dl (h.length.toNat + 1) rest h.length.toNat
            match x.1 with
            | .ok =>
              let o := recvLoop proto dl f cs x.2
              ⟨⟨.discard, .ok, h, []⟩ :: o.recs, o.status⟩
            | e => ⟨[⟨.discard, .gaveUp, h, []⟩], errStatus e⟩
        | some waiting =>
          -- the call is taken out of c.calls; readFrame; a net.Error (the body read gave up on a read
          -- deadline) ends the loop: `if errors.As(err, &netErr) { return err }`; whatever else readFrame
          -- returned goes to the call or, if the call has gone, the stream is released; recv returns nil
          let x := readBody dl rest h
          let d := if waiting then Disp.call else Disp.gone
          if x.1 = .gaveUp ∧ x.2.2.1 = .timeout then ⟨[⟨d, .lost, h, []⟩], .tmo⟩ else
          let o := recvLoop proto dl f (cs.erase h.stream) x.2.2.2
          ⟨⟨d, x.1, h, x.2.1⟩ :: o.recs, o.status⟩

def bytes (src : Src) : List UInt8 := src.filterMap id

def recv (proto : Nat) (dl : Bool) (cs : Calls) (src : Src) : Out :=
  recvLoop proto dl (src.length + 1) cs src

/-! ### Specification side: frames as the server means them, and where each must go -/

structure Frame where
  h : Hdr
  body : List UInt8
deriving DecidableEq, Repr

def hdrLen (proto : Nat) : Nat := if proto < 3 then 8 else 9

def u8 (n : Nat) : UInt8 := UInt8.ofNat n

/-- native protocol, section 2: the frame header (v1/v2: 8 bytes, 1-byte stream; v3+: 9 bytes) -/
def encodeHdr (proto : Nat) (h : Hdr) : List UInt8 :=
  let l := (h.length % 4294967296).toNat
  let lb := [u8 (l / 16777216), u8 (l / 65536 % 256), u8 (l / 256 % 256), u8 (l % 256)]
  if proto < 3 then
    [h.version, h.flags, u8 (h.stream % 256).toNat, h.op] ++ lb
  else
    let s := (h.stream % 65536).toNat
    [h.version, h.flags, u8 (s / 256), u8 (s % 256), h.op] ++ lb

def encode (proto : Nat) (f : Frame) : List UInt8 := encodeHdr proto f.h ++ f.body

def encodeAll (proto : Nat) (fs : List Frame) : List UInt8 := fs.flatMap (encode proto)

/-- a frame a server may send on a connection of protocol `proto` without ending it -/
def Frame.wf (proto : Nat) (f : Frame) : Prop :=
  f.h.version.toNat % 128 = proto ∧ f.h.flags.toNat % 2 = 0 ∧
  (f.h.stream = -1 ∨ (1 ≤ f.h.stream ∧ f.h.stream < numStreams proto)) ∧
  f.h.length = f.body.length ∧ f.body.length ≤ maxFrameSize

instance (proto : Nat) (f : Frame) : Decidable (f.wf proto) := by unfold Frame.wf; infer_instance

/-- demultiplexing as the property wants it: every frame goes to the call registered for its stream id
    (once), with its own header and its own body -/
def dispatch : Calls → List Frame → List Rec
  | _, [] => []
  | cs, f :: fs =>
    if f.h.stream = -1 then ⟨.event, .ok, f.h, []⟩ :: dispatch cs fs
    else match cs.find f.h.stream with
      | none => ⟨.discard, .ok, f.h, []⟩ :: dispatch cs fs
      | some true => ⟨.call, .ok, f.h, f.body⟩ :: dispatch (cs.erase f.h.stream) fs
      | some false => ⟨.gone, .ok, f.h, f.body⟩ :: dispatch (cs.erase f.h.stream) fs

/-- the rest of the socket after its k-th byte -/
def dropBytes : Nat → Src → Src
  | 0, src => src
  | _ + 1, [] => []
  | k + 1, some _ :: r => dropBytes k r
  | k + 1, none :: r => dropBytes (k + 1) r

/-- number of deadline-expiry points before the k-th byte -/
def expiriesBefore : Nat → Src → Nat
  | 0, _ => 0
  | _ + 1, [] => 0
  | k + 1, some _ :: r => expiriesBefore k r
  | k + 1, none :: r => expiriesBefore (k + 1) r + 1

/-- no frame body is awaited through five read deadlines -/
def Calm (proto : Nat) : List Frame → Src → Prop
  | [], _ => True
  | f :: fs, src =>
    let s1 := dropBytes (hdrLen proto) src
    expiriesBefore f.body.length s1 < maxAttempts ∧ Calm proto fs (dropBytes f.body.length s1)

/-! ### canonical text (what the driver prints and the harness compares) -/

def fnv32 (bs : List UInt8) : UInt32 :=
  bs.foldl (fun h b => (h ^^^ b.toUInt32) * 16777619) 2166136261

def hexDigit (n : Nat) : Char :=
  if n < 10 then Char.ofNat (48 + n) else Char.ofNat (87 + n)

def hex32 (u : UInt32) : String :=
  let n := u.toNat
  String.ofList ((List.range 8).map fun i => hexDigit (n / 16 ^ (7 - i) % 16))

def Hdr.text (h : Hdr) : String := s!"{h.stream}:{h.op.toNat}:{h.flags.toNat}:{h.length}"

def Rec.text (r : Rec) : String :=
  match r.d, r.res with
  | .event, _ => "E:" ++ r.h.text
  | .reserved, _ => "P:" ++ r.h.text
  | .discard, _ => "X:" ++ r.h.text
  | .gone, _ => "R:" ++ r.h.text
  | .call, .ok => "D:" ++ r.h.text ++ ":" ++ hex32 (fnv32 r.body)
  | .call, .gaveUp => "B:" ++ r.h.text
  | .call, .lost => "?:" ++ r.h.text
  | .call, .negLen => "N:" ++ r.h.text
  | .call, .comp => "C:" ++ r.h.text

def Status.text : Status → String
  | .eof => "eof" | .tmo => "tmo" | .ver v => s!"ver{v}" | .bounds => "bounds" | .proto => "proto"
  | .neg => "neg" | .comp => "comp" | .big => "big" | .fuel => "fuel"

def Out.text (o : Out) : String :=
  " ".intercalate (o.recs.map Rec.text ++ [";" ++ o.status.text])

end Rx
