import Model.PagingHist
/-!
  The single-row helpers of a Query on a paged statement (C15, tier `first`).

    session.go  Query.Scan / Query.MapScan:  `iter := q.Iter(); if err := iter.checkErrAndNotFound(); err != nil
                { return err }; iter.Scan(dest...) / iter.MapScan(m); return iter.Close()`
                Iter.checkErrAndNotFound (as repaired for KF-C15-4, props/C15.fix-4.diff): first walk over empty
                pages that say has_more_pages, then `iter.err`, else `ErrNotFound` when `iter.numRows == 0`.
                Query.Exec: `q.Iter().Close()`.
    The one Iter.Scan that follows finds `pos 0 < numRows`, so it never switches pages, and its prefetch
    trigger `pos >= next.pos` is false (`next.pos ≥ 1`): the requests sent are those up to the first non-empty page.
-/
namespace Paging.First
open Paging Paging.Hist

inductive Err where
  | notFound          -- gocql.ErrNotFound
  | fail (f : Fail)   -- the error of the fetch
  deriving DecidableEq, Repr

structure Out where
  row  : Option Int
  err  : Option Err
  reqs : List Req
  deriving DecidableEq, Repr

/-- Query.Scan / Query.MapScan, with Iter.checkErrAndNotFound as repaired for KF-C15-4: `for iter.err == nil &&
    iter.numRows == 0 && iter.next != nil { *iter = *iter.next.fetch() }` before the two tests — an empty page
    that says has_more_pages is walked over (the page switch of Iter.Scan), so ErrNotFound means that the
    RESULT has no row -/
def queryScan (pp : Nat → Nat) : List Reply → Bool → Qry → Out
  | [], c, q => ⟨none, some (.fail .exhausted), prep c q ++ [request q]⟩
  | .unprepared :: rest, c, q =>
    let o := queryScan pp rest false q
    { o with reqs := prep c q ++ request q :: o.reqs }
  | .fail f :: _, c, q => ⟨none, some (.fail f), prep c q ++ [request q]⟩
  | .page rows st :: rest, c, q =>
    match rows, (pageIter pp q rows st).next with
    | r :: _, _ => ⟨some r, none, prep c q ++ [request q]⟩             -- iter.Scan: the row at pos 0; Close: nil
    | [], none => ⟨none, some .notFound, prep c q ++ [request q]⟩      -- numRows == 0 and no next page
    | [], some n =>
      let o := queryScan pp rest true n.qry                           -- the loop: `*iter = *iter.next.fetch()`
      { o with reqs := prep c q ++ request q :: o.reqs }

/-- Query.Exec -/
def queryExec (pp : Nat → Nat) (script : List Reply) (q : Qry) : Out :=
  let f := connExec pp script false q
  ⟨none, f.iter.err.map .fail, f.reqs⟩

/-! ## Specification: "copies the columns of the first selected row … and discards the rest. If no rows were
    selected, ErrNotFound is returned" — the first row of the RESULT (`Paging.Spec.rows`), wherever its page
    boundary lies; no row at all: the failure that ended the result, or not-found -/
namespace Spec

def first (script : List Reply) : Option Int × Option Err :=
  match Paging.Spec.rows script with
  | r :: _ => (some r, none)
  | [] => (none, some (match Paging.Spec.err script with | some f => .fail f | none => .notFound))

/-- Exec: the outcome of the first fetch -/
def execErr : List Reply → Option Fail
  | [] => some .exhausted
  | .unprepared :: rest => execErr rest
  | .fail f :: _ => some f
  | .page _ _ :: _ => none

end Spec

end Paging.First
