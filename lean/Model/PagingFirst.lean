import Model.PagingHist
/-!
  The single-row helpers of a Query on a paged statement (C15, tier `first`).

    session.go  Query.Scan / Query.MapScan:  `iter := q.Iter(); if err := iter.checkErrAndNotFound(); err != nil
                { return err }; iter.Scan(dest...) / iter.MapScan(m); return iter.Close()`
                Iter.checkErrAndNotFound: `iter.err`, else `ErrNotFound` when `iter.numRows == 0` — the FIRST
                PAGE's row count; whether the page carries has_more_pages is not looked at.
                Query.Exec: `q.Iter().Close()`.
    The one Iter.Scan that follows finds `pos 0 < numRows`, so it never switches pages, and its prefetch
    trigger `pos >= next.pos` is false (`next.pos ≥ 1`): exactly the requests of the first fetch are sent.
-/
namespace Paging.First
open Paging Paging.Hist

inductive Err where
  | notFound          -- gocql.ErrNotFound
  | fail (f : Fail)   -- the error of the fetch
  deriving DecidableEq, Repr

structure Out where
  row  : Option Int
  err  : Option Err
  reqs : List Req
  deriving DecidableEq, Repr

/-- Query.Scan / Query.MapScan -/
def queryScan (pp : Nat → Nat) (script : List Reply) (q : Qry) : Out :=
  let f := connExec pp script false q
  match f.iter.err with
  | some e => ⟨none, some (.fail e), f.reqs⟩
  | none =>
    match f.iter.rows with
    | [] => ⟨none, some .notFound, f.reqs⟩          -- checkErrAndNotFound: numRows == 0
    | r :: _ => ⟨some r, none, f.reqs⟩               -- iter.Scan: the row at pos 0; Close: nil

/-- Query.Exec -/
def queryExec (pp : Nat → Nat) (script : List Reply) (q : Qry) : Out :=
  let f := connExec pp script false q
  ⟨none, f.iter.err.map .fail, f.reqs⟩

/-! ## Specification: "copies the columns of the first selected row … and discards the rest. If no rows were
    selected, ErrNotFound is returned" — the first row of the RESULT (`Paging.Spec.rows`), wherever its page
    boundary lies; no row at all: the failure that ended the result, or not-found -/
namespace Spec

def first (script : List Reply) : Option Int × Option Err :=
  match Paging.Spec.rows script with
  | r :: _ => (some r, none)
  | [] => (none, some (match Paging.Spec.err script with | some f => .fail f | none => .notFound))

/-- Exec: the outcome of the first fetch -/
def execErr : List Reply → Option Fail
  | [] => some .exhausted
  | .unprepared :: rest => execErr rest
  | .fail f :: _ => some f
  | .page _ _ :: _ => none

end Spec

/-- the first page answers the question: it is not an EMPTY page that says has_more_pages (the condition under
    which Query.Scan / MapScan do the documented thing on the unchanged code) -/
def FirstPageDecides : List Reply → Prop
  | .unprepared :: rest => FirstPageDecides rest
  | .page [] (some _) :: _ => False
  | _ => True

end Paging.First
