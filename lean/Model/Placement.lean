/-
C10 — replica placement.  Hand-written executable model of

  token.go     newTokenRing (ring construction), tokenRing.GetHostForToken
  topology.go  tokenRingReplicas.replicasFor, getReplicationFactorFromOpts, getStrategy,
               simpleStrategy.replicaMap, networkTopology.haveRF / replicaMap
  policies.go  the replica list `Pick` starts from (replicasFor, fallback GetHostForToken)

and, in namespace `Placement.Spec`, an independent description of what Cassandra does
(TokenMetadata.firstTokenIndex / ringIterator, SimpleStrategy, NetworkTopologyStrategy 3.0).

`networkTopology.replicaMap` is modelled as it is AFTER the repairs of KF-C10-1/2/3
(props/C10.fix-KF-C10-*.diff): (1) the inner walk remembers the hosts it has met (`seenHosts`) and skips a host
met before, (2) the final sanity check counts the datacenters OF THE RING that hold replicas,
(3) `dcRacks` is built from the hosts of the ring entries (hosts that own tokens), not from `tokenRing.hosts`.

Core Lean only.  Tokens are `Int` (Murmur3: int64; Random: non-negative big integer; Ordered:
the harness uses fixed-width strings whose byte order is the numeric order).  A host is the
triple (id, dc, rack); Go compares hosts by pointer (`seen[h.host]`) — one pointer per id in
the harness — and by connect address in one sanity check (`Equal`), also one per id.
-/
namespace Placement

structure Host where
  id : Nat
  dc : Nat
  rack : Nat
deriving DecidableEq, Repr, Inhabited

/-- `hostToken{token, host}` -/
abbrev Entry := Int × Host

/-! ## token.go: ring construction -/

/-- insertion into a list sorted by token (stable: after smaller, before equal-or-larger) -/
def insertEntry (e : Entry) : List Entry → List Entry
  | [] => [e]
  | x :: xs => if e.1 ≤ x.1 then e :: x :: xs else x :: insertEntry e xs

/-- `sort.Sort(tokenRing)`: Go's sort is not stable; with pairwise distinct tokens (the
assumption of this model, as in Cassandra) every correct sort gives this list. -/
def sortEntries (l : List Entry) : List Entry := l.foldr insertEntry []

/-- `newTokenRing`: for every host, for every token string: append; then sort. -/
def buildRing (hosts : List (Host × List Int)) : List Entry :=
  sortEntries (hosts.flatMap (fun ht => ht.2.map (fun t => (t, ht.1))))

/-! ## sort.Search and the two lookups -/

/-- the loop of Go's `sort.Search(n, f)`:
`i, j := 0, n; for i < j { h := int(uint(i+j) >> 1); if !f(h) { i = h + 1 } else { j = h } }; return i`.
Fuel `n` is enough (`j - i` decreases every round). -/
def searchLoop (f : Nat → Bool) : Nat → Nat → Nat → Nat
  | 0, i, _ => i
  | fuel + 1, i, j =>
    if i < j then
      let h := (i + j) / 2
      if !f h then searchLoop f fuel (h + 1) j else searchLoop f fuel i h
    else i

def sortSearch (n : Nat) (f : Nat → Bool) : Nat := searchLoop f n 0 n

/-- token of element `i` (0 outside the list; never consulted there) -/
def tokAt {β : Type} (l : List (Int × β)) (i : Nat) : Int :=
  match l[i]? with
  | some e => e.1
  | none => 0

/-- index computed by `GetHostForToken` / `replicasFor`:
`p := sort.Search(len, func(i) bool { return !tokens[i].token.Less(t) }); if p == len { p = 0 }` -/
def lookupIdx {β : Type} (l : List (Int × β)) (t : Int) : Nat :=
  let p := sortSearch l.length (fun i => !(decide (tokAt l i < t)))
  if p ≥ l.length then 0 else p

/-- `tokenRing.GetHostForToken`: `(nil, nil)` on the empty ring, else the entry at `lookupIdx`. -/
def getHostForToken (ring : List Entry) (t : Int) : Option Entry :=
  if ring.length = 0 then none else ring[lookupIdx ring t]?

/-- `tokenRingReplicas` -/
abbrev ReplicaRing := List (Int × List Host)

/-- `tokenRingReplicas.replicasFor`: nil on the empty map. -/
def replicasFor (rr : ReplicaRing) (t : Int) : Option (Int × List Host) :=
  if rr.length = 0 then none else rr[lookupIdx rr t]?

/-- walk order of both strategies: `tokens[(i+j) % len]` for `j = 0 … len-1`. -/
def rot {α : Type} (l : List α) (i : Nat) : List α := l.drop i ++ l.take i

/-- the literal index form of the Go loops (proved equal to `rot` for `i < len`, `C10Lookup.walkIdx_eq_rot`) -/
def walkIdx {α : Type} [Inhabited α] (l : List α) (i : Nat) : List α :=
  (List.range l.length).map (fun j => let p := i + j; l[if p ≥ l.length then p - l.length else p]!)

/-! ## simpleStrategy.replicaMap -/

/-- inner loop `for j := 0; j < len(tokens) && len(replicas) < s.rf; j++`, state (replicas, seen). -/
def simpleWalk (rf : Nat) : List Host × List Host → List Host → List Host × List Host
  | st, [] => st
  | (reps, seen), h :: rest =>
    if reps.length < rf then
      if h ∈ seen then simpleWalk rf (reps, seen) rest
      else simpleWalk rf (reps ++ [h], seen ++ [h]) rest
    else (reps, seen)

def simpleReplicasAt (rf : Nat) (tokens : List Entry) (i : Nat) : List Host :=
  (simpleWalk rf ([], []) ((rot tokens i).map (·.2))).1

/-- insertion sort of the replica ring (`sort.Sort(ring)`; the ring is already sorted) -/
def insertRep (e : Int × List Host) : ReplicaRing → ReplicaRing
  | [] => [e]
  | x :: xs => if e.1 ≤ x.1 then e :: x :: xs else x :: insertRep e xs

def sortReps (l : ReplicaRing) : ReplicaRing := l.foldr insertRep []

def simpleReplicaMap (rf : Nat) (tokens : List Entry) : ReplicaRing :=
  sortReps ((List.range tokens.length).map (fun i => (tokAt tokens i, simpleReplicasAt rf tokens i)))

/-! ## networkTopology.replicaMap -/

/-- `n.dcs[dc]` (0 when absent) -/
def rfOf (rfs : List (Nat × Nat)) (dc : Nat) : Nat := (rfs.lookup dc).getD 0

/-- set insertion as Go does it on `map[string]struct{}` (kept as duplicate-free list) -/
def setAdd {α : Type} [DecidableEq α] (s : List α) (x : α) : List α := if x ∈ s then s else s ++ [x]

def toSet {α : Type} [DecidableEq α] (l : List α) : List α := l.foldl setAdd []

def upd {β : Type} (f : Nat → β) (k : Nat) (v : β) : Nat → β := fun x => if x = k then v else f x

/-- what `replicaMap` computes before the token loop -/
structure NtsCfg where
  rfs : List (Nat × Nat)      -- n.dcs (a Go map: keys pairwise distinct)
  dcs : List Nat              -- keys of dcRacks
  racks : Nat → List Nat      -- dcRacks[dc]
  nDcRacks : Nat              -- len(dcRacks)
  nCountKeys : Nat            -- len(replicasInDC) once the per-token reset loop has run: |ring DCs ∪ keys(n.dcs)|
  totalRF : Nat

/-- `owners` = the hosts the `dcRacks` loop visits: `for _, th := range tokenRing.tokens { h := th.host … }`
(one per ring entry; `dcRacks` is a map of sets, so repetitions do not matter). -/
def mkCfg (rfs : List (Nat × Nat)) (owners : List Host) : NtsCfg :=
  let dcs := toSet (owners.map (·.dc))
  { rfs := rfs
    dcs := dcs
    racks := fun dc => toSet ((owners.filter (fun h => h.dc = dc)).map (·.rack))
    nDcRacks := dcs.length
    nCountKeys := (toSet (dcs ++ rfs.map (·.1))).length
    totalRF := (rfs.map (·.2)).sum }

/-- per-token loop state (everything `replicaMap` resets at the top of the outer loop) -/
structure NtsSt where
  replicas : List Host
  inDC : Nat → Nat            -- replicasInDC
  seen : Nat → List Nat       -- seenDCRacks
  skipped : Nat → List Host
  crash : Bool                -- the "replica overflow" panic fired

def ntsInit : NtsSt := { replicas := [], inDC := fun _ => 0, seen := fun _ => [], skipped := fun _ => [], crash := false }

/-- `haveRF(replicasInDC)` -/
def haveRF (c : NtsCfg) (st : NtsSt) : Bool :=
  c.nCountKeys == c.rfs.length && c.rfs.all (fun p => p.2 == st.inDC p.1)

/-- `for ; k < len(skippedHosts) && r+k < rf; k++ { replicas = append(replicas, skippedHosts[k]) }`;
returns (r + k, replicas, skippedHosts[k:]) -/
def drain (rf : Nat) : Nat → List Host → List Host → Nat × List Host × List Host
  | r, reps, [] => (r, reps, [])
  | r, reps, sh :: sk => if r < rf then drain rf (r + 1) (reps ++ [sh]) sk else (r, reps, sh :: sk)

/-- body of the inner loop for the host `h := tokens[p].host` -/
def ntsStep (c : NtsCfg) (st : NtsSt) (h : Host) : NtsSt :=
  let rf := rfOf c.rfs h.dc
  if rf = 0 then st
  else if st.inDC h.dc ≥ rf then
    (if st.inDC h.dc > rf then { st with crash := true } else st)
  else if h.rack ∉ c.racks h.dc then st
  else
    let racks := st.seen h.dc
    if h.rack ∈ racks ∧ racks.length = (c.racks h.dc).length then
      { st with replicas := st.replicas ++ [h], inDC := upd st.inDC h.dc (st.inDC h.dc + 1) }
    else if h.rack ∉ racks then
      let racks' := racks ++ [h.rack]
      let reps := st.replicas ++ [h]
      let r := st.inDC h.dc + 1
      if racks'.length = (c.racks h.dc).length then
        let d := drain rf r reps (st.skipped h.dc)
        { st with replicas := d.2.1, inDC := upd st.inDC h.dc d.1, seen := upd st.seen h.dc racks',
                  skipped := upd st.skipped h.dc d.2.2 }
      else
        { st with replicas := reps, inDC := upd st.inDC h.dc r, seen := upd st.seen h.dc racks' }
    else
      { st with skipped := upd st.skipped h.dc (st.skipped h.dc ++ [h]) }

/-- `for j := 0; j < len(tokens) && (len(replicas) < totalRF && !n.haveRF(replicasInDC)); j++` with
`if _, ok := seenHosts[h]; ok { continue }; seenHosts[h] = struct{}{}` at the top of the body; `sh` = seenHosts. -/
def ntsWalk (c : NtsCfg) : NtsSt → List Host → List Host → NtsSt
  | st, _, [] => st
  | st, sh, h :: rest =>
    if st.crash then st
    else if st.replicas.length < c.totalRF ∧ haveRF c st = false then
      (if h ∈ sh then ntsWalk c st sh rest else ntsWalk c (ntsStep c st h) (sh ++ [h]) rest)
    else st

inductive Crash
  | overflow      -- "replica overflow. rf=… have=… in dc …"
  | noReplicas    -- "no replicas for token: …"
  | notPrimary    -- "first replica is not the primary replica for the token: …"
  | sizeMismatch  -- "token map different size to token ring: got … expected …"
deriving DecidableEq, Repr

def ntsReplicasAt (c : NtsCfg) (tokens : List Entry) (i : Nat) : NtsSt :=
  ntsWalk c ntsInit [] ((rot tokens i).map (·.2))

/-- outer loop over `(i, th)`; `acc` is `replicaRing` -/
def ntsLoop (c : NtsCfg) (tokens : List Entry) : List (Nat × Entry) → ReplicaRing → Except Crash ReplicaRing
  | [], acc => .ok acc
  | (i, th) :: rest, acc =>
    if rfOf c.rfs th.2.dc = 0 then ntsLoop c tokens rest acc
    else
      let st := ntsReplicasAt c tokens i
      if st.crash then .error .overflow
      else match st.replicas with
        | [] => .error .noReplicas
        | r0 :: _ =>
          if r0 ≠ th.2 then .error .notPrimary
          else ntsLoop c tokens rest (acc ++ [(th.1, st.replicas)])

def indexed {α : Type} (l : List α) : List (Nat × α) := (List.range l.length).zip l

/-- `dcsWithReplicas := 0; for dc := range dcRacks { if n.dcs[dc] > 0 { dcsWithReplicas++ } }` -/
def dcsWithReplicas (c : NtsCfg) : Nat := (c.dcs.filter (fun d => decide (rfOf c.rfs d > 0))).length

def ntsReplicaMap (rfs : List (Nat × Nat)) (tokens : List Entry) : Except Crash ReplicaRing :=
  let c := mkCfg rfs (tokens.map (·.2))
  match ntsLoop c tokens (indexed tokens) [] with
  | .error e => .error e
  | .ok rr =>
    if dcsWithReplicas c = c.nDcRacks ∧ rr.length ≠ tokens.length then .error .sizeMismatch else .ok rr

/-- the panic, if any -/
def crashOf {α : Type} : Except Crash α → Option Crash
  | .error e => some e
  | .ok _ => none

/-! ## policies.go `Pick`: the replica list iteration starts from -/

/-- `ht := meta.replicas[ks].replicasFor(token); if ht == nil { host := GetHostForToken; [host] } else ht.hosts` -/
def pickReplicas (ring : List Entry) (rr : ReplicaRing) (t : Int) : List Host :=
  match replicasFor rr t with
  | some e => e.2
  | none => match getHostForToken ring t with
    | some e => [e.2]
    | none => []     -- Go: a slice holding one nil host

/-! ## getStrategy / getReplicationFactorFromOpts -/

/-- the dynamic types an option value can have that matter to the switch -/
inductive OptVal
  | int (v : Int)
  | str (s : List Char)
  | other

def digitsVal : List Char → Nat → Option Nat
  | [], acc => some acc
  | c :: cs, acc => if '0' ≤ c ∧ c ≤ '9' then digitsVal cs (acc * 10 + (c.toNat - '0'.toNat)) else none

/-- `strconv.Atoi` on a 64-bit platform: optional sign, at least one digit, decimal digits only, range of int64 -/
def atoi (s : List Char) : Option Int :=
  let (neg, ds) := match s with
    | '-' :: r => (true, r)
    | '+' :: r => (false, r)
    | r => (false, r)
  if ds.isEmpty then none else
  match digitsVal ds 0 with
  | none => none
  | some n =>
    if neg then (if n ≤ 9223372036854775808 then some (-(n : Int)) else none)
    else (if n ≤ 9223372036854775807 then some (n : Int) else none)

/-- `getReplicationFactorFromOpts`: `none` = error -/
def rfFromOpt : OptVal → Option Nat
  | .int v => if v < 0 then none else some v.toNat
  | .str s => match atoi s with
    | none => none
    | some n => if n < 0 then none else some n.toNat
  | .other => none

def isPrefix : List Char → List Char → Bool
  | [], _ => true
  | _ :: _, [] => false
  | a :: p, b :: s => a == b && isPrefix p s

/-- `strings.Contains` -/
def containsStr : List Char → List Char → Bool
  | s, sub => match s with
    | [] => sub.isEmpty
    | _ :: r => isPrefix sub s || containsStr r sub

inductive Strategy
  | simple (rf : Nat)
  | nts (dcs : List (List Char × Nat))
  | none_

/-- `getStrategy`; `opts` is `ks.StrategyOptions` (a Go map: the answer is canonicalised by sorting in the driver);
a missing `replication_factor` is the nil interface = `.other`. -/
def getStrategy (cls : List Char) (opts : List (List Char × OptVal)) : Strategy :=
  if containsStr cls "SimpleStrategy".toList then
    match rfFromOpt ((opts.lookup "replication_factor".toList).getD .other) with
    | some rf => .simple rf
    | none => .none_
  else if containsStr cls "NetworkTopologyStrategy".toList then
    .nts (opts.filterMap (fun kv =>
      if kv.1 = "class".toList then none else
      match rfFromOpt kv.2 with
      | some rf => some (kv.1, rf)
      | none => none))
  else .none_

/-! ## orderedPartitioner (matches `…ByteOrderedPartitioner`): tokens are byte strings

`orderedToken` is a Go string; `Less` is Go's `<` on strings = byte-wise lexicographic order, a proper prefix first.
Bytes are `Nat`s below 256.  `ParseString(str) = orderedToken(str)` keeps the TEXT Cassandra reports for a ring token
as it is; `Hash(partitionKey) = orderedToken(partitionKey)` is the raw key. -/

/-- Go's `a < b` on strings -/
def lexLt : List Nat → List Nat → Bool
  | _, [] => false
  | [], _ :: _ => true
  | a :: as, b :: bs => decide (a < b) || (a == b && lexLt as bs)

/-- `orderedPartitioner.ParseString` -/
def orderedParse (str : List Nat) : List Nat := str

/-- `orderedPartitioner.Hash` -/
def orderedHash (key : List Nat) : List Nat := key

abbrev OEntry := List Nat × Host

def insertEntryO (e : OEntry) : List OEntry → List OEntry
  | [] => [e]
  | x :: xs => if !lexLt x.1 e.1 then e :: x :: xs else x :: insertEntryO e xs

/-- `newTokenRing` under the ordered partitioner: parse every token string, append, sort -/
def buildRingO (hosts : List (Host × List (List Nat))) : List OEntry :=
  (hosts.flatMap (fun ht => ht.2.map (fun t => (orderedParse t, ht.1)))).foldr insertEntryO []

def oTokAt {β : Type} (l : List (List Nat × β)) (i : Nat) : List Nat :=
  match l[i]? with
  | some e => e.1
  | none => []

/-- the index `GetHostForToken` computes, with `orderedToken.Less` as the order -/
def lookupIdxO {β : Type} (l : List (List Nat × β)) (t : List Nat) : Nat :=
  let p := sortSearch l.length (fun i => !(lexLt (oTokAt l i) t))
  if p ≥ l.length then 0 else p

def getHostForTokenO (ring : List OEntry) (t : List Nat) : Option OEntry :=
  if ring.length = 0 then none else ring[lookupIdxO ring t]?

/-! ## Specification (Cassandra), written from Appendix E3–E5 of DESIGN.md, independent of the code above -/
namespace Spec

/-- E3 `firstTokenIndex`: index of the first ring token ≥ t, 0 if there is none. -/
def ownerIdx {β : Type} (ring : List (Int × β)) (t : Int) : Nat :=
  let i := ring.findIdx (fun e => decide (t ≤ e.1))
  if i < ring.length then i else 0

/-- E3 `ringIterator`: the entries of the (sorted) ring clockwise from the owner of `t`:
those with token ≥ t in order, then those with token < t in order. -/
def clockwise {β : Type} (ring : List (Int × β)) (t : Int) : List (Int × β) :=
  ring.filter (fun e => decide (t ≤ e.1)) ++ ring.filter (fun e => decide (e.1 < t))

/-- first occurrences, in order -/
def firsts {α : Type} [DecidableEq α] : List α → List α
  | [] => []
  | a :: l => a :: (firsts l).filter (fun x => x ≠ a)

/-- E4 SimpleStrategy: the first `rf` distinct nodes clockwise from the owner of `t`. -/
def simple (ring : List Entry) (rf : Nat) (t : Int) : List Host :=
  (firsts ((clockwise ring t).map (·.2))).take rf

/-- what `Topology` knows: node count and rack count per datacenter -/
structure Topo where
  nodesIn : Nat → Nat
  racksIn : Nat → Nat

def topoOf (ring : List Entry) : Topo :=
  let hs := firsts (ring.map (·.2))
  { nodesIn := fun dc => (hs.filter (fun h => h.dc = dc)).length
    racksIn := fun dc => (firsts ((hs.filter (fun h => h.dc = dc)).map (·.rack))).length }

/-- E5 state: `replicas` (LinkedHashSet), `dcReplicas`, `seenRacks`, `skippedDcEndpoints` (LinkedHashSet).
Sets are duplicate-free lists, `add` = `sadd`. -/
structure St where
  replicas : List Host
  dcReplicas : Nat → List Host
  seenRacks : Nat → List Nat
  skipped : Nat → List Host

def sadd {α : Type} [DecidableEq α] (s : List α) (x : α) : List α := if x ∈ s then s else s ++ [x]

def init : St := { replicas := [], dcReplicas := fun _ => [], seenRacks := fun _ => [], skipped := fun _ => [] }

/-- `hasSufficientReplicas(dc, …)`: `dcReplicas[dc].size() >= min(allEndpoints[dc].size(), rf[dc])` -/
def sufficient (tp : Topo) (rf : Nat → Nat) (st : St) (dc : Nat) : Bool :=
  decide ((st.dcReplicas dc).length ≥ min (tp.nodesIn dc) (rf dc))

/-- drain `skipped[dc]` in insertion order while the DC is not satisfied -/
def drainSk (tp : Topo) (rf : Nat → Nat) (dc : Nat) : St → List Host → St
  | st, [] => st
  | st, x :: xs =>
    if sufficient tp rf st dc then st
    else drainSk tp rf dc { st with dcReplicas := upd st.dcReplicas dc (sadd (st.dcReplicas dc) x),
                                     replicas := sadd st.replicas x } xs

/-- one ring position with endpoint `ep` -/
def step (tp : Topo) (dcs : List Nat) (rf : Nat → Nat) (st : St) (ep : Host) : St :=
  let dc := ep.dc
  if dc ∉ dcs ∨ sufficient tp rf st dc then st
  else if (st.seenRacks dc).length = tp.racksIn dc then
    { st with dcReplicas := upd st.dcReplicas dc (sadd (st.dcReplicas dc) ep), replicas := sadd st.replicas ep }
  else if ep.rack ∈ st.seenRacks dc then
    { st with skipped := upd st.skipped dc (sadd (st.skipped dc) ep) }
  else
    let st1 : St := { st with dcReplicas := upd st.dcReplicas dc (sadd (st.dcReplicas dc) ep),
                              replicas := sadd st.replicas ep,
                              seenRacks := upd st.seenRacks dc (sadd (st.seenRacks dc) ep.rack) }
    if (st1.seenRacks dc).length = tp.racksIn dc then drainSk tp rf dc st1 (st1.skipped dc) else st1

/-- `while (tokenIter.hasNext() && !hasSufficientReplicas(all))` -/
def walk (tp : Topo) (dcs : List Nat) (rf : Nat → Nat) : St → List Host → St
  | st, [] => st
  | st, ep :: rest =>
    if dcs.all (fun dc => sufficient tp rf st dc) then st else walk tp dcs rf (step tp dcs rf st ep) rest

/-- E5 NetworkTopologyStrategy.calculateNaturalEndpoints(t): `rfs` = the keyspace's datacenter → rf options. -/
def nts (ring : List Entry) (rfs : List (Nat × Nat)) (t : Int) : List Host :=
  (walk (topoOf ring) (rfs.map (·.1)) (rfOf rfs) init ((clockwise ring t).map (·.2))).replicas

/-! ### ByteOrderedPartitioner (E2): a token IS a byte string (the partition key); order = unsigned byte-wise
lexicographic, shorter prefix first.  In `system.local` / `system.peers` the token is reported as TEXT: its lowercase
hexadecimal rendering (`ByteOrderedPartitioner.tokenFactory.toString = Hex.bytesToHex`; the Java driver parses it back
with `Bytes.fromHexString`). -/

def hexDigit (n : Nat) : Nat := if n < 10 then 48 + n else 87 + n

/-- `Hex.bytesToHex`, as ASCII codes -/
def hexOf : List Nat → List Nat
  | [] => []
  | b :: bs => hexDigit (b / 16) :: hexDigit (b % 16) :: hexOf bs

/-- index of the owner of `key` on the ring (ascending by token): first token ≥ key, else 0 -/
def ownerIdxO {β : Type} (ring : List (List Nat × β)) (key : List Nat) : Nat :=
  let i := ring.findIdx (fun e => !lexLt e.1 key)
  if i < ring.length then i else 0

def ownerO {β : Type} (ring : List (List Nat × β)) (key : List Nat) : Option (List Nat × β) :=
  ring[ownerIdxO ring key]?

/-- the ring as the driver receives it: every token as the text Cassandra reports -/
def reported (ring : List OEntry) : List (Host × List (List Nat)) := ring.map (fun e => (e.2, [hexOf e.1]))

/-! ### keyspace replication options (what `system_schema.keyspaces.replication` / `strategy_options` mean) -/

/-- value of a decimal digit -/
def digit (c : Char) : Option Nat := if '0' ≤ c ∧ c ≤ '9' then some (c.toNat - 48) else none

/-- positional value of a digit string, most significant digit first: Σ dᵢ·10^(n-1-i) -/
def decimalAux : List Char → Option Nat
  | [] => some 0
  | c :: cs =>
    match digit c, decimalAux cs with
    | some d, some v => some (d * 10 ^ cs.length + v)
    | _, _ => none

/-- a decimal numeral: at least one digit -/
def decimal (s : List Char) : Option Nat := if s.isEmpty then none else decimalAux s

/-- the replication factor an option value denotes: a non-negative integer, or a string holding a decimal numeral with
an optional sign (`Integer.parseInt`; the driver accepts the range of a 64-bit int) whose value is not negative;
anything else (other types, nil = option absent, malformed text, transient-replication "3/1") denotes none. -/
def rfOfOpt : OptVal → Option Nat
  | .int v => if 0 ≤ v then some v.toNat else none
  | .str ('-' :: ds) => match decimal ds with
    | some 0 => some 0
    | _ => none
  | .str ('+' :: ds) => match decimal ds with
    | some n => if n < 2 ^ 63 then some n else none
    | none => none
  | .str ds => match decimal ds with
    | some n => if n < 2 ^ 63 then some n else none
    | none => none
  | .other => none

/-- the strategy classes Cassandra ships, with and without the package prefix -/
inductive ClassKind
  | simple | nts | local_
deriving DecidableEq

def classKind (cls : List Char) : Option ClassKind :=
  if cls = "org.apache.cassandra.locator.SimpleStrategy".toList ∨ cls = "SimpleStrategy".toList then some .simple
  else if cls = "org.apache.cassandra.locator.NetworkTopologyStrategy".toList ∨ cls = "NetworkTopologyStrategy".toList
    then some .nts
  else if cls = "org.apache.cassandra.locator.LocalStrategy".toList ∨ cls = "LocalStrategy".toList then some .local_
  else none

/-- what a keyspace's replication setting means, for the strategy classes Cassandra ships (nothing is specified for other
class names): SimpleStrategy — the number under `replication_factor`, no placement knowledge when it denotes none;
NetworkTopologyStrategy — every option other than `class` names a datacenter, mapped to the number its value denotes,
datacenters whose value denotes none are left out; LocalStrategy — no placement. -/
def strategy (cls : List Char) (opts : List (List Char × OptVal)) : Option Strategy :=
  match classKind cls with
  | none => none
  | some .local_ => some .none_
  | some .simple =>
    some (match (opts.lookup "replication_factor".toList).bind rfOfOpt with
      | some rf => .simple rf
      | none => .none_)
  | some .nts =>
    some (.nts ((opts.filter (fun kv => kv.1 ≠ "class".toList)).filterMap
      (fun kv => (rfOfOpt kv.2).map (fun rf => (kv.1, rf)))))

end Spec
end Placement
