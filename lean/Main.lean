import Driver.Util
import Driver.C01
import Driver.C02
import Driver.C03
import Driver.C04
import Driver.C05
import Driver.C06
import Driver.C07
import Driver.C08
import Driver.C09
import Driver.C10
import Driver.C11
import Driver.C12
import Driver.C13
import Driver.C14
import Driver.C15
import Driver.C16
import Driver.C17
import Driver.C18
import Driver.C19
import Driver.C20

def main (args : List String) : IO UInt32 := do
  let i ← IO.getStdin
  let o ← IO.getStdout
  match args with
  | ["C01"] => Util.loop Driver.C01.step i o Driver.C01.init; return 0
  | ["C02"] => Util.loop Driver.C02.step i o Driver.C02.init; return 0
  | ["C03"] => Util.loop Driver.C03.step i o Driver.C03.init; return 0
  | ["C04"] => Util.loop Driver.C04.step i o Driver.C04.init; return 0
  | ["C05"] => Util.loop Driver.C05.step i o Driver.C05.init; return 0
  | ["C06"] => Util.loop Driver.C06.step i o Driver.C06.init; return 0
  | ["C07"] => Util.loop Driver.C07.step i o Driver.C07.init; return 0
  | ["C08"] => Util.loop Driver.C08.step i o Driver.C08.init; return 0
  | ["C09"] => Util.loop Driver.C09.step i o Driver.C09.init; return 0
  | ["C10"] => Util.loop Driver.C10.step i o Driver.C10.init; return 0
  | ["C11"] => Util.loop Driver.C11.step i o Driver.C11.init; return 0
  | ["C12"] => Util.loop Driver.C12.step i o Driver.C12.init; return 0
  | ["C13"] => Util.loop Driver.C13.step i o Driver.C13.init; return 0
  | ["C14"] => Util.loop Driver.C14.step i o Driver.C14.init; return 0
  | ["C15"] => Util.loop Driver.C15.step i o Driver.C15.init; return 0
  | ["C16"] => Util.loop Driver.C16.step i o Driver.C16.init; return 0
  | ["C17"] => Util.loop Driver.C17.step i o Driver.C17.init; return 0
  | ["C18"] => Util.loop Driver.C18.step i o Driver.C18.init; return 0
  | ["C19"] => Util.loop Driver.C19.step i o Driver.C19.init; return 0
  | ["C20"] => Util.loop Driver.C20.step i o Driver.C20.init; return 0
  | _ => IO.eprintln "usage: vdrv <property>"; return 2
