import Driver.Util
import Driver.C09

def main (args : List String) : IO UInt32 := do
  let i ← IO.getStdin
  let o ← IO.getStdout
  match args with
  | ["C09"] => Util.loop Driver.C09.step i o (); return 0
  | _ => IO.eprintln "usage: vdrv <property>"; return 2
