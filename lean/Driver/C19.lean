import Model.Uuid
import Model.UuidDecode
import Model.UuidGen
import Model.UuidConc
import Model.UuidErr
import Driver.Util
namespace Driver.C19
open Util

/-- Go's `for _, r := range string` over raw bytes: ASCII bytes are always runes of their own (an invalid or
    multi-byte sequence never swallows a byte < 0x80); every other rune is ≥ 0x80, and `Uuid.parseLoop` rejects
    at the first such rune whatever it is (theorem `C19_parse_rejects_nonhex`), so one U+FFFD per byte ≥ 0x80
    is an exact stand-in. -/
def runes (bs : List UInt8) : List Char := Uuid.runes bs

def intArg (s : String) : Option Int := s.toInt?
def natArg (s : String) : Option Nat := s.toNat?

def optHex : Option (List UInt8) → String
  | some b => toHex b
  | none => "nil"


/-- `ok <hex>` / `err <hex>`: status and destination afterwards -/
def stat (r : Bool × List UInt8) : String := (if r.1 then "ok " else "err ") ++ toHex r.2

def optBytes (s : String) : Option (Option (List UInt8)) :=
  if s == "nil" || s == "null" then some none else (parseHex s).map some

/-- a CQL destination `<kind> <content>`: uuid/arr hex16, bytes nil|hex, str hex -/
def parseDst (kind content : String) : Option Uuid.Dst :=
  match kind with
  | "uuid" => (parseHex content).bind (fun b => if b.length = 16 then some (.uuid b) else none)
  | "arr" => (parseHex content).bind (fun b => if b.length = 16 then some (.arr b) else none)
  | "bytes" => (optBytes content).map .bytes
  | "str" => (parseHex content).map .str
  | _ => none

def showDst : Uuid.Dst → String
  | .uuid u => toHex u
  | .arr a => toHex a
  | .bytes none => "nil"
  | .bytes (some b) => toHex b
  | .str s => toHex s

/-- one step of a `useq` line: `t:<hex>` UnmarshalText, `j:<hex>` UnmarshalJSON, `c:<hex|null>` CQL uuid column -/
def parseStep (w : String) : Option Uuid.Step :=
  match w.splitOn ":" with
  | ["t", h] => (parseHex h).map .text
  | ["j", h] => (parseHex h).map .json
  | ["c", h] => (optBytes h).map (fun d => .cql (d.getD []))
  | _ => none

def parseSteps : List String → Option (List Uuid.Step)
  | [] => some []
  | w :: ws => do
    let s ← parseStep w
    let r ← parseSteps ws
    pure (s :: r)

def parseLits (s : String) : Option (List (List UInt8)) :=
  (s.splitOn ",").mapM parseHex

def quoted (bs : List UInt8) : List UInt8 := 34 :: bs ++ [34]

/-- a schedule word of the `sched` op: `n<g>` `i<g>` `c<g>` `w<d>` `r<k>:<g>:<d>` -/
def parseWord (w : String) : Option Uuid.Word :=
  let rest := (w.drop 1).toString
  match w.take 1 |>.toString with
  | "n" => rest.toNat?.map .now
  | "i" => rest.toNat?.map .inc
  | "c" => rest.toNat?.map .call
  | "w" => rest.toNat?.map .adv
  | "r" => match rest.splitOn ":" with
    | [k, g, d] => do
      let k ← k.toNat?
      let g ← g.toNat?
      let d ← d.toNat?
      pure (.rep k g d)
    | _ => none
  | _ => none

/-- an error value on the wire: `ok` | `<E|M|U>:<hex of the text>` | `<E|M|U>:nonascii` -/
def showErr : Option Uuid.Err → String
  | none => "ok"
  | some e =>
    (match e.kind with | .plain => "E:" | .marshal => "M:" | .unmarshal => "U:") ++
    (match e.text with | some t => toHex t | none => "nonascii")

/-- the `genrun` / `genrunx` answer -/
def genrunAns (c hw s ns n ev st : String) : String :=
      match natArg c, parseHex hw, intArg s, natArg ns, natArg n, natArg ev, natArg st with
      | some c, some hw, some s, some ns, some n, some ev, some st =>
        let us := Uuid.genRun hw c (Uuid.steppedReadings s ns ev st n)
        let verdict := match Uuid.firstDup us with
          | some (i, j) => s!"dup:{i},{j}"
          | none => "distinct"
        s!"{verdict} first={toHex (us.headD [])} last={toHex (us.getLastD [])} ctr={Uuid.genCtr c n}"
      | _, _, _, _, _, _, _ => "bad-op"

/-- ops:
  parse <hex of the string bytes>      → hex uuid | err
  print <hex16>                        → canonical string
  roundtrip <hex16>                    → hex of parse (print u) | err
  fields <hex16>                       → version variant timestamp clock node time
  with <t int64> <clock uint32> <node> → hex uuid
  minmax <sec> <nsec>                  → min max
  gen <clockSeq> <hw> <sec> <nsec>     → uuid newClockSeq
  rand <hex16>                         → stamped uuid
  conc <goroutines> <each>             → distinct (theorem C19_unique_partial, total ≤ 16384)
  burst <c0> <g> <n> <chunk> <hw>      → ok ctr=<counter afterwards>: g goroutines x n calls of TimeUUID() from counter c0, the
                                         harness reading the wall clock around every chunk of calls: every result is a v1 / RFC 4122
                                         UUID of node hw whose timestamp is the 100 ns tick of a reading inside its interval
                                         (C19_timeuuid_sandwich), the clock fields are those of c0+1 … c0+g*n (C19_genrun_clock_fields),
                                         the counter ends at c0+g*n (C19_genrun_counter); under these facts a repeated result is exactly
                                         the excluded condition of KF-C19-1 (C19_timeuuid_dup_iff)
  genrun <c0> <hw> <sec> <nsec> <n> <every> <stepns>
                                       → distinct|dup:<i>,<j> first=<uuid> last=<uuid> ctr=<counter>: n calls of UUIDFromTime under a
                                         controlled clock that moves on by stepns ns every `every` calls (C19_genrun_distinct:
                                         every ≤ 16384 and stepns ≥ 100 ⇒ distinct); genrunx = the same outside that hypothesis
  utext <prev16> <text>                → ok|err <destination afterwards>   (UnmarshalText on a destination holding prev)
  ujson <prev16> <data>                → ok|err <destination afterwards>   (UnmarshalJSON called directly)
  jsonu <kind> <prev16> <doc> <lit>    → json.Unmarshal of doc into a destination holding prev; lit = the literal
                                         encoding/json hands to UnmarshalJSON (hex,hex…) | invalid | nocall | realloc
  ucql <col> <kind> <prev> <data|null> → ok|err <destination afterwards>   (gocql.Unmarshal, uuid/timeuuid column)
  ucqlt <col> <sec> <nsec> <data|null> → ok|err <sec.nsec afterwards>     (gocql.Unmarshal into a *time.Time)
  mcql <kind> <content>                → ok <16 bytes> | err               (gocql.Marshal of a uuid column value)
  ucqln <col> <kind> <prev|nilptr> <data|null|-> → ok|err nilptr|<content of the NEW pointee>  (gocql.Unmarshal into a **T)
  ucqlnt <col> <prev|nilptr> <data|null> → ok|err nilptr|<sec.nsec>          (gocql.Unmarshal into a **time.Time)
  casscmp <hex16> <hex16>              → le|gt ge|lt: Spec.cassLe both ways, against a transliteration of Cassandra's TimeUUIDType.compareCustom
                                         (long arithmetic: reorderTimestampBytes, signedBytesToNativeLong) in the harness — validates the SPEC, no gocql code
  genord <sa> <na> <sb> <nb>           → lt|gt|same-tick bounds=ok: UUIDFromTime(a) vs UUIDFromTime(b) under Cassandra's order (random counter and
                                         nodes, chosen by the harness), and each within Min/MaxTimeUUID of its instant (C19_generated_cass_order)
  randn <hex, any length>              → ok <uuid> v=4 var=2 must=ok | err <16 bytes, partly filled> must=panic   (RandomUUID / MustRandomUUID
                                         when rand.Reader can deliver only these bytes)
  mcqlx <unset|nilval|int|…>           → ok null | err                      (gocql.Marshal of the remaining value kinds)
  etext <text> / ejson <data> / emcql <col> <kind> <content> / eucql <col> <kind> <data|null> / eucqlt <col> <data|null>
                                       → ok | <E|M|U>:<hex of err.Error()> | <E|M|U>:nonascii   (Go error type: other / MarshalError / UnmarshalError)
  ucqlum <col> <direct|nullable> <data|null|-> → ok called <col> <data> | ok nilptr    (gocql.Unmarshal into a user Unmarshaler / a **Unmarshaler)
  mcqlm <col> <value|ptr|nilptr> <data|null|-> → ok <data>                         (gocql.Marshal of a user Marshaler returning these bytes)
  mcqlp <hex16|nil>                    → ok null|<16 bytes>                (gocql.Marshal of a *UUID)
  useq <prev16> <step>...              → ok:<dst>|err:<dst> per step, all on ONE destination
  rtdirty <prev16> <u16>               → u (every printer → every decoder, destination holding prev)
  sched <c0> <hw> <sec> <nsec> <word>… → distinct|dup:<i>,<j> n=<returned> ctr=<counter> inflight=<k> mon=ok|BROKEN h=<hash of all results> [g:uuid …]
                                         (mon: timestamps inside [tick start, tick end] and non-decreasing per goroutine, C19_conc_goroutine_timestamps_monotone)
                                         a SCHEDULE of the two steps of TimeUUID() per goroutine (n<g> reading, i<g> increment, c<g> both,
                                         w<d> wall clock +d ns, r<k>:<g>:<d> = k times w<d> c<g>) run through Model/UuidConc;
                                         ≤ 16384 returns ⇒ distinct for every interleaving (C19_conc_unique_upto_16384); schedx = longer
  range <sa> <na> <sb> <nb> <hex16>    → incl=in|out excl=in|out: is the v1 RFC 4122 UUID selected by
                                         [MinTimeUUID(a), MaxTimeUUID(b)] / by (MaxTimeUUID(a), MinTimeUUID(b)) under Cassandra's order
                                         (C19_range_inclusive / C19_range_exclusive: exactly tick a ≤ ts ≤ tick b / tick a < ts < tick b)
  tsround / timeround / bound / randchk / parsechk: property oracles, see below -/
def step (_ : Unit) (ws : List String) : Unit × String :=
  ((), match ws with
  | ["parse", h] => match parseHex h with
      | some bs => match Uuid.parse (runes bs) with
        | some u => toHex u
        | none => "err"
      | none => "bad-op"
  | ["print", h] => match parseHex h with
      | some u => String.ofList (Uuid.print u)
      | none => "bad-op"
  | ["roundtrip", h] => match parseHex h with
      | some u => match Uuid.parse (Uuid.print u) with
        | some v => toHex v
        | none => "err"
      | none => "bad-op"
  | ["fields", h] => match parseHex h with
      | some u =>
        let tm := match Uuid.time u with
          | some (s, n) => s!"{s}.{n}"
          | none => "zero"
        s!"v={Uuid.version u} var={Uuid.variant u} ts={Uuid.timestamp u} clock={Uuid.clock u} node={optHex (Uuid.node u)} time={tm}"
      | none => "bad-op"
  | ["with", t, c, n] => match intArg t, natArg c, parseHex n with
      | some t, some c, some n => toHex (Uuid.timeUUIDWith (Uuid.bits64 t) c n)
      | _, _, _ => "bad-op"
  | ["minmax", s, n] => match intArg s, natArg n with
      | some s, some n => toHex (Uuid.minTimeUUID s n) ++ " " ++ toHex (Uuid.maxTimeUUID s n)
      | _, _ => "bad-op"
  | ["gen", c, hw, s, n] => match natArg c, parseHex hw, intArg s, natArg n with
      | some c, some hw, some s, some n =>
        let r := Uuid.uuidFromTime c hw s n
        toHex r.1 ++ " " ++ toString r.2
      | _, _, _, _ => "bad-op"
  | ["rand", h] => match parseHex h with
      | some u => toHex (Uuid.stampV4 u)
      | none => "bad-op"
  -- property-oracle ops (spec-backed: the model's answer is fixed by a theorem of Proofs/C19.lean)
  | ["tsround", t, c, n] => match natArg t, natArg c, parseHex n with   -- C19_time_roundtrip (t < 2^60)
      | some t, some c, some n =>
        let u := Uuid.timeUUIDWith t c n
        s!"ts={Uuid.timestamp u} v={Uuid.version u} var={Uuid.variant u} clock={Uuid.clock u} node={optHex (Uuid.node u)}"
      | _, _, _ => "bad-op"
  | ["timeround", s, n] => match intArg s, natArg n with               -- C19_time_exact (representable instants)
      | some s, some n =>
        let f := fun (u : List UInt8) => match Uuid.time u with
          | some (a, b) => s!"{a}.{b}"
          | none => "zero"
        f (Uuid.minTimeUUID s n) ++ " " ++ f (Uuid.maxTimeUUID s n)
      | _, _ => "bad-op"
  | ["bound", s, n, h] => match intArg s, natArg n, parseHex h with     -- C19_min_max_bound_time
      | some s, some n, some u =>
        if Uuid.Spec.cassLe (Uuid.minTimeUUID s n) u && Uuid.Spec.cassLe u (Uuid.maxTimeUUID s n) then "bounded" else "NOT-BOUNDED"
      | _, _, _ => "bad-op"
  | ["range", sa, na, sb, nb, h] => match intArg sa, natArg na, intArg sb, natArg nb, parseHex h with
      -- C19_range_inclusive / C19_range_exclusive (the specification side: ticks and the timestamp field only)
      | some sa, some na, some sb, some nb, some u =>
        let ta := Uuid.tick (sa, na)
        let tb := Uuid.tick (sb, nb)
        let ts := Uuid.timestamp u
        let io := fun (b : Bool) => if b then "in" else "out"
        s!"incl={io (decide (ta ≤ ts) && decide (ts ≤ tb))} excl={io (decide (ta < ts) && decide (ts < tb))}"
      | _, _, _, _, _ => "bad-op"
  | ["casscmp", a, b] => match parseHex a, parseHex b with   -- Spec.cassLe against the harness's transliteration of compareCustom
      | some u, some v => (if Uuid.Spec.cassLe u v then "le" else "gt") ++ (if Uuid.Spec.cassLe v u then " ge" else " lt")
      | _, _ => "bad-op"
  | ["genord", sa, na, sb, nb] => match intArg sa, natArg na, intArg sb, natArg nb with   -- C19_generated_cass_order
      | some sa, some na, some sb, some nb =>
        let ta := Uuid.tick (sa, na)
        let tb := Uuid.tick (sb, nb)
        (if ta < tb then "lt" else if tb < ta then "gt" else "same-tick") ++ " bounds=ok"
      | _, _, _, _ => "bad-op"
  | ["randn", h] => match parseHex h with                               -- C19_random_total
      | some bs =>
        let r := Uuid.randomUUID bs
        if r.1 then s!"ok {toHex r.2} v={Uuid.version r.2} var={Uuid.variant r.2} must=ok" else s!"err {toHex r.2} must=panic"
      | none => "bad-op"
  | ["mcqlx", k] =>   -- marshalUUID: UnsetValue and a nil interface are a null column, any other Go type an error
      if k == "unset" || k == "nilval" then "ok null"
      else if k == "int" || k == "float" || k == "bool" || k == "time" || k == "arr15" || k == "uuidslice" then "err"
      else "bad-op"
  | ["randchk", h] => match parseHex h with                             -- C19_random_v4
      | some u => s!"v={Uuid.version (Uuid.stampV4 u)} var={Uuid.variant (Uuid.stampV4 u)}"
      | none => "bad-op"
  | ["parsechk", h] => match parseHex h with                            -- C19_parse_rejects / C19_parse_exact
      | some bs => match Uuid.parse (runes bs) with
        | some u => if (runes bs).all (fun c => c = '-' || Uuid.Spec.isHex c) && (Uuid.Spec.digitsOf (runes bs)).length = 32
                       && u = Uuid.pack (Uuid.digitVals (runes bs)) then "ok" else "ACCEPTED-OUTSIDE-LANGUAGE"
        | none => "ok"
      | none => "bad-op"
  -- destination-state ops (spec-backed: C19_unmarshal_text_spec / _json_spec / C19_cql_unmarshal_spec /
  -- C19_decode_independent_of_destination / C19_decode_seq_last_wins / C19_roundtrip_dirty)
  | ["utext", p, t] => match parseHex p, parseHex t with
      | some p, some t => if p.length = 16 then stat (Uuid.unmarshalText p t) else "bad-op"
      | _, _ => "bad-op"
  | ["ujson", p, d] => match parseHex p, parseHex d with
      | some p, some d => if p.length = 16 then stat (Uuid.unmarshalJSON p d) else "bad-op"
      | _, _ => "bad-op"
  | ["jsonu", _, p, _, lit] => match parseHex p with
      | some p => if p.length ≠ 16 then "bad-op"
        else if lit == "invalid" then "err " ++ toHex p
        else if lit == "nocall" then "nocall " ++ toHex p
        else if lit == "realloc" then "reallocated"
        else match parseLits lit with
          | some ls => stat (Uuid.jsonCalls p ls)
          | none => "bad-op"
      | none => "bad-op"
  | ["ucql", _, kind, p, d] => match parseDst kind p, optBytes d with
      | some dst, some d =>
        let r := Uuid.unmarshalCQL (d.getD []) dst
        (if r.1 then "ok " else "err ") ++ showDst r.2
      | _, _ => "bad-op"
  | ["ucqlt", col, ps, pn, d] => match intArg ps, natArg pn, optBytes d with   -- C19_cql_time_destination
      | some ps, some pn, some d =>
        let r := Uuid.unmarshalCQLTime (col == "timeuuid") (d.getD []) (ps, pn)
        (if r.1 then "ok " else "err ") ++ s!"{r.2.1}.{r.2.2}"
      | _, _, _ => "bad-op"
  | ["ucqln", _, kind, _, d] =>                                                   -- C19_cql_nullable_spec
      -- the previous pointer / pointee (4th word) is irrelevant: a null gives nil, anything else a fresh value
      match parseDst kind (if kind == "bytes" then "nil" else if kind == "str" then "-" else "00000000000000000000000000000000"),
            optBytes d with
      | some k, some d =>
        let r := Uuid.unmarshalNullable d k
        (if r.1 then "ok " else "err ") ++ (match r.2 with | none => "nilptr" | some v => showDst v)
      | _, _ => "bad-op"
  | ["ucqlnt", col, _, d] => match optBytes d with                                -- C19_cql_nullable_time
      | some d =>
        let r := Uuid.unmarshalNullableTime (col == "timeuuid") d
        (if r.1 then "ok " else "err ") ++ (match r.2 with | none => "nilptr" | some t => s!"{t.1}.{t.2}")
      | none => "bad-op"
  -- error values (Model/UuidErr.lean; C19_error_iff_failure)
  | ["etext", t] => match parseHex t with
      | some t => showErr (Uuid.textErr t)
      | none => "bad-op"
  | ["ejson", d] => match parseHex d with
      | some d => showErr (Uuid.jsonErr d)
      | none => "bad-op"
  | ["emcql", col, kind, c] => match (if kind == "bytes" then (optBytes c).map Uuid.Dst.bytes else parseDst kind c) with
      | some v => showErr (Uuid.marshalErr (col == "timeuuid") v)
      | none => "bad-op"
  | ["eucql", col, kind, d] =>
      match parseDst kind (if kind == "bytes" then "nil" else if kind == "str" then "-" else "00000000000000000000000000000000"),
            optBytes d with
      | some k, some d => showErr (Uuid.unmarshalErr (col == "timeuuid") (d.getD []) k)
      | _, _ => "bad-op"
  | ["eucqlt", col, d] => match optBytes d with
      | some d => showErr (Uuid.unmarshalTimeErr (col == "timeuuid") (d.getD []))
      | none => "bad-op"
  -- user types: an Unmarshaler destination gets (column type, column value) verbatim — also through a nullable **T, where a
  -- null never reaches it (nil pointer); a Marshaler value's bytes are the column value, unvalidated; a nil pointer is null
  | ["ucqlum", col, ptr, d] => match optBytes d with
      | some d =>
        let shown := match d with | none => "null" | some b => toHex b
        if ptr == "direct" then s!"ok called {col} {shown}"
        else if ptr == "nullable" then (match d with | none => "ok nilptr" | some _ => s!"ok called {col} {shown}")
        else "bad-op"
      | none => "bad-op"
  | ["mcqlm", _, ptr, d] => match optBytes d with
      | some d =>
        let shown := match d with | none => "null" | some b => toHex b
        if ptr == "value" || ptr == "ptr" then s!"ok {shown}" else if ptr == "nilptr" then "ok null" else "bad-op"
      | none => "bad-op"
  | ["mcqlp", c] => match optBytes c with                                         -- C19_cql_nullable_roundtrip
      | some u => match Uuid.marshalPtr u with
        | some none => "ok null"
        | some (some b) => "ok " ++ toHex b
        | none => "err"
      | none => "bad-op"
  | ["mcql", kind, c] => match (if kind == "bytes" then (optBytes c).map Uuid.Dst.bytes else parseDst kind c) with
      | some v => match Uuid.marshalCQL v with                                    -- C19_cql_marshal_unmarshal
        | some b => "ok " ++ toHex b
        | none => "err"
      | none => "bad-op"
  | "useq" :: p :: steps => match parseHex p, parseSteps steps with
      | some p, some ss => if p.length = 16 then
          " ".intercalate ((Uuid.runSeq p ss).map (fun r => (if r.1 then "ok:" else "err:") ++ toHex r.2))
        else "bad-op"
      | _, _ => "bad-op"
  | ["rtdirty", p, h] => match parseHex p, parseHex h with
      | some p, some u => if p.length = 16 ∧ u.length = 16 then
          let txt := Uuid.asciiBytes (Uuid.print u)
          let strOf := match Uuid.unmarshalCQL u (.str p) with
            | (_, .str s) => s
            | _ => []
          if Uuid.unmarshalText p txt = (true, u) && Uuid.unmarshalJSON p (quoted txt) = (true, u)
             && Uuid.unmarshalJSON p txt = (true, u) && Uuid.marshalCQL (.str strOf) = some u then toHex u
          else "MISMATCH"
        else "bad-op"
      | _, _ => "bad-op"
  | ["burst", c, g, n, _, _] => match natArg c, natArg g, natArg n with
      | some c, some g, some n => s!"ok ctr={Uuid.genCtr c (g * n)}"
      | _, _, _ => "bad-op"
  | ["genrun", c, hw, s, ns, n, ev, st] => genrunAns c hw s ns n ev st
  | ["genrunx", c, hw, s, ns, n, ev, st] => genrunAns c hw s ns n ev st
  | op :: c :: hw :: sec :: ns :: words =>
      -- sched: at most 16384 calls return ⇒ distinct (C19_conc_unique_upto_16384); schedx: longer schedules
      -- (C19_conc_dup_iff / C19_conc_dup_descheduled say which repeat), model vs code
      if op != "sched" && op != "schedx" then "bad-op" else
      match natArg c, parseHex hw, intArg sec, natArg ns, words.mapM parseWord with
      | some c, some hw, some sec, some ns, some ws =>
        let s := Uuid.concRunFast hw (Uuid.concInit c (sec, ns)) (Uuid.expandWords sec ns ws 0)
        let us := s.out.map (·.uuid)
        let verdict := match Uuid.firstDup us with
          | some (i, j) => s!"dup:{i},{j}"
          | none => "distinct"
        let listing := if s.out.length ≤ 24 then
            String.join (s.out.map fun r => s!" {r.g}:{toHex r.uuid}") else ""
        let mon := if Uuid.monitorsOk (sec, ns) s.wall s.out then "ok" else "BROKEN"
        s!"{verdict} n={s.out.length} ctr={s.clockSeq} inflight={s.held.length} mon={mon} h={Uuid.foldHash us}{listing}"
      | _, _, _, _, _ => "bad-op"
  | ["conc", g, n] => match natArg g, natArg n with
      | some g, some n => if g * n ≤ 16384 then "distinct" else "unconstrained"
      | _, _ => "bad-op"
  | _ => "bad-op")

def init : Unit := ()
end Driver.C19
