import Model.Uuid
import Driver.Util
namespace Driver.C19
open Util

/-- Go's `for _, r := range string` over raw bytes: ASCII bytes are always runes of their own (an invalid or
    multi-byte sequence never swallows a byte < 0x80); every other rune is ≥ 0x80, and `Uuid.parseLoop` rejects
    at the first such rune whatever it is (theorem `C19_parse_rejects_nonhex`), so one U+FFFD per byte ≥ 0x80
    is an exact stand-in. -/
def runes (bs : List UInt8) : List Char :=
  bs.map (fun b => if b.toNat < 128 then Char.ofNat b.toNat else Char.ofNat 0xFFFD)

def intArg (s : String) : Option Int := s.toInt?
def natArg (s : String) : Option Nat := s.toNat?

def optHex : Option (List UInt8) → String
  | some b => toHex b
  | none => "nil"

/-- ops:
  parse <hex of the string bytes>      → hex uuid | err
  print <hex16>                        → canonical string
  roundtrip <hex16>                    → hex of parse (print u) | err
  fields <hex16>                       → version variant timestamp clock node time
  with <t int64> <clock uint32> <node> → hex uuid
  minmax <sec> <nsec>                  → min max
  gen <clockSeq> <hw> <sec> <nsec>     → uuid newClockSeq
  rand <hex16>                         → stamped uuid
  conc <goroutines> <each>             → distinct (theorem C19_unique_partial, total ≤ 16384) -/
def step (_ : Unit) (ws : List String) : Unit × String :=
  ((), match ws with
  | ["parse", h] => match parseHex h with
      | some bs => match Uuid.parse (runes bs) with
        | some u => toHex u
        | none => "err"
      | none => "bad-op"
  | ["print", h] => match parseHex h with
      | some u => String.ofList (Uuid.print u)
      | none => "bad-op"
  | ["roundtrip", h] => match parseHex h with
      | some u => match Uuid.parse (Uuid.print u) with
        | some v => toHex v
        | none => "err"
      | none => "bad-op"
  | ["fields", h] => match parseHex h with
      | some u =>
        let tm := match Uuid.time u with
          | some (s, n) => s!"{s}.{n}"
          | none => "zero"
        s!"v={Uuid.version u} var={Uuid.variant u} ts={Uuid.timestamp u} clock={Uuid.clock u} node={optHex (Uuid.node u)} time={tm}"
      | none => "bad-op"
  | ["with", t, c, n] => match intArg t, natArg c, parseHex n with
      | some t, some c, some n => toHex (Uuid.timeUUIDWith (Uuid.bits64 t) c n)
      | _, _, _ => "bad-op"
  | ["minmax", s, n] => match intArg s, natArg n with
      | some s, some n => toHex (Uuid.minTimeUUID s n) ++ " " ++ toHex (Uuid.maxTimeUUID s n)
      | _, _ => "bad-op"
  | ["gen", c, hw, s, n] => match natArg c, parseHex hw, intArg s, natArg n with
      | some c, some hw, some s, some n =>
        let r := Uuid.uuidFromTime c hw s n
        toHex r.1 ++ " " ++ toString r.2
      | _, _, _, _ => "bad-op"
  | ["rand", h] => match parseHex h with
      | some u => toHex (Uuid.stampV4 u)
      | none => "bad-op"
  | ["conc", g, n] => match natArg g, natArg n with
      | some g, some n => if g * n ≤ 16384 then "distinct" else "unconstrained"
      | _, _ => "bad-op"
  | _ => "bad-op")

def init : Unit := ()
end Driver.C19
