import Model.Compress
import Driver.Util
namespace Driver.C18
open Util Compress

/-! byte-string arguments: `-` (empty) | hex | `rep:<hexpattern>:<n>` | `mix:<seed>:<n>`
    (the last two are expanded identically by the Go harness; they keep megabyte bodies off the op line) -/

def hexRev : List Char → List UInt8 → Option (List UInt8)
  | [], acc => some acc
  | [_], _ => none
  | a :: b :: r, acc =>
    match hexVal a, hexVal b with
    | some x, some y => hexRev r (UInt8.ofNat (x * 16 + y) :: acc)
    | _, _ => none

def parseHexBig (s : String) : Option (List UInt8) :=
  if s == "-" then some [] else (hexRev s.toList []).map List.reverse

def repBytes (pat : Array UInt8) : Nat → List UInt8 → List UInt8
  | 0, acc => acc
  | i + 1, acc => repBytes pat i (pat[i % pat.size]! :: acc)

def mixByte (seed : UInt64) (i : Nat) : UInt8 :=
  let z : UInt64 := (seed + UInt64.ofNat i) * 0x9E3779B97F4A7C15
  let z := z ^^^ (z >>> 32)
  let z := z * 0xBF58476D1CE4E5B9
  let z := z ^^^ (z >>> 29)
  z.toUInt8

def mixBytes (seed : UInt64) : Nat → List UInt8 → List UInt8
  | 0, acc => acc
  | i + 1, acc => mixBytes seed i (mixByte seed i :: acc)

def parseBytes (s : String) : Option (List UInt8) :=
  match s.splitOn ":" with
  | ["rep", p, n] =>
    match parseHexBig p, n.toNat? with
    | some pat, some k => if pat.isEmpty then none else some (repBytes pat.toArray k [])
    | _, _ => none
  | ["mix", sd, n] =>
    match sd.toNat?, n.toNat? with
    | some sd, some k => some (mixBytes (UInt64.ofNat sd) k [])
    | _, _ => none
  | [h] => parseHexBig h
  | _ => none

def fnv (bs : List UInt8) : UInt64 :=
  bs.foldl (fun h b => (h ^^^ b.toUInt64) * 0x100000001b3) 0xcbf29ce484222325

def hex64 (x : UInt64) : String :=
  String.ofList ((List.range 16).map fun i => hexDigit ((x >>> UInt64.ofNat (60 - 4 * i)).toNat % 16))

/-- canonical rendering of a byte string: hex up to 256 bytes, length + FNV-1a-64 above -/
def canon (bs : List UInt8) : String :=
  if bs.length ≤ 256 then toHex bs else s!"len={bs.length},fnv={hex64 (fnv bs)}"

/-- `ok:<bytes>` | `err` | `none` -/
def parseRes (s : String) : Option (Option (Except Unit (List UInt8))) :=
  if s == "none" then some none
  else if s == "err" then some (some (.error ()))
  else if s.startsWith "ok:" then (parseBytes (s.drop 3).toString).map fun b => some (.ok b)
  else none

def errName : Err → String
  | .tooBig => "err:tooBig" | .codec => "err:codec" | .noCompressor => "err:noCompressor"
  | .shortRead => "err:shortRead" | .negLength => "err:negLength" | .badVersion => "err:badVersion"
  | .panic => "crash:compress flag set with no compressor"

def parseReq : String → Option Req
  | "startup" => some .startup | "options" => some .options | "query" => some .query
  | "prepare" => some .prepare | "execute" => some .execute | "batch" => some .batch
  | "register" => some .register | "auth" => some .authResponse | _ => none

/-- a codec given by one input/output pair each way; any other use answers an error (and shows up
    as a disagreement with the real code) -/
def tableCodec (encIn : List UInt8) (encOut : Option (Except Unit (List UInt8)))
    (decIn : List UInt8) (decOut : Option (Except Unit (List UInt8))) : Codec :=
  { enc := fun x => match encOut with
      | some r => if x == encIn then r else .error ()
      | none => .error (),
    dec := fun y => match decOut with
      | some r => if y == decIn then r else .error ()
      | none => .error () }

def mkFramer (comp : String) (version extra : Nat) (c : Codec) : Framer :=
  let f := newFramer (if comp == "none" then none else some c) (UInt8.ofNat version)
  { f with flags := f.flags ||| UInt8.ofNat extra }

def showBuild : Except Err (List UInt8) → String
  | .ok w => "ok:" ++ canon w
  | .error e => errName e

def parseInt (s : String) : Option Int := s.toInt?

def parseSupported (s : String) : List (String × List String) :=
  if s == "-" then [] else
  (s.splitOn ";").map fun kv =>
    match kv.splitOn "=" with
    | [k, v] => (k, if v == "" then [] else v.splitOn ",")
    | [k] => (k, [])
    | _ => (kv, [])

def step (_ : Unit) (ws : List String) : Unit × String :=
  ((), match ws with
  | ["req", kind, comp, ver, extra, stream, body, encres, _, _] =>
    match parseReq kind, ver.toNat?, extra.toNat?, parseInt stream, parseBytes body, parseRes encres with
    | some r, some v, some x, some s, some b, some er =>
      let f := mkFramer comp v x (tableCodec b er [] none)
      showBuild (f.buildReq r s b)
    | _, _, _, _, _, _ => "bad-op"
  | ["raw", comp, ver, extra, hflags, op, stream, body, encres] =>
    match ver.toNat?, extra.toNat?, hflags.toNat?, op.toNat?, parseInt stream, parseBytes body, parseRes encres with
    | some v, some x, some hf, some o, some s, some b, some er =>
      let f := mkFramer comp v x (tableCodec b er [] none)
      showBuild (f.build (UInt8.ofNat hf) (UInt8.ofNat o) s b)
    | _, _, _, _, _, _, _ => "bad-op"
  | ["rt", kind, comp, ver, extra, stream, body, encres, _, _] =>
    match parseReq kind, ver.toNat?, extra.toNat?, parseInt stream, parseBytes body, parseRes encres with
    | some r, some v, some x, some s, some b, some er =>
      let z := match er with | some (.ok z) => z | _ => []
      let f := mkFramer comp v x (tableCodec b er z (some (.ok b)))
      match f.buildReq r s b with
      | .error e => errName e
      | .ok w =>
        match f.decode w with
        | .error e => "read-" ++ errName e
        | .ok (h, b') => s!"ok flag={(h.flags &&& 1).toNat} len={h.length} same={b' == b} body={canon b'}"
    | _, _, _, _, _, _ => "bad-op"
  | ["read", comp, ver, wire, decin, decres] =>
    match ver.toNat?, parseBytes wire, parseBytes decin, parseRes decres with
    | some v, some w, some di, some dr =>
      let f := mkFramer comp v 0 (tableCodec [] none di dr)
      match f.decode w with
      | .error e => errName e
      | .ok (h, b) => s!"ok:flags={h.flags.toNat},stream={h.stream},op={h.op.toNat},len={h.length},body={canon b}"
    | _, _, _, _ => "bad-op"
  | ["lz4enc", body, blockres] =>
    match parseBytes body, parseRes blockres with
    | some b, some (some br) =>
      let bc : BlockCodec := { encB := fun x => if x == b then br else .error (), decB := fun _ _ => .error () }
      match lz4Encode bc b with
      | .ok y => "ok:" ++ canon y
      | .error _ => "err"
    | _, _ => "bad-op"
  | ["lz4dec", data, blockres] =>
    match parseBytes data, parseRes blockres with
    | some d, some br =>
      let bc : BlockCodec := { encB := fun _ => .error (),
                               decB := fun src n => match br with
                                 | some r => if src == d.drop 4 && n == lz4Prefix d then r else .ok [0xde, 0xad]
                                 | none => .ok [0xde, 0xad] }
      match lz4Decode bc d with
      | .ok y => "ok:" ++ canon y
      | .error _ => "err"
    | _, _ => "bad-op"
  | ["hyp", _, _] => "roundtrip"
  | ["nego", name, sup] =>
    let idc : Codec := { enc := fun x => .ok x, dec := fun x => .ok x }
    let c : Option Named := if name == "-" then none else some { name := name, codec := idc }
    let supported := parseSupported sup
    let n := negotiate (c.map (·.name)) supported
    let cc := connCompressor c supported
    let f := newFramer (cc.map (·.codec)) 4
    let qflag := match f.buildReq .register 1 [] with
      | .ok w => (w.getD 1 0 &&& 1).toNat
      | .error _ => 9
    let cresp := match f.readFrame { version := 0x84, flags := 1, stream := 1, op := 2, length := 0 } [] with
      | .ok _ => "ok"
      | .error e => errName e
    s!"kept={cc.isSome} startup={n.startupOpt.getD "-"} qflag={qflag} cresp={cresp} alive=true"
  | _ => "bad-op")

def init : Unit := ()
end Driver.C18
