import Model.Compress
import Model.CompressHeap
import Model.CompressRecv
import Model.CompressSnappy
import Model.CompressSend
import Model.CompressLz4Block
import Driver.Util
namespace Driver.C18
open Util Compress

/-! byte-string arguments: `-` (empty) | hex | `rep:<hexpattern>:<n>` | `mix:<seed>:<n>`
    (the last two are expanded identically by the Go harness; they keep megabyte bodies off the op line) -/

def hexRev : List Char → List UInt8 → Option (List UInt8)
  | [], acc => some acc
  | [_], _ => none
  | a :: b :: r, acc =>
    match hexVal a, hexVal b with
    | some x, some y => hexRev r (UInt8.ofNat (x * 16 + y) :: acc)
    | _, _ => none

def parseHexBig (s : String) : Option (List UInt8) :=
  if s == "-" then some [] else (hexRev s.toList []).map List.reverse

def repBytes (pat : Array UInt8) : Nat → List UInt8 → List UInt8
  | 0, acc => acc
  | i + 1, acc => repBytes pat i (pat[i % pat.size]! :: acc)

def mixByte (seed : UInt64) (i : Nat) : UInt8 :=
  let z : UInt64 := (seed + UInt64.ofNat i) * 0x9E3779B97F4A7C15
  let z := z ^^^ (z >>> 32)
  let z := z * 0xBF58476D1CE4E5B9
  let z := z ^^^ (z >>> 29)
  z.toUInt8

def mixBytes (seed : UInt64) : Nat → List UInt8 → List UInt8
  | 0, acc => acc
  | i + 1, acc => mixBytes seed i (mixByte seed i :: acc)

/-! body SHAPES: `cat:<seg>,<seg>,…` — a concatenation of segments, each expanded against what has
    been produced so far (so a segment can be a copy of an EARLIER window):
      `h<hex>` literal · `z<n>` zero run · `r<seed>.<n>` pseudo-random run · `p<hex>.<n>` short-period
      repetition · `c<d>.<n>` copy from distance d (byte i = out[i-d], overlapping like an LZ77 match;
      0 when there is nothing d bytes back) · `t<seed>.<n>` text-like (words of a small vocabulary)
    `emb:<segs>:<hex0>:<hex1>:…:<hexk>` — hex0 ‖ B ‖ hex1 ‖ B … ‖ hexk with B = the expansion of
    `cat:<segs>` (a shaped value embedded in a request body built by the real builders). -/

def pushZeros : Nat → Array UInt8 → Array UInt8
  | 0, acc => acc
  | k + 1, acc => pushZeros k (acc.push 0)

def pushMix (seed : UInt64) : Nat → Nat → Array UInt8 → Array UInt8
  | 0, _, acc => acc
  | k + 1, i, acc => pushMix seed k (i + 1) (acc.push (mixByte seed i))

def pushRep (pat : Array UInt8) : Nat → Nat → Array UInt8 → Array UInt8
  | 0, _, acc => acc
  | k + 1, i, acc => pushRep pat k (i + 1) (acc.push pat[i % pat.size]!)

def pushCopy (d : Nat) : Nat → Array UInt8 → Array UInt8
  | 0, acc => acc
  | k + 1, acc => pushCopy d k (acc.push (if 1 ≤ d ∧ d ≤ acc.size then acc[acc.size - d]! else 0))

def vocab : Array (List UInt8) :=
  #["SELECT ".toUTF8.toList, "FROM ".toUTF8.toList, "system.local ".toUTF8.toList, "WHERE ".toUTF8.toList,
    "key=? ".toUTF8.toList, "AND ".toUTF8.toList, [0, 0, 0, 4]]

/-- words `vocab[mixByte seed k % 7]`, k = 0, 1, …, until `stop` bytes are there (fuel = bytes needed) -/
def pushText (seed : UInt64) (stop : Nat) : Nat → Nat → Array UInt8 → Array UInt8
  | 0, _, acc => acc
  | fuel + 1, k, acc =>
    if acc.size ≥ stop then acc
    else pushText seed stop fuel (k + 1) (acc ++ (vocab[(mixByte seed k).toNat % 7]!).toArray)

def segExpand (acc : Array UInt8) (seg : String) : Option (Array UInt8) :=
  match seg.toList with
  | 'h' :: r => (parseHexBig (String.ofList r)).map fun b => acc ++ b.toArray
  | 'z' :: r => (String.ofList r).toNat?.map fun n => pushZeros n acc
  | 'r' :: r =>
    match (String.ofList r).splitOn "." with
    | [sd, n] => match sd.toNat?, n.toNat? with
      | some sd, some n => some (pushMix (UInt64.ofNat sd) n 0 acc)
      | _, _ => none
    | _ => none
  | 'p' :: r =>
    match (String.ofList r).splitOn "." with
    | [pat, n] => match parseHexBig pat, n.toNat? with
      | some pat, some n => if pat.isEmpty then none else some (pushRep pat.toArray n 0 acc)
      | _, _ => none
    | _ => none
  | 'c' :: r =>
    match (String.ofList r).splitOn "." with
    | [d, n] => match d.toNat?, n.toNat? with
      | some d, some n => some (pushCopy d n acc)
      | _, _ => none
    | _ => none
  | 't' :: r =>
    match (String.ofList r).splitOn "." with
    | [sd, n] => match sd.toNat?, n.toNat? with
      | some sd, some n => some ((pushText (UInt64.ofNat sd) (acc.size + n) n 0 acc).extract 0 (acc.size + n))
      | _, _ => none
    | _ => none
  | _ => none

def catExpand (segs : String) : Option (Array UInt8) :=
  if segs == "-" then some #[] else
  (segs.splitOn ",").foldl (fun acc seg => acc.bind fun a => segExpand a seg) (some #[])

def embExpand (blob : Array UInt8) : List String → Array UInt8 → Option (Array UInt8)
  | [], acc => some acc
  | [h], acc => (parseHexBig h).map fun b => acc ++ b.toArray
  | h :: rest, acc => match parseHexBig h with
    | some b => embExpand blob rest (acc ++ b.toArray ++ blob)
    | none => none

def parseBytes (s : String) : Option (List UInt8) :=
  match s.splitOn ":" with
  | ["rep", p, n] =>
    match parseHexBig p, n.toNat? with
    | some pat, some k => if pat.isEmpty then none else some (repBytes pat.toArray k [])
    | _, _ => none
  | ["mix", sd, n] =>
    match sd.toNat?, n.toNat? with
    | some sd, some k => some (mixBytes (UInt64.ofNat sd) k [])
    | _, _ => none
  | ["cat", segs] => (catExpand segs).map Array.toList
  | "emb" :: segs :: hexes =>
    match catExpand segs with
    | some blob => (embExpand blob hexes #[]).map Array.toList
    | none => none
  | [h] => parseHexBig h
  | _ => none

def fnv (bs : List UInt8) : UInt64 :=
  bs.foldl (fun h b => (h ^^^ b.toUInt64) * 0x100000001b3) 0xcbf29ce484222325

def hex64 (x : UInt64) : String :=
  String.ofList ((List.range 16).map fun i => hexDigit ((x >>> UInt64.ofNat (60 - 4 * i)).toNat % 16))

/-- canonical rendering of a byte string: hex up to 256 bytes, length + FNV-1a-64 above -/
def canon (bs : List UInt8) : String :=
  if bs.length ≤ 256 then toHex bs else s!"len={bs.length},fnv={hex64 (fnv bs)}"

/-- `ok:<bytes>` | `oklen:<n>` (some result of n bytes: for answers that depend on the codec's output
    only through its length, see C18_transparent) | `err` | `none` -/
def parseRes (s : String) : Option (Option (Except Unit (List UInt8))) :=
  if s == "none" then some none
  else if s == "err" then some (some (.error ()))
  else if s.startsWith "oklen:" then (s.drop 6).toString.toNat?.map fun n => some (.ok (List.replicate n 0))
  else if s.startsWith "ok:" then (parseBytes (s.drop 3).toString).map fun b => some (.ok b)
  else none

def errName : Err → String
  | .tooBig => "err:tooBig" | .codec => "err:codec" | .noCompressor => "err:noCompressor"
  | .shortRead => "err:shortRead" | .negLength => "err:negLength" | .badVersion => "err:badVersion"
  | .panic => "crash:compress flag set with no compressor"

def parseReq : String → Option Req
  | "startup" => some .startup | "options" => some .options | "query" => some .query
  | "prepare" => some .prepare | "execute" => some .execute | "batch" => some .batch
  | "register" => some .register | "auth" => some .authResponse | _ => none

/-- a codec given by one input/output pair each way; any other use answers an error (and shows up
    as a disagreement with the real code) -/
def tableCodec (encIn : List UInt8) (encOut : Option (Except Unit (List UInt8)))
    (decIn : List UInt8) (decOut : Option (Except Unit (List UInt8))) : Codec :=
  { enc := fun x => match encOut with
      | some r => if x == encIn then r else .error ()
      | none => .error (),
    dec := fun y => match decOut with
      | some r => if y == decIn then r else .error ()
      | none => .error () }

def mkFramer (comp : String) (version extra : Nat) (c : Codec) : Framer :=
  let f := newFramer (if comp == "none" then none else some c) (UInt8.ofNat version)
  { f with flags := f.flags ||| UInt8.ofNat extra }

def showBuild : Except Err (List UInt8) → String
  | .ok w => "ok:" ++ canon w
  | .error e => errName e

def parseInt (s : String) : Option Int := s.toInt?

def parseSupported (s : String) : List (String × List String) :=
  if s == "-" then [] else
  (s.splitOn ";").map fun kv =>
    match kv.splitOn "=" with
    | [k, v] => (k, if v == "" then [] else v.splitOn ",")
    | [k] => (k, [])
    | _ => (kv, [])

/-! ### held results (ops `held`, `flight`): the heap machine of Model/CompressHeap.lean, discipline
    `fresh` (the code that exists), the model's own peers compress with `tagCodec`.

    `held <procs> <step>…` — steps (fields separated by `/`):
      `h<slot>/<codec>/<dir>/<body>`  call and KEEP the result (`g…`: the call runs in another goroutine);
                                      dir = enc (Encode(body)) | dec (Decode of an independent encoding of
                                      body) | rd (a compressed response frame with that body through
                                      readHeader/readFrame) | ru (an uncompressed one, framer with compressor)
      `x/<codec>/<dir>/<body>`        call, result dropped at once (`y…`: other goroutine)
      `c<slot>`   what the holder reads now (enc: after an independent Decode)
      `i<slot>`   is the caller's input buffer still what it passed?
      `m<slot>/<pos>/<xx>`  the caller scribbles over its input AFTER the call: in[pos mod len] ^= xx
      `d<slot>`   drop
    `flight <codec> <procs> <step>…` — responses in flight on real connections:
      `q<id>/<conn>/<kind>/<n>/<body>` request sent, the peer has read it · `r<id>/<z|p>` the peer answers
      (compressed | plain) and the receive loop has decoded it · `p<id>` the consumer reads (Iter.Scan of
      the n rows / the SUPPORTED values / the body): the concatenation of what it decodes. -/

def modelFramer : Framer := newFramer (some tagCodec) 4

def modelF : Dir → List UInt8 → Except Unit (List UInt8) := connF modelFramer tagCodec

/-- the wire the model's server sends for a body (stream = slot) -/
def modelWire (compressed : Bool) (stream : Nat) (body : List UInt8) : Option (List UInt8) :=
  match modelFramer.build (if compressed then 1 else 0) 8 (Int.ofNat (stream % 32768)) body with
  | .ok w => some w
  | .error _ => none

/-- the argument the caller passes for (dir, body) -/
def heldArg (dir : String) (slot : Nat) (body : List UInt8) : Option (Dir × List UInt8) :=
  match dir with
  | "enc" => some (.enc, body)
  | "dec" => match tagCodec.enc body with
    | .ok z => some (.dec, z)
    | .error _ => none
  | "rd" => (modelWire true slot body).map fun w => (.recv, w)
  | "ru" => (modelWire false slot body).map fun w => (.recv, w)
  | _ => none

def showHeld (s : St) (k : Nat) : String :=
  match s.lookup k, s.chk k with
  | some sl, some b =>
    if sl.dir == .enc then
      match tagCodec.dec b with
      | .ok x => canon x
      | .error _ => "undecodable"
    else canon b
  | _, _ => "none"

def parseHexByte (s : String) : Option UInt8 :=
  match parseHexBig s with
  | some [b] => some b
  | _ => none

def heldStep (s : St) (tok : String) : St × String :=
  match tok.toList with
  | [] => (s, "bad-step")
  | t :: rest =>
    let fields := (String.ofList rest).splitOn "/"
    if t == 'h' || t == 'g' || t == 'x' || t == 'y' then
      match fields with
      | [slot, _, dir, body] =>
        let k? : Option Nat := if t == 'x' || t == 'y' then some 1000000 else slot.toNat?
        match k?, parseBytes body with
        | some k, some b =>
          match heldArg dir k b with
          | some (d, arg) =>
            let s' := step .fresh modelF s (.hold k d arg)
            let ans := if (s'.lookup k).isSome then "ok" else "err"
            if t == 'x' || t == 'y' then (step .fresh modelF s' (.drop k), ans) else (s', ans)
          | none => (s, "bad-step")
        | _, _ => (s, "bad-step")
      | _ => (s, "bad-step")
    else if t == 'c' then
      match fields with
      | [slot] => match slot.toNat? with
        | some k => (s, s!"s{k}={showHeld s k}")
        | none => (s, "bad-step")
      | _ => (s, "bad-step")
    else if t == 'i' then
      match fields with
      | [slot] => match slot.toNat? with
        | some k =>
          match s.lookup k, s.input k with
          | some sl, some b => (s, s!"in{k}={if b == sl.arg then "same" else "changed"}")
          | _, _ => (s, s!"in{k}=none")
        | none => (s, "bad-step")
      | _ => (s, "bad-step")
    else if t == 'm' then
      match fields with
      | [slot, pos, xx] => match slot.toNat?, pos.toNat?, parseHexByte xx with
        | some k, some i, some x =>
          match s.lookup k with
          | some sl => if sl.inp.len == 0 then (s, "ok") else (step .fresh modelF s (.mutIn k (i % sl.inp.len) x), "ok")
          | none => (s, "ok")
        | _, _, _ => (s, "bad-step")
      | _ => (s, "bad-step")
    else if t == 'd' then
      match fields with
      | [slot] => match slot.toNat? with
        | some k => (step .fresh modelF s (.drop k), "ok")
        | none => (s, "bad-step")
      | _ => (s, "bad-step")
    else (s, "bad-step")

def runSteps {σ : Type} (f : σ → String → σ × String) (s : σ) (toks : List String) : String :=
  let r := toks.foldl (fun (acc : σ × List String) tok => let p := f acc.1 tok; (p.1, p.2 :: acc.2)) (s, [])
  " ".intercalate r.2.reverse

structure Flight where
  st   : St
  reqs : List (Nat × Nat × List UInt8)   -- id ↦ (n, body)

def flightStep (fl : Flight) (tok : String) : Flight × String :=
  match tok.toList with
  | [] => (fl, "bad-step")
  | t :: rest =>
    let fields := (String.ofList rest).splitOn "/"
    if t == 'q' then
      match fields with
      | [id, _, _, n, body] => match id.toNat?, n.toNat?, parseBytes body with
        | some id, some n, some b => ({ fl with reqs := (id, n, b) :: fl.reqs }, "ok")
        | _, _, _ => (fl, "bad-step")
      | _ => (fl, "bad-step")
    else if t == 'r' then
      match fields with
      | [id, mode] => match id.toNat? with
        | some id =>
          match fl.reqs.find? (·.1 == id) with
          | some (_, _, b) =>
            match modelWire (mode == "z") id b with
            | some w =>
              let s' := step .fresh modelF fl.st (.hold id .recv w)
              ({ fl with st := s' }, if (s'.lookup id).isSome then "ok" else "err")
            | none => (fl, "bad-step")
          | none => (fl, "bad-step")
        | none => (fl, "bad-step")
      | _ => (fl, "bad-step")
    else if t == 'p' then
      match fields with
      | [id] => match id.toNat? with
        | some id =>
          match fl.reqs.find? (·.1 == id) with
          | some (_, n, _) => (fl, s!"p{id}={showHeld fl.st id},n={n}")
          | none => (fl, "bad-step")
        | none => (fl, "bad-step")
      | _ => (fl, "bad-step")
    else (fl, "bad-step")

/-! ### receive paths of a connection (op `rx`) and histories of connections to one host (op `negoh`):
    Model/CompressRecv.lean.

    `rx <codec> <sup> S=<D> R=<D> <step>…` — D = `<flag>/<payload>/<decres>` (a frame as the peer sends it
    and what an independent decoder of the configured codec says about its payload); steps:
      `q=<D>` response to a waiting call · `e=<D>` EVENT on stream -1 · `s<n>=<D>` frame on stream n
      (reserved: 0, negative; or a stream nobody waits on) · `p` ping
    `negoh <codec> <step>…` — `o<sup>` a new connection while the node advertises <sup> · `x<k>` close -/

structure FrameD where
  flag    : UInt8
  payload : List UInt8
  dec     : Option (Except Unit (List UInt8))

def parseFrameD (s : String) : Option FrameD :=
  match s.splitOn "/" with
  | [fl, p, d] => match fl.toNat?, parseBytes p, parseRes d with
    | some fl, some p, some d => some { flag := UInt8.ofNat fl, payload := p, dec := d }
    | _, _, _ => none
  | _ => none

/-- the codec of the connection as far as these frames exercise it: Decode answers what the op line
    says for the payloads of the line, an error for anything else -/
def framesCodec (ds : List FrameD) : Codec :=
  { enc := fun x => .ok x,
    dec := fun y => match ds.find? (fun d => d.payload == y) with
      | some d => (match d.dec with | some r => r | none => .error ())
      | none => .error () }

def headOfD (d : FrameD) (stream : Int) (op : UInt8) : Head :=
  { version := 0x84, flags := d.flag, stream := stream, op := op, length := Int.ofNat d.payload.length }

def whyName : Why → String
  | .read e => ((errName e).drop 4).toString
  | .proto => "proto"
  | .beyond => "beyond"

structure RxSt where
  comp   : Option Codec
  closed : Bool

def stepName (tok : String) : String × String :=
  match tok.splitOn "=" with
  | [a, b] => (a, b)
  | _ => (tok, "")

def rxStep (s : RxSt) (tok : String) : RxSt × String :=
  if s.closed then (s, "gone")
  else if tok == "p" then (s, "alive")
  else
    let (name, dstr) := stepName tok
    match parseFrameD dstr with
    | none => (s, "bad-step")
    | some d =>
      if name == "q" then
        match recv .ret s.comp 4 32768 [1] (headOfD d 1 2) d.payload with
        | .deliver _ (.ok b) => (s, s!"resp=ok:{canon b},alive")
        | .deliver _ (.error e) => (s, s!"resp={errName e},alive")
        | _ => (s, "model-unexpected")
      else if name == "e" then
        match recv .ret s.comp 4 32768 [] (headOfD d (-1) 12) d.payload with
        | .event _ b => (s, s!"ev={toHex b},alive")
        | .close w => ({ s with closed := true }, s!"ev=-,closed:{whyName w}")
        | .crash => ({ s with closed := true }, "crash")
        | _ => (s, "model-unexpected")
      else if name.startsWith "s" then
        match (name.drop 1).toString.toInt? with
        | none => (s, "bad-step")
        | some n =>
          match recv .ret s.comp 4 32768 [] (headOfD d n 2) d.payload with
          | .close w => ({ s with closed := true }, s!"closed:{whyName w}")
          | .discard => (s, "alive")
          | _ => (s, "model-unexpected")
      else (s, "bad-step")

def reqFlag (comp : Option Codec) (r : Req) : Nat :=
  match (newFramer comp 4).buildReq r 1 [] with
  | .ok w => (w.getD 1 0 &&& 1).toNat
  | .error _ => 9

def rxOp (codec sup sArg rArg : String) (steps : List String) : String :=
  let strip := fun (pre s : String) => if s.startsWith pre then (s.drop pre.length).toString else s
  match parseFrameD (strip "S=" sArg), parseFrameD (strip "R=" rArg) with
  | some sD, some rD =>
    let ds := sD :: rD :: steps.filterMap (fun t => parseFrameD (stepName t).2)
    let cdc := framesCodec ds
    let c : Option Named := if codec == "none" then none else some { name := codec, codec := cdc }
    let supported := parseSupported sup
    match handshake c 4 (fun _ => supported) (headOfD sD 0 6) sD.payload (headOfD rD 0 2) rD.payload with
    | .error e => " ".intercalate (s!"dial={errName e}" :: steps.map (fun _ => "nodial"))
    | .ok cc =>
      let n := negotiate (c.map (·.name)) supported
      let conf := c.map (·.codec)
      let first := s!"dial=ok:opt={reqFlag conf .options}:startup={n.startupOpt.getD "-"}:sflag={reqFlag conf .startup}:kept={cc.isSome}"
      first ++ (if steps.isEmpty then "" else " ") ++ runSteps rxStep { comp := cc.map (·.codec), closed := false } steps
  | _, _ => "bad-op"

def negohStep (name : Option String) (st : Option Supported) (tok : String) : Option Supported × String :=
  match tok.toList with
  | 'x' :: _ => (st, "ok")
  | 'o' :: rest =>
    let adv := parseSupported (String.ofList rest)
    let p := connect .perConn name st adv
    let idc : Codec := { enc := fun x => .ok x, dec := fun x => .ok x }
    let comp := if p.2.nego.keep then some idc else none
    (p.1, s!"opt={if p.2.optionsSent then 1 else 0},startup={p.2.nego.startupOpt.getD "-"},kept={p.2.nego.keep},qflag={reqFlag comp .register},body=ok")
  | _ => (st, "bad-step")

/-! op `negos <codec> <numconns> <step>…` — the same history through a real Session's host pool:
    `a<sup>` the node advertises <sup> from now on · `s` the pool fills · `k<i>` the i-th live connection
    is lost and the pool refills. Answer after `s` / `k`: the live connections' observations by class. -/

structure NegosSt where
  adv     : Supported
  live    : List ConnObs
  started : Bool

def obsString (o : ConnObs) : String :=
  let idc : Codec := { enc := fun x => .ok x, dec := fun x => .ok x }
  let comp := if o.nego.keep then some idc else none
  s!"opt={if o.optionsSent then 1 else 0},startup={o.nego.startupOpt.getD "-"},kept={o.nego.keep},qflag={reqFlag comp .register}"

def negosShow (live : List ConnObs) : String :=
  let yes := live.filter (·.nego.keep)
  let no := live.filter (fun o => !o.nego.keep)
  let cls := fun (l : List ConnObs) => match l with
    | [] => ""
    | o :: _ => s!":[{obsString o}]x{l.length}"
  s!"live={live.length}{cls yes}{cls no}"

def negosStep (name : Option String) (numConns : Nat) (s : NegosSt) (tok : String) : NegosSt × String :=
  match tok.toList with
  | 'a' :: rest => ({ s with adv := parseSupported (String.ofList rest) }, "ok")
  | ['s'] =>
    if s.started then (s, "bad-step") else
    let live := runHist .perConn name none (List.replicate numConns s.adv)
    ({ s with live := live, started := true }, negosShow live)
  | 'k' :: rest =>
    match (String.ofList rest).toNat? with
    | some i =>
      if !s.started || i ≥ s.live.length then (s, "bad-step") else
      let live := s.live.eraseIdx i ++ runHist .perConn name none [s.adv]
      ({ s with live := live }, negosShow live)
    | none => (s, "bad-step")
  | _ => (s, "bad-step")


/-- `oklen:<n>` | `err` | `none` as a LENGTH (never expanded to bytes: op `big` runs at 256 MiB) -/
def parseLenRes (s : String) : Option (Option (Except Unit Nat)) :=
  if s == "none" then some none
  else if s == "err" then some (some (.error ()))
  else if s.startsWith "oklen:" then (s.drop 6).toString.toNat?.map fun n => some (.ok n)
  else none

/-- ops `big` / `bigx`: build then read one frame, through lengths only (`finishLen`, `readLen`:
    `C18_finish_by_length`, `C18_read_by_length`) -/
def bigOp (comp : String) (ver hflag bodyLen : Nat) (enc dec : Option (Except Unit Nat)) : String :=
  let hs := if (UInt8.ofNat ver &&& 0x7f) > 2 then 9 else 8
  let flag := (UInt8.ofNat hflag &&& flagCompress) == flagCompress
  let has := comp != "none"
  let encA : Option (Except Unit Nat) := if has then some (enc.getD (.error ())) else none
  match finishLen hs (hs + bodyLen) flag encA with
  | .error e => "build=" ++ errName e
  | .ok l =>
    let field := l - hs
    let decA : Option (Except Unit Nat) := if has then some (dec.getD (.error ())) else none
    let rd := match readLen (toInt32 (field % 4294967296)) field flag decA with
      | .error e => errName e
      | .ok n => s!"ok:len={n},same=true"
    s!"build=ok:len={l},field={field % 4294967296} read={rd}"


/-! op `senderr <codec> <step>…` — compressor errors on the send path of a real connection (Model/CompressSend.lean):
      `<kind>/<f|s>/<blob>`  one request through Conn.exec; f = the compressor's Encode refuses this body
      `+<kind>/<blob>`       the same, but the peer withholds its answer (the call stays in flight)
      `r`                    the peer answers everything it withheld
    answers: what the caller got, how many Encode calls ran, streams taken / calls registered afterwards,
    and the frames the peer has read since the last answer (`<opcode>/<compress bit>/<same|diff>`: payload
    decoded by an independent decoder = the body the builder makes without a compressor). -/

structure SendDrv where
  st      : SendSt
  pending : List Int
  next    : Int

def sendCodec (fail : Bool) : Codec :=
  { enc := fun x => if fail then .error () else .ok (0x5A :: x), dec := fun y => .ok (y.drop 1) }

def sendFrameStr (f : Framer) (body w : List UInt8) : String :=
  match f.decode w with
  | .ok (h, b) => s!"{h.op.toNat}/{(h.flags &&& 1).toNat}/{if b == body then "same" else "diff"}"
  | .error _ => "undecodable"

def senderrStep (codec : String) (d : SendDrv) (tok : String) : SendDrv × String :=
  if tok == "r" then
    let st := d.pending.foldl respond d.st
    ({ d with st := st, pending := [] }, s!"released={d.pending.length},held={st.calls.length},calls={st.calls.length}")
  else
    let (isP, fields) := match tok.toList with
      | '+' :: rest => (true, ("s" :: (String.ofList rest).splitOn "/"))
      | _ => (false, match tok.splitOn "/" with | [k, fl, b] => [fl, k, b] | _ => [])
    match fields with
    | [fl, kind, blob] =>
      match parseReq kind, parseBytes blob with
      | some r, some body =>
        let f := newFramer (if codec == "none" then none else some (sendCodec (fl == "f"))) 4
        let encCalls := if (r.headerFlags f &&& flagCompress) == flagCompress then 1 else 0
        let (st', res) := execSend f d.st r d.next body
        match res with
        | .failed e => ({ d with st := st' }, s!"{errName e},enc={encCalls},held={st'.calls.length},calls={st'.calls.length}")
        | .sent w =>
          let wire := s!"wire=[{sendFrameStr f body w}]"
          if isP then
            ({ st := st', pending := d.next :: d.pending, next := d.next + 1 },
              s!"sent,enc={encCalls},held={st'.calls.length},calls={st'.calls.length},{wire}")
          else
            let st'' := respond st' d.next
            ({ d with st := st'', next := d.next + 1 },
              s!"ok,enc={encCalls},held={st''.calls.length},calls={st''.calls.length},{wire}")
      | _, _ => (d, "bad-step")
    | _ => (d, "bad-step")


/-! op `negom <codec> <numconns> <nhosts> <step>…` — one real Session over several hosts whose SUPPORTED
    sets differ: `a<h>=<sup>` host h advertises <sup> from now on · `s` the session starts, every host's
    pool fills · `k<h>/<i>` the i-th live connection of host h (order of establishment) is lost and its pool refills. Answer after `s` / `k`:
    per host, the live connections' observations by class (Model/CompressRecv.lean `runHosts`). -/

structure NegomSt where
  advs    : List Supported
  live    : List (List ConnObs)
  started : Bool

def negomShow (live : List (List ConnObs)) : String :=
  "|".intercalate ((List.range live.length).map fun h => s!"h{h}:{negosShow (live.getD h [])}")

def negomStep (name : Option String) (numConns : Nat) (s : NegomSt) (tok : String) : NegomSt × String :=
  match tok.toList with
  | 'a' :: rest =>
    match (String.ofList rest).splitOn "=" with
    | h :: sup =>
      match h.toNat? with
      | some h =>
        if h < s.advs.length then ({ s with advs := s.advs.set h (parseSupported ("=".intercalate sup)) }, "ok")
        else (s, "bad-step")
      | none => (s, "bad-step")
    | _ => (s, "bad-step")
  | ['s'] =>
    if s.started then (s, "bad-step") else
    -- every host's pool fills: numConns connections to each host, in some interleaving; by
    -- C18_negotiation_per_host the interleaving does not matter
    let conns := (List.range s.advs.length).flatMap fun h => List.replicate numConns (h, s.advs.getD h [])
    let obs := runHosts .perConn name none conns
    let live := (List.range s.advs.length).map fun h => (obs.filter (·.1 == h)).map (·.2)
    ({ s with live := live, started := true }, negomShow live)
  | 'k' :: rest =>
    match (String.ofList rest).splitOn "/" with
    | [hs, is] =>
      match hs.toNat?, is.toNat? with
      | some h, some i =>
        let old := s.live.getD h []
        if !s.started || h ≥ s.live.length || i ≥ old.length then (s, "bad-step") else
        let new := (runHosts .perConn name none [(h, s.advs.getD h [])]).map (·.2)
        let live := s.live.set h (old.eraseIdx i ++ new)
        ({ s with live := live }, negomShow live)
      | _, _ => (s, "bad-step")
    | _ => (s, "bad-step")
  | _ => (s, "bad-step")

def step (_ : Unit) (ws : List String) : Unit × String :=
  ((), match ws with
  | ["req", kind, comp, ver, extra, stream, body, encres, _, _] =>
    match parseReq kind, ver.toNat?, extra.toNat?, parseInt stream, parseBytes body, parseRes encres with
    | some r, some v, some x, some s, some b, some er =>
      let f := mkFramer comp v x (tableCodec b er [] none)
      showBuild (f.buildReq r s b)
    | _, _, _, _, _, _ => "bad-op"
  | ["raw", comp, ver, extra, hflags, op, stream, body, encres] =>
    match ver.toNat?, extra.toNat?, hflags.toNat?, op.toNat?, parseInt stream, parseBytes body, parseRes encres with
    | some v, some x, some hf, some o, some s, some b, some er =>
      let f := mkFramer comp v x (tableCodec b er [] none)
      showBuild (f.build (UInt8.ofNat hf) (UInt8.ofNat o) s b)
    | _, _, _, _, _, _, _ => "bad-op"
  | ["rt", kind, comp, ver, extra, stream, body, encres, _, _] =>
    match parseReq kind, ver.toNat?, extra.toNat?, parseInt stream, parseBytes body, parseRes encres with
    | some r, some v, some x, some s, some b, some er =>
      -- the property (C18_delivered): Encode does not fail for a valid body. An `err` reported for the
      -- one Encode call of this request is answered with what the specification demands instead
      if (match er with | some (.error _) => true | _ => false) then s!"ok flag=1 len=|Encode(body)| same=true body={canon b}" else
      let z := match er with | some (.ok z) => z | _ => []
      let f := mkFramer comp v x (tableCodec b er z (some (.ok b)))
      match f.buildReq r s b with
      | .error e => errName e
      | .ok w =>
        match f.decode w with
        | .error e => "read-" ++ errName e
        | .ok (h, b') => s!"ok flag={(h.flags &&& 1).toNat} len={h.length} same={b' == b} body={canon b'}"
    | _, _, _, _, _, _ => "bad-op"
  | ["read", comp, ver, wire, decin, decres] =>
    match ver.toNat?, parseBytes wire, parseBytes decin, parseRes decres with
    | some v, some w, some di, some dr =>
      let f := mkFramer comp v 0 (tableCodec [] none di dr)
      match f.decode w with
      | .error e => errName e
      | .ok (h, b) => s!"ok:flags={h.flags.toNat},stream={h.stream},op={h.op.toNat},len={h.length},body={canon b}"
    | _, _, _, _ => "bad-op"
  | ["lz4enc", body, blockres] =>
    match parseBytes body, parseRes blockres with
    | some b, some (some br) =>
      -- the block encoder as the library documents it: answers only for a destination of at least the bound
      let bc : BlockCodec := { encB := fun x n => if x == b && blockBound b.length ≤ n then br else .error (),
                               decB := fun _ _ => .error () }
      match lz4Encode bc b with
      | .ok y => "ok:" ++ canon y
      | .error _ => "err"
    | _, _ => "bad-op"
  | ["lz4dec", data, blockres] =>
    match parseBytes data, parseRes blockres with
    | some d, some br =>
      let bc : BlockCodec := { encB := fun _ _ => .error (),
                               decB := fun src n => match br with
                                 | some r => if src == d.drop 4 && n == lz4Prefix d then r else .ok [0xde, 0xad]
                                 | none => .ok [0xde, 0xad] }
      match lz4Decode bc d with
      | .ok y => "ok:" ++ canon y
      | .error _ => "err"
    | _, _ => "bad-op"
  | ["lz4blk", block, n] =>
    -- the LZ4 block format's decoder (Model/CompressLz4Block.lean) on arbitrary complete blocks
    match parseBytes block, n.toNat? with
    | some b, some n => (match lz4BlockDecode b n with | .ok o => "ok:" ++ canon o | .error _ => "err")
    | _, _ => "bad-op"
  | ["lz4brt", body, block] =>
    -- what pierrec's CompressBlock produced for `body`, decoded by the format's decoder, must be `body`
    match parseBytes body, parseBytes block with
    | some b, some z =>
      (match lz4BlockDecode z b.length with
       | .ok d => if d == b then "ok:" ++ canon b else "format-mismatch:" ++ canon d
       | .error _ => "format-reject")
    | _, _ => "bad-op"
  | ["snapdec", data] =>
    -- the snappy block format's decoder (Model/CompressSnappy.lean) on arbitrary bytes
    match parseBytes data with
    | some d => (match snappyDecode d with | .ok b => "ok:" ++ canon b | .error _ => "err")
    | none => "bad-op"
  | ["snaprt", body, z] =>
    -- what golang/snappy's Encode produced for `body`, decoded by the format's decoder, must be `body`;
    -- `dom=true`: its elements are in the domain of C18_snappy_decodes_any_stream (checked by the harness)
    match parseBytes body, parseBytes z with
    | some b, some z =>
      (match snappyDecode z with
       | .ok d => if d == b then "ok:" ++ canon b ++ " dom=true" else "format-mismatch:" ++ canon d
       | .error _ => "format-reject")
    | _, _ => "bad-op"
  | ["big", comp, ver, hflag, bodyLen, _, enc, dec] =>
    match ver.toNat?, hflag.toNat?, bodyLen.toNat?, parseLenRes enc, parseLenRes dec with
    | some v, some hf, some n, some e, some d => bigOp comp v hf n e d
    | _, _, _, _, _ => "bad-op"
  | ["rxbig", _, flag, _, _, plen, dec] =>
    -- a response of plen payload bytes on a v4 connection with the codec negotiated, to a waiting call:
    -- Conn.recv hands readFrame's outcome to the call and goes on (C18_recv_transparent,
    -- C18_recv_compressed_error); readFrame through lengths (C18_read_by_length)
    match flag.toNat?, plen.toNat?, parseLenRes dec with
    | some fl, some pl, some d =>
      let fb := (UInt8.ofNat fl &&& flagCompress) == flagCompress
      (match readLen (toInt32 (pl % 4294967296)) pl fb (some (d.getD (.error ()))) with
       | .ok n => s!"resp=ok:len={n},same=true alive"
       | .error e => s!"resp={errName e} alive")
    | _, _, _ => "bad-op"
  | ["bigx", comp, ver, hflag, bodyLen, _, enc, dec] =>
    match ver.toNat?, hflag.toNat?, bodyLen.toNat?, parseLenRes enc, parseLenRes dec with
    | some v, some hf, some n, some e, some d => bigOp comp v hf n e d
    | _, _, _, _, _ => "bad-op"
  | ["hyp", _, _] => "roundtrip"
  | ["lz4rt", body] =>
    -- C18_lz4_delivered: Encode succeeds, prefix = length, an independent block decoder and Decode give the body back
    match parseBytes body with
    | some b => s!"ok prefix={b.length % 4294967296} block=true dec=true"
    | none => "bad-op"
  | ["midrt", codec, _, n] =>
    -- as `lz4rt` / `hyp`, for a body given by its length only (C18_lz4_delivered; Codec.RoundTrips sampled)
    match n.toNat? with
    | some n => if codec == "lz4" then s!"ok prefix={n % 4294967296} block=true dec=true" else "roundtrip"
    | none => "bad-op"
  | ["lz4dst", n] =>
    match n.toNat? with
    | some n => s!"dst={lz4DstLen n}"
    | none => "bad-op"
  | ["nego", name, sup] =>
    let idc : Codec := { enc := fun x => .ok x, dec := fun x => .ok x }
    let c : Option Named := if name == "-" then none else some { name := name, codec := idc }
    let supported := parseSupported sup
    let n := negotiate (c.map (·.name)) supported
    let cc := connCompressor c supported
    let f := newFramer (cc.map (·.codec)) 4
    let qflag := match f.buildReq .register 1 [] with
      | .ok w => (w.getD 1 0 &&& 1).toNat
      | .error _ => 9
    let cresp := match f.readFrame { version := 0x84, flags := 1, stream := 1, op := 2, length := 0 } [] with
      | .ok _ => "ok"
      | .error e => errName e
    s!"kept={cc.isSome} startup={n.startupOpt.getD "-"} qflag={qflag} cresp={cresp} alive=true"
  | "rx" :: codec :: sup :: sArg :: rArg :: steps => rxOp codec sup sArg rArg steps
  | "negoh" :: codec :: steps =>
    runSteps (negohStep (if codec == "none" then none else some codec)) none steps
  | "negos" :: codec :: nc :: steps =>
    match nc.toNat? with
    | some n => runSteps (negosStep (if codec == "none" then none else some codec) n) { adv := [], live := [], started := false } steps
    | none => "bad-op"
  | "negom" :: codec :: nc :: nh :: steps =>
    match nc.toNat?, nh.toNat? with
    | some n, some k =>
      runSteps (negomStep (if codec == "none" then none else some codec) n)
        { advs := List.replicate k [], live := [], started := false } steps
    | _, _ => "bad-op"
  | "senderr" :: codec :: toks =>
    runSteps (senderrStep codec) { st := SendSt.init, pending := [], next := 1 } toks
  | "held" :: _ :: toks => runSteps heldStep St.init toks
  | "flight" :: _ :: _ :: toks => runSteps flightStep { st := St.init, reqs := [] } toks
  | _ => "bad-op")

def init : Unit := ()
end Driver.C18
