import Model.Streams
import Driver.Util
namespace Driver.C08
open Streams

/-! line protocol (every line is a self-contained scenario, the driver is stateless):

  seq <proto> <op> <op> …
      sequential big-step semantics (`Streams.seqOp`), one answer token per op:
        g        GetStream            → `<id>:t` | `0:f`
        c<id>    Clear(id)            → `T` | `F` | `crash:negative`   (`F` also for id ≥ NumStreams)
        n<k>     Clear(-k), k ≥ 1 (negative argument, `Streams.clearNeg`: answers false, nothing changes)
        (thread scripts only) r = Clear(id acquired most recently by this thread and not yet
                 released through r), Available if there is none
        a        Available            → `a=<n>`
        G<cnt>   cnt × GetStream      → `G=<successes>/<xor of ids>/<sum of ids>/<last id>`
        s        bitset               → `s=<i:hex|i-j:hex,…>` (non-zero words, equal runs compressed) | `s=-`
        O<v> | Ot<k> | Om<k>   "any history": the rotating offset word is set to v / 2^32 - k / 2^31 - k (the
                 harness stores it through a reflection hook; `Streams.presetOffset`)   → `O`
  conc <proto> <k> P <seq ops…> T <ops of thread 0> T <ops of thread 1> … S <digits>
      lock-step run of the small-step machine (`Streams.step`): after the sequential prefix P,
      the k threads run their scripts; each digit of the schedule lets that thread perform ONE
      atomic operation; after the schedule the unfinished threads run to completion in index order.
      answer: one token per scheduling decision
        `<t>:y<k>`          thread t is now parked in front of the atomic operation `yield(k)`
        `<t>:<ret>:y<k>`    its call returned <ret>; now parked at the first yield of its next call
        `<t>:<ret>:d`       returned and finished its script
        `<t>:-`             thread already finished (decision ignored)
      followed by `| a=<Available> s=<bitset>`
  mon conc …   same scenario; answer `ok` iff the property's monitors hold along the run.
      ALL scenarios (no client protocol assumed; theorems C08_count_any, C08_release_conservation,
      C08_reserved_and_range_any, C08_no_negative_partial, C08_clear_noop):
        per id x:  #Clear(x) that returned true (or panicked 'negative' after clearing the bit) + [bit x set at the end]
                   = #GetStream that returned x + [bit x set after the prefix P]
        Available() at the end = number of zero bits of the bitset
        an id handed out is in 1..NumStreams-1 as long as Clear(0) has not been called
        the calls in the order of their linearization points (bit set by a GetStream CAS, bit cleared by a Clear
        CAS, Clear load that saw the bit clear) are a history of the sequential id-set specification and every
        call returns the answer of its linearization point (C08_linearizable_partial, C08_lp_answers; not after Clear(0))
        'negative streams inuse' panic only after an excluded event (Clear(0) called, or a Clear CAS that
        cleared the bit of an id whose GetStream had not returned yet); no index panic for any argument
      scenarios whose scripts respect the client protocol (every Clear names an id in use after P, no id is
      named twice; static criterion) additionally: ids unique among held ids, no panic at all,
      Available = NumStreams-1-#held at the end
  smon <proto> <op> …   (ops g, c<id>, a, G<cnt>, O…) sequential spec monitor (`Streams.specCheck`, theorems
      C08_sequential_spec, C08_sequential_spec_any_history): `ok` iff every answer is allowed by the abstract id-set specification and
      Available() = NumStreams-1-#held after EVERY op; `n/a` if the ops contain c0 (excluded case)
-/

def hexWord (w : Word) : String := String.ofList (Nat.toDigits 16 w.toNat)

/-- non-zero words, runs of equal words compressed: `i:hex` or `i-j:hex` -/
def showState (ws : List Word) : String :=
  let rec go (i : Nat) (l : List Word) (acc : List String) : List String :=
    match l with
    | [] => acc.reverse
    | w :: r =>
      let run := (r.takeWhile (· = w)).length
      let r' := r.drop run
      let item := if run = 0 then toString i ++ ":" ++ hexWord w
                  else toString i ++ "-" ++ toString (i + run) ++ ":" ++ hexWord w
      go (i + run + 1) r' (if w = 0#64 then acc else item :: acc)
  termination_by l.length
  decreasing_by simp; omega
  match go 0 ws [] with
  | [] => "s=-"
  | l => "s=" ++ ",".intercalate l

def showRet : Option Ret → String
  | some (.stream id ok) => toString id ++ (if ok then ":t" else ":f")
  | some (.cleared b) => if b then "T" else "F"
  | some (.avail n) => "a=" ++ toString n
  | some .crashIndex => "crash:index"
  | some .crashNegative => "crash:negative"
  | none => "stuck"

def parseOp (w : String) : Option Op :=
  if w == "g" then some .get
  else if w == "a" then some .avail
  else if w.startsWith "c" then (w.drop 1).toNat?.map Op.clear
  else none

/-- preset token of the offset word: `O<v>`, `Ot<k>` = 2^32 - k, `Om<k>` = 2^31 - k (mod 2^32) -/
def parsePreset (w : String) : Option Nat :=
  if w.startsWith "Ot" then (w.drop 2).toNat?.map (fun k => (4294967296 - k % 4294967296) % 4294967296)
  else if w.startsWith "Om" then (w.drop 2).toNat?.map (fun k => (4294967296 + 2147483648 - k % 4294967296) % 4294967296)
  else if w.startsWith "O" then (w.drop 1).toNat?.map (fun v => v % 4294967296)
  else none

def getN : Nat → Shared → Nat → Nat → Nat → Nat → Shared × String
  | 0, sh, succ, x, sum, last =>
    (sh, "G=" ++ toString succ ++ "/" ++ toString x ++ "/" ++ toString sum ++ "/" ++ toString last)
  | c + 1, sh, succ, x, sum, last =>
    match getStream sh with
    | (sh', some (.stream id true)) => getN c sh' (succ + 1) (x ^^^ id) (sum + id) id
    | (sh', _) => getN c sh' succ x sum last

/-- one sequential op token -/
def seqTok (sh : Shared) (w : String) : Option (Shared × String) :=
  if w == "s" then some (sh, showState sh.words)
  else if w.startsWith "O" then (parsePreset w).map (fun v => (presetOffset sh v, "O"))
  else if w.startsWith "n" then
    -- n<k> = Clear(-k), k ≥ 1 (negative argument; `Streams.clearNeg`)
    match (w.drop 1).toNat? with
    | some k => if k = 0 then none else let r := clearNeg sh k; some (r.1, showRet r.2)
    | none => none
  else if w.startsWith "G" then
    match (w.drop 1).toNat? with
    | some c => some (getN c sh 0 0 0 0)
    | none => none
  else match parseOp w with
    | some op => let r := seqOp sh op; some (r.1, showRet r.2)
    | none => none

def seqRun : Shared → List String → List String → Option (Shared × List String)
  | sh, [], acc => some (sh, acc.reverse)
  | sh, w :: ws, acc =>
    match seqTok sh w with
    | some (sh', a) => seqRun sh' ws (a :: acc)
    | none => none

/-- script op of a thread: a fixed op, or `r` = Clear(the id this thread acquired most recently and
    has not yet released), Available if there is none -/
inductive SOp where
  | op (o : Op)
  | rel

def parseSOp (w : String) : Option SOp :=
  if w == "r" then some .rel else (parseOp w).map .op

structure Conc where
  st : State
  scripts : List (List SOp)
  mine : List (List Nat)
  /-- events of the run (`Streams.evOf`) -/
  evs : List Ev := []
  /-- `Clear(0)` has been called -/
  c0 : Bool := false
  /-- an excluded action (`¬ Streams.calm`) has happened -/
  excl : Bool := false
  /-- a monitor of the protocol-free theorems fired on the model run (never: Proofs/C08) -/
  viol : Bool := false
  /-- the linearization of the run (`Streams.linOf`), most recent linearization point first -/
  lin : List (Op × Option Ret) := []

def resolve (mine : List Nat) : SOp → Op × List Nat
  | .op o => (o, mine)
  | .rel => match mine with
    | id :: r => (.clear id, r)
    | [] => (.avail, [])

def nextYield (script : List SOp) (mine : List Nat) : String :=
  match script with
  | [] => "d"
  | op :: _ => "y" ++ toString (startPC (resolve mine op).1).yieldPoint

/-- `Clear(id)` with `id ≥ NumStreams` returns false WITHOUT any atomic operation (the guard added by the fix of
    KF-C08-3 is thread-local): in the lock-step observations such a call is part of the scheduling decision in which
    the preceding call returned (or of the start of the thread). The machine performs it as a step that leaves the
    shared state alone (`C08_clear_out_of_range`). Returns the answers of the calls consumed. -/
def skipLocal : Nat → Conc → Nat → List String → Conc × List String
  | 0, c, _, acc => (c, acc.reverse)
  | f + 1, c, t, acc =>
    if (c.st.threads.getD t .idle) ≠ .idle then (c, acc.reverse) else
    match c.scripts.getD t [] with
    | .op (.clear id) :: rest =>
      if 64 * c.st.sh.words.length ≤ id then
        match Streams.step c.st (.start t (.clear id)) with
        | some (st', r) =>
          let a : Action := .start t (.clear id)
          skipLocal f { c with st := st', scripts := c.scripts.set t rest, evs := evOf c.st a ++ c.evs,
                               lin := (linOf c.st a).reverse ++ c.lin } t (showRet r :: acc)
        | none => (c, acc.reverse)
      else (c, acc.reverse)
    | _ => (c, acc.reverse)

/-- scheduling decision: thread t performs one atomic operation -/
def concStep (c : Conc) (t : Nat) : Conc × String :=
  match c.st.threads[t]? with
  | none => (c, toString t ++ ":bad")
  | some pc =>
    let script := c.scripts.getD t []
    let mine := c.mine.getD t []
    let (act, script', mine') : Option Action × List SOp × List Nat :=
      if pc = .idle then
        match script with
        | [] => (none, [], mine)
        | op :: rest => let r := resolve mine op; (some (.start t r.1), rest, r.2)
      else (some (.step t), script, mine)
    match act with
    | none => (c, toString t ++ ":-")
    | some a =>
      match Streams.step c.st a with
      | none => (c, toString t ++ ":stuck")
      | some (st', r) =>
        let mine'' := match r with
          | some (.stream id true) => id :: mine'
          | _ => mine'
        let c0' := c.c0 || !noClear0 c.st a
        let excl' := c.excl || !calm c.st a
        let cap := 64 * c.st.sh.words.length
        let bad := match r with
          | some (.stream id true) => !c0' && (id == 0 || decide (cap ≤ id))
          | some .crashNegative => !excl'
          | some .crashIndex => (match a with
              | .start _ (.clear id) => decide (id < cap)
              | _ => true)
          | _ => false
        let c' : Conc := { st := st', scripts := c.scripts.set t script', mine := c.mine.set t mine'',
                           evs := evOf c.st a ++ c.evs, c0 := c0', excl := excl', viol := c.viol || bad,
                           lin := (linOf c.st a).reverse ++ c.lin }
        match r with
        | some _ =>
          let (c'', more) := skipLocal (script'.length + 1) c' t []
          (c'', toString t ++ ":" ++ ":".intercalate (showRet r :: more) ++ ":" ++
                 nextYield (c''.scripts.getD t []) (c''.mine.getD t []))
        | none => (c', toString t ++ ":y" ++ toString ((st'.threads.getD t .idle).yieldPoint))

def threadDone (c : Conc) (t : Nat) : Bool :=
  (c.st.threads.getD t .idle) = .idle && (c.scripts.getD t []).isEmpty

/-- run thread t alone until its script is finished (fuel: it cannot spin when running alone) -/
def finishThread : Nat → Conc → Nat → List String → Conc × List String
  | 0, c, _, acc => (c, acc)
  | f + 1, c, t, acc =>
    if threadDone c t then (c, acc)
    else let (c', o) := concStep c t; finishThread f c' t (o :: acc)

def finishAll (c : Conc) (k : Nat) (acc : List String) : Conc × List String :=
  (List.range k).foldl (fun (p : Conc × List String) t =>
    finishThread ((p.1.scripts.getD t []).length * (p.1.st.sh.words.length + 8) + p.1.st.sh.words.length + 8) p.1 t p.2) (c, acc)

def splitOn (sep : String) (ws : List String) : List (List String) :=
  let rec go (l : List String) (cur : List String) (acc : List (List String)) : List (List String) :=
    match l with
    | [] => (cur.reverse :: acc).reverse
    | w :: r => if w == sep then go r [] (cur.reverse :: acc) else go r (w :: cur) acc
  go ws [] []

/-- cache of pre-filled generators: `G<c>` as first token of a sequential prefix is by far the most
    expensive part of a scenario and is shared by many scenarios (semantically transparent) -/
abbrev Cache := List ((Nat × Nat) × Shared)

def prefix? (w : String) : Option Nat := if w.startsWith "G" then (w.drop 1).toNat? else none

/-- run a sequential token list from `New(proto)`, going through the cache for a leading `G<c>` -/
def seqFrom (cache : Cache) (proto : Nat) (toks : List String) : Cache × Option (Shared × List String) :=
  match toks with
  | w :: rest =>
    match prefix? w with
    | some c =>
      match cache.lookup (wordsOfProto proto, c) with
      | some sh =>
        -- the digest of the G token is recomputed only when somebody looks at it (seq lines)
        (cache, (seqRun sh rest []).map (fun r => (r.1, "G" :: r.2)))
      | none =>
        match seqTok (Streams.init (wordsOfProto proto)) w with
        | some (sh, a) =>
          (((wordsOfProto proto, c), sh) :: cache.take 300, (seqRun sh rest []).map (fun r => (r.1, a :: r.2)))
        | none => (cache, none)
    | none => (cache, seqRun (Streams.init (wordsOfProto proto)) toks [])
  | [] => (cache, seqRun (Streams.init (wordsOfProto proto)) [] [])

/-- non-reserved ids whose bit is set -/
def idsInUse (ws : List Word) : List Nat :=
  let rec go (i : Nat) (l : List Word) (acc : List Nat) : List Nat :=
    match l with
    | [] => acc.reverse
    | w :: r =>
      go (i + 1) r (if w = 0#64 then acc else
        (List.range 64).foldl (fun acc j => if w.getLsbD (streamOffset j) && (i * 64 + j != 0) then (i * 64 + j) :: acc else acc) acc)
  go 0 ws []

def clearIds (scripts : List (List SOp)) : List Nat :=
  scripts.flatten.filterMap (fun o => match o with | .op (.clear id) => some id | _ => none)

/-- result of a lock-step scenario: observations, final machine state, whether the scripts respect
    the client protocol of the property (static criterion, the same as in the harness) -/
def runConc (cache : Cache) (proto k : Nat) (rest : List String) : Cache × Option (List String × State × Bool × Conc × List Word) :=
  -- rest = P pre… T ops… T ops… S digits
  match rest with
  | "P" :: rest =>
    let (pre, rest) := rest.span (fun w => w != "T" && w != "S")
    let (tpart, spart) := rest.span (fun w => w != "S")
    let scriptsW := (splitOn "T" tpart).drop 1
    let sched : List Nat := match spart with
      | ["S", d] => (d.toList.filter Char.isDigit).map (fun ch => ch.toNat - '0'.toNat)
      | _ => []
    match seqFrom cache proto pre, scriptsW.mapM (fun l => l.mapM parseSOp) with
    | (cache', some (sh, _)), some scripts =>
      if scripts.length ≠ k then (cache', none) else
      let inuse0 := idsInUse sh.words
      let cl := clearIds scripts
      let protocol := cl.all (fun id => inuse0.contains id) && cl.eraseDups.length == cl.length
      let st0 : State := { sh := sh, threads := List.replicate k .idle, held := inuse0 }
      let c0 : Conc := { st := st0, scripts := scripts, mine := List.replicate k [],
                         c0 := pre.contains "c0", excl := pre.contains "c0" }
      -- start of the threads: calls that return without any atomic operation are observed as `<t>:start:…`
      let (c0, acc0) := (List.range k).foldl (fun (p : Conc × List String) t =>
          let (c', more) := skipLocal ((p.1.scripts.getD t []).length + 1) p.1 t []
          if more.isEmpty then p
          else (c', (toString t ++ ":start:" ++ ":".intercalate more ++ ":" ++
                      nextYield (c'.scripts.getD t []) (c'.mine.getD t [])) :: p.2)) (c0, [])
      let (c1, acc) := sched.foldl (fun (p : Conc × List String) t =>
          let (c', o) := concStep p.1 t; (c', o :: p.2)) (c0, acc0)
      let (c2, acc) := finishAll c1 k acc
      (cache', some (acc.reverse, c2.st, protocol, c2, sh.words))
    | (cache', _), _ => (cache', none)
  | _ => (cache, none)

/-- `l.Nodup ∧ ∀ id ∈ l, 1 ≤ id < cap`, in linear time (a table of the ids seen) -/
def nodupInRange (cap : Nat) (l : List Nat) : Bool :=
  (l.foldl (fun (p : Array Bool × Bool) id =>
      if !p.2 then p
      else if id < 1 || cap ≤ id || p.1.getD id false then (p.1, false)
      else (p.1.setIfInBounds id true, true)) (Array.replicate cap false, true)).2

/-- the property's monitors evaluated on the model run (they can never fire: Proofs/C08) -/
def monitorsOk (obs : List String) (st : State) : Bool :=
  let n := 64 * st.sh.words.length
  nodupInRange n st.held
    && decide (available st.sh = ((n - 1 - st.held.length : Nat) : Int))
    && obs.all (fun o => !(o.splitOn "crash").length > 1)

/-- number of set bits -/
def popcount (ws : List Word) : Nat :=
  ws.foldl (fun acc w => if w = 0#64 then acc else (List.range 64).foldl (fun a j => if w.getLsbD j then a + 1 else a) acc) 0

def clrId (ws : List Word) (id : Nat) : List Word := ws.set (id / 64) (ws.getD (id / 64) 0 &&& ~~~ mask id)

/-- the monitors of the protocol-free theorems evaluated on the model run -/
def monitorsAny (c : Conc) (w0 : List Word) : Bool :=
  let ws := c.st.sh.words
  let cap := 64 * ws.length
  let ids := (c.evs.map (fun e => match e with | .got id => id | .released id => id)).eraseDups
  let b2n (b : Bool) : Nat := if b then 1 else 0
  !c.viol
    && ids.all (fun x => c.evs.count (.released x) + b2n (bitAt ws x) == c.evs.count (.got x) + b2n (bitAt w0 x))
    && ids.foldl clrId ws == ids.foldl clrId w0
    && decide (available c.st.sh = ((cap - popcount ws : Nat) : Int))
    -- C08_linearizable_partial: the calls in the order of their linearization points are a history of the
    -- sequential specification, starting from the set of ids in use after the prefix (Clear(0) excluded)
    && (c.c0 || (specAccepts cap { tbl := (Array.range cap).map (fun id => id != 0 && bitAt w0 id), cnt := popcount w0 - 1 }
                  c.lin.reverse).isSome)

def parseSeqOps : List String → Option (List HOp)
  | [] => some []
  | w :: ws =>
    match (if w.startsWith "G" then (w.drop 1).toNat?.map (fun c => List.replicate c (HOp.op Op.get))
           else if w.startsWith "n" then
             (match (w.drop 1).toNat? with
              | some k => if k = 0 then none else some [HOp.clearNeg k]
              | none => none)
           else if w.startsWith "O" then (parsePreset w).map (fun v => [HOp.setOffset v])
           else (parseOp w).map (fun o => [HOp.op o])),
          parseSeqOps ws with
    | some a, some b => some (a ++ b)
    | _, _ => none

def step (cache : Cache) (ws : List String) : Cache × String :=
  match ws with
  | "seq" :: p :: ops =>
    match p.toNat? with
    | some proto =>
      -- sequential lines report the digest of every G token: no cache for the answer itself
      match seqRun (Streams.init (wordsOfProto proto)) ops [] with
      | some (_, l) => (cache, if l.isEmpty then "-" else " ".intercalate l)
      | none => (cache, "bad-op")
    | none => (cache, "bad-op")
  | "conc" :: p :: k :: rest =>
    match p.toNat?, k.toNat? with
    | some proto, some k =>
      match runConc cache proto k rest with
      | (cache', some (obs, st, _, _, _)) =>
        (cache', " ".intercalate obs ++ " | a=" ++ toString (available st.sh) ++ " " ++ showState st.sh.words)
      | (cache', none) => (cache', "bad-op")
    | _, _ => (cache, "bad-op")
  | "mon" :: "conc" :: p :: k :: rest =>
    -- spec-backed: `ok` = uniqueness / range / count / no-panic monitors hold along the run
    match p.toNat?, k.toNat? with
    | some proto, some k =>
      match runConc cache proto k rest with
      | (cache', some (obs, st, protocol, c, w0)) =>
        (cache', if monitorsAny c w0 && (!protocol || monitorsOk obs st) then "ok" else "violated:model")
      | (cache', none) => (cache', "bad-op")
    | _, _ => (cache, "bad-op")
  | "smon" :: p :: ops =>
    match p.toNat?, parseSeqOps ops with
    | some proto, some l =>
      if l.contains (.op (.clear 0)) then (cache, "n/a")
      else
        -- the model of `New(proto)` judged by the specification with the capacity the property prescribes for
        -- the protocol version (C08_sequential_spec_by_protocol)
        (cache, if seqMonH (specCap proto) (Streams.init (wordsOfProto proto)) (specInit (specCap proto)).tbl 0 l then "ok" else "violated:model")
    | _, _ => (cache, "bad-op")
  | _ => (cache, "bad-op")

def init : Cache := []
end Driver.C08
