import Model.Mux
import Model.MuxRx
import Model.MuxOwn
import Driver.Util
namespace Driver.C01
open Util Mux

/-- one monitor per connection id -/
structure S where
  cap : Nat
  mons : List (Nat × Mon)

def init : S := { cap := 128, mons := [] }

def getMon (s : S) (conn : Nat) : Mon :=
  match s.mons.find? (·.1 = conn) with
  | some (_, m) => m
  | none => Mon.init s.cap

def setMon (s : S) (conn : Nat) (m : Mon) : S :=
  { s with mons := (conn, m) :: s.mons.filter (·.1 ≠ conn) }

def verdict (m : Mon) : String :=
  match m.bad with
  | none => "ok"
  | some r => "reject:" ++ r

/-- number of ids a non-closed connection must have available at quiescence:
    all but the reserved 0 and those whose request was never answered -/
def expectedAvail (m : Mon) : Nat :=
  m.cap - 1 - (m.slot.filter fun e => e.2.2 == false).length

/-- items of a scripted socket: `T` = read-deadline expiry point, otherwise hex bytes -/
def parseItems : List String → Option Rx.Src
  | [] => some []
  | "T" :: r => (parseItems r).map (none :: ·)
  | w :: r => do
    let bs ← parseHex w
    let rest ← parseItems r
    pure (bs.map some ++ rest)

def parseIds (w : String) (waiting : Bool) : Option Rx.Calls :=
  if w == "-" then some [] else
  (w.splitOn ",").foldr (fun x acc => do
    let n ← x.toNat?
    let r ← acc
    pure ((n, waiting) :: r)) (some [])

def rxAnswer (proto tmo waiting gone : String) (items : List String) : String :=
  match proto.toNat?, tmo.toNat?, parseIds waiting true, parseIds gone false, parseItems items with
  | some p, some t, some ws, some gs, some src => (Rx.recv p (t != 0) (ws ++ gs) src).text
  | _, _, _, _, _ => "bad-op"

def rdAnswer (tmo k : String) (items : List String) : String :=
  match tmo.toNat?, k.toNat?, parseItems items with
  | some t, some n, some src =>
    let x := Rx.connRead (t != 0) Rx.maxAttempts src n
    let e := match x.2.1 with | .ok => "ok" | .timeout => "tmo" | .eof => "eof"
    s!"{x.1.length}:{e}:{Rx.hex32 (Rx.fnv32 x.1)}:{(Rx.bytes x.2.2).length}"
  | _, _, _ => "bad-op"

/-! ### `dr`: the connection's own requests (heartbeat OPTIONS, USE, PREPARE, REGISTER) next to user requests, and
    transports whose Write returns late - event-ordered scripts run on the machine `Model/MuxOwn.lean` (configuration
    `Cfg.code`: the code that exists). Script grammar: harness/muxrun/own.go. -/

structure OCall where
  typ : Char            -- q user | u USE | p PREPARE | g REGISTER | h heartbeat
  L : Nat               -- body length of the planned RESULT frame (user calls)
  sentB : Nat           -- bytes of its answer written so far
  held : Bool           -- its Write has not returned yet
  due : Bool            -- its whole answer is in the receive loop's hands, waiting for the writer to come back
  answered : Bool

structure OS where
  st : MuxOwn.St
  hl : Nat
  cap : Nat
  hb : Bool
  calls : List OCall
  cur : Option Nat
  out : List String
  term : Bool
  bad : Option String

def OS.act (os : OS) (a : MuxOwn.Act) (what : String) : OS :=
  if os.bad.isSome then os else
  match MuxOwn.step MuxOwn.Cfg.code os.st a with
  | some st' => { os with st := st' }
  | none => { os with bad := some s!"model-stuck:{what}" }

def OS.fail (os : OS) (m : String) : OS := if os.bad.isSome then os else { os with bad := some m }

def OS.anyHeld (os : OS) : Bool := os.calls.any (·.held)

def oWaiting (os : OS) : List Nat :=
  (List.range os.calls.length).filterMap fun k =>
    match os.st.pc (k + 1) with
    | .flight _ true true true => some (k + 1)
    | _ => none

/-- once closeWithError has run every waiting call is handed its argument (or sees the connection's context) -/
def OS.settle (os : OS) : OS :=
  if os.st.closed.isSome then
    { (oWaiting os).foldl (fun os c => os.act (.connDone c) "connDone") os with term := true }
  else os

def OS.start (os : OS) (typ : Char) (L : Nat) (held : Bool) : OS :=
  if os.anyHeld ∨ os.cur.isSome then os.fail "bad-op" else
  let c := os.calls.length + 1
  if c + 1 ≥ os.cap then os.fail "bad-op" else
  let w : MuxOwn.Who := if typ = 'q' then .user else if typ = 'h' then .heartbeat else .internal
  let os := ((os.act (.reserve c c w) "reserve").act (.register c) "register").act (.write c) "write"
  let os := if held then os else os.act (.writeReturned c) "writeReturned"
  { os with calls := os.calls ++ [{ typ := typ, L := L, sentB := 0, held := held, due := false, answered := false }] }

/-- the answer letter the request of a call of this type expects -/
def expected (typ : Char) : Char :=
  if typ = 'h' then 'S' else if typ = 'u' then 'K' else if typ = 'p' then 'P' else if typ = 'g' then 'Y' else 'V'

def kindOf (typ k : Char) : Nat := if k = 'E' then 1 else if k = expected typ then 0 else 2

/-- the whole answer of call i is with the receive loop -/
def OS.complete (os : OS) (i : Nat) (c : OCall) : OS :=
  if c.held then { os with calls := os.calls.set (i - 1) { c with due := true } }
  else
    let os := os.act (.deliver i) "deliver"
    let os := if c.typ = 'h' then os.act (.hbReact i) "hbReact" else os
    os.settle

def OS.pieces (os : OS) (i : Nat) (n : Option Nat) : OS :=
  match os.calls[i - 1]? with
  | none => os.fail "bad-op"
  | some c =>
    if i = 0 ∨ c.typ ≠ 'q' ∨ (os.cur.isSome ∧ os.cur ≠ some i) ∨ (os.anyHeld ∧ ¬ c.held) then os.fail "bad-op" else
    let total := os.hl + c.L
    let k := match n with | some k => k | none => total - c.sentB
    let after := c.sentB + k
    if k = 0 ∨ after > total then os.fail "bad-op" else
    let os := if c.answered then os else os.act (.answer i 0 i) "answer"
    let c := { c with sentB := after, answered := true }
    let os := { os with calls := os.calls.set (i - 1) c, cur := if after = total then none else some i }
    if after = total then os.complete i c else os

def OS.whole (os : OS) (i : Nat) (k : Char) (code : Nat) : OS :=
  match os.calls[i - 1]? with
  | none => os.fail "bad-op"
  | some c =>
    if i = 0 ∨ c.answered ∨ os.cur.isSome ∨ (os.anyHeld ∧ ¬ c.held) then os.fail "bad-op" else
    let os := os.act (.answer i (kindOf c.typ k) (i + 1000 * code)) "answer"
    let c := { c with answered := true, sentB := 1 }
    let os := { os with calls := os.calls.set (i - 1) c }
    os.complete i c

def OS.step (os : OS) (w : String) : OS :=
  if os.bad.isSome then os else
  if os.term then os.fail "bad-op" else
  let held := w.startsWith "!"
  let w := if held then String.ofList (w.toList.drop 1) else w
  match w.toList with
  | 'q' :: r => match (String.ofList r).toNat? with
      | some L => os.start 'q' L held
      | none => os.fail "bad-op"
  | ['u'] => if held then os.fail "bad-op" else os.start 'u' 0 false
  | ['p'] => if held then os.fail "bad-op" else os.start 'p' 0 false
  | ['g'] => if held then os.fail "bad-op" else os.start 'g' 0 false
  | ['h'] => if held ∨ ¬ os.hb then os.fail "bad-op" else os.start 'h' 0 false
  | 'd' :: r =>
      if held then os.fail "bad-op" else
      match (String.ofList r).splitOn "." with
      | [a] => match a.toNat? with
        | some i => os.pieces i none
        | none => os.fail "bad-op"
      | [a, b] => match a.toNat?, b.toNat? with
        | some i, some n => os.pieces i (some n)
        | _, _ => os.fail "bad-op"
      | _ => os.fail "bad-op"
  | 'A' :: r =>
      if held then os.fail "bad-op" else
      match (String.ofList r).splitOn ":" with
      | [a, b] => match a.toNat?, b.toList with
        | some i, [k] => if k = 'E' then os.fail "bad-op" else os.whole i k 0
        | some i, 'E' :: cs => match (String.ofList cs).toNat? with
          | some code => os.whole i 'E' code
          | none => os.fail "bad-op"
        | _, _ => os.fail "bad-op"
      | _ => os.fail "bad-op"
  | 'w' :: r =>
      if held then os.fail "bad-op" else
      match (String.ofList r).toNat? with
      | some i =>
        match os.calls[i - 1]? with
        | none => os.fail "bad-op"
        | some c =>
          if i = 0 then os.fail "bad-op" else
          if ¬ c.held then os else
          let os := os.act (.writeReturned i) "writeReturned"
          let c' := { c with held := false, due := false }
          let os := { os with calls := os.calls.set (i - 1) c' }
          if c.due then os.complete i c' else os
      | none => os.fail "bad-op"
  | 'c' :: r =>
      if held then os.fail "bad-op" else
      match (String.ofList r).toNat? with
      | some i =>
        match os.calls[i - 1]? with
        | none => os.fail "bad-op"
        | some c =>
          if i = 0 ∨ c.typ ≠ 'q' ∨ c.held ∨ os.cur = some i then os.fail "bad-op" else
          match os.st.pc i with
          | .flight _ true true true => os.act (.cancel i) "cancel"
          | _ => os
      | none => os.fail "bad-op"
  | 'v' :: r => if held ∨ os.cur.isSome ∨ os.anyHeld ∨ (String.ofList r).toNat?.isNone then os.fail "bad-op" else os.act .event "event"
  | 'x' :: r => if held ∨ os.cur.isSome ∨ os.anyHeld ∨ (String.ofList r).toNat?.isNone then os.fail "bad-op"
                else os.act (.stray (os.calls.length + 1)) "stray"
  | ['a'] =>
      if held ∨ os.hb then os.fail "bad-op" else
      let n := ((List.range os.calls.length).filter fun k => (os.st.owner (k + 1)).isSome).length
      { os with out := s!"a={n}" :: os.out }
  | ['k'] => if held then os.fail "bad-op" else (os.act .close "close").settle
  | ['z'] => if held then os.fail "bad-op" else (os.act .close "close").settle
  | _ => os.fail "bad-op"

def OS.outcome (os : OS) (i : Nat) (c : OCall) : String :=
  if c.typ = 'h' then "-" else
  match os.st.pc i with
  | .done (.resp f) =>
      if f.sid ≠ i then "F!foreign" else
      if c.typ = 'q' then "R"      -- (Conn.exec hands a user call the frame whatever its kind)
      else if f.kind = 0 then "K"
      else if f.kind = 1 ∧ c.typ ≠ 'g' then "E"
      else "P"
  | .done .ctxErr => "C"
  | .done (.connErr .plain) => "X"
  | .done (.connErr (.frame _)) => "F!foreign"
  | .done .timeout => "T"
  | .done .writeErr => "X"
  | .flight _ _ _ _ => "W"
  | .idle => "?"

def drAnswer (proto wr hb : String) (steps : List String) : String :=
  match proto.toNat?, wr.toNat?, hb.toNat? with
  | some p, some _, some h =>
    if p < 2 ∨ p > 4 ∨ h > 1 then "bad-op" else
    let cap := if p ≤ 2 then 128 else 32768
    let os0 : OS := { st := MuxOwn.init cap, hl := if p ≤ 2 then 8 else 9, cap := cap, hb := h = 1, calls := [], cur := none,
                      out := [], term := false, bad := none }
    let os := steps.foldl OS.step os0
    match os.bad with
    | some b => b
    | none =>
      let outs := (List.range os.calls.length).map fun k =>
        match os.calls[k]? with
        | some c => os.outcome (k + 1) c
        | none => "?"
      " ".intercalate (os.out.reverse ++ [";"] ++ outs ++ ["|", if os.st.closed.isSome then "closed" else "open"])
  | _, _, _ => "bad-op"


/-- the connection on which token `t` was requested (tokens are unique per run) -/
def connOfToken (s : S) (t : Nat) : Nat :=
  match s.mons.find? (fun e => (e.2.sent.any (·.1 == t)) || (e.2.slot.any (·.2.1 == t))) with
  | some (k, _) => k
  | none => 0

def step (s : S) (ws : List String) : S × String :=
  match ws with
  | ["reset", cap] => match cap.toNat? with
      | some c => ({ cap := c, mons := [] }, "ok")
      | none => (s, "bad-op")
  | ["req", conn, st, t] => match conn.toNat?, st.toInt?, t.toNat? with
      | some k, some sid, some tok =>
        if sid < 0 then
          let m := { getMon s k with bad := some s!"stream-out-of-range:{sid}" }
          (setMon s k m, verdict m)
        else
          let m := (getMon s k).step (.req sid.toNat tok)
          (setMon s k m, verdict m)
      | _, _, _ => (s, "bad-op")
  | ["resp", conn, st, t, kd, w] => match conn.toNat?, st.toNat?, t.toNat?, kd.toNat?, w.toNat? with
      | some k, some sid, some tok, some kind, some cont =>
        let m := (getMon s k).step (.resp sid tok kind cont)
        (setMon s k m, verdict m)
      | _, _, _, _, _ => (s, "bad-op")
  | ["got", _, t, kd, u] => match t.toNat?, kd.toNat?, u.toNat? with
      | some a, some kind, some b =>
        let k := connOfToken s a
        let m := (getMon s k).step (.got a kind b)
        (setMon s k m, verdict m)
      | _, _, _ => (s, "bad-op")
  | ["stray", conn, st] => match conn.toNat?, st.toNat? with
      | some k, some sid =>
        let m := (getMon s k).step (.stray sid)
        (setMon s k m, verdict m)
      | _, _ => (s, "bad-op")
  | ["event", conn] => match conn.toNat? with
      | some k =>
        let m := (getMon s k).step .event
        (setMon s k m, verdict m)
      | none => (s, "bad-op")
  | ["avail", conn] => match conn.toNat? with
      | some k => (s, toString (expectedAvail (getMon s k)))
      | none => (s, "bad-op")
  | ["calls", a] => (s, a)      -- every started call must have returned exactly once: answer = number started
  -- a connection that neither side was entitled to close (well-formed frames only, no body stalled for five
  -- read deadlines: Rx theorems) is still open at quiescence …
  | ["alive", _] => (s, "open")
  -- … and every probe request sent then gets its own answer
  | ["probes", n] => (s, n)
  -- the receive loop over a scripted socket (chunks and read-deadline expiries): `rx` = no frame body is
  -- awaited through five deadlines (theorem C01_rx_sync: answer = the frames as sent, each to its call),
  -- `rxk` = the excluded class (known finding), model = code as it is
  | "rx" :: proto :: tmo :: waiting :: gone :: items => (s, rxAnswer proto tmo waiting gone items)
  | "rxk" :: proto :: tmo :: waiting :: gone :: items => (s, rxAnswer proto tmo waiting gone items)
  -- `rxo` = a frame on a reserved stream / with the compressed flag / a truncated stream: model = code as it is
  | "rxo" :: proto :: tmo :: waiting :: gone :: items => (s, rxAnswer proto tmo waiting gone items)
  -- one Conn.Read: `rd` = enough bytes and fewer than five expiries before the k-th byte (theorem C01_rx_read_ok:
  -- exactly the next k bytes), `rdo` = short stream / gives up: model = code as it is
  -- driver-originated requests next to user requests / Write returning late (theorems C01_no_foreign_frame,
  -- C01_registered_before_written, C01_no_response_lost): the outcomes the machine MuxOwn (code configuration) allows
  | "dr" :: proto :: wr :: hb :: steps => (s, drAnswer proto wr hb steps)
  | "rd" :: tmo :: k :: items => (s, rdAnswer tmo k items)
  | "rdo" :: tmo :: k :: items => (s, rdAnswer tmo k items)
  | _ => (s, "bad-op")

end Driver.C01
