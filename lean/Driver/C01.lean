import Model.Mux
import Model.MuxRx
import Driver.Util
namespace Driver.C01
open Util Mux

/-- one monitor per connection id -/
structure S where
  cap : Nat
  mons : List (Nat × Mon)

def init : S := { cap := 128, mons := [] }

def getMon (s : S) (conn : Nat) : Mon :=
  match s.mons.find? (·.1 = conn) with
  | some (_, m) => m
  | none => Mon.init s.cap

def setMon (s : S) (conn : Nat) (m : Mon) : S :=
  { s with mons := (conn, m) :: s.mons.filter (·.1 ≠ conn) }

def verdict (m : Mon) : String :=
  match m.bad with
  | none => "ok"
  | some r => "reject:" ++ r

/-- number of ids a non-closed connection must have available at quiescence:
    all but the reserved 0 and those whose request was never answered -/
def expectedAvail (m : Mon) : Nat :=
  m.cap - 1 - (m.slot.filter fun e => e.2.2 == false).length

/-- items of a scripted socket: `T` = read-deadline expiry point, otherwise hex bytes -/
def parseItems : List String → Option Rx.Src
  | [] => some []
  | "T" :: r => (parseItems r).map (none :: ·)
  | w :: r => do
    let bs ← parseHex w
    let rest ← parseItems r
    pure (bs.map some ++ rest)

def parseIds (w : String) (waiting : Bool) : Option Rx.Calls :=
  if w == "-" then some [] else
  (w.splitOn ",").foldr (fun x acc => do
    let n ← x.toNat?
    let r ← acc
    pure ((n, waiting) :: r)) (some [])

def rxAnswer (proto tmo waiting gone : String) (items : List String) : String :=
  match proto.toNat?, tmo.toNat?, parseIds waiting true, parseIds gone false, parseItems items with
  | some p, some t, some ws, some gs, some src => (Rx.recv p (t != 0) (ws ++ gs) src).text
  | _, _, _, _, _ => "bad-op"

def rdAnswer (tmo k : String) (items : List String) : String :=
  match tmo.toNat?, k.toNat?, parseItems items with
  | some t, some n, some src =>
    let x := Rx.connRead (t != 0) Rx.maxAttempts src n
    let e := match x.2.1 with | .ok => "ok" | .timeout => "tmo" | .eof => "eof"
    s!"{x.1.length}:{e}:{Rx.hex32 (Rx.fnv32 x.1)}:{(Rx.bytes x.2.2).length}"
  | _, _, _ => "bad-op"

/-- the connection on which token `t` was requested (tokens are unique per run) -/
def connOfToken (s : S) (t : Nat) : Nat :=
  match s.mons.find? (fun e => (e.2.sent.any (·.1 == t)) || (e.2.slot.any (·.2.1 == t))) with
  | some (k, _) => k
  | none => 0

def step (s : S) (ws : List String) : S × String :=
  match ws with
  | ["reset", cap] => match cap.toNat? with
      | some c => ({ cap := c, mons := [] }, "ok")
      | none => (s, "bad-op")
  | ["req", conn, st, t] => match conn.toNat?, st.toInt?, t.toNat? with
      | some k, some sid, some tok =>
        if sid < 0 then
          let m := { getMon s k with bad := some s!"stream-out-of-range:{sid}" }
          (setMon s k m, verdict m)
        else
          let m := (getMon s k).step (.req sid.toNat tok)
          (setMon s k m, verdict m)
      | _, _, _ => (s, "bad-op")
  | ["resp", conn, st, t, kd, w] => match conn.toNat?, st.toNat?, t.toNat?, kd.toNat?, w.toNat? with
      | some k, some sid, some tok, some kind, some cont =>
        let m := (getMon s k).step (.resp sid tok kind cont)
        (setMon s k m, verdict m)
      | _, _, _, _, _ => (s, "bad-op")
  | ["got", _, t, kd, u] => match t.toNat?, kd.toNat?, u.toNat? with
      | some a, some kind, some b =>
        let k := connOfToken s a
        let m := (getMon s k).step (.got a kind b)
        (setMon s k m, verdict m)
      | _, _, _ => (s, "bad-op")
  | ["stray", conn, st] => match conn.toNat?, st.toNat? with
      | some k, some sid =>
        let m := (getMon s k).step (.stray sid)
        (setMon s k m, verdict m)
      | _, _ => (s, "bad-op")
  | ["event", conn] => match conn.toNat? with
      | some k =>
        let m := (getMon s k).step .event
        (setMon s k m, verdict m)
      | none => (s, "bad-op")
  | ["avail", conn] => match conn.toNat? with
      | some k => (s, toString (expectedAvail (getMon s k)))
      | none => (s, "bad-op")
  | ["calls", a] => (s, a)      -- every started call must have returned exactly once: answer = number started
  -- a connection that neither side was entitled to close (well-formed frames only, no body stalled for five
  -- read deadlines: Rx theorems) is still open at quiescence …
  | ["alive", _] => (s, "open")
  -- … and every probe request sent then gets its own answer
  | ["probes", n] => (s, n)
  -- the receive loop over a scripted socket (chunks and read-deadline expiries): `rx` = no frame body is
  -- awaited through five deadlines (theorem C01_rx_sync: answer = the frames as sent, each to its call),
  -- `rxk` = the excluded class (known finding), model = code as it is
  | "rx" :: proto :: tmo :: waiting :: gone :: items => (s, rxAnswer proto tmo waiting gone items)
  | "rxk" :: proto :: tmo :: waiting :: gone :: items => (s, rxAnswer proto tmo waiting gone items)
  -- `rxo` = a frame on a reserved stream / with the compressed flag / a truncated stream: model = code as it is
  | "rxo" :: proto :: tmo :: waiting :: gone :: items => (s, rxAnswer proto tmo waiting gone items)
  -- one Conn.Read: `rd` = enough bytes and fewer than five expiries before the k-th byte (theorem C01_rx_read_ok:
  -- exactly the next k bytes), `rdo` = short stream / gives up: model = code as it is
  | "rd" :: tmo :: k :: items => (s, rdAnswer tmo k items)
  | "rdo" :: tmo :: k :: items => (s, rdAnswer tmo k items)
  | _ => (s, "bad-op")

end Driver.C01
