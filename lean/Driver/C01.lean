import Model.Mux
import Model.MuxRx
import Model.MuxOwn
import Driver.Util
namespace Driver.C01
open Util Mux

/-- one monitor per connection id -/
structure S where
  cap : Nat
  mons : List (Nat × Mon)

def init : S := { cap := 128, mons := [] }

def getMon (s : S) (conn : Nat) : Mon :=
  match s.mons.find? (·.1 = conn) with
  | some (_, m) => m
  | none => Mon.init s.cap

def setMon (s : S) (conn : Nat) (m : Mon) : S :=
  { s with mons := (conn, m) :: s.mons.filter (·.1 ≠ conn) }

def verdict (m : Mon) : String :=
  match m.bad with
  | none => "ok"
  | some r => "reject:" ++ r

/-- number of ids a non-closed connection must have available at quiescence:
    all but the reserved 0 and those whose request was never answered -/
def expectedAvail (m : Mon) : Nat :=
  m.cap - 1 - (m.slot.filter fun e => e.2.2 == false).length

/-- items of a scripted socket: `T` = read-deadline expiry point, otherwise hex bytes -/
def parseItems : List String → Option Rx.Src
  | [] => some []
  | "T" :: r => (parseItems r).map (none :: ·)
  | w :: r => do
    let bs ← parseHex w
    let rest ← parseItems r
    pure (bs.map some ++ rest)

def parseIds (w : String) (waiting : Bool) : Option Rx.Calls :=
  if w == "-" then some [] else
  (w.splitOn ",").foldr (fun x acc => do
    let n ← x.toNat?
    let r ← acc
    pure ((n, waiting) :: r)) (some [])

def rxAnswer (proto tmo waiting gone : String) (items : List String) : String :=
  match proto.toNat?, tmo.toNat?, parseIds waiting true, parseIds gone false, parseItems items with
  | some p, some t, some ws, some gs, some src => (Rx.recv p (t != 0) (ws ++ gs) src).text
  | _, _, _, _, _ => "bad-op"

def rdAnswer (tmo k : String) (items : List String) : String :=
  match tmo.toNat?, k.toNat?, parseItems items with
  | some t, some n, some src =>
    let x := Rx.connRead (t != 0) Rx.maxAttempts src n
    let e := match x.2.1 with | .ok => "ok" | .timeout => "tmo" | .eof => "eof"
    s!"{x.1.length}:{e}:{Rx.hex32 (Rx.fnv32 x.1)}:{(Rx.bytes x.2.2).length}"
  | _, _, _ => "bad-op"

/-! ### `dr`: the connection's own requests (heartbeat OPTIONS, USE, PREPARE, REGISTER) next to user requests, and
    transports whose Write returns late - event-ordered scripts run on the machine `Model/MuxOwn.lean` (configuration
    `Cfg.code`: the code that exists). Script grammar: harness/muxrun/own.go. -/

structure OCall where
  typ : Char            -- q user | u USE | p PREPARE | g REGISTER | h heartbeat
  L : Nat               -- body length of the planned RESULT frame (user calls)
  sentB : Nat           -- bytes of its answer written so far
  held : Bool           -- its Write has not returned yet
  due : Bool            -- its whole answer is in the receive loop's hands, waiting for the writer to come back
  answered : Bool

structure OS where
  st : MuxOwn.St
  hl : Nat
  cap : Nat
  hb : Bool
  calls : List OCall
  cur : Option Nat
  out : List String
  term : Bool
  bad : Option String

def OS.act (os : OS) (a : MuxOwn.Act) (what : String) : OS :=
  if os.bad.isSome then os else
  match MuxOwn.step MuxOwn.Cfg.code os.st a with
  | some st' => { os with st := st' }
  | none => { os with bad := some s!"model-stuck:{what}" }

def OS.fail (os : OS) (m : String) : OS := if os.bad.isSome then os else { os with bad := some m }

def OS.anyHeld (os : OS) : Bool := os.calls.any (·.held)

def oWaiting (os : OS) : List Nat :=
  (List.range os.calls.length).filterMap fun k =>
    match os.st.pc (k + 1) with
    | .flight _ true true true => some (k + 1)
    | _ => none

/-- once closeWithError has run every waiting call is handed its argument (or sees the connection's context) -/
def OS.settle (os : OS) : OS :=
  if os.st.closed.isSome then
    { (oWaiting os).foldl (fun os c => os.act (.connDone c) "connDone") os with term := true }
  else os

def OS.start (os : OS) (typ : Char) (L : Nat) (held : Bool) : OS :=
  if os.anyHeld ∨ os.cur.isSome then os.fail "bad-op" else
  let c := os.calls.length + 1
  if c + 1 ≥ os.cap then os.fail "bad-op" else
  let w : MuxOwn.Who := if typ = 'q' then .user else if typ = 'h' then .heartbeat else .internal
  let os := ((os.act (.reserve c c w) "reserve").act (.register c) "register").act (.write c) "write"
  let os := if held then os else os.act (.writeReturned c) "writeReturned"
  { os with calls := os.calls ++ [{ typ := typ, L := L, sentB := 0, held := held, due := false, answered := false }] }

/-- the answer letter the request of a call of this type expects -/
def expected (typ : Char) : Char :=
  if typ = 'h' then 'S' else if typ = 'u' then 'K' else if typ = 'p' then 'P' else if typ = 'g' then 'Y' else 'V'

def kindOf (typ k : Char) : Nat := if k = 'E' then 1 else if k = expected typ then 0 else 2

/-- the caller that was handed its response calls releaseStream before it returns -/
def OS.relAll (os : OS) (i : Nat) : OS :=
  if os.st.rel i = .due then (os.act (.release i) "release").act (.relDone i) "relDone" else os

/-- the whole answer of call i is with the receive loop -/
def OS.complete (os : OS) (i : Nat) (c : OCall) : OS :=
  if c.held then { os with calls := os.calls.set (i - 1) { c with due := true } }
  else
    let os := (os.act (.deliver i) "deliver").relAll i
    let os := if c.typ = 'h' then os.act (.hbReact i) "hbReact" else os
    os.settle

def OS.pieces (os : OS) (i : Nat) (n : Option Nat) : OS :=
  match os.calls[i - 1]? with
  | none => os.fail "bad-op"
  | some c =>
    if i = 0 ∨ c.typ ≠ 'q' ∨ (os.cur.isSome ∧ os.cur ≠ some i) ∨ (os.anyHeld ∧ ¬ c.held) then os.fail "bad-op" else
    let total := os.hl + c.L
    let k := match n with | some k => k | none => total - c.sentB
    let after := c.sentB + k
    if k = 0 ∨ after > total then os.fail "bad-op" else
    let os := if c.answered then os else os.act (.answer i 0 i) "answer"
    let c := { c with sentB := after, answered := true }
    let os := { os with calls := os.calls.set (i - 1) c, cur := if after = total then none else some i }
    if after = total then os.complete i c else os

def OS.whole (os : OS) (i : Nat) (k : Char) (code : Nat) : OS :=
  match os.calls[i - 1]? with
  | none => os.fail "bad-op"
  | some c =>
    if i = 0 ∨ c.answered ∨ os.cur.isSome ∨ (os.anyHeld ∧ ¬ c.held) then os.fail "bad-op" else
    let os := os.act (.answer i (kindOf c.typ k) (i + 1000 * code)) "answer"
    let c := { c with answered := true, sentB := 1 }
    let os := { os with calls := os.calls.set (i - 1) c }
    os.complete i c

def OS.step (os : OS) (w : String) : OS :=
  if os.bad.isSome then os else
  if os.term then os.fail "bad-op" else
  let held := w.startsWith "!"
  let w := if held then String.ofList (w.toList.drop 1) else w
  match w.toList with
  | 'q' :: r => match (String.ofList r).toNat? with
      | some L => os.start 'q' L held
      | none => os.fail "bad-op"
  | ['u'] => if held then os.fail "bad-op" else os.start 'u' 0 false
  | ['p'] => if held then os.fail "bad-op" else os.start 'p' 0 false
  | ['g'] => if held then os.fail "bad-op" else os.start 'g' 0 false
  | ['h'] => if held ∨ ¬ os.hb then os.fail "bad-op" else os.start 'h' 0 false
  | 'd' :: r =>
      if held then os.fail "bad-op" else
      match (String.ofList r).splitOn "." with
      | [a] => match a.toNat? with
        | some i => os.pieces i none
        | none => os.fail "bad-op"
      | [a, b] => match a.toNat?, b.toNat? with
        | some i, some n => os.pieces i (some n)
        | _, _ => os.fail "bad-op"
      | _ => os.fail "bad-op"
  | 'A' :: r =>
      if held then os.fail "bad-op" else
      match (String.ofList r).splitOn ":" with
      | [a, b] => match a.toNat?, b.toList with
        | some i, [k] => if k = 'E' then os.fail "bad-op" else os.whole i k 0
        | some i, 'E' :: cs => match (String.ofList cs).toNat? with
          | some code => os.whole i 'E' code
          | none => os.fail "bad-op"
        | _, _ => os.fail "bad-op"
      | _ => os.fail "bad-op"
  | 'w' :: r =>
      if held then os.fail "bad-op" else
      match (String.ofList r).toNat? with
      | some i =>
        match os.calls[i - 1]? with
        | none => os.fail "bad-op"
        | some c =>
          if i = 0 then os.fail "bad-op" else
          if ¬ c.held then os else
          let os := os.act (.writeReturned i) "writeReturned"
          let c' := { c with held := false, due := false }
          let os := { os with calls := os.calls.set (i - 1) c' }
          if c.due then os.complete i c' else os
      | none => os.fail "bad-op"
  | 'c' :: r =>
      if held then os.fail "bad-op" else
      match (String.ofList r).toNat? with
      | some i =>
        match os.calls[i - 1]? with
        | none => os.fail "bad-op"
        | some c =>
          if i = 0 ∨ c.typ ≠ 'q' ∨ c.held ∨ os.cur = some i then os.fail "bad-op" else
          match os.st.pc i with
          | .flight _ true true true => os.act (.cancel i) "cancel"
          | _ => os
      | none => os.fail "bad-op"
  | 'v' :: r => if held ∨ os.cur.isSome ∨ os.anyHeld ∨ (String.ofList r).toNat?.isNone then os.fail "bad-op" else os.act .event "event"
  | 'x' :: r => if held ∨ os.cur.isSome ∨ os.anyHeld ∨ (String.ofList r).toNat?.isNone then os.fail "bad-op"
                else os.act (.stray (os.calls.length + 1)) "stray"
  | ['a'] =>
      if held ∨ os.hb then os.fail "bad-op" else
      let n := ((List.range os.calls.length).filter fun k => (os.st.owner (k + 1)).isSome).length
      { os with out := s!"a={n}" :: os.out }
  | ['k'] => if held then os.fail "bad-op" else (os.act .close "close").settle
  | ['z'] => if held then os.fail "bad-op" else (os.act .close "close").settle
  | _ => os.fail "bad-op"

def OS.outcome (os : OS) (i : Nat) (c : OCall) : String :=
  if c.typ = 'h' then "-" else
  match os.st.pc i with
  | .done (.resp f) =>
      if f.sid ≠ i then "F!foreign" else
      if c.typ = 'q' then "R"      -- (Conn.exec hands a user call the frame whatever its kind)
      else if f.kind = 0 then "K"
      else if f.kind = 1 ∧ c.typ ≠ 'g' then "E"
      else "P"
  | .done .ctxErr => "C"
  | .done (.connErr .plain) => "X"
  | .done (.connErr (.frame _)) => "F!foreign"
  | .done .timeout => "T"
  | .done .writeErr => "X"
  | .done .buildErr => "B"
  | .done .dupErr => "D!stream-in-use"
  | .flight _ _ _ _ => "W"
  | .idle => "?"

def drAnswer (proto wr hb : String) (steps : List String) : String :=
  match proto.toNat?, wr.toNat?, hb.toNat? with
  | some p, some _, some h =>
    if p < 2 ∨ p > 4 ∨ h > 1 then "bad-op" else
    let cap := if p ≤ 2 then 128 else 32768
    let os0 : OS := { st := MuxOwn.init cap, hl := if p ≤ 2 then 8 else 9, cap := cap, hb := h = 1, calls := [], cur := none,
                      out := [], term := false, bad := none }
    let os := steps.foldl OS.step os0
    match os.bad with
    | some b => b
    | none =>
      let outs := (List.range os.calls.length).map fun k =>
        match os.calls[k]? with
        | some c => os.outcome (k + 1) c
        | none => "?"
      " ".intercalate (os.out.reverse ++ [";"] ++ outs ++ ["|", if os.st.closed.isSome then "closed" else "open"])
  | _, _, _ => "bad-op"


/-! ### `ds`: schedule points inside exec and releaseStream, several connections (round 7). Event-ordered scripts
    over TWO bare connections of one process, run on one machine `Model/MuxOwn.lean` (configuration `Cfg.code`) per
    connection, with the stream-id allocator of internal/streams as it is (rotating bucket offset, lowest free id of the
    first bucket that has one). Script grammar: harness/muxrun/sched.go. -/

structure DCall where
  typ : Char            -- q user request | b user request whose buildFrame fails
  conn : Nat
  L : Nat
  sentB : Nat := 0
  held : Bool := false      -- inside Write
  queued : Bool := false    -- registered, waiting for the write slot behind a held Write
  park : Bool := false      -- its releaseStream will stop in the StreamFinished callback
  parked : Bool := false    -- it is there now (streams.Clear has run)
  due : Bool := false
  answered : Bool := false
  written : Bool := false
  gated : Bool := false     -- stopped in the StreamContext callback: id reserved, not registered
  anyId : Bool := false     -- started together with others: which id it was given is not determined

structure DConn where
  st : MuxOwn.St
  off : Nat                 -- IDGenerator.offset
  cur : Option Nat := none
  zed : Bool := false       -- `z` / `k` was given
  fault : Option Nat := none   -- a write fault is armed: the peer accepts this many more request frames

structure DS where
  hl : Nat
  nb : Nat
  cap : Nat
  conns : List DConn
  direct : Bool := true     -- the direct writer (no coalescing)
  cc : Nat                  -- current connection (1-based)
  calls : List DCall
  out : List String
  bad : Option String

def DS.fail (ds : DS) (m : String) : DS := if ds.bad.isSome then ds else { ds with bad := some m }

def DS.act (ds : DS) (k : Nat) (a : MuxOwn.Act) (what : String) : DS :=
  if ds.bad.isSome then ds else
  match ds.conns[k - 1]? with
  | none => ds.fail "bad-op"
  | some cn =>
    match MuxOwn.step MuxOwn.Cfg.code cn.st a with
    | some st' => { ds with conns := ds.conns.set (k - 1) { cn with st := st' } }
    | none => ds.fail s!"model-stuck:{what}"

def DS.setCall (ds : DS) (i : Nat) (c : DCall) : DS := { ds with calls := ds.calls.set (i - 1) c }
def DS.setConn (ds : DS) (k : Nat) (f : DConn → DConn) : DS :=
  match ds.conns[k - 1]? with
  | some cn => { ds with conns := ds.conns.set (k - 1) (f cn) }
  | none => ds

def DS.stOf (ds : DS) (k : Nat) : MuxOwn.St :=
  match ds.conns[k - 1]? with
  | some cn => cn.st
  | none => MuxOwn.init 0

def DS.heldOn (ds : DS) (k : Nat) : Bool := ds.calls.any fun c => c.conn == k && c.held

/-- IDGenerator.GetStream, sequential: the offset moves on by one bucket, the first bucket from there that has a free
    id gives its lowest one (id 0 is never free) -/
def dAlloc (nb off : Nat) (used : Nat → Bool) : Option (Nat × Nat) :=
  let off' := (off + 1) % nb
  ((List.range nb).findSome? fun i =>
    let pos := (i + off') % nb
    ((List.range 64).find? fun j => !(used (pos * 64 + j))).map fun j => pos * 64 + j).map fun s => (s, off')

/-- once closeWithError has run every waiting call of the connection is handed its argument -/
def DS.settle (ds : DS) (k : Nat) : DS :=
  if (ds.stOf k).closed.isSome then
    (List.range ds.calls.length).foldl (fun ds j =>
      match ds.calls[j]? with
      | some c => if c.conn = k then
          (match (ds.stOf k).pc (j + 1) with
           | .flight _ true true true => ds.act k (.connDone (j + 1)) "connDone"
           | _ => ds)
        else ds
      | none => ds) ds
  else ds

/-- releaseStream of call i: streams.Clear, then the StreamFinished callback (which parks a call marked `%`) -/
def DS.release (ds : DS) (i : Nat) (c : DCall) : DS :=
  if (ds.stOf c.conn).rel i = .due then
    let ds := ds.act c.conn (.release i) "release"
    if c.park then ds.setCall i { c with parked := true } else ds.act c.conn (.relDone i) "relDone"
  else ds

def DS.start (ds : DS) (typ : Char) (L : Nat) (held park : Bool) (gate : Bool := false) : DS :=
  let k := ds.cc
  match ds.conns[k - 1]? with
  | none => ds.fail "bad-op"
  | some cn =>
    let busy := ds.heldOn k
    if cn.zed ∨ cn.cur.isSome ∨ (held ∧ busy) ∨ ds.calls.length ≥ 40 then ds.fail "bad-op" else
    match dAlloc ds.nb cn.off (fun s => s == 0 || (cn.st.owner s).isSome) with
    | none => ds.fail "bad-op"
    | some (sid, off') =>
      let i := ds.calls.length + 1
      let c : DCall := { typ := typ, conn := k, L := L, held := held, park := park }
      let ds := { ds with calls := ds.calls ++ [c] }
      let ds := ds.setConn k fun cn => { cn with off := off' }
      if gate then (ds.act k (.reserve i sid .user) "reserve").setCall i { c with gated := true } else
      let ds := (ds.act k (.reserve i sid .user) "reserve").act k (.register i) "register"
      if typ = 'b' then
        (ds.act k (.buildFailed i) "buildFailed").release i c
      else if busy then ds.setCall i { c with queued := true }
      else
        let ds := ds.act k (.write i) "write"
        let ds := if held then ds else ds.act k (.writeReturned i) "writeReturned"
        ds.setCall i { c with written := true }

def DS.complete (ds : DS) (i : Nat) (c : DCall) : DS :=
  if c.held then ds.setCall i { c with due := true }
  else
    let sid := (ds.stOf c.conn).sidOf i
    let ds := ds.act c.conn (.deliver sid) "deliver"
    let ds := ds.release i c
    ds.settle c.conn

def DS.answerable (ds : DS) (i : Nat) (c : DCall) : Bool :=
  match ds.conns[c.conn - 1]? with
  | none => false
  | some cn => i != 0 && c.typ == 'q' && c.written && !cn.zed && !(ds.heldOn c.conn && !c.held)

def DS.pieces (ds : DS) (i : Nat) (n : Option Nat) : DS :=
  match ds.calls[i - 1]? with
  | none => ds.fail "bad-op"
  | some c =>
    let cur := match ds.conns[c.conn - 1]? with | some cn => cn.cur | none => none
    if ¬ ds.answerable i c ∨ (cur.isSome ∧ cur ≠ some i) ∨ (c.answered ∧ cur ≠ some i) then ds.fail "bad-op" else
    let total := ds.hl + c.L
    let k := match n with | some k => k | none => total - c.sentB
    let after := c.sentB + k
    if k = 0 ∨ after > total then ds.fail "bad-op" else
    let sid := (ds.stOf c.conn).sidOf i
    let ds := if c.answered then ds else ds.act c.conn (.answer sid 0 i) "answer"
    let c := { c with sentB := after, answered := true }
    let ds := (ds.setCall i c).setConn c.conn fun cn => { cn with cur := if after = total then none else some i }
    if after = total then ds.complete i c else ds

def DS.whole (ds : DS) (i : Nat) (k : Char) (code : Nat) : DS :=
  match ds.calls[i - 1]? with
  | none => ds.fail "bad-op"
  | some c =>
    let cur := match ds.conns[c.conn - 1]? with | some cn => cn.cur | none => none
    if ¬ ds.answerable i c ∨ c.answered ∨ cur.isSome ∨ (k ≠ 'V' ∧ k ≠ 'E') then ds.fail "bad-op" else
    let sid := (ds.stOf c.conn).sidOf i
    let ds := ds.act c.conn (.answer sid (kindOf c.typ k) (i + 1000 * code)) "answer"
    let c := { c with answered := true, sentB := 1 }
    (ds.setCall i c).complete i c

def DS.quiet (ds : DS) (k : Nat) : Bool :=   -- nothing of connection k is in the receive loop's hands
  match ds.conns[k - 1]? with
  | none => false
  | some cn => cn.cur.isNone && !(ds.calls.any fun c => c.conn == k && c.due)

/-- the StreamContext callback of call i returns: addCall, then on to the write slot -/
def DS.ungate (ds : DS) (i : Nat) (c : DCall) : DS :=
  if ¬ c.gated then ds else
  let k := c.conn
  let ds := ds.act k (.register i) "register"
  let c := { c with gated := false }
  match (ds.stOf k).pc i with
  | .flight _ true false false =>
      if ds.heldOn k then ds.setCall i { c with queued := true }
      else ((ds.act k (.write i) "write").act k (.writeReturned i) "writeReturned").setCall i { c with written := true }
  | _ => ds.setCall i c          -- addCall refused: ErrConnectionClosed (the id stays reserved)

/-- `Q<n>` after `t<k>`: n calls started together; the peer accepts k request frames, then one Write reports the write
    deadline: that call closes the connection (closeWithError(err)), the calls whose frames were accepted are handed the
    error, the others fail in Write / in addCall. Which call is which is not determined - every one ends with an error
    of the connection, every id stays reserved. -/
def DS.batch (ds : DS) (n k : Nat) : DS :=
  let kc := ds.cc
  let ds := (List.range n).foldl (fun ds j =>
    match ds.conns[kc - 1]? with
    | none => ds.fail "bad-op"
    | some cn =>
      match dAlloc ds.nb cn.off (fun s => s == 0 || (cn.st.owner s).isSome) with
      | none => ds.fail "bad-op"
      | some (sid, off') =>
        let i := ds.calls.length + 1
        let c : DCall := { typ := 'q', conn := kc, L := 5, anyId := true }
        let ds := { ds with calls := ds.calls ++ [c] }
        let ds := ds.setConn kc fun cn => { cn with off := off' }
        let ds := (ds.act kc (.reserve i sid .user) "reserve").act kc (.register i) "register"
        if j < k then ((ds.act kc (.write i) "write").act kc (.writeReturned i) "writeReturned").setCall i { c with written := true }
        else ds) ds
  let first := ds.calls.length - n
  let ds := (List.range n).foldl (fun ds j => if j < k then ds else ds.act kc (.writeFailed (first + j + 1)) "writeFailed") ds
  let ds := ds.setConn kc fun cn => { cn with zed := true, fault := none }
  let ds := { ds with calls := ds.calls.map fun (c : DCall) => if c.conn = kc then { c with park := false } else c }
  ds.settle kc

def DS.step (ds : DS) (w : String) : DS :=
  if ds.bad.isSome then ds else
  let gate := w.startsWith "^"
  let w := if gate then String.ofList (w.toList.drop 1) else w
  let held := w.startsWith "!"
  let w := if held then String.ofList (w.toList.drop 1) else w
  let park := w.endsWith "%"
  let w := if park then String.ofList (w.toList.dropLast) else w
  let plain := ¬ held ∧ ¬ park ∧ ¬ gate
  match w.toList with
  | 'q' :: r => match (String.ofList r).toNat? with
      | some L => if gate ∧ held then ds.fail "bad-op" else ds.start 'q' L held park gate
      | none => ds.fail "bad-op"
  | 'e' :: r =>
      -- a context deadline passes while the peer has stopped reading in the middle of the request's frame: the direct
      -- writer's Write is not bounded by the context, the whole frame goes out; the call returns the context error and
      -- keeps its id (C01_own_no_reuse_while_late)
      match (String.ofList r).splitOn ".", ds.conns[ds.cc - 1]? with
      | [a, b], some cn => match a.toNat?, b.toNat? with
        | some L, some nb =>
          if ¬ plain ∨ ¬ ds.direct ∨ nb < 1 ∨ L > 1048576 ∨ cn.zed ∨ cn.cur.isSome ∨ ds.heldOn ds.cc ∨ ds.calls.length ≥ 40 then ds.fail "bad-op" else
          let ds := ds.start 'q' L false false
          ds.act ds.cc (.cancel ds.calls.length) "cancel"
        | _, _ => ds.fail "bad-op"
      | _, _ => ds.fail "bad-op"
  | 't' :: r =>
      match (String.ofList r).toNat?, ds.conns[ds.cc - 1]? with
      | some k, some cn => if ¬ plain ∨ k > 8 ∨ cn.zed ∨ cn.fault.isSome then ds.fail "bad-op"
                           else ds.setConn ds.cc fun cn => { cn with fault := some k }
      | _, _ => ds.fail "bad-op"
  | 'Q' :: r =>
      match (String.ofList r).toNat?, ds.conns[ds.cc - 1]? with
      | some n, some cn =>
        let busy := ds.calls.any fun c => c.conn == ds.cc && (c.held || c.queued || c.gated)
        (match cn.fault with
         | some k => if ¬ plain ∨ n < 1 ∨ n > 6 ∨ k ≥ n ∨ cn.zed ∨ ¬ ds.quiet ds.cc ∨ busy ∨ ds.calls.length + n > 40 then ds.fail "bad-op"
                     else ds.batch n k
         | none => ds.fail "bad-op")
      | _, _ => ds.fail "bad-op"
  | 's' :: r =>
      match (String.ofList r).toNat? with
      | some i =>
        match ds.calls[i - 1]? with
        | none => ds.fail "bad-op"
        | some c => if i = 0 ∨ ¬ plain then ds.fail "bad-op" else (ds.ungate i c).settle c.conn
      | none => ds.fail "bad-op"
  | ['b'] => if held ∨ gate then ds.fail "bad-op" else ds.start 'b' 0 false park
  | '@' :: r => match (String.ofList r).toNat? with
      | some k => if plain ∧ 1 ≤ k ∧ k ≤ ds.conns.length then { ds with cc := k } else ds.fail "bad-op"
      | none => ds.fail "bad-op"
  | 'd' :: r =>
      if ¬ plain then ds.fail "bad-op" else
      match (String.ofList r).splitOn "." with
      | [a] => match a.toNat? with
        | some i => ds.pieces i none
        | none => ds.fail "bad-op"
      | [a, b] => match a.toNat?, b.toNat? with
        | some i, some n => ds.pieces i (some n)
        | _, _ => ds.fail "bad-op"
      | _ => ds.fail "bad-op"
  | 'A' :: r =>
      if ¬ plain then ds.fail "bad-op" else
      match (String.ofList r).splitOn ":" with
      | [a, b] => match a.toNat?, b.toList with
        | some i, [k] => if k = 'E' then ds.fail "bad-op" else ds.whole i k 0
        | some i, 'E' :: cs => match (String.ofList cs).toNat? with
          | some code => ds.whole i 'E' code
          | none => ds.fail "bad-op"
        | _, _ => ds.fail "bad-op"
      | _ => ds.fail "bad-op"
  | 'w' :: r =>
      match (String.ofList r).toNat? with
      | some i =>
        match ds.calls[i - 1]? with
        | none => ds.fail "bad-op"
        | some c =>
          if i = 0 ∨ ¬ plain then ds.fail "bad-op" else
          if ¬ c.held then ds else
          let ds := ds.act c.conn (.writeReturned i) "writeReturned"
          let c' := { c with held := false, due := false }
          let ds := ds.setCall i c'
          -- the write slot is free: every call that was waiting for it writes now
          let ds := (List.range ds.calls.length).foldl (fun ds j =>
            match ds.calls[j]? with
            | some q => if q.conn = c.conn ∧ q.queued then
                ((ds.act q.conn (.write (j + 1)) "write").act q.conn (.writeReturned (j + 1)) "writeReturned").setCall (j + 1)
                  { q with queued := false, written := true }
              else ds
            | none => ds) ds
          if c.due then ds.complete i c' else ds.settle c.conn
      | none => ds.fail "bad-op"
  | 'c' :: r =>
      match (String.ofList r).toNat? with
      | some i =>
        match ds.calls[i - 1]? with
        | none => ds.fail "bad-op"
        | some c =>
          let cur := match ds.conns[c.conn - 1]? with | some cn => cn.cur | none => none
          if i = 0 ∨ ¬ plain ∨ c.typ ≠ 'q' ∨ c.held ∨ c.gated ∨ cur = some i then ds.fail "bad-op" else
          if c.queued then
            let ds := ds.act c.conn (.writeCancelled i) "writeCancelled"
            let c' := { c with queued := false }
            (ds.setCall i c').release i c'
          else
            match (ds.stOf c.conn).pc i with
            | .flight _ true true true => ds.act c.conn (.cancel i) "cancel"
            | _ => ds
      | none => ds.fail "bad-op"
  | 'f' :: r =>
      match (String.ofList r).toNat? with
      | some i =>
        match ds.calls[i - 1]? with
        | none => ds.fail "bad-op"
        | some c =>
          if i = 0 ∨ ¬ plain then ds.fail "bad-op" else
          if c.parked then (ds.act c.conn (.relDone i) "relDone").setCall i { c with parked := false, park := false }
          else ds.setCall i { c with park := false }
      | none => ds.fail "bad-op"
  | 'v' :: r =>
      if ¬ plain ∨ ¬ ds.quiet ds.cc ∨ ds.heldOn ds.cc ∨ (String.ofList r).toNat?.isNone ∨ (ds.stOf ds.cc).closed.isSome then ds.fail "bad-op"
      else ds.act ds.cc .event "event"
  | 'x' :: r =>
      if ¬ plain ∨ ¬ ds.quiet ds.cc ∨ ds.heldOn ds.cc ∨ (String.ofList r).toNat?.isNone ∨ (ds.stOf ds.cc).closed.isSome then ds.fail "bad-op"
      else ds.act ds.cc (.stray (ds.cap - 1)) "stray"
  | ['a'] =>
      if ¬ plain then ds.fail "bad-op" else
      let st := ds.stOf ds.cc
      let n := ((List.range ds.calls.length).filter fun j =>
        match ds.calls[j]? with
        | some c => c.conn == ds.cc && st.owner (st.sidOf (j + 1)) == some (j + 1)
        | none => false).length
      { ds with out := s!"a={n}" :: ds.out }
  | [z] =>
      if z ≠ 'k' ∧ z ≠ 'z' then ds.fail "bad-op" else
      let k := ds.cc
      let busy := ds.calls.any fun c => c.conn == k && (c.held || c.queued || c.parked)
      if ¬ plain ∨ ¬ ds.quiet k ∨ (ds.stOf k).closed.isSome ∨ (z = 'k' ∧ busy) then ds.fail "bad-op" else
      let ds := ds.act k .close "close"
      let ds := ds.setConn k fun cn => { cn with zed := true }
      -- (closeWithError and releaseStream share one Once per call for StreamAbandoned / StreamFinished: from here on
      --  no call of this connection is parked any more)
      let ds := { ds with calls := ds.calls.map fun (c : DCall) => if c.conn = k then { c with park := false } else c }
      ds.settle k
  | _ => ds.fail "bad-op"

def DS.outcome (ds : DS) (i : Nat) (c : DCall) : String :=
  if c.parked then "W" else
  match (ds.stOf c.conn).pc i with
  | .done (.resp f) => if f.sid ≠ (ds.stOf c.conn).sidOf i then "F!foreign" else "R"
  | .done .ctxErr => "C"
  | .done (.connErr .plain) => "X"
  | .done (.connErr (.frame _)) => "F!foreign"
  | .done .timeout => "T"
  | .done .writeErr => "X"
  | .done .buildErr => "B"
  | .done .dupErr => "D!stream-in-use"
  | .flight _ _ _ _ => "W"
  | .idle => "?"

def dsAnswer (proto wr : String) (steps : List String) : String :=
  match proto.toNat?, wr.toNat? with
  | some p, some wrn =>
    if p < 2 ∨ p > 4 then "bad-op" else
    let cap := if p ≤ 2 then 128 else 32768
    let nb := cap / 64
    let cn : DConn := { st := MuxOwn.init cap, off := nb - 1 }
    let ds0 : DS := { hl := if p ≤ 2 then 8 else 9, nb := nb, cap := cap, conns := [cn, cn], direct := wrn == 0, cc := 1, calls := [], out := [], bad := none }
    let ds := steps.foldl DS.step ds0
    -- (a script must let the calls that keep closeWithError waiting get on)
    let ds := if ds.calls.any (fun c => (c.held || c.queued) && (ds.stOf c.conn).closed.isSome) then ds.fail "bad-op" else ds
    match ds.bad with
    | some b => b
    | none =>
      let idx := List.range ds.calls.length
      let sids := idx.map fun j => match ds.calls[j]? with
        | some c => if c.anyId then "*" else if c.written then toString ((ds.stOf c.conn).sidOf (j + 1)) else "-"
        | none => "?"
      let outs := idx.map fun j => match ds.calls[j]? with
        | some c => ds.outcome (j + 1) c
        | none => "?"
      let cs := ds.conns.map fun cn => if cn.st.closed.isSome then "closed" else "open"
      -- (`dup=0`: every request frame the peer read, it read once - C01_own_monitor_sound: a second `req` on an id whose
      --  request is outstanding is in no run of the machine)
      " ".intercalate (["s=" ++ ",".intercalate sids] ++ ds.out.reverse ++ ["dup=0", ";"] ++ outs ++ ["|"] ++ cs)
  | _, _ => "bad-op"


/-- the connection on which token `t` was requested (tokens are unique per run) -/
def connOfToken (s : S) (t : Nat) : Nat :=
  match s.mons.find? (fun e => (e.2.sent.any (·.1 == t)) || (e.2.slot.any (·.2.1 == t))) with
  | some (k, _) => k
  | none => 0

def step (s : S) (ws : List String) : S × String :=
  match ws with
  | ["reset", cap] => match cap.toNat? with
      | some c => ({ cap := c, mons := [] }, "ok")
      | none => (s, "bad-op")
  | ["req", conn, st, t] => match conn.toNat?, st.toInt?, t.toNat? with
      | some k, some sid, some tok =>
        if sid < 0 then
          let m := { getMon s k with bad := some s!"stream-out-of-range:{sid}" }
          (setMon s k m, verdict m)
        else
          let m := (getMon s k).step (.req sid.toNat tok)
          (setMon s k m, verdict m)
      | _, _, _ => (s, "bad-op")
  | ["resp", conn, st, t, kd, w] => match conn.toNat?, st.toNat?, t.toNat?, kd.toNat?, w.toNat? with
      | some k, some sid, some tok, some kind, some cont =>
        let m := (getMon s k).step (.resp sid tok kind cont)
        (setMon s k m, verdict m)
      | _, _, _, _, _ => (s, "bad-op")
  | ["got", _, t, kd, u] => match t.toNat?, kd.toNat?, u.toNat? with
      | some a, some kind, some b =>
        let k := connOfToken s a
        let m := (getMon s k).step (.got a kind b)
        (setMon s k m, verdict m)
      | _, _, _ => (s, "bad-op")
  | ["stray", conn, st] => match conn.toNat?, st.toNat? with
      | some k, some sid =>
        let m := (getMon s k).step (.stray sid)
        (setMon s k m, verdict m)
      | _, _ => (s, "bad-op")
  | ["event", conn] => match conn.toNat? with
      | some k =>
        let m := (getMon s k).step .event
        (setMon s k m, verdict m)
      | none => (s, "bad-op")
  | ["avail", conn] => match conn.toNat? with
      | some k => (s, toString (expectedAvail (getMon s k)))
      | none => (s, "bad-op")
  | ["calls", a] => (s, a)      -- every started call must have returned exactly once: answer = number started
  -- a connection that neither side was entitled to close (well-formed frames only, no body stalled for five
  -- read deadlines: Rx theorems) is still open at quiescence …
  | ["alive", _] => (s, "open")
  -- … and every probe request sent then gets its own answer
  | ["probes", n] => (s, n)
  -- the receive loop over a scripted socket (chunks and read-deadline expiries): `rx` = no frame body is
  -- awaited through five deadlines (theorem C01_rx_sync: answer = the frames as sent, each to its call),
  -- `rxk` = the excluded class (known finding), model = code as it is
  | "rx" :: proto :: tmo :: waiting :: gone :: items => (s, rxAnswer proto tmo waiting gone items)
  | "rxk" :: proto :: tmo :: waiting :: gone :: items => (s, rxAnswer proto tmo waiting gone items)
  -- `rxo` = a frame on a reserved stream / with the compressed flag / a truncated stream: model = code as it is
  | "rxo" :: proto :: tmo :: waiting :: gone :: items => (s, rxAnswer proto tmo waiting gone items)
  -- one Conn.Read: `rd` = enough bytes and fewer than five expiries before the k-th byte (theorem C01_rx_read_ok:
  -- exactly the next k bytes), `rdo` = short stream / gives up: model = code as it is
  -- driver-originated requests next to user requests / Write returning late (theorems C01_no_foreign_frame,
  -- C01_registered_before_written, C01_no_response_lost): the outcomes the machine MuxOwn (code configuration) allows
  | "dr" :: proto :: wr :: hb :: steps => (s, drAnswer proto wr hb steps)
  -- schedule points inside exec's exits and releaseStream (id freed, callback running, a new request on the same id),
  -- calls waiting for the write slot, close while calls are inside exec, two connections (theorems
  -- C01_release_window_safe, C01_registered_id_is_held, C01_early_exit_frees_id, C01_connections_independent)
  | "ds" :: proto :: wr :: steps => (s, dsAnswer proto wr steps)
  | "rd" :: tmo :: k :: items => (s, rdAnswer tmo k items)
  | "rdo" :: tmo :: k :: items => (s, rdAnswer tmo k items)
  | _ => (s, "bad-op")

end Driver.C01
