import Model.Placement
import Model.PlacementPol
import Driver.Util
namespace Driver.C10
open Placement PlacementPol

/-- state = the cluster of the last `reset`: the ring (tokenRing.hosts is not consulted by the placement code any more);
after `resetpol`: the universe of host objects and the token-aware policy's metadata state -/
structure Cl where
  ring : List Entry := []
  uni : List PHost := []
  /-- after `resetord`: the layout under the ordered partitioner, every token as its bytes -/
  ohosts : List (Host × List (List Nat)) := []
  pol : PolState := polInit 9 (fun _ => none)

def init : Cl := {}

def parseHost (s : String) : Option (Host × List Int) :=
  match s.splitOn "/" with
  | [i, d, r, ts] => do
    let id ← i.toNat?
    let dc ← d.toNat?
    let rack ← r.toNat?
    let toks ← if ts == "-" then some [] else (ts.splitOn ",").mapM String.toInt?
    pure ({ id := id, dc := dc, rack := rack }, toks)
  | _ => none

def parseRfs (s : String) : Option (List (Nat × Nat)) :=
  if s == "-" then some [] else
  (s.splitOn ",").mapM (fun kv => match kv.splitOn "=" with
    | [k, v] => do pure ((← k.toNat?), (← v.toNat?))
    | _ => none)

/-- host under the ordered partitioner: `id/dc/rack/hex,hex…` — the token TEXTS Cassandra reports; decoded to bytes -/
def parseOHost (s : String) : Option (Host × List (List Nat)) :=
  match s.splitOn "/" with
  | [i, d, r, ts] => do
    let id ← i.toNat?
    let dc ← d.toNat?
    let rack ← r.toNat?
    let toks ← if ts == "-" then some [] else
      (ts.splitOn ",").mapM (fun t => (Util.parseHex t).map (fun bs => bs.map (·.toNat)))
    pure ({ id := id, dc := dc, rack := rack }, toks)
  | _ => none

def parseKey (s : String) : Option (List Nat) := (Util.parseHex s).map (fun bs => bs.map (·.toNat))

def showText (t : List Nat) : String := if t.isEmpty then "-" else String.ofList (t.map Char.ofNat)

/-- the ring the driver builds: from the token texts (`Spec.hexOf` of the bytes) -/
def driverRingO (hs : List (Host × List (List Nat))) : List OEntry :=
  buildRingO (hs.map (fun ht => (ht.1, ht.2.map Spec.hexOf)))

/-- Cassandra's ring: the tokens themselves (bytes), ascending -/
def cassandraRingO (hs : List (Host × List (List Nat))) : List OEntry := buildRingO hs

def showHosts (l : List Host) : String := "[" ++ ",".intercalate (l.map (fun h => toString h.id)) ++ "]"

def showMap (rr : ReplicaRing) : String :=
  if rr.isEmpty then "empty" else ";".intercalate (rr.map (fun e => toString e.1 ++ ":" ++ showHosts e.2))

def showCrash : Crash → String
  | .overflow => "crash:overflow"
  | .noReplicas => "crash:no-replicas"
  | .notPrimary => "crash:not-primary"
  | .sizeMismatch => "crash:size-mismatch"

def showFor (rr : ReplicaRing) (ts : List Int) : String :=
  " ".intercalate (ts.map (fun t =>
    (match replicasFor rr t with
     | some e => showHosts e.2
     | none => "nil")))

def parseOpt (s : String) : Option (List Char × OptVal) :=
  match s.splitOn "=" with
  | [k, v] =>
    let key := (Util.parseHex k).map (fun bs => bs.map (fun b => Char.ofNat b.toNat))
    match key with
    | none => none
    | some key =>
      if v.startsWith "i:" then (v.drop 2).toString.toInt?.map (fun n => (key, OptVal.int n))
      else if v.startsWith "s:" then
        (Util.parseHex (v.drop 2).toString).map (fun bs => (key, OptVal.str (bs.map (fun b => Char.ofNat b.toNat))))
      else some (key, OptVal.other)
  | _ => none

/-- insertion sort of strings (canonical order of a Go map) -/
def insStr (s : String) : List String → List String
  | [] => [s]
  | x :: xs => if s ≤ x then s :: x :: xs else x :: insStr s xs

def showStrategy : Strategy → String
  | .simple rf => "simple rf=" ++ toString rf
  | .nts dcs =>
    let items := dcs.map (fun kv => String.ofList kv.1 ++ "=" ++ toString kv.2)
    "nts " ++ ",".intercalate (items.foldr insStr [])
  | .none_ => "nil"

/-! ### the policy scenario (history of policy events) -/

def parsePHost (s : String) : Option PHost :=
  match s.splitOn "/" with
  | [i, a, d, r, ts] => do
    let id ← i.toNat?
    let addr ← a.toNat?
    let dc ← d.toNat?
    let rack ← r.toNat?
    let toks ← if ts == "-" then some [] else (ts.splitOn ",").mapM String.toInt?
    pure { h := { id := id, dc := dc, rack := rack }, addr := addr, toks := toks }
  | _ => none

def parsePart : String → Option Part
  | "m" => some .murmur
  | "r" => some .random
  | "o" => some .ordered
  | "k" => some .unknown
  | "e" => some .unset
  | _ => none

def showPart : Part → String
  | .murmur => "m"
  | .random => "r"
  | .ordered => "o"
  | .unknown => "k"
  | .unset => "e"

/-- schema of a keyspace: `e` unreadable, `u` readable without usable strategy, `s:<rf>`, `n:<dc=rf,…|->` -/
def parseSchema (s : String) : Option (Option Strat) :=
  if s == "e" then some none
  else if s == "u" then some (some .unusable)
  else if s.startsWith "s:" then (s.drop 2).toString.toNat?.map (fun rf => some (.simple rf))
  else if s.startsWith "n:" then (parseRfs (s.drop 2).toString).map (fun rfs => some (.nts rfs))
  else none

def showRingOpt : Option (Part × List Entry) → String
  | none => "nil"
  | some (_, []) => "empty"
  | some (_, l) => ",".intercalate (l.map (fun e => toString e.1 ++ ":" ++ toString e.2.id))

def showEntryOpt : Option (Part × ReplicaRing) → String
  | none => "absent"
  | some (_, rr) => showMap rr

/-- canonical dump of what the policy holds: partitioner, own host list, token ring, entries of ks0..ks3 -/
def dumpPol (s : PolState) : String :=
  if s.crashed then "crashed" else
  "part=" ++ showPart s.part ++
  " hosts=" ++ (if s.hosts.isEmpty then "-" else ",".intercalate (s.hosts.map (fun p => toString p.h.id))) ++
  " ring=" ++ showRingOpt s.ring ++
  " k0=" ++ showEntryOpt (s.entry 0) ++ " k1=" ++ showEntryOpt (s.entry 1) ++
  " k2=" ++ showEntryOpt (s.entry 2) ++ " k3=" ++ showEntryOpt (s.entry 3)

def uniAt (c : Cl) (w : String) : Option PHost := w.toNat?.bind (fun i => c.uni[i]?)

def parseEvent (c : Cl) : List String → Option PolEvent
  | ["add", i] => (uniAt c i).map .addHost
  | ["addmany", l] =>
    (if l == "-" then some [] else (l.splitOn ",").mapM (uniAt c)).map .addHosts
  | ["rem", i] => (uniAt c i).map (fun p => .removeHost p.addr)
  | ["up", i] => (uniAt c i).map (fun p => .hostUp p.addr)
  | ["down", i] => (uniAt c i).map (fun p => .hostDown p.addr)
  | ["part", p] => (parsePart p).map .setPartitioner
  | ["kc", k] => k.toNat?.map .keyspaceChanged
  | _ => none

def insNat (k : Nat) : List Nat → List Nat
  | [] => [k]
  | x :: xs => if k ≤ x then k :: x :: xs else x :: insNat k xs

def showLookup : Lookup → String
  | .noring => "noring"
  | .typePanic => "panic:token-type"
  | .hosts l => showHosts l

/-- ops (stateful; a sequence starts with `reset`):
  reset <part> id/dc/rack/t,t,… …   → the ring `tok:id …` built by newTokenRing (part = partitioner, only used by the harness)
  host t…                            → GetHostForToken per token: `id@tok`
  simple rf                          → simpleStrategy.replicaMap, whole map
  nts dc=rf,…                        → networkTopology.replicaMap, whole map or crash:<class>
  simplefor rf t… / ntsfor rfs t…    → per token `replicasFor` (nil or the list)
  ssimple rf t…                      → per token the replicas;  model answers with Spec.simple (proved equal)
  snts rfs t…                        → per token the replicas (or crash:<class>); model answers with Spec.nts — for every
                                       ring: vnodes, token-less hosts, datacenters unknown to the ring / to the keyspace
  strategy <class-hex> k=v…          → getStrategy
  resetord id/dc/rack/hex,… …          → ring under the ordered partitioner built from the token TEXTS Cassandra reports (hex)
  okey hexkey…                        → owner of the partition key (GetHostForToken(Hash(key))); model answers with Spec.ownerO on
                                       Cassandra's ring (spec-backed; emitted only where C10_ordered_lookup_partial's hypothesis holds)
  oagree hexkey…                      → per key 1/0: does C10_ordered_lookup_partial's hypothesis hold (harness: its own classification predicate)
  xokey hexkey…                       → the same, model = getHostForTokenO on the driver's ring (model-vs-code, KF-C10-5)
  sstrategy <class-hex> k=v…         → getStrategy for a strategy class Cassandra ships; model answers with Spec.strategy (C10_strategy)
  resetpol <sessKs> id/addr/dc/rack/t,… …  → new tokenAwareHostPolicy, universe of host objects (index = position), every schema unreadable
  pev add i | addmany i,j | rem i | up i | down i | part m|r|o|k|e | kc ks   → the policy event, answer = dump of the metadata
  pconc <ev A> / <ev B>              → conducted schedule of two mutators on two goroutines (A parked in its schema read while B runs);
                                       spec-backed: the dump after a SERIAL order of the two (mutators are atomic)
  pfresh                             → the ghost field `fresh` (keyspaces whose schema is unchanged since the policy last read it)
  psettled                           → the keyspaces of ks0..ks3 that are `settled` = the hypothesis of C10_pick_spec (ties the
                                       harness's spec-backed classification to the theorem's hypothesis)
  psch ks e|u|s:rf|n:dc=rf,…         → the environment: what getKeyspaceMetadata(ks) answers from now on
  prepl ks t…                        → replicas Pick starts from (spec-backed: Spec.lookup on the current environment);
                                       emitted for settled keyspaces — every keyspace with an entry, session keyspace or not
  xprepl ks t…                       → the same read from the stored snapshot, with its source (r = replica map, o = owner)
  ppick ks t…                        → hosts the real Pick offers (ordered partitioner only; every host up and local, the
                                       fallback policy offers nothing): model = the stored snapshot's replica list
  spick ks t…                        → the same on a settled keyspace, spec-backed: answered with Spec.lookup -/
def step (s : Cl) (ws : List String) : Cl × String :=
  match ws with
  | "reset" :: _ :: hs =>
    match hs.mapM parseHost with
    | none => (s, "bad-op")
    | some l =>
      let ring := buildRing l
      ({ ring := ring },
        if ring.isEmpty then "empty" else " ".intercalate (ring.map (fun e => toString e.1 ++ ":" ++ toString e.2.id)))
  | "host" :: ts =>
    match ts.mapM String.toInt? with
    | none => (s, "bad-op")
    | some ts => (s, " ".intercalate (ts.map (fun t => match getHostForToken s.ring t with
        | some e => toString e.2.id ++ "@" ++ toString e.1
        | none => "nil")))
  | ["simple", rf] =>
    match rf.toNat? with
    | none => (s, "bad-op")
    | some rf => (s, showMap (simpleReplicaMap rf s.ring))
  | ["nts", rfs] =>
    match parseRfs rfs with
    | none => (s, "bad-op")
    | some rfs => (s, match ntsReplicaMap rfs s.ring with
        | .ok rr => showMap rr
        | .error e => showCrash e)
  | "simplefor" :: rf :: ts =>
    match rf.toNat?, ts.mapM String.toInt? with
    | some rf, some ts => (s, showFor (simpleReplicaMap rf s.ring) ts)
    | _, _ => (s, "bad-op")
  | "ntsfor" :: rfs :: ts =>
    match parseRfs rfs, ts.mapM String.toInt? with
    | some rfs, some ts => (s, match ntsReplicaMap rfs s.ring with
        | .ok rr => showFor rr ts
        | .error e => showCrash e)
    | _, _ => (s, "bad-op")
  | "ssimple" :: rf :: ts =>
    match rf.toNat?, ts.mapM String.toInt? with
    | some rf, some ts => (s, " ".intercalate (ts.map (fun t => showHosts (Spec.simple s.ring rf t))))
    | _, _ => (s, "bad-op")
  | "snts" :: rfs :: ts =>
    match parseRfs rfs, ts.mapM String.toInt? with
    | some rfs, some ts => (s, " ".intercalate (ts.map (fun t => showHosts (Spec.nts s.ring rfs t))))
    | _, _ => (s, "bad-op")
  -- policy scenario
  | "resetpol" :: sk :: hs =>
    match sk.toNat?, hs.mapM parsePHost with
    | some sk, some l => ({ s with uni := l, pol := polInit sk (fun _ => none) }, "ok")
    | _, _ => (s, "bad-op")
  | "pev" :: ev =>
    match parseEvent s ev with
    | none => (s, "bad-op")
    | some e => let p := polStep s.pol e; ({ s with pol := p }, dumpPol p)
  | "pconc" :: rest =>
    -- conducted schedule of two mutators (A parked inside its getKeyspaceMetadata call, B run meanwhile): the mutators
    -- are atomic, so the result is that of a serial order (C10_mutators_linearizable) — with A parked first: A, then B
    let a := rest.takeWhile (· != "/")
    let b := (rest.dropWhile (· != "/")).drop 1
    match parseEvent s a, parseEvent s b with
    | some ea, some eb => let p := polStep (polStep s.pol ea) eb; ({ s with pol := p }, dumpPol p)
    | _, _ => (s, "bad-op")
  | ["psch", k, v] =>
    match k.toNat?, parseSchema v with
    | some k, some v => ({ s with pol := polStep s.pol (.setSchema k v) }, "ok")
    | _, _ => (s, "bad-op")
  | ["pfresh"] =>
    let l := s.pol.fresh.foldr (fun k acc => insNat k acc) []
    (s, if l.isEmpty then "-" else ",".intercalate (l.map toString))
  | ["psettled"] =>
    let l := [0, 1, 2, 3].filter (fun k => settled s.pol k)
    (s, if l.isEmpty then "-" else ",".intercalate (l.map toString))
  | "prepl" :: k :: ts =>
    -- spec-backed: answered from the CURRENT environment only (Spec.lookup), see C10_pick_spec
    match k.toNat?, ts.mapM String.toInt? with
    | some k, some ts => (s, " ".intercalate (ts.map (fun t => showLookup (PlacementPol.Spec.lookup s.pol k t))))
    | _, _ => (s, "bad-op")
  | "xprepl" :: k :: ts =>
    -- model-vs-code: what the stored snapshot gives, with the source of the answer
    match k.toNat?, ts.mapM String.toInt? with
    | some k, some ts => (s, " ".intercalate (ts.map (fun t =>
        match polLookup s.pol k t with
        | .hosts l => (if polLookupSrc s.pol k t then "r" else "o") ++ showHosts l
        | r => showLookup r)))
    | _, _ => (s, "bad-op")
  | "ppick" :: k :: ts =>
    -- the real Pick (ordered partitioner: token = routing key; every host up and local; fallback offers nothing)
    match k.toNat?, ts.mapM String.toInt? with
    | some k, some ts =>
      (s, if s.pol.part = .ordered then
            " ".intercalate (ts.map (fun t => match polLookup s.pol k t with
              | .noring => "[]"
              | r => showLookup r))
          else "n/a")
    | _, _ => (s, "bad-op")
  | "spick" :: k :: ts =>
    -- the real Pick on a settled keyspace (spec-backed): the hosts offered = Spec.lookup on the current environment
    match k.toNat?, ts.mapM String.toInt? with
    | some k, some ts =>
      (s, if s.pol.part = .ordered then
            " ".intercalate (ts.map (fun t => match PlacementPol.Spec.lookup s.pol k t with
              | .noring => "[]"
              | r => showLookup r))
          else "n/a")
    | _, _ => (s, "bad-op")
  | "strategy" :: cls :: opts =>
    match Util.parseHex cls, opts.mapM parseOpt with
    | some c, some os => (s, showStrategy (getStrategy (c.map (fun b => Char.ofNat b.toNat)) os))
    | _, _ => (s, "bad-op")
  | "resetord" :: hs =>
    match hs.mapM parseOHost with
    | none => (s, "bad-op")
    | some l =>
      let ring := driverRingO l
      ({ ohosts := l },
        if ring.isEmpty then "empty" else " ".intercalate (ring.map (fun e => showText e.1 ++ ":" ++ toString e.2.id)))
  | "okey" :: ks =>
    -- spec-backed (C10_ordered_lookup_partial): the owner on Cassandra's ring; emitted only where the comparisons agree
    match ks.mapM parseKey with
    | none => (s, "bad-op")
    | some ks => (s, " ".intercalate (ks.map (fun k => match Spec.ownerO (cassandraRingO s.ohosts) k with
        | some e => toString e.2.id ++ "@" ++ showText (Spec.hexOf e.1)
        | none => "nil")))
  | "oagree" :: ks =>
    -- the hypothesis `hag` of C10_ordered_lookup_partial evaluated by the model (ties the harness's classification
    -- okey / xokey to the theorem's hypothesis)
    match ks.mapM parseKey with
    | none => (s, "bad-op")
    | some ks => (s, " ".intercalate (ks.map (fun k =>
        if (cassandraRingO s.ohosts).all (fun e => lexLt (Spec.hexOf e.1) k == lexLt e.1 k) then "1" else "0")))
  | "xokey" :: ks =>
    -- model-vs-code: GetHostForToken(Hash(key)) on the ring of the token texts (KF-C10-5)
    match ks.mapM parseKey with
    | none => (s, "bad-op")
    | some ks => (s, " ".intercalate (ks.map (fun k => match getHostForTokenO (driverRingO s.ohosts) (orderedHash k) with
        | some e => toString e.2.id ++ "@" ++ showText e.1
        | none => "nil")))
  | "sstrategy" :: cls :: opts =>
    -- spec-backed (C10_strategy): only emitted for the strategy classes Cassandra ships; answered with Spec.strategy
    match Util.parseHex cls, opts.mapM parseOpt with
    | some c, some os => (s, match Placement.Spec.strategy (c.map (fun b => Char.ofNat b.toNat)) os with
        | some st => showStrategy st
        | none => "unspecified-class")
    | _, _ => (s, "bad-op")
  | _ => (s, "bad-op")

end Driver.C10
