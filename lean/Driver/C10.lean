import Model.Placement
import Driver.Util
namespace Driver.C10
open Placement

/-- state = the cluster of the last `reset`: the ring (tokenRing.hosts is not consulted by the placement code any more) -/
structure Cl where
  ring : List Entry := []

def init : Cl := {}

def parseHost (s : String) : Option (Host × List Int) :=
  match s.splitOn "/" with
  | [i, d, r, ts] => do
    let id ← i.toNat?
    let dc ← d.toNat?
    let rack ← r.toNat?
    let toks ← if ts == "-" then some [] else (ts.splitOn ",").mapM String.toInt?
    pure ({ id := id, dc := dc, rack := rack }, toks)
  | _ => none

def parseRfs (s : String) : Option (List (Nat × Nat)) :=
  if s == "-" then some [] else
  (s.splitOn ",").mapM (fun kv => match kv.splitOn "=" with
    | [k, v] => do pure ((← k.toNat?), (← v.toNat?))
    | _ => none)

def showHosts (l : List Host) : String := "[" ++ ",".intercalate (l.map (fun h => toString h.id)) ++ "]"

def showMap (rr : ReplicaRing) : String :=
  if rr.isEmpty then "empty" else ";".intercalate (rr.map (fun e => toString e.1 ++ ":" ++ showHosts e.2))

def showCrash : Crash → String
  | .overflow => "crash:overflow"
  | .noReplicas => "crash:no-replicas"
  | .notPrimary => "crash:not-primary"
  | .sizeMismatch => "crash:size-mismatch"

def showFor (rr : ReplicaRing) (ts : List Int) : String :=
  " ".intercalate (ts.map (fun t =>
    (match replicasFor rr t with
     | some e => showHosts e.2
     | none => "nil")))

def parseOpt (s : String) : Option (List Char × OptVal) :=
  match s.splitOn "=" with
  | [k, v] =>
    let key := (Util.parseHex k).map (fun bs => bs.map (fun b => Char.ofNat b.toNat))
    match key with
    | none => none
    | some key =>
      if v.startsWith "i:" then (v.drop 2).toString.toInt?.map (fun n => (key, OptVal.int n))
      else if v.startsWith "s:" then
        (Util.parseHex (v.drop 2).toString).map (fun bs => (key, OptVal.str (bs.map (fun b => Char.ofNat b.toNat))))
      else some (key, OptVal.other)
  | _ => none

/-- insertion sort of strings (canonical order of a Go map) -/
def insStr (s : String) : List String → List String
  | [] => [s]
  | x :: xs => if s ≤ x then s :: x :: xs else x :: insStr s xs

def showStrategy : Strategy → String
  | .simple rf => "simple rf=" ++ toString rf
  | .nts dcs =>
    let items := dcs.map (fun kv => String.ofList kv.1 ++ "=" ++ toString kv.2)
    "nts " ++ ",".intercalate (items.foldr insStr [])
  | .none_ => "nil"

/-- ops (stateful; a sequence starts with `reset`):
  reset <part> id/dc/rack/t,t,… …   → the ring `tok:id …` built by newTokenRing (part = partitioner, only used by the harness)
  host t…                            → GetHostForToken per token: `id@tok`
  simple rf                          → simpleStrategy.replicaMap, whole map
  nts dc=rf,…                        → networkTopology.replicaMap, whole map or crash:<class>
  simplefor rf t… / ntsfor rfs t…    → per token `replicasFor` (nil or the list)
  ssimple rf t…                      → per token the replicas;  model answers with Spec.simple (proved equal)
  snts rfs t…                        → per token the replicas (or crash:<class>); model answers with Spec.nts — for every
                                       ring: vnodes, token-less hosts, datacenters unknown to the ring / to the keyspace
  strategy <class-hex> k=v…          → getStrategy -/
def step (s : Cl) (ws : List String) : Cl × String :=
  match ws with
  | "reset" :: _ :: hs =>
    match hs.mapM parseHost with
    | none => (s, "bad-op")
    | some l =>
      let ring := buildRing l
      ({ ring := ring },
        if ring.isEmpty then "empty" else " ".intercalate (ring.map (fun e => toString e.1 ++ ":" ++ toString e.2.id)))
  | "host" :: ts =>
    match ts.mapM String.toInt? with
    | none => (s, "bad-op")
    | some ts => (s, " ".intercalate (ts.map (fun t => match getHostForToken s.ring t with
        | some e => toString e.2.id ++ "@" ++ toString e.1
        | none => "nil")))
  | ["simple", rf] =>
    match rf.toNat? with
    | none => (s, "bad-op")
    | some rf => (s, showMap (simpleReplicaMap rf s.ring))
  | ["nts", rfs] =>
    match parseRfs rfs with
    | none => (s, "bad-op")
    | some rfs => (s, match ntsReplicaMap rfs s.ring with
        | .ok rr => showMap rr
        | .error e => showCrash e)
  | "simplefor" :: rf :: ts =>
    match rf.toNat?, ts.mapM String.toInt? with
    | some rf, some ts => (s, showFor (simpleReplicaMap rf s.ring) ts)
    | _, _ => (s, "bad-op")
  | "ntsfor" :: rfs :: ts =>
    match parseRfs rfs, ts.mapM String.toInt? with
    | some rfs, some ts => (s, match ntsReplicaMap rfs s.ring with
        | .ok rr => showFor rr ts
        | .error e => showCrash e)
    | _, _ => (s, "bad-op")
  | "ssimple" :: rf :: ts =>
    match rf.toNat?, ts.mapM String.toInt? with
    | some rf, some ts => (s, " ".intercalate (ts.map (fun t => showHosts (Spec.simple s.ring rf t))))
    | _, _ => (s, "bad-op")
  | "snts" :: rfs :: ts =>
    match parseRfs rfs, ts.mapM String.toInt? with
    | some rfs, some ts => (s, " ".intercalate (ts.map (fun t => showHosts (Spec.nts s.ring rfs t))))
    | _, _ => (s, "bad-op")
  | "strategy" :: cls :: opts =>
    match Util.parseHex cls, opts.mapM parseOpt with
    | some c, some os => (s, showStrategy (getStrategy (c.map (fun b => Char.ofNat b.toNat)) os))
    | _, _ => (s, "bad-op")
  | _ => (s, "bad-op")

end Driver.C10
