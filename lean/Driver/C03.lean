import Model.FrameSpec
import Model.FrameWrite
import Model.Handshake
import Driver.Util
namespace Driver.C03
open Util FrameSpec FrameWrite

/-!
ops (one line, words separated by blanks; bytes as hex, "-" = empty):

  enc <v> <tracing 0|1> <stream> REQ          → hex of the frame the MODEL of the builders produces,
                                                 or rejected:<payload|keyspace|namedbatch|toobig>
  encd <v> <tracing> <stream> REQ         → same, answered by a digest `len=<n> head=<first 40 bytes> fnv=<FNV-1a 32>`
                                                 (for very large frames; REQ may use the compact forms
                                                 `x<n>*<hh>` = n copies of byte hh, and `*<n> ITEM` = n copies
                                                 of one ITEM in place of `<n> ITEM...` for values / events /
                                                 batch entries)
  dec <framehex> <v> <tracing> <stream> REQ   → the SPEC DECODER is run on <framehex> (the bytes the real
                                                 builder produced for REQ): `ok` if it yields exactly
                                                 (v, tracing, stream, ask REQ, no rest) — maps compared as
                                                 maps —, `inexpressible` if REQ cannot be expressed in v,
                                                 `mismatch:<what>` otherwise

  REQ     := startup <n> (<k> <v>)*  |  options  |  auth OPTB  |  register <n> <hex>*
           | query <stmt> PARAMS PAYLOAD  |  prepare <stmt> <keyspace> PAYLOAD
           | execute <id> PARAMS PAYLOAD
           | batch <typ> <cons> <serial> <dts 0|1> <ts> <n> (<id> <stmt> VALUES)* PAYLOAD
  PARAMS  := <cons> <skipmeta 0|1> <pagesize> <pagingstate> <serial> <dts 0|1> <ts> <keyspace> VALUES
  VALUES  := <n> (<name> VALTOK)*          name "-" = positional
  VALTOK  := n (nil → null) | u (unset) | v<hex>
  PAYLOAD := <n> (<key> OPTB)*             in the iteration order of the Go map
  OPTB    := n | v<hex>

  encz HDR REQ                                → the same built with the toy compressor configured (FrameWrite.encodeReqC (some toyEnc))
  decz <framehex> HDR REQ                     → spec-backed: the compression-aware specification decoder (FrameSpec.decodeReqC toyDec)
                                                 on the real bytes against what was asked for, answers as for `dec`
  bout <refused|framehex> HDR REQ              → spec-backed, builder tier: what the real builder did with REQ (error or panic before any
                                                 byte = refused; the frame it produced) judged by FrameWrite.judge, answers as for `sout`
  sout <refused|framehex> <n> <stmthex>* HDR REQ → spec-backed, session tier: what happened to REQ (a BATCH stated through the
                                                 Session API) on a real connection — refused with nothing on the wire, or the
                                                 frame the peer received — judged by the specification (FrameWrite.judge):
                                                 `ok` | `refused-ok` | `gap` | `mismatch:<what>`
  hs CFG AUTH PLAN ANSWERS FRAMES             → handshake tier, SPECIFICATION: the requests due for (CFG, AUTH, PLAN) when the
                                                 peer answers ANSWERS (Handshake.specReqs) are compared, one by one, with what
                                                 the spec decoder reads out of FRAMES (the frames the peer received from the real
                                                 connection): `ok n=<requests> status=<done|hsfail|actfail> success=<calls of Success>`,
                                                 `inexpressible:<i>` if request i cannot be expressed in the version,
                                                 `mismatch:<i>:<what>` otherwise
  hsm CFG AUTH PLAN ANSWERS ORDER STREAMS     → handshake tier, MODEL of conn.go (Handshake.step): the frames it writes, hex joined
                                                 by ",", then ` status=… success=…`

  CFG     := <v> <cqlversion> <drivername> <driverversion> <compressor n|v<hex>> <hasAuth 0|1> <cons> <skipmeta 0|1>
  AUTH    := <successOk 0|1> <n> (<kind> <hex> <next 0|1>)*   round k of the authenticator: kind f = the token <hex>,
             n = nil token, e = <hex> ++ latest challenge, c = <hex> ++ all challenges so far, m = the latest challenge
             itself (nil stays nil), x = error; next = a challenger is returned; rounds beyond the list: error
  PLAN    := <n> (use <ks> | reg <topo> <status> <schema> | exec <stmt> <cons> <n> OPTB*)*
  ANSWERS := <n> (sup <n> (<key> <n> <val>*)* | ready | authn <class> | chal OPTB | succ OPTB | err | setks | void | prep <id> <ncols> | unprep <id>)*
  FRAMES  := <n> <hex>*        ORDER := <n> <key>*  (iteration order of the STARTUP map)      STREAMS := <n> <int>*
-/

abbrev P (α : Type) := List String → Option (α × List String)

def pWord : P String
  | w :: r => some (w, r)
  | [] => none

def pNat : P Nat
  | w :: r => match w.toNat? with | some n => some (n, r) | none => none
  | [] => none

def pInt : P Int
  | w :: r => match w.toInt? with | some n => some (n, r) | none => none
  | [] => none

def pBool : P Bool
  | "0" :: r => some (false, r)
  | "1" :: r => some (true, r)
  | _ => none

/-- hex, or `x<n>*<hh>` = n copies of the byte hh -/
def parseHexX (w : String) : Option Bytes :=
  match w.toList with
  | 'x' :: cs =>
    match (String.ofList cs).splitOn "*" with
    | [n, hh] =>
      match n.toNat?, parseHex hh with
      | some k, some [b] => some (List.replicate k b)
      | _, _ => none
    | _ => none
  | _ => parseHex w

def pHex : P Bytes
  | w :: r => match parseHexX w with | some b => some (b, r) | none => none
  | [] => none

def pOptB : P (Option Bytes)
  | w :: r =>
    if w == "n" then some (none, r)
    else match w.toList with
      | 'v' :: cs => match parseHexX (String.ofList cs) with | some b => some (some b, r) | none => none
      | _ => none
  | [] => none

def pRep {α : Type} (p : P α) : Nat → P (List α)
  | 0, ws => some ([], ws)
  | n + 1, ws =>
    match p ws with
    | some (x, r) => match pRep p n r with
      | some (xs, r') => some (x :: xs, r')
      | none => none
    | none => none

/-- `<n> item*n`, or `*<n> item` = n copies of the item -/
def pCounted {α : Type} (p : P α) : P (List α) := fun ws =>
  match ws with
  | w :: r =>
    match w.toList with
    | '*' :: cs =>
      match (String.ofList cs).toNat? with
      | some n => match p r with
        | some (x, r') => some (List.replicate n x, r')
        | none => none
      | none => none
    | _ => match pNat ws with
      | some (n, r) => pRep p n r
      | none => none
  | [] => none

def pVal : P GVal := fun ws =>
  match pHex ws with
  | some (nm, w :: r) =>
    if w == "u" then some (⟨nm, true, none⟩, r)
    else match pOptB (w :: r) with
      | some (ob, r') => some (⟨nm, false, ob⟩, r')
      | none => none
  | _ => none

def pValues : P (List GVal) := pCounted pVal

def pKV : P (Bytes × Bytes) := fun ws =>
  match pHex ws with
  | some (k, r) => match pHex r with
    | some (v, r') => some ((k, v), r')
    | none => none
  | none => none

def pKOB : P (Bytes × Option Bytes) := fun ws =>
  match pHex ws with
  | some (k, r) => match pOptB r with
    | some (v, r') => some ((k, v), r')
    | none => none
  | none => none

def pPayload : P GPayload := pCounted pKOB

def pParams : P GParams := fun ws => do
  let (cons, r) ← pNat ws
  let (skip, r) ← pBool r
  let (ps, r) ← pInt r
  let (pst, r) ← pHex r
  let (ser, r) ← pNat r
  let (dts, r) ← pBool r
  let (tsv, r) ← pInt r
  let (ks, r) ← pHex r
  let (vals, r) ← pValues r
  pure (⟨cons, skip, vals, ps, pst, ser, dts, tsv, ks⟩, r)

def pStmt : P GStmt := fun ws => do
  let (id, r) ← pHex ws
  let (st, r) ← pHex r
  let (vals, r) ← pValues r
  pure (⟨id, st, vals⟩, r)

def pReq : P GReq
  | "startup" :: r => do
    let (m, r) ← pCounted pKV r
    pure (GReq.startup m, r)
  | "options" :: r => some (GReq.options, r)
  | "auth" :: r => do
    let (d, r) ← pOptB r
    pure (GReq.authResponse d, r)
  | "register" :: r => do
    let (l, r) ← pCounted pHex r
    pure (GReq.register l, r)
  | "query" :: r => do
    let (st, r) ← pHex r
    let (p, r) ← pParams r
    let (pl, r) ← pPayload r
    pure (GReq.query st p pl, r)
  | "prepare" :: r => do
    let (st, r) ← pHex r
    let (ks, r) ← pHex r
    let (pl, r) ← pPayload r
    pure (GReq.prepare st ks pl, r)
  | "execute" :: r => do
    let (id, r) ← pHex r
    let (p, r) ← pParams r
    let (pl, r) ← pPayload r
    pure (GReq.execute id p pl, r)
  | "batch" :: r => do
    let (typ, r) ← pNat r
    let (cons, r) ← pNat r
    let (ser, r) ← pNat r
    let (dts, r) ← pBool r
    let (tsv, r) ← pInt r
    let (stmts, r) ← pCounted pStmt r
    let (pl, r) ← pPayload r
    pure (GReq.batch typ stmts cons ser dts tsv pl, r)
  | _ => none

structure Hdr where
  v : Nat
  tracing : Bool
  stream : Int

def pHdrReq : P (Hdr × GReq) := fun ws => do
  let (v, r) ← pNat ws
  let (tr, r) ← pBool r
  let (s, r) ← pInt r
  let (g, r) ← pReq r
  pure ((⟨v, tr, s⟩, g), r)

def errName : Err → String
  | .panicPayload => "payload"
  | .panicKeyspace => "keyspace"
  | .namedBatch => "namedbatch"
  | .frameTooBig => "toobig"
  | .tooMany => "toomany"

/-- unsigned lexicographic order on byte strings -/
def bytesLe : Bytes → Bytes → Bool
  | [], _ => true
  | _ :: _, [] => false
  | a :: x, b :: y => if a < b then true else if b < a then false else bytesLe x y

def sortMap {β : Type} (m : List (Bytes × β)) : List (Bytes × β) :=
  m.mergeSort (fun a b => bytesLe a.1 b.1)

/-- maps are compared as maps: canonical (sorted) order -/
def canonReq : Req → Req
  | Req.startup m => Req.startup (sortMap m)
  | Req.query s p pl => Req.query s p (sortMap pl)
  | Req.prepare s k pl => Req.prepare s k (sortMap pl)
  | Req.execute i p pl => Req.execute i p (sortMap pl)
  | Req.batch t s c se ts ks pl => Req.batch t s c se ts ks (sortMap pl)
  | r => r

/-- the timestamp is always explicit in generated requests, so `now` is never used -/
def now0 : Int := 0

/-- FNV-1a (32 bit) -/
def fnv (bs : Bytes) : Nat :=
  bs.foldl (fun h b => ((h ^^^ b.toNat) * 16777619) % 4294967296) 2166136261

def digest (bs : Bytes) : String :=
  s!"len={bs.length} head={toHex (bs.take 40)} fnv={fnv bs}"


/-! ## handshake tier -/
section Hs
open Handshake

structure Directive where
  kind : String
  data : Bytes
  next : Bool

def lastCh (hist : List (Option Bytes)) : Option Bytes := hist.getLast?.join

/-- the scripted authenticator of the harness (harness/cmd/c03/handshake.go: scriptAuth) -/
def scriptAuth (succOk : Bool) (ds : List Directive) : Authn where
  challenge := fun hist =>
    match hist with
    | [] => .fail
    | _ :: _ =>
      match ds[hist.length - 1]? with
      | none => .fail
      | some d =>
        if d.kind == "f" then .reply (some d.data) d.next
        else if d.kind == "n" then .reply none d.next
        else if d.kind == "e" then .reply (some (d.data ++ (lastCh hist).getD [])) d.next
        else if d.kind == "c" then .reply (some (d.data ++ hist.flatMap (fun o => o.getD []))) d.next
        else if d.kind == "m" then .reply (lastCh hist) d.next
        else .fail
  success := fun _ _ => succOk

def pDirective : P Directive := fun ws => do
  let (k, r) ← pWord ws
  let (d, r) ← pHex r
  let (n, r) ← pBool r
  pure (⟨k, d, n⟩, r)

def pAction : P Action
  | "use" :: r => do
    let (ks, r) ← pHex r
    pure (Action.useKs ks, r)
  | "reg" :: r => do
    let (t, r) ← pBool r
    let (s, r) ← pBool r
    let (c, r) ← pBool r
    pure (Action.register t s c, r)
  | "exec" :: r => do
    let (st, r) ← pHex r
    let (cons, r) ← pNat r
    let (vals, r) ← pCounted pOptB r
    pure (Action.exec st cons vals, r)
  | _ => none

def pSupEntry : P (Bytes × List Bytes) := fun ws => do
  let (k, r) ← pHex ws
  let (vs, r) ← pCounted pHex r
  pure ((k, vs), r)

def pAnswer : P PeerAnswer
  | "sup" :: r => do
    let (m, r) ← pCounted pSupEntry r
    pure (PeerAnswer.supported m, r)
  | "ready" :: r => some (PeerAnswer.ready, r)
  | "authn" :: r => do
    let (c, r) ← pHex r
    pure (PeerAnswer.authenticate c, r)
  | "chal" :: r => do
    let (t, r) ← pOptB r
    pure (PeerAnswer.authChallenge t, r)
  | "succ" :: r => do
    let (t, r) ← pOptB r
    pure (PeerAnswer.authSuccess t, r)
  | "err" :: r => some (PeerAnswer.error, r)
  | "setks" :: r => some (PeerAnswer.setKeyspace, r)
  | "void" :: r => some (PeerAnswer.void, r)
  | "prep" :: r => do
    let (id, r) ← pHex r
    let (n, r) ← pNat r
    pure (PeerAnswer.prepared id n, r)
  | "unprep" :: r => do
    let (id, r) ← pHex r
    pure (PeerAnswer.unprepared id, r)
  | _ => none

structure HsLine where
  cfg : Config
  au : Authn
  answers : List PeerAnswer

def pHsLine : P HsLine := fun ws => do
  let (v, r) ← pNat ws
  let (cql, r) ← pHex r
  let (dn, r) ← pHex r
  let (dv, r) ← pHex r
  let (comp, r) ← pOptB r
  let (hasAuth, r) ← pBool r
  let (cons, r) ← pNat r
  let (skip, r) ← pBool r
  let (succOk, r) ← pBool r
  let (ds, r) ← pCounted pDirective r
  let (plan, r) ← pCounted pAction r
  let (answers, r) ← pCounted pAnswer r
  pure (⟨⟨v, cql, dn, dv, comp, hasAuth, cons, skip, plan, id⟩, scriptAuth succOk ds, answers⟩, r)

def orderBy (keys : List Bytes) (m : List (Bytes × Bytes)) : List (Bytes × Bytes) :=
  keys.filterMap (fun k => m.find? (fun kv => kv.1 == k)) ++ m.filter (fun kv => !keys.contains kv.1)

def optbStr : Option Bytes → String
  | none => "n"
  | some b => "v" ++ toHex b

def successStr (l : List (Option Bytes)) : String :=
  if l.isEmpty then "-" else ",".intercalate (l.map optbStr)

def specStatus : SpecAt → String
  | .options => "hsfail" | .startup _ => "hsfail" | .auth .. => "hsfail"
  | .use .. => "actfail" | .reg .. => "actfail" | .prep .. => "actfail" | .exe .. => "actfail"
  | .stop .hsFailed => "hsfail" | .stop .actFailed => "actfail" | .stop .finished => "done"

def modelStatus : Phase → String
  | .awaitSupported => "hsfail" | .awaitStartup => "hsfail" | .awaitAuth .. => "hsfail"
  | .conn .. => "actfail"
  | .stopped .hsFailed => "hsfail" | .stopped .actFailed => "actfail" | .stopped .finished => "done"

/-- frame i against request i of the specification -/
def checkFrames (v : Nat) : Nat → List (Req × Bool) → List Bytes → Option String
  | _, [], _ => none
  | i, _ :: _, [] => some s!"mismatch:{i}:missing"
  | i, (want, z) :: ws, f :: fs =>
    if !Expressible v want then some s!"inexpressible:{i}" else
    match decodeZ z f with
    | none => some s!"mismatch:{i}:undecodable"
    | some d =>
      if d.version ≠ v then some s!"mismatch:{i}:version"
      else if d.tracing then some s!"mismatch:{i}:tracing"
      else if d.rest ≠ [] then some s!"mismatch:{i}:rest"
      else if canonReq d.req ≠ canonReq want then some s!"mismatch:{i}:request"
      else checkFrames v (i + 1) ws fs

def hsSpec (l : HsLine) (frames : List Bytes) : String :=
  let want := specReqs l.cfg l.au l.answers
  if frames.length ≠ want.length then s!"mismatch:count:{frames.length}/{want.length}" else
  match checkFrames l.cfg.v 0 want frames with
  | some e => e
  | none =>
    s!"ok n={want.length} status={specStatus (specFinal l.cfg l.au .options l.answers)} success={successStr (specSuccess l.cfg l.au .options l.answers)}"

def hsModel (l : HsLine) (order : List Bytes) (streams : List Int) : String :=
  let cfg := { l.cfg with mapOrder := orderBy order }
  let fin := final cfg l.au (Handshake.init cfg) l.answers
  match encodeAll cfg.v now0 streams (modelReqs cfg l.au l.answers) with
  | none => s!"noframes n={(modelReqs cfg l.au l.answers).length}"
  | some fs =>
    ",".intercalate (fs.map toHex) ++ s!" status={modelStatus fin.phase} success={successStr fin.successArgs}"

end Hs

def verdictName : Verdict → String
  | .ok => "ok"
  | .refusedOk => "refused-ok"
  | .gap => "gap"
  | .refusedExpressible => "mismatch:refused-expressible"
  | .undecodable => "mismatch:undecodable"
  | .differs => "mismatch:request"
  | .sentInexpressible => "mismatch:sent-inexpressible"

def step (_ : Unit) (ws : List String) : Unit × String :=
  ((), match ws with
  | "enc" :: r =>
    match pHdrReq r with
    | some ((h, g), []) =>
      match encodeReq h.v h.tracing h.stream now0 g with
      | .ok bs => toHex bs
      | .error e => "rejected:" ++ errName e
    | _ => "bad-op"
  | "encd" :: r =>
    match pHdrReq r with
    | some ((h, g), []) =>
      match encodeReq h.v h.tracing h.stream now0 g with
      | .ok bs => digest bs
      | .error e => "rejected:" ++ errName e
    | _ => "bad-op"
  | "dec" :: fh :: r =>
    match parseHex fh, pHdrReq r with
    | some bs, some ((h, g), []) =>
      let want := ask now0 g
      if !Expressible h.v want then "inexpressible" else
      match decodeReq bs with
      | none => "mismatch:undecodable"
      | some d =>
        if d.version ≠ h.v then "mismatch:version"
        else if d.tracing ≠ h.tracing then "mismatch:tracing"
        else if d.stream ≠ h.stream then "mismatch:stream"
        else if d.rest ≠ [] then "mismatch:rest"
        else if canonReq d.req ≠ canonReq want then "mismatch:request"
        else "ok"
    | _, _ => "bad-op"
  | "encz" :: r =>
    match pHdrReq r with
    | some ((h, g), []) =>
      match encodeReqC (some toyEnc) h.v h.tracing h.stream now0 g with
      | .ok bs => toHex bs
      | .error e => "rejected:" ++ errName e
    | _ => "bad-op"
  | "decz" :: fh :: r =>
    match parseHex fh, pHdrReq r with
    | some bs, some ((h, g), []) =>
      let want := ask now0 g
      if !Expressible h.v want then "inexpressible" else
      match decodeReqC toyDec bs with
      | none => "mismatch:undecodable"
      | some d =>
        if d.version ≠ h.v then "mismatch:version"
        else if d.tracing ≠ h.tracing then "mismatch:tracing"
        else if d.stream ≠ h.stream then "mismatch:stream"
        else if d.rest ≠ [] then "mismatch:rest"
        else if canonReq d.req ≠ canonReq want then "mismatch:request"
        else "ok"
    | _, _ => "bad-op"
  | "bout" :: o :: r =>
    match pHdrReq r with
    | some ((h, g), []) =>
      let outcome : Option Outcome :=
        if o == "refused" then some Outcome.refused else (parseHex o).map Outcome.sent
      match outcome with
      | none => "bad-op"
      | some oc => verdictName (judge (fun a b => canonReq a == canonReq b) h.v h.tracing (ask now0 g) oc)
    | _ => "bad-op"
  | "sout" :: o :: r =>
    -- statement texts are for the replay on the real code only
    match pCounted pHex r with
    | some (_, r) =>
      match pHdrReq r with
      | some ((h, g), []) =>
        let outcome : Option Outcome :=
          if o == "refused" then some Outcome.refused else (parseHex o).map Outcome.sent
        match outcome with
        | none => "bad-op"
        | some oc => verdictName (judge (fun a b => canonReq a == canonReq b) h.v h.tracing (ask now0 g) oc)
      | _ => "bad-op"
    | none => "bad-op"
  | "hs" :: r =>
    match pHsLine r with
    | some (l, r) =>
      match pCounted pHex r with
      | some (frames, []) => hsSpec l frames
      | _ => "bad-op"
    | none => "bad-op"
  | "hsm" :: r =>
    match pHsLine r with
    | some (l, r) =>
      match pCounted pHex r with
      | some (order, r) =>
        match pCounted pInt r with
        | some (streams, []) => hsModel l order streams
        | _ => "bad-op"
      | none => "bad-op"
    | none => "bad-op"
  | "sess" :: _ => "ok"      -- session tier bookkeeping line: the harness reports setup / frame-count problems here
  | _ => "bad-op")

def init : Unit := ()
end Driver.C03
