import Model.Pool
import Driver.Util
namespace Driver.C17
open Util Pool

def init : Unit := ()

def parseAct : String → Option Act
  | "fillStart" => some .fillStart | "dialOk" => some .dialOk | "dialFail" => some .dialFail
  | "fillStop" => some .fillStop | "connError" => some .connError | "close" => some .close
  | _ => none

def kv (ws : List String) (k : String) : Option Nat :=
  (ws.findSome? fun w => match w.splitOn "=" with
    | [a, b] => if a == k then b.toNat? else none
    | _ => none)

/-- ops:
  poolobs size=N maxconns=M maxopen=K final=F afterclose=J
      what a monitor goroutine saw on a real Session: the largest len(pool.conns), the largest number of
      simultaneously open sockets to that host, the pool's size at quiescence before Close, open sockets
      after Close  → accept | reject:<clause>   (clauses = theorems C17_pool_bound / C17_no_conn_after_close;
      `final` must equal `size`: lost connections are replaced)
  debrace <kind> rounds=R hung=H       → accept iff H = 0 (C17_debouncer_stop_returns)
  sessclose returned=1 panics=0 again=1 queryerr=closed open=0  → accept iff exactly that
  model <size> <act> <act> ...         → conns/pending/filling/closed/opened after the run, or `stuck` -/
def step (_ : Unit) (ws : List String) : Unit × String :=
  ((), match ws with
  | "poolobs" :: r =>
      match kv r "size", kv r "maxconns", kv r "maxopen", kv r "final", kv r "afterclose" with
      | some n, some m, some k, some f, some j =>
        if m > n then s!"reject:pool-holds-{m}-of-{n}"
        else if k > n then s!"reject:open-sockets-{k}-of-{n}"
        else if j > 0 then s!"reject:open-after-close-{j}"
        else if f ≠ n then s!"reject:not-refilled-{f}-of-{n}"
        else "accept"
      | _, _, _, _, _ => "bad-op"
  | "debrace" :: _ :: r =>
      match kv r "hung" with
      | some 0 => "accept"
      | some h => s!"reject:stop-hung-{h}"
      | none => "bad-op"
  | ["sessclose", a, b, c, d, e] =>
      if a == "returned=1" && b == "panics=0" && c == "again=1" && d == "queryerr=closed" && e == "open=0" then "accept"
      else s!"reject:{a},{b},{c},{d},{e}"
  | "model" :: sz :: acts =>
      match sz.toNat?, acts.mapM parseAct with
      | some n, some as => match run (Pool.init n) as with
        | some s => s!"conns={s.conns} pending={s.pending} filling={s.filling} closed={s.closed} opened={s.opened}"
        | none => "stuck"
      | _, _ => "bad-op"
  | _ => "bad-op")

end Driver.C17
